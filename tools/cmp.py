#!/usr/bin/env python3
# ad-hoc comparison of a harness output directory against the driver (development aid)
import json,re,sys,subprocess
d=sys.argv[1].rstrip('/')+'/'
subprocess.run('/verif/lean/.lake/build/bin/adbdrv < %scases.txt > %smodel.txt'%(d,d),shell=True,check=True)
imp=open(d+'impl.txt').read().split('\n'); mod=open(d+'model.txt').read().split('\n'); desc=open(d+'desc.jsonl').read().split('\n')
n=len([x for x in imp if x])
bad=0; dm=0; ds=0; d0=0
show=int(sys.argv[2]) if len(sys.argv)>2 else 5
for i in range(n):
    m=re.match(r'^M=(\S*) S=(\S*) D=([01])$', mod[i])
    if not m: print('BAD', mod[i][:100]); bad+=1; continue
    M,S,D=m.groups()
    if D=='0':
        d0+=1
        if '--d0' in sys.argv and d0<=show: print('D0', imp[i], M, S, desc[i][:700])
    if imp[i]!=M:
        dm+=1
        if dm<=show: print('IMPL!=M', imp[i], M, S, D, desc[i][:900])
    if M!=S:
        ds+=1
        if ds<=show: print('M!=S', imp[i], M, S, D, desc[i][:900])
print(n,'bad',bad,'impl!=M',dm,'M!=S',ds,'D0',d0)
