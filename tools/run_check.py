#!/usr/bin/env python3
"""
Orchestrator for one property check:  ./check <ID> <quick|thorough> [--replay FILE]

Steps (DESIGN.md section 2.2):
  A. regenerate finite tables from /repo/src into lean/Adb/Generated/Tables.lean
  B. proof: lake build of the property's theorem modules, axiom audit, forbidden-token scan
  C. build the harness against /repo's current working tree (cargo fingerprints the sources)
  D. correspondence: harness generates cases, runs the real crate, the compiled Lean driver answers
     the same cases; three-way comparison impl / model / spec
  E. replay of known findings
  F. verdict, evidence file, exit code
"""
import fcntl
import json
import os
import re
import subprocess
import sys
import time

ROOT = os.path.dirname(os.path.dirname(os.path.abspath(__file__)))
LEAN = os.path.join(ROOT, "lean")
HARNESS = os.path.join(ROOT, "harness")
WORK = os.path.join(ROOT, "work")
EVID = os.path.join(ROOT, "evidence")
REPLAY = os.path.join(EVID, "replay")
ALLOWED_AXIOMS = {"propext", "Classical.choice", "Quot.sound"}
FORBIDDEN = re.compile(r"\bsorry\b|\badmit\b|^\s*axiom\s|native_decide|bv_decide|implemented_by|\bunsafe\s|maxHeartbeats\s+0")

sys.path.insert(0, os.path.join(ROOT, "tools"))
from props import PROPS  # noqa: E402

COMMON_TRUSTED = [
    "Lean 4.33.0 kernel (thorough tier additionally re-checks the modules with leanchecker)",
    "axioms: only those printed per theorem by the audit (allow-list propext, Classical.choice, Quot.sound); no native_decide, bv_decide, sorry, admit or own axioms",
    "the hand-written Lean model's faithfulness to the Rust source: validated on every run by the correspondence check (differential, bounded by the generators), not proved",
    "the harness (generators, canonicalisation, per-rule oracle through the public API) and tools/run_check.py",
    "rustc/cargo and the third-party crates the modelled code calls (regex, idna, addr/psl, rmp-serde, serde_json, base64, seahash)",
]


# table groups of tools/extract_tables.py every network-side model depends on
DEFAULT_TABLES = ["mask", "reqtypemap", "cpt", "reqtypes", "badtokens", "tokenconsts", "options"]


def env_offline():
    e = dict(os.environ)
    e["CARGO_NET_OFFLINE"] = "true"
    return e


def run(cmd, cwd=None, timeout=None, env=None, stdin=None, stdout=subprocess.PIPE):
    return subprocess.run(cmd, cwd=cwd, timeout=timeout, env=env or env_offline(), stdin=stdin,
                          stdout=stdout, stderr=subprocess.STDOUT, text=True)


class Lock:
    """Serialises lake / cargo builds between concurrently running checks."""

    def __init__(self, name):
        os.makedirs(WORK, exist_ok=True)
        self.path = os.path.join(WORK, name + ".lock")

    def __enter__(self):
        self.f = open(self.path, "w")
        fcntl.flock(self.f, fcntl.LOCK_EX)

    def __exit__(self, *a):
        fcntl.flock(self.f, fcntl.LOCK_UN)
        self.f.close()


def scan_forbidden(paths):
    hits = []
    for p in paths:
        if not os.path.exists(p):
            continue
        in_block = 0
        for i, line in enumerate(open(p, encoding="utf-8"), 1):
            # strip block comments (no nesting subtleties needed for our files) and line comments
            code = ""
            j = 0
            while j < len(line):
                if line.startswith("/-", j):
                    in_block += 1
                    j += 2
                elif line.startswith("-/", j) and in_block:
                    in_block -= 1
                    j += 2
                elif in_block:
                    j += 1
                elif line.startswith("--", j):
                    break
                else:
                    code += line[j]
                    j += 1
            if FORBIDDEN.search(code):
                hits.append(f"{p}:{i}: {line.strip()}")
    return hits


def lean_sources():
    out = []
    for base, _, files in os.walk(LEAN):
        if ".lake" in base:
            continue
        for f in files:
            if f.endswith(".lean"):
                out.append(os.path.join(base, f))
    return sorted(out)


def proof_step(pid, cfg, tier, log):
    """Returns dict(obligations, discharged, theorems, problems[])"""
    res = {"obligations": 0, "discharged": 0, "theorems": [], "problems": []}
    mods = cfg["lean_modules"]
    with Lock("lake"):
        t = run(["python3", os.path.join(ROOT, "tools", "extract_tables.py")], cwd=ROOT)
        log.write("== extract_tables\n" + t.stdout + "\n")
        if t.returncode != 0:
            res["problems"].append({"what": "table-extraction", "detail": t.stdout[-2000:]})
        # a table group the translator could not re-extract (the committed fallback was used so that
        # everything still builds) breaks the tie to the source for the properties that depend on it
        try:
            failed = json.load(open(os.path.join(LEAN, "Adb", "Generated", "extraction_status.json"))).get("failed", {})
        except Exception:
            failed = {}
        deps = set(DEFAULT_TABLES) | set(cfg.get("tables", []))
        for name, why in failed.items():
            if name in deps:
                res["problems"].append({"what": "table-extraction", "table": name, "detail": why})
            else:
                log.write(f"(table group {name} not re-extracted: {why}; not used by this property)\n")
        b = run(["lake", "build"] + mods + ["adbdrv", "Audit"], cwd=LEAN, timeout=3000)
        log.write("== lake build\n" + b.stdout + "\n")
        build_ok = b.returncode == 0
        if not build_ok:
            # find which theorem modules failed
            failed = re.findall(r"^- (\S+)$", b.stdout, re.M) or ["<unknown>"]
            errs = [l for l in b.stdout.splitlines() if "error" in l][:20]
            res["problems"].append({"what": "lake-build-failed", "modules": failed, "errors": errs})
    # audit (works per module even if another failed)
    for audit in cfg["audits"]:
        a = run(["lake", "env", "lean", audit], cwd=LEAN, timeout=1800)
        log.write(f"== audit {audit}\n" + a.stdout + "\n")
        if a.returncode != 0:
            res["problems"].append({"what": "audit-failed", "file": audit, "detail": a.stdout[-1500:]})
            continue
        for line in a.stdout.splitlines():
            m = re.match(r"^THEOREM (private )?(\S+) AXIOMS ?(.*)$", line.strip())
            if not m:
                continue
            axioms = [x.strip() for x in m.group(3).split(",") if x.strip()]
            bad = [x for x in axioms if x not in ALLOWED_AXIOMS]
            res["obligations"] += 1
            entry = {"theorem": m.group(2), "axioms": axioms}
            if bad:
                res["problems"].append({"what": "disallowed-axiom", "theorem": m.group(2), "axioms": bad})
            else:
                res["discharged"] += 1
            res["theorems"].append(entry)
    expected = cfg.get("expected_theorems", [])
    have = {t["theorem"].split(".")[-1] for t in res["theorems"]}
    for name in expected:
        if name not in have:
            res["obligations"] += 1
            res["problems"].append({"what": "theorem-missing-or-unproved", "theorem": name})
    hits = scan_forbidden(lean_sources())
    if hits:
        res["problems"].append({"what": "forbidden-token", "hits": hits[:20]})
    if tier == "thorough" and not res["problems"]:
        for mod in mods:
            c = run(["lake", "env", "leanchecker", mod], cwd=LEAN, timeout=3000)
            log.write(f"== leanchecker {mod}\n" + c.stdout + "\n")
            if c.returncode != 0:
                res["problems"].append({"what": "leanchecker-failed", "module": mod, "detail": c.stdout[-1500:]})
    return res


def build_harness(cfg, log):
    with Lock("cargo"):
        lock_src = "/repo/Cargo.lock"
        lock_dst = os.path.join(HARNESS, "Cargo.lock")
        if not os.path.exists(lock_dst):
            import shutil
            shutil.copy(lock_src, lock_dst)
        cmd = ["cargo", "build", "--release", "--offline"]
        b = run(cmd, cwd=cfg.get("harness_dir", HARNESS), timeout=3000)
        log.write("== cargo build\n" + b.stdout[-6000:] + "\n")
        if b.returncode == 0 and cfg.get("cargo_args"):
            # a second build of the same harness in another feature configuration (own target dir)
            b = run(cmd + cfg["cargo_args"], cwd=cfg.get("harness_dir", HARNESS), timeout=3000)
            log.write("== cargo build " + " ".join(cfg["cargo_args"]) + "\n" + b.stdout[-6000:] + "\n")
        return b.returncode == 0, b.stdout


def parse_driver_line(line):
    m = re.match(r"^M=(\S*) S=(\S*) D=([01])$", line)
    if not m:
        return None
    return m.group(1), m.group(2), m.group(3) == "1"


def correspondence(pid, cfg, tier, seed, log, workdir, replay_file=None):
    """Runs harness + driver; returns dict with counts, disagreements, oracle failures."""
    out = {"ran": False, "model_cases": 0, "agree": 0, "violations": [], "drift": [], "known": [],
           "tool_errors": [], "report": {}}
    n = cfg["n"][tier]
    hbin = os.path.join(cfg.get("harness_dir", HARNESS), cfg.get("harness_target", "target"), "release", cfg.get("harness_bin", "adbharness"))
    args = [hbin, cfg["harness_prop"], str(seed), str(n), workdir, tier]
    if replay_file:
        args += ["--replay", replay_file]
    t0 = time.time()
    h = run(args, cwd=ROOT, timeout=cfg.get("timeout", {}).get(tier, 7200))
    log.write(f"== harness ({time.time()-t0:.1f}s)\n" + h.stdout[-4000:] + "\n")
    if h.returncode != 0:
        out["tool_errors"].append({"what": "harness-exit", "code": h.returncode, "tail": h.stdout[-1500:]})
        # a crash of the harness process is attributed to the implementation (abort / stack overflow)
        return out
    out["ran"] = True
    rep = json.load(open(os.path.join(workdir, "report.json")))
    out["report"] = rep
    cases = os.path.join(workdir, "cases.txt")
    model = os.path.join(workdir, "model.txt")
    if os.path.getsize(cases) > 0:
        t0 = time.time()
        drv = os.path.join(LEAN, ".lake", "build", "bin", "adbdrv")
        with open(cases) as fi, open(model, "w") as fo:
            d = subprocess.run([drv], stdin=fi, stdout=fo, stderr=subprocess.PIPE, text=True)
        log.write(f"== driver ({time.time()-t0:.1f}s) rc={d.returncode} {d.stderr[-500:]}\n")
        if d.returncode != 0:
            out["tool_errors"].append({"what": "driver-exit", "code": d.returncode, "stderr": d.stderr[-800:]})
    else:
        open(model, "w").close()
    impl_lines = open(os.path.join(workdir, "impl.txt")).read().split("\n")
    model_lines = open(model).read().split("\n")
    descs = open(os.path.join(workdir, "desc.jsonl")).read().split("\n")
    op_lines = open(cases).read().split("\n")
    ncases = rep["model_cases"]
    out["model_cases"] = ncases
    setcmp = cfg.get("set_compare", False)
    for i in range(ncases):
        imp = impl_lines[i] if i < len(impl_lines) else "<missing>"
        ml = model_lines[i] if i < len(model_lines) else "<missing>"
        p = parse_driver_line(ml)
        desc = json.loads(descs[i]) if i < len(descs) and descs[i] else {}
        if p is None:
            out["tool_errors"].append({"what": "driver-bad-line", "line": ml[:200], "op": op_lines[i][:300], "case": desc})
            continue
        M, S, D = p
        eqM = member(imp, M) if setcmp else imp == M
        eqS = member(imp, S) if setcmp else imp == S
        rec = {"index": i, "case": desc, "impl": imp, "model": M, "spec": S, "in_theorem_domain": D, "op": op_lines[i]}
        if eqM:
            if D:
                if M != S and not setcmp:
                    out["tool_errors"].append({"what": "model!=spec inside theorem domain (statement/driver wiring)", **rec})
                else:
                    out["agree"] += 1
            elif eqS:
                out["agree"] += 1
            else:
                cls = desc.get("class")
                (out["known"] if cls and is_known(pid, cls) else out["violations"]).append({**rec, "kind": "property-fails-on-model-and-code", "class": cls})
        else:
            if not eqS:
                cls = desc.get("class")
                (out["known"] if cls and is_known(pid, cls) else out["violations"]).append({**rec, "kind": "code-differs-from-model-and-spec", "class": cls})
            else:
                out["drift"].append({**rec, "kind": "code-differs-from-model-but-meets-spec"})
    for f in rep.get("failures", []):
        cls = f.get("class")
        (out["known"] if cls and is_known(pid, cls) else out["violations"]).append({"kind": "oracle:" + f.get("kind", "?"), "class": cls, "case": f.get("case")})
    return out


def member(imp, alts):
    """set-valued model output: alternatives separated by '|'"""
    return imp in alts.split("|")


_KF = None


def known_findings():
    global _KF
    if _KF is None:
        p = os.path.join(ROOT, "known_findings.json")
        _KF = json.load(open(p)) if os.path.exists(p) else {"findings": []}
    return _KF["findings"]


def is_known(pid, cls):
    return any(f["property"] == pid and f["status"] == "finding" and f.get("class") == cls for f in known_findings())


def main():
    if len(sys.argv) < 3:
        print("usage: check <ID> <quick|thorough> [--replay FILE]")
        sys.exit(2)
    pid, tier = sys.argv[1], sys.argv[2]
    tier = os.environ.get("VERIF_TIER", tier) if tier not in ("quick", "thorough") else tier
    replay_file = None
    if "--replay" in sys.argv:
        replay_file = sys.argv[sys.argv.index("--replay") + 1]
    seed = int(os.environ.get("VERIF_SEED", "1"))
    cfg = PROPS[pid]
    t_start = time.time()
    os.makedirs(EVID, exist_ok=True)
    os.makedirs(REPLAY, exist_ok=True)
    workdir = os.path.join(WORK, f"{pid}-{tier}")
    os.makedirs(workdir, exist_ok=True)
    log = open(os.path.join(workdir, "log.txt"), "w")

    proof = proof_step(pid, cfg, tier, log)
    ok_build, build_out = build_harness(cfg, log)
    corr = {"ran": False, "model_cases": 0, "agree": 0, "violations": [], "drift": [], "known": [], "tool_errors": [], "report": {}}
    if ok_build:
        corr = correspondence(pid, cfg, tier, seed, log, workdir, replay_file)
    else:
        corr["tool_errors"].append({"what": "harness-build-failed (the code under /repo no longer compiles against the harness)", "tail": build_out[-2500:]})

    # ---- step E: replay the witnesses of known_findings.json on the real code
    witness_res = []
    if ok_build:
        hbin = os.path.join(cfg.get("harness_dir", HARNESS), cfg.get("harness_target", "target"), "release", cfg.get("harness_bin", "adbharness"))
        w = run([hbin, "WITNESS", pid, os.path.join(ROOT, "known_findings.json"), workdir], cwd=ROOT, timeout=600)
        log.write("== witness replay\n" + w.stdout[-2000:] + "\n")
        try:
            witness_res = json.load(open(os.path.join(workdir, "witness.json")))["replayed"]
        except Exception as e:  # noqa
            corr["tool_errors"].append({"what": "witness-replay-failed", "detail": str(e)})

    # ---- verdict
    lines = []
    exit_code = 0
    rep = corr["report"]
    for wres in witness_res:
        if wres["status"] == "fixed" and wres["holds_on_witness"] is False:
            corr["violations"].append({"kind": "fixed-finding-returned", "class": None,
                                       "case": {"finding": wres["id"], "what": wres["what"]}})
    # known findings: print one line per listed finding that is still observed
    seen_known = {}
    for k in corr["known"]:
        seen_known.setdefault(k.get("class"), k)
    still = {wr["id"] for wr in witness_res if wr["status"] == "finding" and wr["holds_on_witness"] is False}
    for f in known_findings():
        if f["property"] == pid and f["status"] == "finding" and (f.get("class") in seen_known or f["id"] in still):
            lines.append(f"KNOWN-FINDING: property={pid} {f['id']}: {f['what']}")
    violations = corr["violations"]
    replay_path = os.path.join(REPLAY, f"{pid}-{seed}.json")
    broken = []
    if proof["problems"]:
        broken.append({"proof": proof["problems"]})
    if corr["drift"]:
        broken.append({"correspondence_drift": corr["drift"][:10], "count": len(corr["drift"])})
    if corr["tool_errors"]:
        broken.append({"tool_errors": corr["tool_errors"][:10]})
    if violations:
        exit_code = 1
        json.dump({"property": pid, "seed": seed, "tier": tier, "failing_inputs": violations[:25],
                   "count": len(violations), "also_broken": broken,
                   "how_to_replay": f"VERIF_SEED={seed} ./check {pid} {tier}  (deterministic; the case is 'failing_inputs[0].case')"},
                  open(replay_path, "w"), indent=1)
        lines.append(f"VIOLATION property={pid} replay={replay_path}")
    elif broken:
        exit_code = 1
        json.dump({"property": pid, "seed": seed, "tier": tier, "no_longer_checks": broken,
                   "note": "a proof obligation or the model/code correspondence no longer checks and the search found no concrete input on which the property itself fails"},
                  open(replay_path, "w"), indent=1)
        lines.append(f"VIOLATION property={pid} replay={replay_path} no-failing-input-found")

    else:
        # nothing to replay: a file left by an earlier failing run would mislead
        if os.path.exists(replay_path):
            os.remove(replay_path)

    wall = time.time() - t_start
    coverage = {
        "obligations": proof["obligations"],
        "discharged": proof["discharged"],
        "checker_cmd": f"cd /verif/lean && lake build {' '.join(cfg['lean_modules'])} && " + " && ".join(f"lake env lean {a}" for a in cfg["audits"]) + (" && lake env leanchecker <module>" if tier == "thorough" else ""),
        "trusted_base": COMMON_TRUSTED + cfg.get("trusted", []),
        "theorems": proof["theorems"],
        "evaluations": corr["model_cases"] + int(rep.get("stats", {}).get("oracle_only_cases", 0)),
        "distinct_nontrivial": rep.get("distinct_nontrivial", 0),
        "rule": cfg["rule"],
        "samples": rep.get("samples", [])[:5],
        "traces_validated_against_impl": corr["agree"],
        "disagreements_checked": len(corr["drift"]) + len(violations) + len(corr["known"]),
        "model_vs_impl_drift": len(corr["drift"]),
        "known_finding_hits": len(corr["known"]),
        "input_distribution": rep.get("stats", {}),
        "exhaustive": bool(rep.get("stats", {}).get("exhaustive", 0)),
        "proof_problems": proof["problems"],
        "known_findings_replayed": witness_res,
    }
    ev = {
        "property_id": pid, "tier": tier, "seed": seed, "level": "proof",
        "coverage": coverage,
        "assumptions": cfg.get("assumptions", []),
        "wall_s": round(wall, 2),
        "violations": len(violations) + (1 if (broken and not violations) else 0),
    }
    json.dump(ev, open(os.path.join(EVID, f"{pid}.json"), "w"), indent=1)
    for l in lines:
        print(l)
    print(f"{pid} {tier}: obligations {proof['discharged']}/{proof['obligations']}, cases {corr['model_cases']} (agree {corr['agree']}, drift {len(corr['drift'])}), "
          f"oracle-only {rep.get('stats', {}).get('oracle_only_cases', 0)}, violations {len(violations)}, known {len(corr['known'])}, {wall:.1f}s")
    if exit_code != 0:
        # keep what a failing run said (the work directory is reused by the next run of the same check)
        try:
            import shutil
            keep = os.path.join(WORK, "failed", f"{pid}-{tier}-{int(time.time())}")
            os.makedirs(keep, exist_ok=True)
            log.flush()
            for name in ("log.txt", "report.json"):
                src = os.path.join(workdir, name)
                if os.path.exists(src):
                    shutil.copy(src, keep)
            with open(os.path.join(keep, "summary.txt"), "w") as f:
                f.write("\n".join(lines) + "\n")
        except Exception:
            pass
    sys.exit(exit_code)


if __name__ == "__main__":
    main()
