#!/usr/bin/env python3
"""Writes MANIFEST.json from tools/props.py + tools/manifest_texts.py (kept generated so it is always valid)."""
import json, os, sys
ROOT = os.path.dirname(os.path.dirname(os.path.abspath(__file__)))
sys.path.insert(0, os.path.join(ROOT, "tools"))
from props import PROPS
from manifest_texts import TEXTS, NOT_APPLICABLE, HOOK_COMMITS

ALL = [f"C{i:02d}" for i in range(1, 21)]
checks = []
for pid in ALL:
    if pid not in PROPS:
        continue
    t = TEXTS[pid]
    checks.append({
        "property_id": pid,
        "quick_cmd": f"./check {pid} quick",
        "thorough_cmd": f"./check {pid} thorough",
        "evidence_file": f"/verif/evidence/{pid}.json",
        "replay_cmd_template": f"./check {pid} quick --replay {{path}}",
        "engine": "lean4-proof+correspondence",
        "level_claimed": {"category": "proof", "text": t["level"], "design_ref": t.get("design_ref", f"DESIGN.md section 4, {pid}")},
        "level_note": t["note"],
        "technique": t["technique"],
    })
na = [{"property_id": p, "reason": NOT_APPLICABLE.get(p, "no check registered in this revision (work in progress; see DESIGN.md section 7)")} for p in ALL if p not in PROPS]
m = {
    "version": 1,
    "setup_cmd": "./setup.sh",
    "hooks": {
        "guard": "cargo feature `verif-hooks` (off by default)",
        "enable": "harness/Cargo.toml depends on adblock = { path = \"/repo\", default-features = false, features = [\"verif-hooks\", \"regex-debug-info\", \"embedded-domain-resolver\", \"full-regex-handling\", \"content-blocking\"] }; the harness' own default feature `unsync` turns adblock/unsync-regex-caching back on (C19 builds a second copy without it into harness/target-sync)",
        "baseline_off_cmd": "cd /repo && cargo test --workspace --no-fail-fast --offline",
        "source_commits": HOOK_COMMITS,
        "add_only": True,
    },
    "engines": [
        {"name": "lean4-proof+correspondence", "path": "/verif/lean + /verif/harness + /verif/tools/run_check.py",
         "serves_properties": [c["property_id"] for c in checks],
         "kind_free_text": "Lean 4 model + kernel-checked theorems (lake build, axiom audit), tied to /repo by a differential correspondence check: a Rust harness (path dependency on /repo, rebuilt from the working tree on every run) and the compiled Lean model driver answer the same generated cases"},
    ],
    "checks": checks,
    "not_applicable": na,
    "notes": "Every check is `./check <ID> <tier>`; see DESIGN.md. Known findings are listed in known_findings.json.",
}
json.dump(m, open(os.path.join(ROOT, "MANIFEST.json"), "w"), indent=1)
print("MANIFEST.json written:", len(checks), "checks,", len(na), "not claimed")
