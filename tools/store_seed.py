#!/usr/bin/env python3
# store_seed.py <PROP> <x> <confirm-line> : copies /tmp/seedout/<PROP>/<x> to /verif/seeded/<PROP>-<x>/ with meta.json
import json, os, shutil, sys
prop, x, confirm = sys.argv[1], sys.argv[2], sys.argv[3]
src = f"/tmp/seedout/{prop}/{x}"
dst = f"/verif/seeded/{prop}-{x}"
os.makedirs(dst, exist_ok=True)
shutil.copy(f"{src}/patch.diff", f"{dst}/patch.diff")
shutil.copy(f"{src}/demo.rs", f"{dst}/demo.rs")
try:
    m = json.load(open(f"{src}/meta.json"))
except Exception as e:
    m = {"property": prop, "summary": "(agent meta.json unreadable)"}
meta = {
    "breaks_property": prop,
    "summary": m.get("summary"),
    "needs_to_manifest": m.get("needs"),
    "origin": "written by an independent sub-agent that saw only the property text and its own scratch worktree of /repo",
    "confirmed_by_me": {
        "how": "tools/confirm_seed.sh in a scratch worktree: demo test with and without the patch, then the full baseline suite with the patch",
        "result": confirm,
    },
    "detected_by": None,
}
json.dump(meta, open(f"{dst}/meta.json", "w"), indent=1)
print("stored", dst)
