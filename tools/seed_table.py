#!/usr/bin/env python3
"""Prints the markdown table of DESIGN.md section 6 from seeded/*/meta.json (as written by run_all_seeds.py)."""
import json, os, re
ROOT = "/verif/seeded"
print("| seed | the change (one line) | what `./check <id> quick` reported |")
print("|---|---|---|")
for d in sorted(os.listdir(ROOT)):
    m = json.load(open(f"{ROOT}/{d}/meta.json"))
    summ = (m.get("summary") or "").replace("\n", " ").replace("|", "\\|")
    first = summ if len(summ) <= 260 else summ[:257] + "..."
    det = m.get("detected_by") or {}
    kinds = det.get("violation_kinds") or {}
    top = ", ".join(f"{k} x{v}" for k, v in sorted(kinds.items(), key=lambda kv: -kv[1])[:2])
    m2 = re.search(r"cases (\d+) \(agree (\d+), drift (\d+)\), oracle-only (\d+), violations (\d+)", det.get("summary") or "")
    rep = "exit %s" % det.get("exit")
    if m2:
        rep += f"; {int(m2.group(1)) - int(m2.group(2))} of {m2.group(1)} model cases differ, {m2.group(5)} violations"
    if det.get("proof_obligations_broken"):
        rep += "; proof obligation / extracted table no longer checks"
    if top:
        rep += "; replay: " + top.replace("|", "\\|")
    if "no-failing-input-found" in (det.get("violation_line") or ""):
        rep += "; **no-failing-input-found**"
    print(f"| {d} | {first} | {rep} |")
