#!/bin/bash
# confirm_seed.sh <seed-dir (with patch.diff, demo.rs)> <scratch worktree> : re-confirms a seeded change independently
# DEMO_FLAGS (env): extra cargo flags for the demonstration test only (feature configuration)
# prints: DEMO_WITH=<fail|pass> DEMO_WITHOUT=<fail|pass> SUITE_FAILED=<n> SUITE_PASSED=<n>
D=$1; WT=$2
export CARGO_NET_OFFLINE=true CARGO_TARGET_DIR=$WT/target
cd $WT || exit 2
git checkout -q -- . ; rm -f tests/seed_demo.rs
cp $D/demo.rs tests/seed_demo.rs
cargo test --offline $DEMO_FLAGS --test seed_demo >/tmp/confirm_$$.log 2>&1 && W0=pass || W0=fail
git apply $D/patch.diff || { echo "PATCH DOES NOT APPLY"; exit 3; }
cargo test --offline $DEMO_FLAGS --test seed_demo >/tmp/confirm_$$.log 2>&1 && W1=pass || W1=fail
rm -f tests/seed_demo.rs
cargo test --workspace --no-fail-fast --offline >/tmp/confirm_$$.log 2>&1
P=$(grep -E "^test .* ok$" /tmp/confirm_$$.log | wc -l); F=$(grep -E "^test .* FAILED$" /tmp/confirm_$$.log | wc -l)
FN=$(grep -E "^test .* FAILED$" /tmp/confirm_$$.log | awk '{print $2}' | sort | tr '\n' ',')
git checkout -q -- . 
rm -f /tmp/confirm_$$.log
echo "DEMO_WITH=$W1 DEMO_WITHOUT=$W0 SUITE_PASSED=$P SUITE_FAILED=$F FAILED=$FN"
