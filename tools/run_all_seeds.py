#!/usr/bin/env python3
"""Applies every stored seeded change to /repo in turn, runs the property's quick check, undoes the
change, and records in seeded/<id>/meta.json what the check reported (detected_by)."""
import json, os, re, subprocess, sys
ROOT = "/verif"
only = sys.argv[1:]
for d in sorted(os.listdir(f"{ROOT}/seeded")):
    if only and d not in only:
        continue
    prop = d.split("-")[0]
    patch = f"{ROOT}/seeded/{d}/patch.diff"
    if subprocess.run(["git", "-C", "/repo", "status", "--porcelain"], capture_output=True, text=True).stdout.strip():
        print("repo not clean; stopping"); sys.exit(2)
    if subprocess.run(["git", "-C", "/repo", "apply", patch]).returncode != 0:
        print(d, "PATCH DOES NOT APPLY"); continue
    try:
        r = subprocess.run(["./check", prop, "quick"], cwd=ROOT, capture_output=True, text=True)
    finally:
        subprocess.run(["git", "-C", "/repo", "checkout", "--", "."])
        # the generated tables follow the source: bring them back to the restored tree
        subprocess.run(["python3", "/verif/tools/extract_tables.py"], capture_output=True)
    out = r.stdout.strip().split("\n")
    vline = next((l for l in out if l.startswith("VIOLATION")), "")
    summary = out[-1] if out else ""
    kinds = {}
    try:
        rep = json.load(open(f"{ROOT}/evidence/replay/{prop}-1.json"))
        for v in rep.get("failing_inputs", rep.get("violations", []))[:400]:
            k = v.get("kind", "?"); kinds[k] = kinds.get(k, 0) + 1
        broken = [str(x)[:160] for x in (rep.get("no_longer_checks") or rep.get("also_broken") or [])][:2]
    except Exception:
        broken = []
    mp = f"{ROOT}/seeded/{d}/meta.json"
    m = json.load(open(mp))
    m["detected_by"] = {"check": f"./check {prop} quick", "exit": r.returncode, "violation_line": vline, "summary": summary,
                        "violation_kinds": kinds, "proof_obligations_broken": bool(broken)}
    json.dump(m, open(mp, "w"), indent=1)
    print(d, r.returncode, summary)
# leave the harness built against the clean tree
