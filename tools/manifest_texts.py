HOOK_COMMITS = ["9d4e5cc"]
NOT_APPLICABLE = {}
TEXTS = {
    "C14": {
        "level": "Machine-checked proof (Lean 4 kernel) that the model of Blocker::apply_removeparam equals the reference semantics of C14 for every URL, every set of matching parameter names and either value of the important guard (rewrite_eq_spec, plus byte-for-byte preservation of prefix, untouched segments and fragment); the model is tied to the current source by a differential correspondence check through the real Engine on generated rule lists and URLs.",
        "note": "Trusted: Lean kernel; the hand-written model's faithfulness is validated (not proved) by the correspondence run; which removeparam rules match is taken from the per-rule public matcher; rustc and third-party crates.",
        "technique": "Lean 4 theorem (model = spec, induction over the rule-name fold) + model/implementation correspondence check",
    },
}
