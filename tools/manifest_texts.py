HOOK_COMMITS = ["9d4e5cc"]
NOT_APPLICABLE = {}
TEXTS = {
    "C14": {
        "level": "Machine-checked proof (Lean 4 kernel) that the model of Blocker::apply_removeparam equals the reference semantics of C14 for every URL, every set of matching parameter names and either value of the important guard (rewrite_eq_spec, plus byte-for-byte preservation of prefix, untouched segments and fragment); the model is tied to the current source by a differential correspondence check through the real Engine on generated rule lists and URLs.",
        "note": "Trusted: Lean kernel; the hand-written model's faithfulness is validated (not proved) by the correspondence run; which removeparam rules match is taken from the per-rule public matcher; rustc and third-party crates.",
        "technique": "Lean 4 theorem (model = spec, induction over the rule-name fold) + model/implementation correspondence check",
    },
    "C01": {
        "level": "Lean 4 model of the whole network engine (tokenizer, rule tokens, histogram bucket choice, sorted de-duplicated buckets, fusion, category split, precedence) with kernel-checked theorems relating it to rule-by-rule evaluation; every generated (list, tags, request) is answered by the real Engine, the compiled model and the reference and compared three ways; the theorem's hypotheses (token soundness, id separation) are evaluated per case.",
        "note": "Trusted: Lean kernel; the hand-written engine model's faithfulness is validated (not proved) by the correspondence run against the real Engine on every generated case; seahash injectivity on the strings of a case; the regex crate on /re/ rules (external parameter); rustc and third-party crates.",
        "technique": 'Lean 4 theorems (index completeness by induction over the rule list; engine = combine of scan) + model/implementation correspondence check',
    },
    "C04": {
        "level": 'Lean 4 theorems on the reference verdict (blocked iff spec, antitone/monotone rule addition, structural badfilter cancellation) plus the engine model; correspondence on badfilter twin families and (L, L+x) pairs against the real engines.',
        "note": "Trusted: Lean kernel; the hand-written engine model's faithfulness is validated (not proved) by the correspondence run against the real Engine on every generated case; seahash injectivity on the strings of a case; the regex crate on /re/ rules (external parameter); rustc and third-party crates.",
        "technique": 'Lean 4 theorems (precedence and monotonicity by case analysis over rule categories) + correspondence check',
    },
    "C05": {
        "level": 'Lean 4 theorem that a fused rule matches exactly when one of its members does (all nine matcher paths, AnyOf) and that per-bucket optimisation preserves lookups; correspondence on clusters built to fuse, three real engines compared with each other and with the model.',
        "note": "Trusted: Lean kernel; the hand-written engine model's faithfulness is validated (not proved) by the correspondence run against the real Engine on every generated case; seahash injectivity on the strings of a case; the regex crate on /re/ rules (external parameter); rustc and third-party crates.",
        "technique": 'Lean 4 theorems (fusion equivalence) + correspondence check',
    },
    "C13": {
        "level": 'Lean 4 theorems that the chosen redirect is a maximum-priority unexcepted matching redirect option, that redirect-rule never blocks and that permissioned / non-redirectable resources are never served; correspondence over priority spellings and resource stores built from add_resource attempt sequences.',
        "note": "Trusted: Lean kernel; the hand-written engine model's faithfulness is validated (not proved) by the correspondence run against the real Engine on every generated case; seahash injectivity on the strings of a case; the regex crate on /re/ rules (external parameter); rustc and third-party crates.",
        "technique": 'Lean 4 theorems (fold invariant over the candidate list) + correspondence check',
    },
    "C15": {
        "level": 'Lean 4 theorems that the CSP result is the set of matching enabled directives minus excepted ones, is invariant under permutation of the matched rules and empty for other request types; correspondence on csp clusters compared as sets, plus shuffle-invariance on the real engine.',
        "note": "Trusted: Lean kernel; the hand-written engine model's faithfulness is validated (not proved) by the correspondence run against the real Engine on every generated case; seahash injectivity on the strings of a case; the regex crate on /re/ rules (external parameter); rustc and third-party crates.",
        "technique": 'Lean 4 theorems (set equality, permutation invariance) + correspondence check',
    },
    "C06": {
        "level": 'Lean 4 proofs that (1) the address-keyed regex cache is transparent for every operation sequence and every allocator (invariant: each compiled entry belongs to the filter live at its address; preserved by every operation; answers equal the freshly compiled regex), with the pinned pre-fix behaviour refuted by a concrete history, and (2) after any sequence of tag operations the blocker is in the state a fresh build reaches with the final tag set, so all answers coincide. Histories with add_filter, optimise and reload are tied by the correspondence check and a fresh-engine oracle on the real API.',
        "note": 'Trusted: Lean kernel; the model of RegexManager and Blocker mutators is validated against the real code by histories and RegexManager sequences on every run; the real allocator and clock are abstracted (any non-live address, explicit clock readings).',
        "technique": 'Lean 4 invariant proof over operation sequences (induction on the history) + refinement to the cache-free state machine + correspondence check',
    },
    "C07": {
        "level": "Lean 4 proofs that use/enable/disable are set assignment/union/difference for every history (fold over the operation list), that tag_exists reports membership, that reload keeps the caller's set, and that in each taggable category a tagged rule is among the hits iff it matches and its tag is enabled; the engine-level lookup is C01's theorem. Correspondence on tag histories incl. reload against the real engine.",
        "note": "Trusted: Lean kernel; model faithfulness validated by the correspondence run; redirect+tag / generichide+tag mirror the code (inert) and are outside the property's category list.",
        "technique": 'Lean 4 theorems (induction over the operation history; set algebra) + correspondence check',
    },
    "C18": {
        "level": "Lean 4 proofs that the permission test is exactly the bit-wise subset relation for all 256 x 256 mask pairs (bit extensionality, no enumeration), and that stringify_arg — over the ESCAPED table re-extracted from the source on every run — emits for every byte string a literal that the string-literal reader parses back to exactly the argument with nothing left over (induction on the argument; the 256 table rows are classified by a kernel-checked decision). Scriptlet assembly (dependencies, per-list permission gating, exceptions) is checked through the public API by an oracle; two genuine permission defects found this way were repaired (fix: commits).",
        "note": "Trusted: Lean kernel; extract_tables.py; the model of stringify_arg / is_injectable_by validated on every run; the public-API oracle for dependency gating is exploration, not proof.",
        "technique": "Lean 4 theorems (bit extensionality; induction over the argument with a decide over the extracted 256-entry table) + correspondence check + public-API oracle",
    },
    "C02": {
        "level": "Lean 4 proofs that the element matcher standing for the regex text emitted by compile_regex decides the declarative ABP relation MatchesAt (soundness and completeness, every pattern and input), that on literal-only patterns it is prefix / suffix / infix / equality so that the plain fast paths of check_pattern equal the regex semantics (dispatch_plain_eq_regex), and the weakening relations for all patterns; the hostname-anchored paths and the parse-time pattern surgery are tied by an exhaustive correspondence (all patterns up to a length bound x six anchor forms x 228 URLs) of the real matcher, the Lean parser + matcher model and the reference semantics computed from the rule text. Two genuine defects are recorded as known findings (F2 first-occurrence anchoring, F20 ||host|).",
        "note": "Trusted: Lean kernel; the regex crate; the model's faithfulness validated exhaustively on the small universe and randomly beyond; equality model = reference is proved for the non-hostname paths and checked (not proved) for the ||host paths inside Spec.inDomain.",
        "technique": "Lean 4 theorems (rule induction on MatchesAt, induction on patterns) + exhaustive correspondence on a small universe",
    },
    "C03": {
        "level": "Lean 4 proofs, for every option list (any length, order, duplicates, conflicts), that each bit of the mask built by NetworkFilter::parse is a statement about which options occur (flag bits set iff some option sets them, party bits kept iff no option clears them, positive/negated type sets = the type options), hence order independence and idempotence; the declarative reference (type set, party, scheme, initiator domains with subdomain coverage and exclusions) is compared exhaustively with the real matcher and the Lean parser + check_options model over type alias x scheme x party x source relation for single options, pairs and triples. The option-name table and bit positions come from the source on every run.",
        "note": "Trusted: Lean kernel; extract_tables.py; the composition `check_options (parse line) = refOptions` is established by exhaustive correspondence on the option universe (569k rule/request pairs per quick run), the per-bit characterisations are proved.",
        "technique": "Lean 4 theorems (induction over the option list, bit lemmas) + exhaustive correspondence over the option universe",
    },
    "C16": {
        "level": "Lean 4 proofs that, for every cache and host, each set returned by hostname_cosmetic_resources is the stated comprehension over the per-hash bins: hide = scoped hide selectors plus (unless generichide) the unscoped misc generic selectors, minus everything unhidden; exceptions = everything unhidden; procedural = scoped minus excepted; a blanket +js exception empties the injections and an exception removes exactly the identical injection. The label-hashing loops and the store construction are tied by the correspondence run against url_cosmetic_resources (sets compared exactly).",
        "note": "Trusted: Lean kernel; public-suffix split, IDNA and serde_json are external parameters supplied per case; the universal statement about the label-hash loops is validated (concrete deep / multi-label / single-label hosts are kernel-evaluated), not proved.",
        "technique": "Lean 4 theorems (set comprehension characterisation of populate-then-prune) + correspondence check",
    },
    "C17": {
        "level": "Lean 4 proofs that add_generic_filter files a selector in exactly the store the five-way partition names (or nowhere without a key), that class/id selectors never reach the per-site store and vice versa, and that hidden_class_id_selectors returns exactly the unexcepted selectors filed under the given names; key_from_selector (CSS unescape, hex escapes, overflow) and the whole lookup are tied by correspondence; the partition is additionally checked on the real API. Selectors without extractable key are a recorded finding (F15).",
        "note": "Trusted: Lean kernel; the model of key_from_selector for ASCII; non-ASCII word characters are outside the model.",
        "technique": "Lean 4 theorems (case analysis on the partition; lookup characterisation) + correspondence check + partition oracle",
    },
    "C08": {
        "level": "Lean 4 proofs about the field-by-field wire mapping: a rule whose modifier travels in the redirect/csp slot survives unchanged; reload is the identity on a blocker without removeparam rules (so all network and CSP answers coincide under any tag set); the cosmetic bins survive up to the permission of script injections. The full statement fails on the pinned tree in exactly two ways (F10 removeparam list, F11 script permission), recorded as known findings with their own class. Correspondence: real serialize -> deserialize into a differently configured engine, full query battery.",
        "note": "Trusted: Lean kernel; rmp-serde/serde (decode (encode w) = w); model faithfulness validated by the round-trip run.",
        "technique": "Lean 4 theorems (wire mapping round trip; _partial for representable rule lists) + correspondence check",
    },
    "C09": {
        "level": "Lean 4 proofs that the ordered view under which hash containers are written does not depend on iteration order (any permutation, distinct keys), that buckets built by sorted insertion are strictly sorted so their order is determined by their content, and a kernel-checked decision over the field list re-extracted from the source that every HashMap/HashSet field of the wire structs is serialized through a stabilize_* ordered view. Byte-for-byte comparison across engines, fresh processes and reload on generated lists.",
        "note": "Trusted: Lean kernel; extract_tables.py; rmp-serde is a function of the serde event stream.",
        "technique": "Lean 4 theorems (uniqueness of sorted permutations; decide over the extracted field table) + byte-level oracle across processes",
    },
    "C10": {
        "level": "PARTIAL. Lean 4 proofs of the header dispatch (exactly `magic ++ 0 :: rest` reaches the decoder; magic-only, short, wrong-version and gzip inputs are rejected) and of atomicity (an error return leaves the engine state untouched; a success keeps the caller's tags). Decoder totality, bounded allocation and query totality on corrupt data are runtime behaviour of rmp-serde and the matchers: they are covered by fault enumeration in a child process under an address-space ceiling (every prefix, bit flip, structural marker substitution, random corruption). A fourth panic site found this way was repaired (fix: 70f9f27).",
        "note": "Trusted: Lean kernel; the child-process harness; what the model cannot exhibit: allocator behaviour, aborts, hangs (observed only through the ceiling / time limit).",
        "technique": "Lean 4 theorems (dispatch characterisation, atomicity) + fault enumeration (labelled partial)",
    },
    "C11": {
        "level": "Lean 4 model of src/lists.rs (line splitting, Unicode trim, detect_filter_type with its four-byte second-# window, parse_filter for both formats and all rule-type options, the hosts branch and parse_hosts_style, list parsing as a per-line map, FilterListMetadata::try_add, ExpiresInterval, read_list_metadata with the byte-level cut-off loop) on top of the network rule parser model. Kernel-checked theorems, for every cosmetic parser and IDNA function: deleting any set of rejected lines anywhere leaves the parsed rule sequence unchanged; an accepted hosts entry loads exactly the rule the standard format loads for `||host^` and a well-formed entry is answered exactly like that text; NetworkOnly / CosmeticOnly / hosts lists load nothing of the other kind and All is their union; the cut-off loop ends on a character boundary and the slice equals the longest character prefix of at most 1024 bytes; every ASCII-byte offset of valid UTF-8 (what memchr returns) is a character boundary. PARTIAL for totality: panics at slicing sites and unwraps other than those are explored by a structured malformed-input stream under catch_unwind, not proved. The model is tied to the current source by the correspondence run (model vs parse_filter / NetworkFilter::parse / read_list_metadata) and list-level oracles on the real crate.",
        "note": "Trusted: Lean kernel; the hand-written model's faithfulness is validated (not proved) by the correspondence run; cosmetic rule parser, IDNA and Unicode lower-casing are external parameters; rustc and third-party crates (regex, idna, memchr).",
        "technique": "Lean 4 theorems (filterMap algebra for line independence; case analysis for formats / rule types; induction over UTF-8 text for char boundaries) + model/implementation correspondence check + totality stream (labelled partial)",
    },
    "C12": {
        "level": "Lean 4 model of the hand-rolled URL scanner (C0 trim, scheme loop, special / non-special dispatch, userinfo scan with its two loops and percent-encoding, host scan with brackets and ignored characters, ASCII lower-casing / IDNA), parse_url, Request::new, Request::preparsed and from_detailed_parameters. Kernel-checked theorems, for every IDNA and registrable-domain function: the reported hostname is non-empty and is exactly the host segment of the normalised URL at offset |scheme|+1+|pre|; ASCII hosts are lower-cased, non-ASCII ones are the IDNA output; third-party iff the registrable domains differ (true when the source does not parse); ws/wss force the Websocket type and are supported; is_supported iff scheme in {http, https, ws, wss}; the scheme contains no colon, hence preparsed(normalised url, hostname, source hostname, type, party) equals new() field by field (up to the stored original URL, and exactly when the input was already normalised). PARTIAL for totality (explored under catch_unwind). The public-suffix list itself is data of an external crate: its lookups are compared against a reference algorithm over the crate's own rule file.",
        "note": "Trusted: Lean kernel; the hand-written model's faithfulness is validated (not proved) by the correspondence run; idna and addr/psl crates are external parameters; rustc.",
        "technique": "Lean 4 theorems (case analysis over the scanner; induction over the scheme loop) + model/implementation correspondence check + reference public-suffix oracle",
    },
}
