#!/bin/bash
# try_seed.sh <patch.diff> <ID> [tier] : apply a seeded change to /repo, run the check, undo it straight afterwards
P=$1; ID=$2; T=${3:-quick}
cd /repo && git apply "$P" || exit 3
cd /verif && ./check $ID $T; RC=$?
git -C /repo checkout -- .
echo "exit=$RC"
