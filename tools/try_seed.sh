#!/bin/bash
# try_seed.sh <patch.diff> <ID> [tier] : apply a seeded change to /repo, run the check, undo it straight afterwards
P=$1; ID=$2; T=${3:-quick}
cd /repo && git apply "$P" || exit 3
cd /verif && ./check $ID $T; RC=$?
git -C /repo checkout -- .
# the generated tables follow the source: bring them back to the restored tree
python3 /verif/tools/extract_tables.py >/dev/null 2>&1
echo "exit=$RC"
