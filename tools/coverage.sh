#!/bin/bash
# Development aid (not a registered check): measures which lines of /repo/src the quick correspondence
# runs execute. Builds the harness with the nightly toolchain and -C instrument-coverage into a scratch
# directory, runs every property's harness once, prints the per-file summary, removes the scratch data.
set -e
B=$(ls -d /root/.rustup/toolchains/nightly-x86_64-unknown-linux-gnu/lib/rustlib/*/bin)
S=${1:-/tmp/adbcov}
mkdir -p $S/build $S/prof
(cd /verif/harness && LLVM_PROFILE_FILE=$S/prof/build-%p-%m.profraw RUSTFLAGS="-C instrument-coverage" CARGO_NET_OFFLINE=true cargo +nightly build --release --offline --target-dir $S/build >/dev/null 2>&1)
python3 - "$S" <<'PY'
import sys, subprocess, os
sys.path.insert(0, '/verif/tools')
import props
S = sys.argv[1]
for pid, cfg in sorted(props.PROPS.items()):
    if pid == 'C19':
        continue  # needs the thread-safe build
    env = dict(os.environ, LLVM_PROFILE_FILE=f'{S}/prof/{pid}-%p-%m.profraw')
    subprocess.run([f'{S}/build/release/adbharness', cfg['harness_prop'], '1', str(cfg['n']['quick']), f'{S}/out_{pid}', 'quick'], env=env, capture_output=True, cwd='/verif')
PY
$B/llvm-profdata merge -sparse $S/prof/*.profraw -o $S/all.profdata
$B/llvm-cov report $S/build/release/adbharness -instr-profile=$S/all.profdata --ignore-filename-regex='(registry|rustc|harness|rustup)'
rm -rf $S
