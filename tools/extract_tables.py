#!/usr/bin/env python3
"""
Translator for finite tables: /repo/src -> lean/Adb/Generated/Tables.lean (DESIGN.md section 2.5).

Parses, with anchored regular expressions that fail loudly, exactly the Rust items listed below and
emits them as Lean literals. The Lean model imports these tables instead of restating them, so the
`decide`-style theorems over them are re-proved against the source as it is now.
The output is only rewritten when its content changes (so Lake rebuilds only when the tables changed).
"""
import json
import os
import re
import sys

ROOT = os.path.dirname(os.path.dirname(os.path.abspath(__file__)))
OUT = os.path.join(ROOT, "lean", "Adb", "Generated", "Tables.lean")
SRC = os.environ.get("VERIF_REPO_SRC", "/repo/src")


class ExtractError(Exception):
    pass


def fail(msg):
    raise ExtractError(msg)


FALLBACK_FILE = os.path.join(ROOT, "tools", "tables_fallback.json")
STATUS_FILE = os.path.join(ROOT, "lean", "Adb", "Generated", "extraction_status.json")
FAILED = {}
VALUES = {}


def section(name, fn):
    """One table group. When the source no longer has the shape the extractor understands, the last
    committed value is used so that everything still builds, and the failure is recorded: the checks
    whose theorems depend on this table then report the tie to the source as broken (run_check.py);
    the others are unaffected."""
    try:
        v = fn()
        VALUES[name] = v
        return v
    except Exception as e:  # ExtractError, or a parsing accident on restructured source
        FAILED[name] = f"{type(e).__name__}: {e}"
        try:
            fb = json.load(open(FALLBACK_FILE))
        except Exception:
            print("extract_tables: FAILED: " + FAILED[name] + " (and no fallback table file)")
            sys.exit(1)
        print(f"extract_tables: section {name} could not be re-extracted ({FAILED[name]}); using the committed fallback")
        return fb[name]


def read(rel):
    p = os.path.join(SRC, rel)
    if not os.path.exists(p):
        fail(f"missing source file {p}")
    return open(p, encoding="utf-8").read()


def lean_str(s):
    return '"' + s.replace("\\", "\\\\").replace('"', '\\"') + '"'


def mask_bits(net):
    m = re.search(r"pub struct NetworkFilterMask: u32 \{(.*?)\n    \}\n\}", net, re.S)
    if not m:
        fail("NetworkFilterMask bitflags block not found")
    body = m.group(1)
    bits = {}
    for name, rhs in re.findall(r"const (\w+) = ([^;]+);", body):
        rhs = rhs.strip()
        if rhs == "1":
            bits[name] = 0
        elif re.fullmatch(r"1 << (\d+)", rhs):
            bits[name] = int(rhs.split("<<")[1])
        elif rhs == "0":
            pass  # NONE
        elif "Self::" in rhs:
            pass  # composite, handled below
        else:
            fail(f"unrecognised mask constant {name} = {rhs}")
    comps = {}
    for name, rhs in re.findall(r"const (\w+) = ((?:Self::\w+\.bits\(\)\s*\|?\s*)+);", body):
        comps[name] = re.findall(r"Self::(\w+)\.bits\(\)", rhs)
    for need in ["FROM_NETWORK_TYPES", "FROM_ALL_TYPES", "DEFAULT_OPTIONS"]:
        if need not in comps:
            fail(f"composite mask {need} not found")
    if len(set(bits.values())) != len(bits):
        fail("two mask flags share a bit")
    return bits, comps


def req_type_map(net):
    m = re.search(r"impl From<&request::RequestType> for NetworkFilterMask \{(.*?)\n\}\n", net, re.S)
    if not m:
        fail("From<&RequestType> for NetworkFilterMask not found")
    pairs = re.findall(r"request::RequestType::(\w+) => NetworkFilterMask::(\w+),", m.group(1))
    if len(pairs) < 10:
        fail("request type map too short")
    return pairs


def cpt_match(req):
    m = re.search(r"fn cpt_match_type\(cpt: &str\) -> RequestType \{\s*match cpt \{(.*?)\n    \}\n\}", req, re.S)
    if not m:
        fail("cpt_match_type not found")
    out = []
    default = None
    for lhs, rhs in re.findall(r"((?:\"[^\"]*\"\s*\|?\s*)+|_)\s*=> RequestType::(\w+),", m.group(1)):
        if lhs.strip() == "_":
            default = rhs
        else:
            for s in re.findall(r"\"([^\"]*)\"", lhs):
                out.append((s, rhs))
    if default is None:
        fail("cpt_match_type default arm not found")
    return out, default


def req_types(req):
    m = re.search(r"pub enum RequestType \{(.*?)\}", req, re.S)
    if not m:
        fail("enum RequestType not found")
    return re.findall(r"(\w+),", m.group(1))


def escaped_table(rs):
    m = re.search(r"static ESCAPED: \[u8; 256\] = \[(.*?)\];", rs, re.S)
    if not m:
        fail("ESCAPED table not found")
    consts = dict(re.findall(r"const (\w+): u8 = ([^;]+);", rs))

    def val(tok):
        v = consts.get(tok)
        if v is None:
            fail(f"unknown ESCAPED entry {tok}")
        v = v.strip()
        if v == "0":
            return 0
        mm = re.fullmatch(r"b'(\\?.)'", v)
        if not mm:
            fail(f"cannot evaluate const {tok} = {v}")
        c = mm.group(1)
        return ord({"\\\\": "\\", "\\'": "'"}.get(c, c[-1]) if c.startswith("\\") else c)

    body = re.sub(r"//[^\n]*", "", m.group(1))
    toks = re.findall(r"\w+", body)
    if len(toks) != 256:
        fail(f"ESCAPED table has {len(toks)} entries")
    return [val(t) for t in toks]


def bad_tokens(nfl):
    m = re.search(r"for bad_token in \[(.*?)\]\.iter\(\)", nfl)
    if not m:
        fail("bad token list not found")
    return re.findall(r"\"([^\"]*)\"", m.group(1))


def token_consts(utils):
    a = re.search(r"const TOKENS_BUFFER_SIZE: usize = (\d+);", utils)
    b = re.search(r"const TOKENS_BUFFER_RESERVED: usize = (\d+);", utils)
    c = re.search(r"const TOKENS_MAX: usize = TOKENS_BUFFER_SIZE - TOKENS_BUFFER_RESERVED;", utils)
    if not (a and b and c):
        fail("token buffer constants not found")
    return int(a.group(1)) - int(b.group(1))


def option_table(absn):
    """(option name, negated?) arms of parse_filter_options -> constructor / error"""
    m = re.search(r"result\.push\(match \(option, negation\) \{(.*?)\n        \}\);", absn, re.S)
    if not m:
        fail("parse_filter_options match not found")
    body = m.group(1)
    arms = []
    # split on top-level arms: patterns start at 12 spaces of indentation with ("
    for pm in re.finditer(r"\n            ((?:\(\"[\w-]+\", \w+\)\s*\|?\s*)+)=>\s*(.*?)(?=\n            \(|\Z)", body, re.S):
        pats = re.findall(r"\(\"([\w-]+)\", (\w+)\)", pm.group(1))
        rhs = pm.group(2)
        em = re.search(r"return Err\(NetworkFilterError::(\w+)\)", rhs) if rhs.lstrip().startswith("return") or rhs.lstrip().startswith("{\n                return") else None
        cm = re.search(r"NetworkFilterOption::(\w+)(\((!?)negated\))?", rhs)
        for name, neg in pats:
            if em and not (cm and cm.start() < em.start()):
                arms.append((name, neg, "err", em.group(1), ""))
            elif cm:
                arms.append((name, neg, "ok", cm.group(1), "neg" if cm.group(2) else ""))
            else:
                fail(f"cannot classify option arm {name}")
    if len(arms) < 40:
        fail(f"option table too short ({len(arms)})")
    return arms


def mime_tables(resmod):
    m = re.search(r"impl From<&MimeType> for &str \{(.*?)\n\}\n", resmod, re.S)
    if not m:
        fail("MimeType -> str map not found")
    to_str = re.findall(r"MimeType::(\w+) => \"([^\"]*)\",", m.group(1))
    m2 = re.search(r"pub fn supports_redirect\(&self\) -> bool \{\s*!matches!\(\s*self,\s*(.*?)\)\s*\}", resmod, re.S)
    if not m2:
        fail("supports_redirect not found")
    no_redirect = re.findall(r"ResourceType::(Template|Mime\(MimeType::\w+\))", m2.group(1))
    m3 = re.search(r"pub fn supports_scriptlet_injection\(&self\) -> bool \{\s*matches!\(\s*self,\s*(.*?)\)\s*\}", resmod, re.S)
    if not m3:
        fail("supports_scriptlet_injection not found")
    inj = re.findall(r"ResourceType::(Template|Mime\(MimeType::\w+\))", m3.group(1))
    return to_str, no_redirect, inj


def serialize_fields():
    """HashMap/HashSet fields of Serialize structs in data_format/v0.rs and network_filter_list.rs with their serialize_with"""
    out = []
    for rel in ["data_format/v0.rs", "network_filter_list.rs"]:
        src = read(rel)
        for sm in re.finditer(r"#\[derive\(([^\]]*)\)\]\s*(?:#\[[^\]]*\]\s*)*pub\(crate\) struct (\w+)(?:<[^>]*>)? \{(.*?)\n\}", src, re.S):
            derives, name, body = sm.group(1), sm.group(2), sm.group(3)
            if "Serialize" not in derives.replace("Deserialize", ""):
                continue
            # fields with preceding attributes
            for fm in re.finditer(r"((?:\s*#\[[^\]]*\]\s*\n)*)\s*(?:pub(?:\(crate\))? )?(\w+): ([^\n]+),", body):
                attrs, fname, fty = fm.group(1), fm.group(2), fm.group(3)
                if re.search(r"\bHash(Map|Set)<", fty):
                    sw = re.search(r"serialize_with = \"([^\"]+)\"", attrs)
                    out.append((rel, name, fname, sw.group(1) if sw else ""))
    return out


CELL_RE = re.compile(r"\b(RefCell|Cell|Mutex|RwLock|Atomic\w+|OnceCell|OnceLock|UnsafeCell|Lazy|Condvar|Once|Barrier)\b")


def strip_test_modules(src):
    """drops inline `mod …tests { … }` blocks (test code is not part of the library)"""
    out, skip = [], False
    for line in src.split("\n"):
        if not skip and re.match(r"^(pub )?mod \w*tests? \{", line):
            skip = True
            continue
        if skip:
            if line.startswith("}"):
                skip = False
            continue
        out.append(line)
    return "\n".join(out)


def shared_cells():
    """every place the library can hold state that survives a call or is shared between threads:
    struct fields of an interior-mutability type, `static` items, thread_local!, unsafe impls.
    (file, container, name, type)"""
    out = []
    root = SRC
    for dirpath, _dirs, files in sorted(os.walk(root)):
        if "flatbuffers" in dirpath:
            continue
        for fn in sorted(files):
            if not fn.endswith(".rs"):
                continue
            rel = os.path.relpath(os.path.join(dirpath, fn), root)
            src = strip_test_modules(open(os.path.join(dirpath, fn)).read())
            src_nc = "\n".join(l for l in src.split("\n") if not l.lstrip().startswith("//"))
            for sm in re.finditer(r"^(?:pub(?:\([a-z]+\))? )?struct (\w+)(?:<[^>{]*>)? \{(.*?)^\}", src_nc, re.S | re.M):
                for fm in re.finditer(r"^\s*(?:pub(?:\([a-z]+\))? )?(\w+): ([^\n]+?),?\s*$", sm.group(2), re.M):
                    if CELL_RE.search(fm.group(2)):
                        out.append((rel, sm.group(1), fm.group(1), fm.group(2).strip()))
            for m in re.finditer(r"^\s*(?:pub(?:\([a-z]+\))? )?static (mut )?(\w+): ([^=]+?)\s*=", src_nc, re.M):
                out.append((rel, "static mut" if m.group(1) else "static", m.group(2), " ".join(m.group(3).split())))
            for m in re.finditer(r"thread_local!", src_nc):
                out.append((rel, "thread_local", "", ""))
            for m in re.finditer(r"^\s*unsafe impl(?:<[^>]*>)? (\w+) for (\w+)", src_nc, re.M):
                out.append((rel, "manual marker impl", m.group(2), m.group(1)))
    return out


def lock_fns():
    """methods of `impl Blocker`. Accessors are the methods that touch the cell directly
    (`self.regex_manager`); for every method: (name, receiver, calls of an accessor, of which bound to
    a local with `let`, direct cell uses / explicit guard drops, methods of self it calls).
    Returns (accessor names, rows)."""
    src = "\n".join(l for l in read("blocker.rs").split("\n") if not l.lstrip().startswith("//"))
    fns = []
    for im in re.finditer(r"^impl Blocker \{(.*?)^\}", src, re.S | re.M):
        body = im.group(1)
        starts = [(m.start(), m.group(1)) for m in re.finditer(r"^    (?:pub(?:\([a-z]+\))? )?fn (\w+)", body, re.M)]
        for k, (pos, name) in enumerate(starts):
            end = starts[k + 1][0] if k + 1 < len(starts) else len(body)
            fns.append((name, body[pos:end]))
    accessors = sorted(set(n for n, t in fns if re.search(r"self\.regex_manager\b", t)))
    acc_re = "|".join(re.escape(a) for a in accessors) or "borrow_regex_manager"
    out = []
    for name, text in fns:
        sig = text[:text.find("{")] if "{" in text else text
        recv = "&mut self" if "&mut self" in sig else ("&self" if "&self" in sig else ("self" if re.search(r"\(\s*(mut )?self\b", sig) else ""))
        borrows = 0 if name in accessors else len(re.findall(r"self\.(?:%s)\(\)" % acc_re, text))
        letb = len(re.findall(r"let (?:mut )?\w+ = self\.(?:%s)\(\);" % acc_re, text))
        direct = len(re.findall(r"self\.regex_manager\b", text)) + len(re.findall(r"drop\(\s*regex_manager\s*\)", text))
        calls = sorted(set(re.findall(r"self\.(\w+)\(", text)))
        out.append((name, recv, borrows, letb, direct, calls))
    return accessors, out


def cb_tables():
    """content_blocking.rs: the escaped character class and the resource-type flag table"""
    try:
        src = read("content_blocking.rs")
    except Exception:
        return "", []
    m = re.search(r'SPECIAL_CHARS: Lazy<Regex> =\s*Lazy::new\(\|\| Regex::new\(r##"\(\[(.*?)\]\)"##\)', src, re.S)
    special = ""
    if m:
        cls = m.group(1)
        # un-escape the regex character class: `\x` stands for x
        i = 0
        while i < len(cls):
            if cls[i] == "\\" and i + 1 < len(cls):
                special += cls[i + 1]
                i += 2
            else:
                special += cls[i]
                i += 1
    flags = []
    for fm in re.finditer(r"push_if_flag!\((\w+)(?:, (\w+))?\);", src):
        flags.append((fm.group(1), fm.group(2) or ""))
    return special, flags


def main():
    bits, comps = section("mask", lambda: mask_bits(read("filters/network.rs")))
    bits = dict(bits); comps = dict(comps)
    rtm = section("reqtypemap", lambda: req_type_map(read("filters/network.rs")))
    cpt, cpt_default = section("cpt", lambda: cpt_match(read("request.rs")))
    rtypes = section("reqtypes", lambda: req_types(read("request.rs")))
    esc = section("escaped", lambda: escaped_table(read("resources/resource_storage.rs")))
    bad = section("badtokens", lambda: bad_tokens(read("network_filter_list.rs")))
    tmax = section("tokenconsts", lambda: token_consts(read("utils.rs")))
    opts = section("options", lambda: option_table(read("filters/abstract_network.rs")))
    mimes, no_redirect, inj = section("mime", lambda: mime_tables(read("resources/mod.rs")))
    ser = section("serialize", serialize_fields)
    cells = section("cells", shared_cells)
    accessors, locks = section("locks", lock_fns)
    special, cbflags = section("cb", cb_tables)

    L = ["-- GENERATED by tools/extract_tables.py from /repo/src on every run. Do not edit.",
         "namespace Adb.Gen", ""]
    L.append("/-- bit index of every single-bit `NetworkFilterMask` flag -/")
    for name, b in sorted(bits.items(), key=lambda kv: kv[1]):
        L.append(f"def {name} : Nat := {b}")
    L.append("")
    L.append("def maskFlags : List (String × Nat) := [" + ", ".join(f"({lean_str(n)}, {b})" for n, b in sorted(bits.items(), key=lambda kv: kv[1])) + "]")
    for cname, members in comps.items():
        # expand nested composites
        def expand(ms):
            out = []
            for x in ms:
                if x in comps:
                    out += expand(comps[x])
                else:
                    out.append(x)
            return out
        L.append(f"def {cname} : List Nat := [" + ", ".join(expand(members)) + "]")
    L.append("")
    L.append("/-- `enum RequestType` in declaration order -/")
    L.append("def requestTypes : List String := [" + ", ".join(lean_str(t) for t in rtypes) + "]")
    L.append("/-- `impl From<&RequestType> for NetworkFilterMask` -/")
    L.append("def requestTypeBit : List (String × Nat) := [" + ", ".join(f"({lean_str(t)}, {f})" for t, f in rtm) + "]")
    L.append("/-- `cpt_match_type` -/")
    L.append("def cptMatch : List (String × String) := [" + ", ".join(f"({lean_str(a)}, {lean_str(b)})" for a, b in cpt) + "]")
    L.append(f"def cptDefault : String := {lean_str(cpt_default)}")
    L.append("")
    L.append("def badTokens : List String := [" + ", ".join(lean_str(t) for t in bad) + "]")
    L.append(f"def TOKENS_MAX : Nat := {tmax}")
    L.append("")
    L.append("/-- the 256-entry `ESCAPED` table of `stringify_arg` -/")
    L.append("def ESCAPED : List Nat := [" + ", ".join(str(v) for v in esc) + "]")
    L.append("")
    L.append("/-- arms of `parse_filter_options`: (option name, pattern on negation, ok/err, constructor or error, `neg` if the payload is `!negated`) -/")
    L.append("def optionArms : List (String × String × String × String × String) := [" + ", ".join(
        f"({lean_str(a)}, {lean_str(b)}, {lean_str(c)}, {lean_str(d)}, {lean_str(e)})" for a, b, c, d, e in opts) + "]")
    L.append("")
    L.append("def mimeStrings : List (String × String) := [" + ", ".join(f"({lean_str(a)}, {lean_str(b)})" for a, b in mimes) + "]")
    L.append("def noRedirectKinds : List String := [" + ", ".join(lean_str(x) for x in no_redirect) + "]")
    L.append("def injectableKinds : List String := [" + ", ".join(lean_str(x) for x in inj) + "]")
    L.append("")
    L.append("/-- every HashMap/HashSet field of a `Serialize` struct of the wire format with its `serialize_with` -/")
    L.append("def hashContainerFields : List (String × String × String × String) := [" + ", ".join(
        f"({lean_str(a)}, {lean_str(b)}, {lean_str(c)}, {lean_str(d)})" for a, b, c, d in ser) + "]")
    L.append("")
    L.append("/-- content_blocking.rs: characters of `SPECIAL_CHARS` (escaped with a backslash in url-filter) -/")
    L.append(f"def cbSpecialChars : String := {lean_str(special)}")
    L.append("def cbSpecialCharList : List Char := [" + ", ".join("'\\\\'" if c == "\\" else ("'\\''" if c == "'" else f"'{c}'") for c in special) + "]")
    L.append("/-- content_blocking.rs: `push_if_flag!` table: request-type flag, Safari resource type (empty = unsupported) -/")
    L.append("def cbTypeFlags : List (Nat × String) := [" + ", ".join(f"({a}, {lean_str(b)})" for a, b in cbflags) + "]")
    L.append("")
    L.append("/-- every struct field of an interior-mutability type, every `static`, `thread_local!` and `unsafe impl` of the library: (file, container, name, type) -/")
    L.append("def sharedCells : List (String × String × String × String) := [" + ", ".join(
        f"({lean_str(a)}, {lean_str(b)}, {lean_str(c)}, {lean_str(d)})" for a, b, c, d in cells) + "]")
    L.append("/-- the methods of `impl Blocker` that touch the regex-manager cell directly -/")
    L.append("def lockAccessors : List String := [" + ", ".join(lean_str(a) for a in accessors) + "]")
    L.append("/-- methods of `impl Blocker`: (name, receiver, accessor calls, let-bound ones, direct cell uses / guard drops, self-calls) -/")
    L.append("def lockFns : List (String × String × Nat × Nat × Nat × List String) := [" + ", ".join(
        f"({lean_str(n)}, {lean_str(r)}, {b}, {lb}, {d}, [" + ", ".join(lean_str(c) for c in cs) + "])" for n, r, b, lb, d, cs in locks) + "]")
    L.append("")
    L.append("end Adb.Gen")
    text = "\n".join(L) + "\n"
    os.makedirs(os.path.dirname(OUT), exist_ok=True)
    json.dump({"failed": FAILED}, open(STATUS_FILE, "w"), indent=1)
    if "--write-fallback" in sys.argv:
        if FAILED:
            print("extract_tables: refusing to write a fallback from a partial extraction")
            sys.exit(1)
        json.dump(VALUES, open(FALLBACK_FILE, "w"), indent=1)
        print("extract_tables: wrote", FALLBACK_FILE)
    if not os.path.exists(OUT) or open(OUT).read() != text:
        open(OUT, "w").write(text)
        print("extract_tables: wrote", OUT)
    else:
        print("extract_tables: unchanged")


if __name__ == "__main__":
    main()
