#!/bin/bash
# import_seed3.sh <PROP> <letter> : confirms /tmp/seed$ROUND/<PROP>-out (ROUND defaults to 3) in the scratch
# worktree /tmp/seed$ROUND/<PROP> (demo with / without the patch, unedited suite with the patch) and stores it
# as /verif/seeded/<PROP>-<letter>/ ; DEMO_FLAGS is taken from summary.json's demo_flags when present
P=$1; X=$2; R=${ROUND:-3}
SRC=/tmp/seed$R/$P-out; WT=/tmp/seed$R/$P
[ -f $SRC/patch.diff ] && [ -f $SRC/demo.rs ] || { echo "$P: deliverables missing"; exit 2; }
FLAGS=$(python3 -c "
import json,re,sys
try:
    f=json.load(open('$SRC/summary.json')).get('demo_flags') or ''
except Exception: f=''
m=re.search(r'(--no-default-features(?: --features [A-Za-z0-9_,-]+)?)', f) or re.search(r'(--features [A-Za-z0-9_,-]+)', f)
print(m.group(1).strip() if m else '')")
LINE=$(DEMO_FLAGS="$FLAGS" bash /verif/tools/confirm_seed.sh $SRC $WT | tail -1)
echo "$P [$FLAGS] $LINE"
python3 - "$P" "$X" "$LINE" "$R" "$FLAGS" <<'PY'
import json, os, shutil, sys
prop, x, confirm, rnd, flags = sys.argv[1:6]
src = f"/tmp/seed{rnd}/{prop}-out"; dst = f"/verif/seeded/{prop}-{x}"
os.makedirs(dst, exist_ok=True)
shutil.copy(f"{src}/patch.diff", f"{dst}/patch.diff"); shutil.copy(f"{src}/demo.rs", f"{dst}/demo.rs")
try: m = json.load(open(f"{src}/summary.json"))
except Exception: m = {}
json.dump({"breaks_property": prop, "summary": m.get("summary"), "needs_to_manifest": m.get("needs_to_manifest"), "demo_flags": flags or None,
  "origin": f"written by an independent sub-agent (round {rnd}) that saw only the property text and its own scratch worktree of /repo",
  "confirmed_by_me": {"how": "tools/confirm_seed.sh in a scratch worktree: demo test with and without the patch, then the full baseline suite with the patch", "result": confirm},
  "detected_by": None}, open(f"{dst}/meta.json", "w"), indent=1)
PY
