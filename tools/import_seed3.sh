#!/bin/bash
# import_seed3.sh <PROP> <letter> : confirms /tmp/seed3/<PROP>-out in the scratch worktree /tmp/seed3/<PROP>
# (demo with / without the patch, unedited suite with the patch) and stores it as /verif/seeded/<PROP>-<letter>/
P=$1; X=$2
SRC=/tmp/seed3/$P-out; WT=/tmp/seed3/$P
[ -f $SRC/patch.diff ] && [ -f $SRC/demo.rs ] || { echo "$P: deliverables missing"; exit 2; }
LINE=$(bash /verif/tools/confirm_seed.sh $SRC $WT | tail -1)
echo "$P $LINE"
python3 - "$P" "$X" "$LINE" <<'PY'
import json, os, shutil, sys
prop, x, confirm = sys.argv[1:4]
src = f"/tmp/seed3/{prop}-out"; dst = f"/verif/seeded/{prop}-{x}"
os.makedirs(dst, exist_ok=True)
shutil.copy(f"{src}/patch.diff", f"{dst}/patch.diff"); shutil.copy(f"{src}/demo.rs", f"{dst}/demo.rs")
try: m = json.load(open(f"{src}/summary.json"))
except Exception: m = {}
json.dump({"breaks_property": prop, "summary": m.get("summary"), "needs_to_manifest": m.get("needs_to_manifest"),
  "origin": "written by an independent sub-agent (third round) that saw only the property text and its own scratch worktree of /repo",
  "confirmed_by_me": {"how": "tools/confirm_seed.sh in a scratch worktree: demo test with and without the patch, then the full baseline suite with the patch", "result": confirm},
  "detected_by": None}, open(f"{dst}/meta.json", "w"), indent=1)
PY
