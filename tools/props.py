"""Per-property configuration of the orchestrator (what to build, what to run, how much)."""

PROPS = {
    "C14": {
        "lean_modules": ["Adb.Props.C14"],
        "audits": ["Audit/C14.lean"],
        "expected_theorems": ["rewrite_eq_spec", "show_parse", "none_when_nothing_removed", "none_when_important", "prefix_and_fragment_preserved"],
        "harness_prop": "C14",
        "n": {"quick": 4000, "thorough": 150000},
        "rule": "rule lists of 1-5 removeparam rules (patterns, type/party/domain/important options) plus optional blocking/important rules; URLs with generated query strings (empty keys/values, repeats, '=' in values, '&&', '?'/'#' placements, non-ASCII); the names of the matching rules are computed per rule through the public matcher, the engine's rewritten_url is compared with the Lean model and the Lean reference semantics. non-trivial = at least one removeparam rule matches and the URL has a '?'; distinct = distinct driver input line",
        "trusted": ["C14: which removeparam rules match a request is taken from the per-rule public matcher (C01-C03 decide matching); the model covers Blocker::apply_removeparam and the important-guard"],
        "assumptions": ["memchr offsets of ASCII bytes are char boundaries (valid UTF-8), so byte slicing equals list splitting"],
    },
}
