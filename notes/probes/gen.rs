pub struct R(pub u64);
impl R{ pub fn n(&mut self)->u64{ self.0=self.0.wrapping_add(0x9E3779B97F4A7C15); let mut z=self.0; z=(z^(z>>30)).wrapping_mul(0xBF58476D1CE4E5B9); z=(z^(z>>27)).wrapping_mul(0x94D049BB133111EB); z^(z>>31)} pub fn b(&mut self,m:usize)->usize{ (self.n()%(m as u64)) as usize } pub fn p(&mut self, pc:usize)->bool{ self.b(100)<pc } }
pub const TOK:&[&str]=&["ad","ads","bad","adx","foo","fo","oo","bar","ba","x","y1","www","com","net","http","https","a%20b","q"];
pub const DL:&[&str]=&["/","/","/",".","-","_","?","=","&",":","^","^","*","*","//"];
pub fn pat(r:&mut R)->String{ let n=1+r.b(4); let mut s=String::new(); if r.p(15){ s.push_str(DL[r.b(DL.len())]); } for i in 0..n { s.push_str(TOK[r.b(TOK.len())]); if i+1<n || r.p(40) { s.push_str(DL[r.b(DL.len())]); } } s }
pub fn host(r:&mut R)->String{ let n=1+r.b(3); let mut v=vec![]; for _ in 0..n { v.push(TOK[r.b(8)].to_string()); } v.push(["com","net","co.uk"][r.b(3)].to_string()); v.join(".") }
pub fn rule(r:&mut R, extra:bool)->String{
    let mut s=String::new(); if r.p(25){ s.push_str("@@"); }
    match r.b(6){ 0|1=>{ s.push_str(&pat(r)); } 2=>{ s.push('|'); s.push_str(["https://","http://","https://","ws://"][r.b(4)]); if r.p(80){ s.push_str(&host(r)); s.push_str(&pat(r)); } }
      3|4=>{ s.push_str("||"); s.push_str(&host(r)); match r.b(4){0=>s.push('^'),1=>{},2=>{ s.push('/'); s.push_str(&pat(r)); } _=>{ s.push_str(["^","*","/"][r.b(3)]); s.push_str(&pat(r)); } } }
      _=>{ s.push_str(&pat(r)); } }
    if r.p(15){ s.push('|'); }
    let mut opts=vec![]; if r.p(20){ opts.push(["script","image","~script","document","xhr","websocket","~image,~script"][r.b(7)].to_string()); } if r.p(15){ opts.push(["third-party","~third-party","1p"][r.b(3)].to_string()); }
    if r.p(20){ let mut d=vec![]; for _ in 0..1+r.b(2){ let h=host(r); d.push(if r.p(25){format!("~{}",h)}else{h}); } opts.push(format!("domain={}", d.join("|"))); }
    if r.p(8){ opts.push("important".into()); }
    if extra { if r.p(10){ opts.push(format!("tag={}",["t1","t2"][r.b(2)])); } if r.p(6){ opts.push("badfilter".into()); } if r.p(6){ opts.push(format!("csp={}",["x","y"][r.b(2)])); } if r.p(6){ opts.push(format!("redirect{}={}{}",["","-rule"][r.b(2)],["a.js","b.gif"][r.b(2)],["",":5",":-1",":x"][r.b(4)])); } if r.p(5){ opts.push(format!("removeparam={}",["k","ad","foo_bar"][r.b(3)])); } if r.p(3){ opts.push("match-case".into()); } }
    if !opts.is_empty(){ s.push('$'); s.push_str(&opts.join(",")); }
    s }
pub fn url_from(r:&mut R, rules:&[String])->(String,String,String){
    let base = &rules[r.b(rules.len())];
    let mut body = base.trim_start_matches("@@").to_string(); if let Some(i)=body.rfind('$'){ body.truncate(i); }
    let src_from_dom = base.split("domain=").nth(1).map(|d| d.split(|c| c=='|'||c==',').next().unwrap().trim_start_matches('~').to_string());
    let mut u;
    if let Some(b)=body.strip_prefix("||"){ let b=b.trim_end_matches('|'); let hl=b.find(|c| c=='/'||c=='^'||c=='*').unwrap_or(b.len()); let (h,rest)=b.split_at(hl);
        u=format!("https://{}{}{}", if r.p(40){ format!("{}.",TOK[r.b(8)]) } else {String::new()}, h, rest.replace('^',["/","?",":","*","!"][r.b(5)]).replace('*',["","x","/zz/"][r.b(3)])); if !u[8..].contains('/'){ u.push('/'); } }
    else if let Some(b)=body.strip_prefix('|'){ u=b.trim_end_matches('|').replace('^',"/").replace('*',"zz"); if !u.contains("://"){ u=format!("https://{}",u);} if u.matches('/').count()<3 { u.push('/'); } }
    else { let b=body.trim_end_matches('|').replace('^',["/","?","&","*","~"][r.b(5)]).replace('*',["","q","/zz/"][r.b(3)]); u=format!("https://{}/{}{}{}", host(r), if r.p(50){ ["l","x","zz/","ad","s"][r.b(5)] } else {""}, b, if base.ends_with('|')||r.p(40) {""} else {["s","x","/more","?k=v"][r.b(4)]}); }
    if r.p(10){ u=u.replacen("https","http",1); } if r.p(4){ u=u.replacen("https","wss",1); }
    if r.p(30){ let i=9.min(u.len())+r.b(u.len().saturating_sub(9).max(1)); if u.is_char_boundary(i){ match r.b(5){0=>{u.insert(i,'x');},1=>{ if i<u.len(){u.remove(i);} },2=>{u.insert(i,'*');},3=>{u.insert(i,'%');},_=>{u.insert(i,'/');} } } }
    let src = if r.p(10){ String::new() } else if let (Some(d),true)=(src_from_dom, r.p(60)) { format!("https://{}{}/", if r.p(30){"sub."}else{""}, d) } else if r.p(50) { u.clone() } else { format!("https://{}/",host(r)) };
    let ty=["script","image","document","xhr","other","websocket","subdocument"][r.b(7)].to_string();
    (u,src,ty) }
