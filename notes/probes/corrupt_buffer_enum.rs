use adblock::Engine;
use adblock::lists::ParseOptions;
use adblock::request::Request;
use adblock::resources::{Resource, ResourceType, MimeType};
use std::panic::catch_unwind;
use std::collections::BTreeMap;
fn main(){
    std::panic::set_hook(Box::new(|i|{ eprintln!("PANIC {}", i.to_string().replace("\n"," | ")); }));
    let sets: Vec<Vec<&str>> = vec![
      vec!["||a.com^","/ads/*$script","@@||b.com/x|$image","|https://c.com/|","/re[0-9]+/$match-case","a.com##.x","b.com#@#.y","c.com##+js(a, b)","||d.com^$csp=x","||e.com^$redirect=noop.js","||t.com^$tag=q","*$removeparam=u","||g.com*f^$important","@@||h.com^$generichide"],
      vec!["/x/","/a|b/$image","ad*s^x|","||w.com^*y|","##.g","###i","##.c > d","##a[b]","a.com,b.*,~c.a.com##.z:style(top: 0)","a.com##.q:remove()","a.com#@#+js()","d.com##+js(\"q, r\", 's')","||r.com^$redirect-rule=x.gif:3,domain=a.com|~b.com"],
    ];
    let res=|n:&str,m:MimeType,c:&str| Resource{name:n.into(),aliases:vec![],kind:ResourceType::Mime(m),content:c.into(),dependencies:vec![],permission:Default::default()};
    let reqs: Vec<Request> = ["https://a.com/ads/x.js","https://sub.b.com/x","https://c.com/","https://d.com/re123/x","https://g.com/xf/","https://h.com/","http://t.com/?u=1","https://w.com/zy","https://r.com/","https://q.com/ads/x|","wss://a.com/"].iter().flat_map(|u| ["script","image","document","subdocument"].iter().map(move |t| Request::new(u,"https://a.com/",t).unwrap())).collect();
    let mut site:BTreeMap<String,u32>=BTreeMap::new();
    for (si,rules) in sets.iter().enumerate() { for opt in [false,true] { for debug in [false,true] {
        let e = Engine::from_rules_parametrised(rules.iter(), ParseOptions::default(), debug, opt);
        let buf = e.serialize_raw().unwrap();
        let (mut ok,mut err,mut lp,mut qp)=(0,0,0,0);
        let mut variants: Vec<Vec<u8>> = vec![];
        for pos in 0..buf.len() { for bit in 0..8 { let mut b=buf.clone(); b[pos]^=1<<bit; variants.push(b); } }
        for n in 0..buf.len() { variants.push(buf[..n].to_vec()); }
        for pos in (0..buf.len()).step_by(3) { for v in [0u8,0x7f,0x80,0x90,0xa0,0xc0,0xc4,0xd9,0xda,0xdb,0xdc,0xdd,0xde,0xdf,0xff] { let mut b=buf.clone(); b[pos]=v; variants.push(b); } }
        for b in variants {
            let r = catch_unwind(||{ let mut e=Engine::new(true); e.use_resources([res("noop.js",MimeType::ApplicationJavascript,"YQ=="),res("a.js",MimeType::ApplicationJavascript,"ZnVuY3Rpb24gYSgpIHt9")]); let r=e.deserialize(&b); (e,r.is_ok()) });
            match r { Err(_)=>{lp+=1;} Ok((_,false))=>{err+=1;} Ok((e,true))=>{ ok+=1; let e=std::panic::AssertUnwindSafe(e);
                let q=catch_unwind(||{ for r in &reqs { e.check_network_request(r); e.get_csp_directives(r);} for u in ["https://a.com/","https://c.com/","https://x.b.com/","https://d.com/"] { let r=e.url_cosmetic_resources(u); e.hidden_class_id_selectors(["g","c"],["i"],&r.exceptions); } let s=e.serialize_raw().unwrap(); let mut e3=Engine::new(false); e3.deserialize(&s).unwrap(); });
                if q.is_err(){ qp+=1; } } } }
        println!("set{} opt={} debug={} len={} ok={} err={} load_panic={} query_panic={}",si,opt,debug,buf.len(),ok,err,lp,qp);
    }}}
    let _=site;
}
