mod gen; use gen::*;
use adblock::lists::{parse_filter, ParsedFilter};
use adblock::request::Request;
use adblock::blocker::{Blocker, BlockerOptions};
use adblock::filters::network::{NetworkFilter, NetworkFilterMaskHelper};
use adblock::resources::ResourceStorage;
use adblock::regex_manager::RegexManagerDiscardPolicy;
use std::collections::{BTreeMap, BTreeSet};
fn verdict(b:&Blocker, req:&Request, rs:&ResourceStorage)->String{ let r=b.check(req,rs); let csp=b.get_csp_directives(req).map(|s| s.split(',').map(String::from).collect::<BTreeSet<_>>()); format!("m={} i={} e={} rw={:?} csp={:?}", r.matched,r.important,r.exception.is_some(),r.rewritten_url,csp) }
fn main(){
    let n: usize = std::env::args().nth(1).and_then(|s|s.parse().ok()).unwrap_or(2000);
    let seed: u64 = std::env::args().nth(2).and_then(|s|s.parse().ok()).unwrap_or(1);
    let mut r=R(seed); let rs=ResourceStorage::default(); let mut diffs=0; let mut queries=0u64; let mut ex:BTreeMap<String,(u32,String)>=BTreeMap::new();
    for _ in 0..n {
        let opt=r.p(50);
        let k=r.b(5); let init:Vec<String>=(0..k).map(|_| rule(&mut r,true)).filter(|s| !s.contains("badfilter")).collect();
        let mut all:Vec<(String,NetworkFilter)>=init.iter().filter_map(|s| match parse_filter(s,true,Default::default()){ Ok(ParsedFilter::Network(f))=>Some((s.clone(),f)), _=>None }).collect();
        let mut b=Blocker::new(all.iter().map(|(_,f)| f.clone()).collect(), &BlockerOptions{enable_optimizations:opt});
        let mut tags:BTreeSet<String>=BTreeSet::new(); let mut hist=vec![format!("new({:?},opt={})",init,opt)];
        let steps=5+r.b(40);
        for _ in 0..steps { match r.b(10) {
            0|1 => { let t=["t1","t2"][r.b(2)]; match r.b(3){ 0=>{ b.use_tags(&[t]); tags.clear(); tags.insert(t.into()); hist.push(format!("use({})",t)); } 1=>{ b.enable_tags(&[t]); tags.insert(t.into()); hist.push(format!("enable({})",t)); } _=>{ b.disable_tags(&[t]); tags.remove(t); hist.push(format!("disable({})",t)); } } }
            2 => { let s=rule(&mut r,true); if s.contains("badfilter"){continue;} if let Ok(ParsedFilter::Network(f))=parse_filter(&s,true,Default::default()){ let res=b.add_filter(f.clone()); hist.push(format!("add({:?})={:?}",s,res)); if res.is_ok() || !all.iter().any(|(l,_)| *l==s) { if res.is_ok(){ all.push((s,f)); } } } }
            3 => { b.optimize(); hist.push("optimize".into()); }
            4 => { b.set_regex_discard_policy(RegexManagerDiscardPolicy{cleanup_interval:std::time::Duration::from_nanos(1),discard_unused_time:std::time::Duration::from_nanos(1)}); hist.push("policy0".into()); }
            _ => { let lines:Vec<String>=all.iter().map(|(l,_)| l.clone()).collect(); if lines.is_empty(){continue;} let (u,s,t)=url_from(&mut r,&lines); let req=match Request::new(&u,&s,&t){Ok(q)=>q,Err(_)=>continue};
                   let got=verdict(&b,&req,&rs);
                   let mut fresh=Blocker::new(all.iter().map(|(_,f)| f.clone()).collect(), &BlockerOptions{enable_optimizations:false}); let tv:Vec<&str>=tags.iter().map(|s| s.as_str()).collect(); fresh.use_tags(&tv);
                   let want=verdict(&fresh,&req,&rs); queries+=1;
                   if got!=want { diffs+=1; let key=format!("diff"); let en=ex.entry(key).or_insert((0,String::new())); en.0+=1; if en.1.len()<3000 { en.1.push_str(&format!("\n  hist={:?}\n   q=({},{},{}) got={} want={}",hist,u,s,t,got,want)); } }
                   hist.push(format!("check({})",u)); }
        } }
    }
    println!("queries {} diffs {}",queries,diffs); for (k,(n,e)) in ex { println!("{} x{} {}",k,n,e); }
}
