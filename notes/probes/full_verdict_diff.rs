mod gen; use gen::*;
use adblock::Engine;
use adblock::lists::{ParseOptions, parse_filter, ParsedFilter};
use adblock::request::{Request, RequestType};
use adblock::filters::network::{NetworkFilter, NetworkMatchable, NetworkFilterMaskHelper};
use adblock::regex_manager::RegexManager;
use adblock::resources::{Resource, ResourceType, MimeType};
use std::collections::{BTreeMap, BTreeSet, HashSet};
fn tag_of(line:&str)->Option<String>{ let i=line.rfind('$')?; line[i+1..].split(',').find_map(|o| o.strip_prefix("tag=").map(|s| s.to_string())) }
fn prio(s:&str)->(&str,i32){ if let Some(i)=s.rfind(':'){ if let Ok(p)=s[i+1..].parse::<i32>(){ return (&s[..i],p);} } (s,0) }
#[derive(Debug,PartialEq,Clone)] struct V{ matched:bool, important:bool, exc:bool, redirect:BTreeSet<Option<String>>, rewritten:Option<String>, csp:Option<BTreeSet<String>> }
fn removeparam(url:&str, names:&[String])->Option<String>{
    let i=url.find('?')?; let hash=url[i+1..].find('#').map(|j| i+1+j).unwrap_or(url.len());
    let q=&url[i+1..hash]; let mut changed=false; let mut kept=vec![];
    for seg in q.split('&'){ if let Some((k,v))=seg.split_once('='){ if !v.is_empty() && names.iter().any(|n| n==k){ changed=true; continue; } } kept.push(seg); }
    if !changed {return None;} let j=kept.join("&"); Some(format!("{}{}{}",&url[..i], if j.is_empty(){String::new()}else{format!("?{}",j)}, &url[hash..])) }
fn oracle(parsed:&[(String,NetworkFilter)], tags:&HashSet<String>, req:&Request, orig_url:&str)->V{
    let bad:HashSet<u64>=parsed.iter().filter(|(_,f)| f.is_badfilter()).map(|(_,f)| f.get_id_without_badfilter()).collect();
    let live:Vec<&(String,NetworkFilter)>=parsed.iter().filter(|(_,f)| !f.is_badfilter() && !bad.contains(&f.get_id())).collect();
    let m=|f:&NetworkFilter| f.matches(req,&mut RegexManager::default());
    let act=|l:&str| tag_of(l).map(|t| tags.contains(&t)).unwrap_or(true);
    let untag=|l:&str| tag_of(l).is_none();
    let mut v=V{matched:false,important:false,exc:false,redirect:BTreeSet::new(),rewritten:None,csp:None};
    // csp
    if req.request_type==RequestType::Document || req.request_type==RequestType::Subdocument {
        let hits:Vec<&&(String,NetworkFilter)>=live.iter().filter(|(l,f)| f.is_csp() && m(f) && act(l)).collect();
        if !hits.is_empty(){ let mut en=BTreeSet::new(); let mut dis=BTreeSet::new(); let mut blanket=false;
            for (_,f) in hits.iter().map(|x| &***x){ match (&f.modifier_option, f.is_exception()){ (Some(d),true)=>{dis.insert(d.clone());} (None,true)=>{blanket=true;} (Some(d),false)=>{en.insert(d.clone());} _=>{} } }
            if !blanket { let rem:BTreeSet<String>=en.difference(&dis).cloned().collect(); if !rem.is_empty(){ v.csp=Some(rem);} } } }
    if !req.is_supported { v.redirect.insert(None); return v; }
    let cat=|f:&NetworkFilter,l:&str|->&'static str{ if f.is_csp(){"csp"} else if f.is_removeparam(){"rp"} else if f.is_generic_hide(){"gh"} else if f.is_exception(){"exc"} else if f.is_important(){"imp"} else if tag_of(l).is_some() && !f.is_redirect(){"tagged"} else if !f.is_redirect() || f.also_block_redirect(){"normal"} else {"none"} };
    let imp=live.iter().any(|(l,f)| cat(f,l)=="imp" && m(f) && act(l));
    let blk= imp || live.iter().any(|(l,f)| (cat(f,l)=="tagged" && m(f) && act(l)) || (cat(f,l)=="normal" && m(f) && untag(l)));
    let exc= !imp && blk && live.iter().any(|(l,f)| cat(f,l)=="exc" && m(f) && act(l));
    v.important=imp; v.exc=exc; v.matched=blk && !exc;
    // redirect
    let reds:Vec<&NetworkFilter>=live.iter().filter(|(l,f)| f.is_redirect() && m(f) && untag(l)).map(|(_,f)| f).collect();
    let excs:Vec<&str>=reds.iter().filter(|f| f.is_exception()).filter_map(|f| f.modifier_option.as_deref()).collect();
    let cands:Vec<(&str,i32)>=reds.iter().filter(|f| !f.is_exception()).filter_map(|f| f.modifier_option.as_deref()).filter(|s| !excs.contains(s)).map(prio).collect();
    if let Some(mx)=cands.iter().map(|c| c.1).max(){ for (res,p) in &cands { if *p==mx { v.redirect.insert(match *res { "a.js"=>Some("data:application/javascript;base64,YQ==".to_string()), "b.gif"=>Some("data:image/gif;base64,Yg==".to_string()), _=>None }); } } } else { v.redirect.insert(None); }
    // removeparam
    if !imp { let names:Vec<String>=live.iter().filter(|(l,f)| f.is_removeparam() && m(f) && untag(l)).filter_map(|(_,f)| f.modifier_option.clone()).collect(); v.rewritten=removeparam(orig_url,&names); }
    v }
fn main(){
    let n: usize = std::env::args().nth(1).and_then(|s|s.parse().ok()).unwrap_or(20000);
    let seed: u64 = std::env::args().nth(2).and_then(|s|s.parse().ok()).unwrap_or(1);
    let mut r=R(seed); let mut diffs=0; let mut cases=0u64; let mut nontriv=0u64; let mut ex: BTreeMap<String,(u64,String)>=BTreeMap::new();
    let res=|n:&str,m:MimeType,c:&str| Resource{name:n.into(),aliases:vec![],kind:ResourceType::Mime(m),content:c.into(),dependencies:vec![],permission:Default::default()};
    for _ in 0..n { let k=1+r.b(8); let rules:Vec<String>=(0..k).map(|_| rule(&mut r,true)).collect();
        let parsed:Vec<(String,NetworkFilter)>=rules.iter().filter_map(|s| match parse_filter(s,true,Default::default()){ Ok(ParsedFilter::Network(f))=>Some((s.trim().to_string(),f)), _=>None }).collect();
        if parsed.is_empty(){continue;}
        let tags:HashSet<String>= match r.b(3){0=>HashSet::new(),1=>["t1".to_string()].into_iter().collect(),_=>["t1".to_string(),"t2".to_string()].into_iter().collect()};
        let tagv:Vec<&str>=tags.iter().map(|s| s.as_str()).collect();
        let mut engines=vec![Engine::from_rules_parametrised(rules.iter(),ParseOptions::default(),true,false),Engine::from_rules_parametrised(rules.iter(),ParseOptions::default(),true,true)];
        for e in engines.iter_mut(){ e.use_tags(&tagv); e.use_resources([res("a.js",MimeType::ApplicationJavascript,"YQ=="),res("b.gif",MimeType::ImageGif,"Yg==")]); }
        for _ in 0..6 { let (mut u,s,t)=url_from(&mut r,&rules); if r.p(30){ u.push_str(["?k=1&ad=2","?foo_bar=x&k=&k=3#k=4","&k=5"][r.b(3)]); }
            let req = match Request::new(&u,&s,&t){Ok(q)=>q,Err(_)=>continue};
            cases+=1;
            let want=oracle(&parsed,&tags,&req,&u);
            if want.matched||want.exc||want.csp.is_some()||want.rewritten.is_some()||!want.redirect.contains(&None){nontriv+=1;}
            for (ei,e) in engines.iter().enumerate(){ let b=e.check_network_request(&req); let csp=e.get_csp_directives(&req).map(|s| s.split(',').map(String::from).collect::<BTreeSet<_>>());
                let mut why=vec![];
                if b.matched!=want.matched {why.push("matched");} if b.important!=want.important {why.push("important");} if b.exception.is_some()!=want.exc {why.push("exception");}
                if !want.redirect.contains(&b.redirect) {why.push("redirect");} if b.rewritten_url!=want.rewritten {why.push("rewritten");} if csp!=want.csp {why.push("csp");}
                if !why.is_empty() { diffs+=1; let key=format!("opt={} {:?}",ei,why); let en=ex.entry(key).or_insert((0,String::new())); en.0+=1; if en.1.len()<1500 { en.1.push_str(&format!("\n    rules={:?} tags={:?} url={} src={} ty={}\n      want={:?}\n      got matched={} imp={} exc={:?} red={:?} rw={:?} csp={:?}",rules,tags,u,s,t,want,b.matched,b.important,b.exception,b.redirect,b.rewritten_url,csp)); } } }
        } }
    println!("cases {} nontrivial {} diffs {}", cases, nontriv, diffs);
    for (k,(n,e)) in ex { println!("{} x{} {}",k,n,e); }
}
