mod gen; use gen::*;
use adblock::Engine;
use adblock::lists::ParseOptions;
use adblock::request::Request;
use adblock::resources::{Resource, ResourceType, MimeType};
use std::collections::{BTreeMap, BTreeSet};
fn verdict(e:&Engine, req:&Request)->String{ let r=e.check_network_request(req); let csp=e.get_csp_directives(req).map(|s| s.split(',').map(String::from).collect::<BTreeSet<_>>()); format!("m={} i={} e={} red={:?} rw={:?} csp={:?} f={:?} x={:?}", r.matched,r.important,r.exception.is_some(),r.redirect,r.rewritten_url,csp,r.filter.is_some(),r.exception) }
fn cos(e:&Engine,u:&str)->String{ let r=e.url_cosmetic_resources(u); let mut h:Vec<_>=r.hide_selectors.iter().cloned().collect(); h.sort(); let mut p:Vec<_>=r.procedural_actions.iter().cloned().collect(); p.sort(); let mut x:Vec<_>=r.exceptions.iter().cloned().collect(); x.sort(); let mut g=e.hidden_class_id_selectors(["c0","c1","c2"],["i0","i1"],&r.exceptions); g.sort(); format!("{:?} {:?} {:?} {:?} gh={} g={:?}",h,p,x,r.injected_script,r.generichide,g) }
fn main(){
    let n: usize = std::env::args().nth(1).and_then(|s|s.parse().ok()).unwrap_or(2000);
    let seed: u64 = std::env::args().nth(2).and_then(|s|s.parse().ok()).unwrap_or(1);
    let mut r=R(seed); let mut diffs=0; let mut q=0u64; let mut fix=0; let mut ex:BTreeMap<String,(u32,String)>=BTreeMap::new();
    let res=|n:&str,m:MimeType,c:&str| Resource{name:n.into(),aliases:vec![],kind:ResourceType::Mime(m),content:c.into(),dependencies:vec![],permission:Default::default()};
    for _ in 0..n { let k=1+r.b(10); let mut rules:Vec<String>=(0..k).map(|_| rule(&mut r,true)).collect();
        for _ in 0..r.b(5){ let h=host(&mut r); let sel=["##.c0","##.c1 > a","###i0","##a[href]","#@#.c0","##+js(sl, x)","#@#+js(sl, x)","##.z:style(color: red)","#@#.z:style(color: red)","##.c2:remove()","##+js(sl, y)","#@#+js()"][r.b(12)]; let loc= if sel.starts_with("##.c")||sel.starts_with("###")||sel.starts_with("##a") { if r.p(50){String::new()}else{h} } else {h}; rules.push(format!("{}{}",loc,sel)); }
        if r.p(20){ rules.push(format!("@@||{}^$generichide",host(&mut r))); }
        let debug=r.p(50); let opt=r.p(50);
        let mut e=Engine::from_rules_parametrised(rules.iter(),ParseOptions::default(),debug,opt);
        let resv=vec![res("a.js",MimeType::ApplicationJavascript,"YQ=="),res("b.gif",MimeType::ImageGif,"Yg=="),res("sl.js",MimeType::ApplicationJavascript,"ZnVuY3Rpb24gc2woKSB7fQ==")];
        e.use_resources(resv.clone());
        let tags:Vec<&str>= match r.b(3){0=>vec![],1=>vec!["t1"],_=>vec!["t1","t2"]}; 
        let ser_tags:Vec<&str>= match r.b(3){0=>vec![],1=>vec!["t2"],_=>tags.clone()};
        e.use_tags(&ser_tags);
        let buf=e.serialize_raw().unwrap();
        let mut e2=Engine::new(!opt); e2.use_resources(resv.clone()); e2.use_tags(&tags); e2.deserialize(&buf).unwrap(); e.use_tags(&tags);
        if e2.serialize_raw().unwrap()==e.serialize_raw().unwrap() {fix+=1;}
        for _ in 0..6 { let (mut u,s,t)=url_from(&mut r,&rules); if r.p(30){ u.push_str("?k=1&ad=2"); } let req=match Request::new(&u,&s,&t){Ok(x)=>x,Err(_)=>continue}; q+=1;
            let a=verdict(&e,&req); let b=verdict(&e2,&req); let ca=cos(&e,&u); let cb=cos(&e2,&u);
            if a!=b || ca!=cb { diffs+=1; let key=format!("net_ok={} cos_ok={}",a==b,ca==cb); let en=ex.entry(key).or_insert((0,String::new())); en.0+=1; if en.1.len()<2500 { en.1.push_str(&format!("\n  rules={:?} tags={:?} debug={} opt={} url={} src={} ty={}\n   a={} | {}\n   b={} | {}",rules,tags,debug,opt,u,s,t,a,ca,b,cb)); } } }
    }
    println!("queries {} diffs {} reser_equal {}/{}",q,diffs,fix,n); for (k,(n,e)) in ex { println!("{} x{} {}",k,n,e); }
}
