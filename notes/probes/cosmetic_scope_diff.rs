mod gen; use gen::R;
use adblock::Engine;
use adblock::lists::ParseOptions;
use std::collections::{BTreeSet,BTreeMap};
fn labels_suffixes(h:&str)->Vec<String>{ let mut v=vec![h.to_string()]; for (i,c) in h.char_indices(){ if c=='.' { v.push(h[i+1..].to_string()); } } v }
// names covering host h with registrable domain d
fn cover_names(h:&str, d:&str)->BTreeSet<String>{
    let mut s=BTreeSet::new();
    for x in labels_suffixes(h){ if x.len()>=d.len() { s.insert(x); } }
    if let Some(i)=d.find('.'){ let ps=&d[i+1..]; s.insert(ps.to_string()); let hw=&h[..h.len()-ps.len()-1]; for x in labels_suffixes(hw){ s.insert(x); } }
    s }
fn main(){
    let n: usize = std::env::args().nth(1).and_then(|s|s.parse().ok()).unwrap_or(20000);
    let mut r=R(7); let lab=["a","b","ab","www","x1"]; let tld=["com","co.uk","net","uk","blogspot.com","github.io"];
    let mut host=|r:&mut R|{ let k=r.b(4); let mut v:Vec<String>=(0..k).map(|_| lab[r.b(lab.len())].to_string()).collect(); if r.p(90){ v.push(tld[r.b(tld.len())].to_string()); } if v.is_empty(){ v.push("a".into()); } v.join(".") };
    let mut diffs=0; let mut cases=0; let mut nontriv=0; let mut ex:BTreeMap<String,(u32,String)>=BTreeMap::new();
    for _ in 0..n {
        let page=host(&mut r); let url=format!("https://{}/p",page);
        let dom = match adblock::url_parser::parse_url(&url){ Some(p)=>p.domain().to_string(), None=>continue };
        let names=cover_names(&page,&dom);
        // build rules
        let k=1+r.b(6); let mut rules=vec![]; let mut spec_hide:BTreeSet<String>=BTreeSet::new(); let mut spec_unhide:BTreeSet<String>=BTreeSet::new(); let mut generic:BTreeSet<String>=BTreeSet::new();
        for i in 0..k { let sel=format!(".s{}",r.b(4)); let nl=1+r.b(3); let mut locs=vec![]; let mut covered=false; let mut neg_cov=false; let mut any_pos=false; let mut any_neg=false;
            for _ in 0..nl { let base = if r.p(50){ // derive from page
                    let sfx=labels_suffixes(&page); let mut b=sfx[r.b(sfx.len())].clone(); if r.p(20){ b=format!("{}.{}",lab[r.b(lab.len())],b);} b } else { host(&mut r) };
                let ent = r.p(25); let neg = r.p(20);
                let name = if ent { // strip tld-ish: take up to some dot
                    let parts:Vec<&str>=base.split('.').collect(); let m=1+r.b(parts.len()); parts[..m].join(".") } else { base.clone() };
                let loc=format!("{}{}{}", if neg {"~"} else {""}, name, if ent {".*"} else {""});
                let c = names.contains(&name);
                if neg { any_neg=true; if c {neg_cov=true;} } else { any_pos=true; if c {covered=true;} }
                locs.push(loc); }
            let unhide = r.p(20) && !any_neg;
            let line=format!("{}{}{}", locs.join(","), if unhide {"#@#"} else {"##"}, sel);
            rules.push(line.clone()); let _=i;
            // spec: positive locations covered => hide (or unhide); negated covered => the opposite
            if unhide { if covered { spec_unhide.insert(sel.clone()); } }
            else { if covered { spec_hide.insert(sel.clone()); } if neg_cov { spec_unhide.insert(sel.clone()); } if !any_pos && any_neg { generic.insert(sel.clone()); } }
        }
        let e=Engine::from_rules_parametrised(rules.iter(),ParseOptions::default(),true,true);
        let res=e.url_cosmetic_resources(&url);
        let got:BTreeSet<String>=res.hide_selectors.iter().cloned().collect(); let gexc:BTreeSet<String>=res.exceptions.iter().cloned().collect();
        let want:BTreeSet<String>=spec_hide.difference(&spec_unhide).cloned().collect();
        // generic (hidden generic rule '.sN') are simple class rules -> not in hide_selectors; check via class lookup
        let cls=e.hidden_class_id_selectors(["s0","s1","s2","s3"],Vec::<String>::new(),&res.exceptions); let gotg:BTreeSet<String>=cls.into_iter().collect(); let wantg:BTreeSet<String>=generic.difference(&spec_unhide).cloned().collect();
        cases+=1; if !want.is_empty()||!spec_unhide.is_empty(){nontriv+=1;}
        if got!=want || gexc!=spec_unhide || gotg!=wantg { diffs+=1; let key=format!("hide_ok={} exc_ok={} gen_ok={}",got==want,gexc==spec_unhide,gotg==wantg); let en=ex.entry(key).or_insert((0,String::new())); en.0+=1; if en.1.len()<900 { en.1.push_str(&format!("\n  page={} dom={} rules={:?}\n    want={:?} got={:?} wantexc={:?} gotexc={:?} wantg={:?} gotg={:?}",page,dom,rules,want,got,spec_unhide,gexc,wantg,gotg)); } }
    }
    println!("cases {} nontrivial {} diffs {}",cases,nontriv,diffs); for (k,(n,e)) in ex { println!("{} x{} {}",k,n,e); }
}
