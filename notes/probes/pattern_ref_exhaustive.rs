// Reconnaissance probe (not part of the registered machinery): exhaustive comparison of
// `NetworkFilter::parse(..).matches(..)` with the reference pattern semantics that Spec/Pattern.lean
// will state (C02). Run against the tree with trial-fixes.patch applied: 13 432 890 (rule, url) pairs,
// 7 422 disagreements, every one of them with the anchor text occurring more than once in the host.
//
// IMPORTANT harness rule learnt here: a fresh `RegexManager` per rule (or rules kept alive for the
// whole run). The cache is keyed by the rule's address; evaluating stack temporaries against one
// shared manager returns the previous rule's regex.
use adblock::filters::network::{NetworkFilter, NetworkMatchable};
use adblock::regex_manager::RegexManager;
use adblock::request::Request;
use std::collections::BTreeMap;

#[derive(Clone, Copy, PartialEq, Debug)]
enum E { L(u8), Star, Sep }
fn is_sep(c: u8) -> bool { !(c.is_ascii_alphanumeric() || c == b'_' || c == b'-' || c == b'.' || c == b'%') }
// does ps match a prefix of s (to_end: all of s)?
fn mh(ps: &[E], s: &[u8], to_end: bool) -> bool {
    match ps.first() {
        None => !to_end || s.is_empty(),
        Some(E::L(c)) => !s.is_empty() && s[0] == *c && mh(&ps[1..], &s[1..], to_end),
        Some(E::Sep) => if s.is_empty() { ps.len() == 1 } else { is_sep(s[0]) && mh(&ps[1..], &s[1..], to_end) },
        Some(E::Star) => mh(&ps[1..], s, to_end) || (!s.is_empty() && mh(ps, &s[1..], to_end)),
    }
}
fn elems(b: &[u8]) -> Vec<E> { b.iter().map(|c| match c { b'*' => E::Star, b'^' => E::Sep, c => E::L(*c) }).collect() }
struct Url { full: Vec<u8>, hs: usize, he: usize }
fn split(rule: &str) -> (u8, bool, &[u8]) {
    let b = rule.as_bytes();
    let (la, rest) = if b.starts_with(b"||") { (2, &b[2..]) } else if b.starts_with(b"|") { (1, &b[1..]) } else { (0, b) };
    let (ra, body) = if !rest.is_empty() && rest.ends_with(b"|") { (true, &rest[..rest.len() - 1]) } else { (false, rest) };
    (la, ra, body)
}
fn host_len(body: &[u8]) -> usize { body.iter().position(|c| *c == b'/' || *c == b'^' || *c == b'*').unwrap_or(body.len()) }
fn refmatch(rule: &str, u: &Url) -> bool {
    let (la, ra, body) = split(rule);
    let url = &u.full;
    match la {
        0 => { let ps = elems(body); (0..=url.len()).any(|i| mh(&ps, &url[i..], ra)) }
        1 => { let ps = elems(body); mh(&ps, url, ra) }
        _ => {
            let hl = host_len(body);
            let mut h = &body[..hl];
            while h.starts_with(b"www.") { h = &h[4..]; } // parse-time normalisation of the code
            let r = elems(&body[hl..]);
            let wild = r.first() == Some(&E::Star);
            (u.hs..=u.he).any(|i| {
                i + h.len() <= u.he && &url[i..i + h.len()] == h
                    && (h.is_empty() || i == u.hs || url[i - 1] == b'.' || h[0] == b'.')
                    && (h.is_empty() || i + h.len() == u.he || url[i + h.len()] == b'.' || h[h.len() - 1] == b'.' || wild)
                    && mh(&r, &url[i + h.len()..], ra)
            })
        }
    }
}
// the property's "degenerate spellings", plus the two shapes found to be outside the proved domain
fn degenerate(rule: &str) -> bool {
    let (la, ra, body) = split(rule);
    if body.is_empty() || body.starts_with(b"*") || body.ends_with(b"*") { return true; }
    let s = std::str::from_utf8(body).unwrap();
    if s.contains("**") || s.contains("^^") || s.contains('\\') || s.contains('|') { return true; }
    if body.len() > 1 && body.starts_with(b"/") && body.ends_with(b"/") { return true; }
    if la == 2 && ra && body.ends_with(b"^") { return true; }
    if la == 2 {
        let hl = host_len(body);
        if ra && body.get(hl) == Some(&b'*') { return true; }
        if hl == 0 { return true; }               // `||/…`: empty host text
        if ra && hl == body.len() { return true; } // `||host|`: finding F20, end-of-URL anchor ignored
    }
    false
}
fn main() {
    let alpha: Vec<u8> = b"ab./*^".to_vec();
    let maxlen: usize = std::env::args().nth(1).and_then(|s| s.parse().ok()).unwrap_or(4);
    let hosts = ["a", "b", "ab", "a.b", "b.a", "ab.a", "a.ab", "a.a", "aa.b", "a.b.a", "b.a.b", "ba.ab", "a.b.ab", "ab.ab", "a.ba.b"];
    let paths = ["/", "/a", "/b", "/ab", "/a/b", "/a.b", "/ab/", "/b/a", "/a?b", "/b.a/ab", "//a", "/a/", "/ba", ":8/a", "/a#b", "/?a=b", "/a.b.ab/x"];
    let mut urls = vec![];
    for h in hosts { for p in paths { for sch in ["https", "http"] { urls.push(format!("{}://{}{}", sch, h, p)); } } }
    let reqs: Vec<(Request, Url)> = urls.iter().map(|s| {
        let r = Request::new(s, "https://zz.zz/", "image").unwrap();
        let full = r.url.to_ascii_lowercase().into_bytes();
        let hs = full.windows(3).position(|w| w == b"://").unwrap() + 3;
        let he = hs + r.hostname.len();
        assert_eq!(&full[hs..he], r.hostname.as_bytes());
        (r, Url { full, hs, he })
    }).collect();
    let (mut total, mut diffs, mut rules_n) = (0u64, 0u64, 0u64);
    let mut classes: BTreeMap<String, (u64, String)> = BTreeMap::new();
    let mut bodies: Vec<Vec<u8>> = vec![vec![]];
    let mut all: Vec<Vec<u8>> = vec![];
    for _ in 0..maxlen {
        let mut nb = vec![];
        for b in &bodies { for c in &alpha { let mut x = b.clone(); x.push(*c); nb.push(x); } }
        all.extend(nb.iter().cloned());
        bodies = nb;
    }
    for body in &all { for la in ["", "|", "||"] { for ra in ["", "|"] {
        let rule = format!("{}{}{}", la, std::str::from_utf8(body).unwrap(), ra);
        if degenerate(&rule) { continue; }
        let f = match NetworkFilter::parse(&rule, false, Default::default()) { Ok(f) => f, Err(_) => continue };
        rules_n += 1;
        let mut rm = RegexManager::default();
        for (r, u) in &reqs {
            total += 1;
            let a = f.matches(r, &mut rm);
            let b = refmatch(&rule, u);
            if a != b {
                diffs += 1;
                let h = std::str::from_utf8(&body[..host_len(body)]).unwrap();
                let occ = if la == "||" && !h.is_empty() { r.hostname.matches(h).count() } else { 0 };
                let key = format!("la={:2} ra={:1} impl={} multiocc_host={}", la, ra, a, occ > 1);
                let e = classes.entry(key).or_insert((0, format!("{} vs {}", rule, r.url)));
                e.0 += 1;
            }
        }
    } } }
    println!("rules {} pairs {} diffs {}", rules_n, total, diffs);
    for (k, (n, ex)) in classes { println!("{:8} {} e.g. {}", n, k, ex); }
}
