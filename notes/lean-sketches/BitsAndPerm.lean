-- Feasibility sketches checked with Lean 4.33 core only (no Mathlib).
-- C18: permission subset test, all 256x256 pairs, by bit extensionality.
theorem injectable_iff_subset (a b : BitVec 8) :
    (a &&& ~~~b = 0) ↔ ∀ i : Nat, i < 8 → a.getLsbD i = true → b.getLsbD i = true := by
  constructor
  · intro h i hi ha
    have := congrArg (fun v => v.getLsbD i) h
    simp [ha] at this
    exact this hi
  · intro h
    apply BitVec.eq_of_getLsbD_eq
    intro i hi
    simp
    intro ha
    exact fun _ => h i hi ha
#print axioms injectable_iff_subset   -- propext, Classical.choice, Quot.sound

-- C09: `List.Perm.eq_of_pairwise` and `List.mergeSort_perm` exist in core; the shape below type-checks
-- (the three side goals are the antisymmetry-on-distinct-keys and the two sortedness facts).
-- theorem sort_perm_unique (l₁ l₂ : List (Nat × String)) (hp : l₁.Perm l₂) (hn : (l₁.map (·.1)).Nodup) :
--     l₁.mergeSort (fun a b => a.1 ≤ b.1) = l₂.mergeSort (fun a b => a.1 ≤ b.1) := by
--   apply List.Perm.eq_of_pairwise (le := fun a b => a.1 ≤ b.1) ...
