def isTok (c : Char) : Bool := c.isAlphanum || c == '%'
def notTok (c : Char) : Bool := !isTok c
def segs (s : List Char) : List (List Char) := s.splitOnP notTok

theorem run_in_context (pre t post : List Char) (x y : Char)
    (ht : ∀ c ∈ t, isTok c = true) (hx : isTok x = false) (hy : isTok y = false) :
    t ∈ segs (pre ++ x :: (t ++ y :: post)) := by
  unfold segs
  have hx' : notTok x = true := by simp [notTok, hx]
  have hy' : notTok y = true := by simp [notTok, hy]
  have ht' : ∀ c ∈ t, notTok c = false := by
    intro c hc; simp [notTok, ht c hc]
  rw [List.splitOnP_append_cons pre _ hx']
  rw [List.splitOnP_append_cons_of_forall_mem ht' y hy' post]
  simp

/-- at the very end of the string -/
theorem run_at_end (pre t : List Char) (x : Char)
    (ht : ∀ c ∈ t, isTok c = true) (hx : isTok x = false) :
    t ∈ segs (pre ++ x :: t) := by
  unfold segs
  have hx' : notTok x = true := by simp [notTok, hx]
  have ht' : ∀ c ∈ t, notTok c = false := by
    intro c hc; simp [notTok, ht c hc]
  rw [List.splitOnP_append_cons pre _ hx', List.splitOnP_eq_singleton ht']
  simp

-- separators are never token characters (ASCII classes)
def isSepChar (c : Char) : Bool :=
  !(c.isAlphanum || c == '_' || c == '-' || c == '.' || c == '%')
theorem sep_not_tok (c : Char) (h : isSepChar c = true) : isTok c = false := by
  simp [isSepChar, isTok] at *
  exact ⟨h.1.1.1.1, h.2⟩
#print axioms run_in_context
#print axioms sep_not_tok
