inductive PElem where
  | lit (c : Char) | star | sep
deriving DecidableEq, Repr

def isSepChar (c : Char) : Bool :=
  !(c.isAlphanum || c == '_' || c == '-' || c == '.' || c == '%')

/-- `MatchesAt ps s r`: `ps` matches a prefix of `s`, leaving `r`. -/
inductive MatchesAt : List PElem → List Char → List Char → Prop where
  | nil (s) : MatchesAt [] s s
  | lit {c ps s r} : MatchesAt ps s r → MatchesAt (.lit c :: ps) (c :: s) r
  | starSkip {ps s r} : MatchesAt ps s r → MatchesAt (.star :: ps) s r
  | starTake {ps c s r} : MatchesAt (.star :: ps) s r → MatchesAt (.star :: ps) (c :: s) r
  | sepChar {c ps s r} : isSepChar c = true → MatchesAt ps s r → MatchesAt (.sep :: ps) (c :: s) r
  | sepEnd : MatchesAt [.sep] [] []

/-- Backtracking matcher: does `ps` match a prefix of `s` (if `toEnd`, all of `s`)? -/
def matchHere (toEnd : Bool) : List PElem → List Char → Bool
  | [], s => !toEnd || s.isEmpty
  | .lit c :: ps, s => match s with
      | d :: s' => c == d && matchHere toEnd ps s'
      | [] => false
  | .sep :: ps, s => match s with
      | d :: s' => isSepChar d && matchHere toEnd ps s'
      | [] => ps.isEmpty
  | .star :: ps, [] => matchHere toEnd ps []
  | .star :: ps, c :: s' => matchHere toEnd ps (c :: s') || matchHere toEnd (.star :: ps) s'
termination_by ps s => (ps.length, s.length)

theorem matchHere_sound (toEnd : Bool) (ps : List PElem) (s : List Char) :
    matchHere toEnd ps s = true → ∃ r, MatchesAt ps s r ∧ (toEnd = true → r = []) := by
  fun_induction matchHere toEnd ps s with
  | case1 s =>
    intro h
    refine ⟨s, .nil s, ?_⟩
    intro ht; simp [ht] at h; exact h
  | case2 c ps d s' ih =>
    intro h
    simp at h
    obtain ⟨r, hr, he⟩ := ih h.2
    exact ⟨r, h.1 ▸ .lit hr, he⟩
  | case3 c ps => intro h; simp at h
  | case4 ps d s' ih =>
    intro h
    simp at h
    obtain ⟨r, hr, he⟩ := ih h.2
    exact ⟨r, .sepChar h.1 hr, he⟩
  | case5 ps =>
    intro h
    simp at h
    subst h
    exact ⟨[], .sepEnd, fun _ => rfl⟩
  | case6 ps ih1 =>
    intro h
    obtain ⟨r, hr, he⟩ := ih1 h
    exact ⟨r, .starSkip hr, he⟩
  | case7 ps c s' ih1 ih2 =>
    intro h
    simp at h
    rcases h with h | h
    · obtain ⟨r, hr, he⟩ := ih1 h
      exact ⟨r, .starSkip hr, he⟩
    · obtain ⟨r, hr, he⟩ := ih2 h
      exact ⟨r, .starTake hr, he⟩

theorem matchHere_complete (ps : List PElem) (s r : List Char) (h : MatchesAt ps s r) :
    matchHere false ps s = true ∧ (r = [] → matchHere true ps s = true) := by
  induction h with
  | nil s => constructor <;> simp [matchHere]
  | lit _ ih => simp [matchHere, ih.1]; intro hr; simp [ih.2 hr]
  | @starSkip ps s r _ ih =>
    constructor
    · cases s <;> simp [matchHere, ih.1]
    · intro hr; cases s <;> simp [matchHere, ih.2 hr]
  | starTake _ ih =>
    constructor
    · simp [matchHere, ih.1]
    · intro hr; simp [matchHere, ih.2 hr]
  | sepChar hc _ ih => simp [matchHere, hc, ih.1]; intro hr; simp [ih.2 hr]
  | sepEnd => simp [matchHere]
#print axioms matchHere_sound
#print axioms matchHere_complete
