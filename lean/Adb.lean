import Adb.Model.Basic
