import Adb.Model.Basic
import Adb.Model.Removeparam
import Driver.Parse
/-
  One-line-in / one-line-out driver.  Every answer has the form  `M=<model> S=<spec> D=<0|1>`:
  the output of the model that mirrors the code, the output of the reference semantics, and whether
  the case lies in the domain of the proved theorem relating the two.
-/
open Adb Adb.Net Drv

def ans (m s : String) (d : Bool) : String := s!"M={m} S={s} D={if d then 1 else 0}"

def isAsciiStr (s : Str) : Bool := s.all (fun c => c.val < 128)

def step (line : String) : String :=
  match line.splitOn "\t" with
  | ["hash", h] => match unhex h with
      | some s => ans (toString (fastHash s)) (toString (fastHash s)) true
      | none => "bad-op"
  | ["rp", u, ns, imp] =>
    match unhex u, unhexList ns with
    | some url, some names =>
      let important := imp == "1"
      ans (optHex (Removeparam.rewrittenUrl important url names))
          (optHex (Removeparam.spec important url names)) true
    | _, _ => "bad-op"
  -- derived request fields
  | ["req", q] => match parseRequest q with
      | some q =>
        let o := s!"{q.tyName},{showBool q.isHttp},{showBool q.isHttps},{showBool q.isSupported},{showHashes q.tokens},{match q.srcHashes with | some l => "+" ++ showHashes l | none => "-"}"
        ans o o (isAsciiStr q.url)
      | none => "bad-op"
  -- rule tokens
  | ["rtok", r] => match parseRule r with
      | some r =>
        let o := "|".intercalate (r.getTokens.map showHashes)
        ans o o true
      | none => "bad-op"
  -- one rule against one request
  | ["m1", r, q] => match parseRule r, parseRequest q with
      | some r, some q =>
        let o := showBool (r.matches q)
        ans o o (isAsciiStr q.url)
      | _, _ => "bad-op"
  -- whole engine: chk <optimize> <tags> <store> <request> <rule>*
  | "chk" :: opt :: tags :: store :: q :: rules =>
    match unhexList tags, parseStore store, parseRequest q, rules.mapM parseRule with
    | some tags, some attempts, some q, some rules =>
      let st := Store.ofAttempts attempts
      let b := (Blocker.new rules (opt == "1")).useTags tags
      let d := Spec.caseOK rules q && isAsciiStr q.url
      ans (showVerdict (b.check st q)) ("|".intercalate ((Spec.verdicts rules (dedupS tags) st q).map showVerdict)) d
    | _, _, _, _ => "bad-op"
  -- diagnostics: which rules are not token-sound for the request
  | "ts" :: _ :: _ :: _ :: q :: rules =>
    match parseRequest q, rules.mapM parseRule with
    | some q, some rules =>
      let bad := (List.range rules.length).filter (fun i => !(Spec.tokenSound (rules[i]!) q))
      ans (toString bad) (toString (q.probe)) true
    | _, _ => "bad-op"
  | "csp" :: opt :: tags :: q :: rules =>
    match unhexList tags, parseRequest q, rules.mapM parseRule with
    | some tags, some q, some rules =>
      let b := (Blocker.new rules (opt == "1")).useTags tags
      let d := Spec.caseOK rules q && isAsciiStr q.url
      ans (showSet (b.csp? q)) (showSet (Spec.csp? rules (dedupS tags) q)) d
    | _, _, _ => "bad-op"
  | _ => "bad-op"

partial def loop (h : IO.FS.Stream) (out : IO.FS.Stream) : IO Unit := do
  let line ← h.getLine
  if line.isEmpty then return ()
  let l := if line.endsWith "\n" then (line.dropEnd 1).toString else line
  out.putStrLn (step l)
  loop h out

def main : IO Unit := do
  loop (← IO.getStdin) (← IO.getStdout)
