import Adb.Model.Basic
import Adb.Model.Removeparam
/-
  One-line-in / one-line-out driver.  Every answer has the form  `M=<model> S=<spec> D=<0|1>`:
  the output of the model that mirrors the code, the output of the reference semantics, and whether
  the case lies in the domain of the proved theorem relating the two.
-/
open Adb

def unhexList (s : String) : Option (List Str) :=
  if s == "." then some [] else
  (s.splitOn ",").mapM fun f => match f.toList with
    | 'x' :: r => unhex (String.ofList r)
    | _ => none

def ans (m s : String) (d : Bool) : String := s!"M={m} S={s} D={if d then 1 else 0}"

def step (line : String) : String :=
  match line.splitOn "\t" with
  | ["hash", h] => match unhex h with
      | some s => ans (toString (fastHash s)) (toString (fastHash s)) true
      | none => "bad-op"
  | ["rp", u, ns, imp] =>
    match unhex u, unhexList ns with
    | some url, some names =>
      let important := imp == "1"
      ans (optHex (Removeparam.rewrittenUrl important url names))
          (optHex (Removeparam.spec important url names)) true
    | _, _ => "bad-op"
  | _ => "bad-op"

partial def loop (h : IO.FS.Stream) (out : IO.FS.Stream) : IO Unit := do
  let line ← h.getLine
  if line.isEmpty then return ()
  let l := if line.endsWith "\n" then (line.dropEnd 1).toString else line
  out.putStrLn (step l)
  loop h out

def main : IO Unit := do
  loop (← IO.getStdin) (← IO.getStdout)
