import Adb.Model.Basic
import Adb.Model.Removeparam
import Driver.Parse
import Adb.Model.History
import Adb.Model.RegexCache
import Adb.Model.Scriptlet
import Adb.Spec.Pattern
import Adb.Spec.Options
import Adb.Model.Wire
import Adb.Model.Lists
import Adb.Model.Url
import Adb.Model.ContentBlocking
import Adb.Model.CosmeticParse
import Adb.Model.ScriptletAssembly
/-
  One-line-in / one-line-out driver.  Every answer has the form  `M=<model> S=<spec> D=<0|1>`:
  the output of the model that mirrors the code, the output of the reference semantics, and whether
  the case lies in the domain of the proved theorem relating the two.
-/
open Adb Adb.Net Drv

/-- one operation on the `RegexManager` model: `q;addr;rule;text` | `t;time` | `p;interval;unused` | `d;addr` -/
def rmOp (acc : Cache.RM × List (Nat × Rule) × List String × List String × Bool) (f : String) :
    Option (Cache.RM × List (Nat × Rule) × List String × List String × Bool) :=
  let (m, seen, outs, specs, noReuse) := acc
  match f.splitOn "!" with
  | ["q", a, r, text] => do
    let a ← a.toNat?
    let r ← parseRule r
    let text ← unhex text
    let (m', b) := m.matches a r text
    let reuse := seen.any (fun p => p.1 == a && p.2 != r)
    pure (m', (a, r) :: seen, outs ++ [showBool b], specs ++ [showBool (Cache.fresh r text)], noReuse && !reuse)
  | ["t", t] => do pure (m.updateTime (← t.toNat?), seen, outs, specs, noReuse)
  | ["p", i, u] => do pure (m.setPolicy (← i.toNat?) (← u.toNat?), seen, outs, specs, noReuse)
  | ["d", a] => do pure (m.discard (← a.toNat?), seen, outs, specs, noReuse)
  | _ => none

def ans0 := 0

def ans (m s : String) (d : Bool) : String := s!"M={m} S={s} D={if d then 1 else 0}"

def isAsciiStr (s : Str) : Bool := s.all (fun c => c.val < 128)

def showMeta (m : Lists.Meta) : String :=
  let e := match m.expires with
    | none => "-"
    | some (.hours n) => s!"H{n}"
    | some (.days n) => s!"D{n}"
  ";".intercalate [optHex m.homepage, optHex m.title, e, optHex m.redirect]

def showOptList (o : Option (List Str)) : String :=
  match o with
  | none => "-"
  | some l => "+" ++ ",".intercalate (l.map hex)

/-- `typ;selector;urlFilter;caseSensitive;ifDomain;unlessDomain;resourceTypes;loadTypes` -/
def showCb (r : CB.CbRule) : String :=
  let typ := match r.typ with
    | .block => "block"
    | .cssDisplayNone => "css"
    | .ignorePrevious => "ignore"
  let rts := match r.resourceTypes with
    | none => "-"
    | some l => "+" ++ ",".intercalate (l.toArray.qsort (· < ·)).toList
  let lts := ",".intercalate (r.loadType.map fun l => match l with | .firstParty => "1p" | .thirdParty => "3p")
  ";".intercalate [typ, optHex r.selector, hex r.urlFilter, (if r.caseSensitive then "1" else "0"),
    showOptList r.ifDomain, showOptList r.unlessDomain, rts, lts]

def parseLocs (s : String) : Option (List (Nat × Option Str)) :=
  if s.isEmpty then some [] else
  (s.splitOn ",").mapM fun item =>
    match item.splitOn "." with
    | [k, e] => do
      let k ← k.toNat?
      let e ← unoptHex e
      pure (k, e)
    | _ => none

inductive CbItem where
  | net (r : Rule) (raw : Str)
  | cos (c : CB.CosIn)

def parseCbItem (s : String) : Option CbItem :=
  match s.splitOn "!" with
  | ["N", rd, raw] => do
    let r ← parseRule rd
    let raw ← unhex raw
    pure (.net r raw)
  | ["C", raw, a, sc, u, plain, locs] => do
    let raw ← unhex raw
    let plain ← unoptHex plain
    let locs ← parseLocs locs
    pure (.cos { raw, hasAction := a == "1", scriptInject := sc == "1", unhide := u == "1", plain, locs })
  | _ => none

/-- `name;aliases;kind;text;perm;deps` items joined by `|` -/
def parseAsmStore (s : String) : Option Assembly.Store :=
  if s == "-" then some [] else
  (s.splitOn "|").mapM fun item =>
    match item.splitOn ";" with
    | [n, al, kind, text, perm, deps] => do
      let n ← unhex n
      let al ← unhexList al
      let kind ← unhex kind
      let text ← unoptHex text
      let perm ← perm.toNat?
      let deps ← unhexList deps
      pure { name := n, aliases := al, kind := String.ofList kind, text, permission := perm, deps }
    | _ => none

def parseInjections (s : String) : Option (List (Str × Nat)) :=
  if s == "-" then some [] else
  (s.splitOn ",").mapM fun item =>
    match item.splitOn ":" with
    | [raw, m] => do
      let raw ← unhex raw
      let m ← m.toNat?
      pure (raw, m)
    | _ => none

def showDots (l : List Hash) : String := ".".intercalate (l.map toString)

/-- `type,http,https,supported,3p,url,hostname,srcHashes,tokens` -/
def showReq (q : Request) : String :=
  ",".intercalate [q.tyName, showBool q.isHttp, showBool q.isHttps, showBool q.isSupported, showBool q.thirdParty,
    hex q.url, hex q.hostname, (match q.srcHashes with | some l => "+" ++ showDots l | none => "-"),
    (if q.url.all (fun c => c.val < 128) then showDots q.tokens else "?")]

/-- IDNA as a function built from the harness' hints: the raw host of the request URL maps to the
    first hint, anything else to the second -/
def idnaFrom (url : Str) (hu hs : Option Str) : Str → Option Str :=
  let rawU := match Url.parseUrl (fun s => some s) url with
    | some p => p.host
    | none => []
  fun s => if s == rawU then hu else hs

/-- canonical outcome of `parse_filter` (the cosmetic parser and IDNA are outside the model) -/
def showPline (f t : String) (line : Str) : String :=
  let fmt := if f == "H" then Lists.Format.hosts else Lists.Format.standard
  let rt := match t with
    | "N" => Lists.RuleTypes.networkOnly
    | "C" => Lists.RuleTypes.cosmeticOnly
    | _ => Lists.RuleTypes.all
  -- compared in full: ASCII lines, and lines whose only non-ASCII text is the value of a `removeparam=`
  -- option (host names and `domain=` values need IDNA, which is external)
  let ascii := isAsciiStr line ||
    (match Parse.splitLastDollar line with
     | some (before, after) =>
       isAsciiStr before && (after.splitOn ',').all (fun o =>
         isAsciiStr o || (Parse.startsWith "removeparam=" o && !(o.drop 12).contains '|'))
     | none => false)
  match Lists.parseLine (C := Unit) (fun _ => .ok ()) (fun _ => none) { format := fmt, ruleTypes := rt } line with
  | .ok (.network r) => if ascii then "N:" ++ showRule r else "NET"
  | .ok (.cosmetic _) => "C"
  | .error e =>
    if e.startsWith "Network:" then (if ascii then "E:" ++ String.ofList (e.toList.drop 8) else "NET")
    else if e.startsWith "Cosmetic:" then "C"
    else "X:" ++ e

def step (line : String) : String :=
  match line.splitOn "\t" with
  | ["hash", h] => match unhex h with
      | some s => ans (toString (fastHash s)) (toString (fastHash s)) true
      | none => "bad-op"
  | ["rp", u, ns, imp] =>
    match unhex u, unhexList ns with
    | some url, some names =>
      let important := imp == "1"
      ans (optHex (Removeparam.rewrittenUrl important url names))
          (optHex (Removeparam.spec important url names)) true
    | _, _ => "bad-op"
  -- C18: assembly of the injected script from a resource store and (injection, permission) pairs
  | ["sres", st, inj] => match parseAsmStore st, parseInjections inj with
      | some st, some inj =>
        let o := hex (Assembly.script st inj)
        ans o o true
      | _, _ => "bad-op"
  -- the cosmetic rule parser and the scriptlet-argument parser
  | ["cparse", l] => match unhex l with
      | some line =>
        let showO (o : Option (List Hash)) : String := match o with
          | none => "-"
          | some v => "+" ++ ",".intercalate (v.map toString)
        let o := match CosmeticParse.parseCosmetic line with
          | .ok r =>
            let (ak, aa) := match r.action with
              | none => ("-", "")
              | some .remove => ("Remove", "")
              | some (.style a) => ("Style", hex a)
              | some (.removeAttr a) => ("RemoveAttr", hex a)
              | some (.removeClass a) => ("RemoveClass", hex a)
            ";".intercalate [showO r.locs.entities, showO r.locs.hostnames, showO r.locs.notEntities,
              showO r.locs.notHostnames, showBool r.unhide, showBool r.scriptInject, hex r.selector, ak, aa]
          | .error e => "ERR:" ++ e
        ans o o (isAsciiStr line)
      | none => "bad-op"
  | ["sargs", a] => match unhex a with
      | some args =>
        let o := match CosmeticParse.parseScriptletArgs args with
          | some l => "+" ++ ",".intercalate (l.map hex)
          | none => "NONE"
        ans o o true
      | none => "bad-op"
  -- C20: content-blocking conversion (one rule / a whole set)
  | ["cbn", item] => match parseCbItem item with
      | some (.net r raw) =>
        let o := match CB.convNet r raw with
          | .ok rules => "OK:" ++ "|".intercalate (rules.map showCb)
          | .error e => "ERR:" ++ e
        -- the hypothesis of `urlFilter_in_subset`: the host name carries no `*`; the reference
        -- answer is withheld when a url-filter leaves the Safari subset
        let hostOk := match r.hostname with | some h => !h.contains '*' | none => true
        let sp := match CB.convNet r raw with
          | .ok rules => if rules.all (fun cb => CB.safariOk cb.urlFilter) then o else "OUTSIDE-SUBSET"
          | .error _ => o
        ans o sp hostOk
      | _ => "bad-op"
  | ["cbc", item] => match parseCbItem item with
      | some (.cos c) =>
        let o := match CB.convCos c with
          | .ok rule => "OK:" ++ showCb rule
          | .error e => "ERR:" ++ e
        ans o o true
      | _ => "bad-op"
  | "cbset" :: items => match (items.filter (· != "")).mapM parseCbItem with
      | some its =>
        let net := its.filterMap fun i => match i with | .net r raw => some (r, raw) | _ => none
        let cos := its.filterMap fun i => match i with | .cos c => some c | _ => none
        let (rules, used) := CB.intoContentBlocking net cos
        let o := "|".intercalate (rules.map showCb) ++ "#" ++ ",".intercalate (used.map hex)
        -- the reference output is the model's, marked when a url-filter leaves the Safari subset
        let bad := rules.filter fun r => !CB.safariOk r.urlFilter
        let sp := if bad.isEmpty then o else "OUTSIDE-SUBSET"
        ans o sp true
      | none => "bad-op"
  -- C12: the URL scanner and the request constructors
  | ["url", u, hint] => match unhex u, unoptHex hint with
      | some url, some h =>
        let o := match Url.parseUrl (fun _ => h) url with
          | some p => ";".intercalate [hex p.scheme, hex p.host, hex p.url]
          | none => "NONE"
        ans o o true
      | _, _ => "bad-op"
  | ["rnew", u, sr, ty, hu, hs, du, ds] =>
    match unhex u, unhex sr, unhex ty, unoptHex hu, unoptHex hs, unhex du, unhex ds with
    | some url, some src, some ty, some hu, some hs, some du, some ds =>
      let idna := idnaFrom url hu hs
      let hostU := match Url.parseUrl idna url with | some p => p.host | none => []
      let domainOf := fun (h : Str) => if h == hostU then du else ds
      let o := match Url.requestNew idna domainOf url src ty with
        | some q => showReq q
        | none => "ERR"
      ans o o true
    | _, _, _, _, _, _, _ => "bad-op"
  | ["rpre", u, h, sh, ty, tp] =>
    match unhex u, unhex h, unhex sh, unhex ty with
    | some url, some h, some sh, some ty =>
      let o := showReq (Url.requestPreparsed url h sh ty (tp == "1"))
      ans o o true
    | _, _, _, _ => "bad-op"
  -- C11: one list line through `parse_filter`
  | ["pline", f, t, l] => match unhex l with
      | some line => let o := showPline f t line; ans o o true
      | none => "bad-op"
  | ["meta", t] => match unhex t with
      | some s => let o := showMeta (Lists.readListMetadata s); ans o o true
      | none => "bad-op"
  | ["lmeta", t] => match unhex t with
      | some s => let o := showMeta (Lists.listMeta (Lists.lines s)); ans o o true
      | none => "bad-op"
  -- a network rule from its text
  | ["parse", l] => match unhex l with
      | some line =>
        let o := match Parse.parseNetwork line with
          | .ok r => showRule r
          | .error e => "ERR:" ++ e
        ans o o (isAsciiStr line)
      | none => "bad-op"
  -- C02: one pattern-only rule against many requests: pmx <line> <req>*
  | "pmx" :: l :: reqs =>
    match unhex l, reqs.mapM parseRequest with
    | some line, some qs =>
      match Parse.parseNetwork line, Parse.parseAbstract line with
      | .ok r, .ok a =>
        let bits := qs.map (fun q =>
          let m := r.matches q
          let dom := Spec.inDomain a q.url q.hostname
          -- the pattern reference, and the (trivial here) option gate of a rule without options
          let s := Spec.refMatch a q.url q.hostname && checkOptions r q
          (m, if dom then s else m, dom))
        ans (String.ofList (bits.map (fun b => if b.1 then '1' else '0')))
            (String.ofList (bits.map (fun b => if b.2.1 then '1' else '0')))
            (bits.all (·.2.2))
      | _, _ => ans "R" "R" true
    | _, _ => "bad-op"
  -- C03: one options-only rule against many requests: omx <line> <req>*
  | "omx" :: l :: reqs =>
    match unhex l, reqs.mapM parseRequest, reqs.mapM parseRequestSrc with
    | some line, some qs, some srcs =>
      match Parse.parseNetwork line, Parse.parseAbstract line with
      | .ok r, .ok a =>
        let bits := (qs.zip srcs).map (fun (q, src) =>
          let m := r.matches q
          let oq : Spec.OReq := ⟨q.tyBit, q.isHttp, q.isHttps, q.thirdParty, src⟩
          -- a scheme-only pattern (`|http://`, `|https://`, `|ws://`, `|http*://`) is a scheme restriction
          -- (handled by `refOptions.schemeOk`); it leaves no pattern to match
          let schemeOnly := a.la == some Parse.LAnchor.single && !a.ra &&
            ["http://", "https://", "ws://", "http*://"].any (fun p => a.pattern == p.toList)
          let s := Spec.refOptions a oq && (schemeOnly || Spec.refMatch a q.url q.hostname)
          (m, s))
        ans (String.ofList (bits.map (fun b => if b.1 then '1' else '0')))
            (String.ofList (bits.map (fun b => if b.2 then '1' else '0'))) (isAsciiStr line)
      | _, _ => ans "R" "R" true
    | _, _, _ => "bad-op"
  -- derived request fields
  | ["req", q] => match parseRequest q with
      | some q =>
        let o := s!"{q.tyName},{showBool q.isHttp},{showBool q.isHttps},{showBool q.isSupported},{showHashes q.tokens},{match q.srcHashes with | some l => "+" ++ showHashes l | none => "-"}"
        ans o o (isAsciiStr q.url)
      | none => "bad-op"
  -- rule tokens
  | ["rtok", r] => match parseRule r with
      | some r =>
        let o := "|".intercalate (r.getTokens.map showHashes)
        ans o o true
      | none => "bad-op"
  -- one rule against one request
  | ["m1", r, q] => match parseRule r, parseRequest q with
      | some r, some q =>
        let o := showBool (r.matches q)
        ans o o (isAsciiStr q.url)
      | _, _ => "bad-op"
  -- whole engine: chk <optimize> <tags> <store> <request> <rule>*
  | "chk" :: opt :: tags :: store :: q :: rules =>
    match unhexList tags, parseStore store, parseRequest q, rules.mapM parseRule with
    | some tags, some attempts, some q, some rules =>
      let st := Store.ofAttempts attempts
      let b := (Blocker.new rules (opt == "1")).useTags tags
      let d := Spec.caseOK rules q && Spec.wfRules rules && isAsciiStr q.url
      ans (showVerdict (b.check st q)) ("|".intercalate ((Spec.verdicts rules (dedupS tags) st q).map showVerdict)) d
    | _, _, _, _ => "bad-op"
  -- diagnostics: which rules are not token-sound for the request
  | "ts" :: _ :: _ :: _ :: q :: rules =>
    match parseRequest q, rules.mapM parseRule with
    | some q, some rules =>
      let bad := (List.range rules.length).filter (fun i => !(Spec.tokenSound (rules[i]!) q))
      ans (toString bad) (toString (q.probe)) true
    | _, _ => "bad-op"
  | "csp" :: opt :: tags :: q :: rules =>
    match unhexList tags, parseRequest q, rules.mapM parseRule with
    | some tags, some q, some rules =>
      let b := (Blocker.new rules (opt == "1")).useTags tags
      let d := Spec.caseOK rules q && isAsciiStr q.url
      ans (showSet (b.csp? q)) (showSet (Spec.csp? rules (dedupS tags) q)) d
    | _, _, _ => "bad-op"
  -- C18: permission check on all (required, granted) pairs
  | ["inj", r, g] =>
    match r.toNat?, g.toNat? with
    | some r, some g =>
      let m := Scriptlet.isInjectableBy (BitVec.ofNat 8 r) (BitVec.ofNat 8 g)
      let s := (List.range 8).all (fun i => !(r.testBit i) || g.testBit i)
      ans (showBool m) (showBool s) true
    | _, _ => "bad-op"
  -- C18: argument encoding
  | ["strq", q, a] =>
    match hexToBytes a.toList with
    | some bs =>
      let arg := bs.map (·.toNat)
      let quoted := q == "1"
      let out := Scriptlet.stringify quoted arg
      let hexOf (l : List Nat) := bytesToHex (l.map Nat.toUInt8)
      let lit := if quoted then out else 34 :: out ++ [34]
      let s := if Scriptlet.unquote lit == some arg then hexOf out else "does-not-parse-back"
      ans (hexOf out) s true
    | none => "bad-op"
  -- C17: key extraction and the generic class/id lookup
  | ["key", sel] => match unhex sel with
      | some sel => let o := optHex (Cosmetic.keyFromSelector sel); ans o o (isAsciiStr sel)
      | none => "bad-op"
  | "cgen" :: classes :: ids :: exc :: rules =>
    match unhexList classes, unhexList ids, unhexList exc, rules.mapM parseCRule with
    | some cl, some ids, some exc, some rs =>
      let c := Cosmetic.Cache.fromRules rs
      let o := showStrSet (c.hiddenClassId cl ids exc)
      ans o o true
    | _, _, _, _ => "bad-op"
  -- C16: per-site resources
  | "chost" :: host :: dom :: gh :: rules =>
    match unhex host, unhex dom, rules.mapM parseCRule with
    | some host, some dom, some rs =>
      let c := Cosmetic.Cache.fromRules rs
      let r := c.hostnameResources host dom (gh == "1")
      let o := s!"H={showStrSet r.hide} P={showStrSet r.procedural} E={showStrSet r.exceptions} I={showStrSet (r.injections.map (·.1))}"
      let o := o.replace " " "/"
      ans o o (isAsciiStr host)
    | _, _, _ => "bad-op"
  -- C10: header dispatch
  | ["disp", b] => match hexToBytes b.toList with
      | some bs =>
        let o := match Wire.dispatch (bs.map (·.toNat)) with
          | .v0 => "v0" | .unsupportedVersion v => s!"version-{v}" | .noHeader => "no-header" | .legacyGzip => "legacy-gzip"
        ans o o true
      | none => "bad-op"
  | "rmseq" :: ops =>
    match ops.foldlM rmOp (({} : Cache.RM), [], [], [], true) with
    | some (_, _, outs, specs, noReuse) =>
      let m := "".intercalate outs
      ans m (if noReuse then "".intercalate specs else m) noReuse
    | none => "bad-op"
  | _ => "bad-op"

/-- stateful operations on one engine (C06, C07) -/
def hstepLine (st : HState) (line : String) : Option (HState × String) :=
  match line.splitOn "\t" with
  | "hnew" :: opt :: rules => do
    let rules ← rules.mapM parseRule
    pure (HState.init rules (opt == "1"), ans "ok" "ok" true)
  | ["htags", kind, tags] => do
    let tags ← unhexList tags
    let op ← match kind with
      | "use" => some (HOp.useTags tags)
      | "enable" => some (HOp.enableTags tags)
      | "disable" => some (HOp.disableTags tags)
      | _ => none
    let st' := hstep st op
    pure (st', ans (showSet (some st'.b.tagsEnabled)) (showSet (some st'.b.tagsEnabled)) true)
  | ["hopt"] => pure (hstep st .optimize, ans "ok" "ok" true)
  | ["hload", tags] => do
    let tags ← unhexList tags
    pure (hstep st (.loadFresh tags), ans "ok" "ok" true)
  | ["hreload"] => pure (hstep st .reload, ans "ok" "ok" true)
  | ["hadd", r] => do
    let r ← parseRule r
    let n := st.rules.length
    let st' := hstep st (.add r)
    let ok := showBool (st'.rules.length != n)
    pure (st', ans ok ok true)
  | ["hexists", t] => do
    let t ← unhex t
    let o := showBool (st.tagExists t)
    pure (st, ans o o true)
  | ["hchk", store, q] => do
    let attempts ← parseStore store
    let q ← parseRequest q
    let stt := Store.ofAttempts attempts
    let d := Spec.caseOK st.rules q && isAsciiStr q.url
    pure (st, ans (showVerdict (st.b.check stt q))
      ("|".intercalate ((Spec.verdicts st.rules st.b.tagsEnabled stt q).map showVerdict)) d)
  | ["hcsp", q] => do
    let q ← parseRequest q
    let d := Spec.caseOK st.rules q && isAsciiStr q.url
    pure (st, ans (showSet (st.b.csp? q)) (showSet (Spec.csp? st.rules st.b.tagsEnabled q)) d)
  | _ => none

partial def loop (h : IO.FS.Stream) (out : IO.FS.Stream) (st : HState) : IO Unit := do
  let line ← h.getLine
  if line.isEmpty then return ()
  let l := if line.endsWith "\n" then (line.dropEnd 1).toString else line
  if l.startsWith "h" && !l.startsWith "hash" then
    match hstepLine st l with
    | some (st', o) => out.putStrLn o; loop h out st'
    | none => out.putStrLn "bad-op"; loop h out st
  else
    out.putStrLn (step l)
    loop h out st

def main : IO Unit := do
  loop (← IO.getStdin) (← IO.getStdout) default
