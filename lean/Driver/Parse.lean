import Adb.Model.Engine
import Adb.Spec.Verdict
import Adb.Model.Parse
import Adb.Model.Cosmetic
/- Parsing of the line protocol's rule / request / store dumps. -/
open Adb Adb.Net

namespace Drv

def unhexList (s : String) : Option (List Str) :=
  if s == "." then some [] else
  (s.splitOn ",").mapM fun f => match f.toList with
    | 'x' :: r => unhex (String.ofList r)
    | _ => none

def natList (s : String) : Option (List Nat) :=
  if s.isEmpty then some [] else (s.splitOn ",").mapM (·.toNat?)

def optNatList (s : String) : Option (Option (List Hash)) :=
  match s.toList with
  | ['-'] => some none
  | '+' :: r => (natList (String.ofList r)).map (fun l => some (l.map Nat.toUInt64))
  | _ => none

def optNat (s : String) : Option (Option Hash) :=
  match s.toList with
  | ['-'] => some none
  | '+' :: r => (String.ofList r).toNat?.map (fun n => some n.toUInt64)
  | _ => none

def parseFilterPart (s : String) : Option FilterPart :=
  match s.toList with
  | ['E'] => some .empty
  | 'S' :: r => (unhex (String.ofList r)).map .simple
  | 'A' :: r => ((String.ofList r).splitOn ",").mapM unhex |>.map .anyOf
  | _ => none

/-- `mask;filter;hostname;domains;notdomains;du;ndu;modifier;tag;id;rx` -/
def parseRule (s : String) : Option Rule :=
  match s.splitOn ";" with
  | [mask, fp, host, dom, ndom, du, ndu, modi, tag, id, rx] => do
    let mask ← mask.toNat?
    let fp ← parseFilterPart fp
    let host ← unoptHex host
    let dom ← optNatList dom
    let ndom ← optNatList ndom
    let du ← optNat du
    let ndu ← optNat ndu
    let modi ← unoptHex modi
    let tag ← unoptHex tag
    let id ← id.toNat?
    pure { mask, filter := fp, hostname := host, domains := dom, notDomains := ndom,
           domainsUnion := du, notDomainsUnion := ndu, modifier := modi, tag, id := id.toUInt64,
           rx := rx == "1" }
  | _ => none

/-- `rawtype;url;schema;hostname;srchost;3p;original` (hex fields) -/
def parseRequest (s : String) : Option Request :=
  match s.splitOn ";" with
  | [ty, url, schema, host, src, tp, orig] => do
    let ty ← unhex ty
    let url ← unhex url
    let schema ← unhex schema
    let host ← unhex host
    let src ← unhex src
    let orig ← unhex orig
    pure (mkRequest ty url schema host src (tp == "1") orig)
  | _ => none

/-- the source hostname field of a request dump -/
def parseRequestSrc (s : String) : Option Str :=
  match s.splitOn ";" with
  | [_, _, _, _, src, _, _] => unhex src
  | _ => none

/-- resources separated by `|`: `name;aliases(hexlist);kind;mime;content;permission;deps(hexlist)` — the attempted `add_resource` calls in order -/
def parseStore (s : String) : Option Store :=
  if s == "." then some [] else
  (s.splitOn "|").mapM fun r =>
    match r.splitOn ";" with
    | [name, aliases, kind, mime, content, perm, deps] => do
      let deps ← unhexList deps
      let name ← unhex name
      let aliases ← unhexList aliases
      let kind ← unhex kind
      let mime ← unhex mime
      let content ← unhex content
      let perm ← perm.toNat?
      pure { name, aliases, kind := String.ofList kind, mime, content, permission := perm, deps }
    | _ => none

def showOptHashes : Option (List Hash) → String
  | none => "-"
  | some l => "+" ++ ",".intercalate (l.map toString)

def showOptHash : Option Hash → String
  | none => "-"
  | some h => "+" ++ toString h

/-- the same text the harness's `dump_rule` produces -/
def showRule (r : Rule) : String :=
  let fp := match r.filter with
    | .empty => "E"
    | .simple s => "S" ++ hex s
    | .anyOf ss => "A" ++ ",".intercalate (ss.map hex)
  ";".intercalate [toString r.mask, fp, optHex r.hostname, showOptHashes r.domains, showOptHashes r.notDomains,
    showOptHash r.domainsUnion, showOptHash r.notDomainsUnion, optHex r.modifier, optHex r.tag, toString r.id, "0"]

/-- `entities;hostnames;notEntities;notHostnames;unhide;script;plain;hasAction;procJson;perm` -/
def parseCRule (s : String) : Option Cosmetic.CRule :=
  match s.splitOn ";" with
  | [e, h, ne, nh, unhide, script, plain, act, pj, perm] => do
    let e ← optNatList e
    let h ← optNatList h
    let ne ← optNatList ne
    let nh ← optNatList nh
    let plain ← unoptHex plain
    let pj ← unhex pj
    let perm ← perm.toNat?
    pure { entities := e, hostnames := h, notEntities := ne, notHostnames := nh, unhide := unhide == "1",
           scriptInject := script == "1", plain, hasAction := act == "1", procJson := pj, permission := perm }
  | _ => none

def showStrSet (l : List Str) : String := ",".intercalate ((l.map hex).toArray.qsort (· < ·)).toList

def showBool (b : Bool) : String := if b then "1" else "0"

def showVerdict (v : Verdict) : String :=
  s!"{showBool v.matched},{showBool v.important},{showBool v.exception},{optHex v.redirect},{optHex v.rewritten}"

/-- canonical form of a set of strings: sorted hex fields -/
def showSet (o : Option (List Str)) : String :=
  match o with
  | none => "-"
  | some l => "+" ++ ",".intercalate ((l.map hex).toArray.qsort (· < ·)).toList

def showHashes (l : List Hash) : String := ",".intercalate (l.map toString)

end Drv
