import Audit.Tool
import Adb.Props.C02
import Adb.Props.C02Host
#audit_module Adb.Props.C02
#audit_module Adb.Props.C02Host
