import Audit.Tool
import Adb.Props.C07
#audit_module Adb.Props.C07
