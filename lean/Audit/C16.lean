import Audit.Tool
import Adb.Props.C16
import Adb.Lemmas.Labels
import Adb.Props.C16Parse
#audit_module Adb.Props.C16
#audit_module Adb.Lemmas.Labels
#audit_module Adb.Props.C16Parse
