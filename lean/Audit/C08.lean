import Audit.Tool
import Adb.Props.C08
#audit_module Adb.Props.C08
