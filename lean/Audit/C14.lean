import Audit.Tool
import Adb.Props.C14
import Adb.Props.C01Tokens
import Adb.Props.TypeTable
#audit_module Adb.Props.C14
#audit_module Adb.Props.C01Tokens
#audit_module Adb.Props.TypeTable
