import Audit.Tool
import Adb.Props.C10
#audit_module Adb.Props.C10
