import Audit.Tool
import Adb.Props.C12
import Adb.Props.TypeTable
#audit_module Adb.Props.C12
#audit_module Adb.Props.TypeTable
