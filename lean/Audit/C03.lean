import Audit.Tool
import Adb.Props.C03
import Adb.Props.ParseFlags
#audit_module Adb.Props.C03
#audit_module Adb.Props.ParseInv
#audit_module Adb.Props.ParseMod
#audit_module Adb.Props.ParseFlags
