import Audit.Tool
import Adb.Props.C03
#audit_module Adb.Props.C03
