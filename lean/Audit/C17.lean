import Audit.Tool
import Adb.Props.C17
#audit_module Adb.Props.C17
