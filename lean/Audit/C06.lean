import Audit.Tool
import Adb.Props.C06
import Adb.Props.C13Store
#audit_module Adb.Props.C06
#audit_module Adb.Props.C13Store
