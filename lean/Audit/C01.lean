import Audit.Tool
import Adb.Props.C01
import Adb.Props.C01Engine
#audit_module Adb.Props.C01
#audit_module Adb.Props.C01Engine
