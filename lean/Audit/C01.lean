import Audit.Tool
import Adb.Props.C01
import Adb.Props.C01Engine
import Adb.Props.C01Opt
#audit_module Adb.Props.C01
#audit_module Adb.Props.C01Engine
#audit_module Adb.Lemmas.IndexOpt
#audit_module Adb.Props.C01Opt
