import Audit.Tool
import Adb.Props.C09
#audit_module Adb.Props.C09
