import Audit.Tool
import Adb.Props.C15
import Adb.Props.TypeTable
#audit_module Adb.Props.C15
#audit_module Adb.Props.TypeTable
