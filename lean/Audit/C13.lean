import Audit.Tool
import Adb.Props.C13
import Adb.Props.C13Store
import Adb.Props.Base64
#audit_module Adb.Props.C13
#audit_module Adb.Props.C13Store
#audit_module Adb.Props.Base64
