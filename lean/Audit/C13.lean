import Audit.Tool
import Adb.Props.C13
#audit_module Adb.Props.C13
