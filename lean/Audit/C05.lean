import Audit.Tool
import Adb.Props.C05
#audit_module Adb.Props.C05
