import Audit.Tool
import Adb.Props.C19
#audit_module Adb.Props.C19
