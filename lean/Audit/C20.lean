import Audit.Tool
import Adb.Props.C20
#audit_module Adb.Props.C20
