import Audit.Tool
import Adb.Props.C20
import Adb.Props.ParseInv
import Adb.Props.ParseUse
#audit_module Adb.Props.C20
#audit_module Adb.Props.ParseInv
#audit_module Adb.Props.ParseUse
