import Audit.Tool
import Adb.Props.C11
import Adb.Props.TblOptions
#audit_module Adb.Props.C11
#audit_module Adb.Props.TblOptions
