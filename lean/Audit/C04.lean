import Audit.Tool
import Adb.Props.C04
#audit_module Adb.Props.C04
