import Audit.Tool
import Adb.Props.C04
import Adb.Props.ParseFlags
#audit_module Adb.Props.C04
#audit_module Adb.Props.ParseFlags
