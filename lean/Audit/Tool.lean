import Lean
/-
  `#audit_module M` prints one line per theorem declared in module `M`:
     THEOREM <name> AXIOMS <comma separated axioms>
  The orchestrator counts these lines as the proof obligations of the property and compares every
  axiom list with the allow-list {propext, Classical.choice, Quot.sound}.
-/
open Lean Elab Command

elab "#audit_module " m:ident : command => do
  let env ← getEnv
  let modName := m.getId
  let some idx := env.getModuleIdx? modName
    | throwError "module {modName} not imported"
  let names := env.header.moduleData[idx.toNat]!.constNames
  for n in names do
    if n.isInternalDetail then continue
    -- only theorems written in the source file (equation lemmas etc. have no declaration range)
    let some _ ← findDeclarationRanges? n | continue
    if env.isProjectionFn n then continue
    match env.find? n with
    | some (.thmInfo _) =>
      let axs ← liftCoreM (collectAxioms n)
      let axs := axs.qsort Name.lt
      let priv := if isPrivateName n then "private " else ""
      logInfo m!"THEOREM {priv}{privateToUserName n} AXIOMS {", ".intercalate (axs.toList.map toString)}"
    | _ => pure ()
