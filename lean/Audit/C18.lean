import Audit.Tool
import Adb.Props.C18
import Adb.Props.C18Assembly
import Adb.Props.TblResources
#audit_module Adb.Props.C18
#audit_module Adb.Props.C18Assembly
#audit_module Adb.Props.TblResources
