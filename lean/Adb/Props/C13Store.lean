/-
  C13 / C06: the resource store as a history of `add_resource` calls.

  `Store.ofAttempts` replays the attempted calls; the theorems say that whatever the calls were,
  no identifier (name or alias) ends up owned by two resources, that a rejected call leaves the store
  exactly as it was, that an accepted call never changes what an already known identifier resolves to,
  and that a textual resource whose content is not UTF-8 text is never stored.
-/
import Adb.Model.Engine
namespace Adb.Props.C13Store
open Adb Adb.Net

/-- the identifiers a resource answers to -/
def idents (r : Resource) : List Str := r.name :: r.aliases

/-- no identifier is owned by two resources of the store -/
def Uniq (st : Store) : Prop := st.Pairwise (fun a b => ∀ i ∈ idents a, i ∉ idents b)

/-- the collision test of `add_resource` -/
def taken (st : Store) (ident : Str) : Bool := st.any (fun x => x.name == ident || x.aliases.contains ident)

theorem taken_iff (st : Store) (i : Str) : taken st i = true ↔ ∃ x ∈ st, i ∈ idents x := by
  unfold taken idents
  simp only [List.any_eq_true, Bool.or_eq_true, beq_iff_eq, List.contains_eq_mem, decide_eq_true_eq, List.mem_cons]
  constructor
  · rintro ⟨x, hx, h⟩
    exact ⟨x, hx, h.elim (fun e => Or.inl e.symm) Or.inr⟩
  · rintro ⟨x, hx, h⟩
    exact ⟨x, hx, h.elim (fun e => Or.inl e.symm) Or.inr⟩

/-- `add_resource` either leaves the store as it was or appends the resource, and appends only when none of
    its identifiers is taken -/
theorem add_cases (st : Store) (r : Resource) :
    st.add r = st ∨ (st.add r = st ++ [r] ∧ (idents r).any (taken st) = false ∧ contentOk r = true) := by
  unfold Store.add
  simp only []
  split
  · exact Or.inl rfl
  · split
    · exact Or.inl rfl
    · split
      · exact Or.inl rfl
      · rename_i _ hc ht
        refine Or.inr ⟨rfl, ?_, ?_⟩
        · simpa [idents, taken] using ht
        · simpa using hc

theorem add_uniq (st : Store) (r : Resource) (h : Uniq st) : Uniq (st.add r) := by
  rcases add_cases st r with e | ⟨e, ht, _⟩
  · rw [e]; exact h
  · rw [e]
    unfold Uniq at *
    rw [List.pairwise_append]
    refine ⟨h, List.pairwise_singleton _ _, ?_⟩
    intro a ha b hb i hi
    rw [List.mem_singleton] at hb
    subst hb
    intro hib
    have : taken st i = true := (taken_iff st i).2 ⟨a, ha, hi⟩
    have hf : (idents b).any (taken st) = true := List.any_eq_true.2 ⟨i, hib, this⟩
    rw [ht] at hf
    cases hf

theorem fold_uniq (rs : List Resource) (st : Store) (h : Uniq st) : Uniq (rs.foldl Store.add st) := by
  induction rs generalizing st with
  | nil => exact h
  | cons r rs ih => exact ih _ (add_uniq st r h)

/-- whatever calls were attempted, no identifier is owned by two stored resources -/
theorem ofAttempts_uniq (rs : List Resource) : Uniq (Store.ofAttempts rs) :=
  fold_uniq rs [] List.Pairwise.nil

/-- a call that names a taken identifier changes nothing (nothing of the rejected resource is registered) -/
theorem add_rejected_unchanged (st : Store) (r : Resource) (i : Str) (hi : i ∈ idents r) (ht : taken st i = true) :
    st.add r = st := by
  rcases add_cases st r with e | ⟨_, hf, _⟩
  · exact e
  · have : (idents r).any (taken st) = true := List.any_eq_true.2 ⟨i, hi, ht⟩
    rw [hf] at this
    cases this

/-- a textual resource whose content does not decode to UTF-8 text is never stored -/
theorem add_not_text_unchanged (st : Store) (r : Resource) (hk : textualKinds.contains r.kind = true)
    (hc : ∀ bs, b64Decode r.content = some bs → (String.fromUTF8? (ByteArray.mk bs.toArray)).isSome = false) :
    st.add r = st := by
  rcases add_cases st r with e | ⟨_, _, hok⟩
  · exact e
  · exfalso
    unfold contentOk at hok
    have hT : (r.kind == "Template") = false := by
      cases hq : (r.kind == "Template")
      · rfl
      · have : r.kind = "Template" := by simpa using hq
        rw [this] at hk
        revert hk
        decide
    simp only [hT] at hok
    cases hd : b64Decode r.content with
    | none => simp [hd] at hok
    | some bs =>
      simp only [hd, hk, Bool.not_true, Bool.false_or] at hok
      rw [hc bs hd] at hok
      cases hok

/-- the store only grows: what was stored stays, in the same order -/
theorem add_prefix (st : Store) (r : Resource) : ∃ t, st.add r = st ++ t := by
  rcases add_cases st r with e | ⟨e, _, _⟩
  · exact ⟨[], by rw [e, List.append_nil]⟩
  · exact ⟨[r], e⟩

/-- the accepting branch is reachable: a resource without dependencies whose content passes and none of whose
    identifiers is taken is appended -/
theorem add_accepts (st : Store) (r : Resource) (hd : r.deps = []) (hc : contentOk r = true)
    (ht : (idents r).any (taken st) = false) : st.add r = st ++ [r] := by
  unfold Store.add
  simp only [hd, List.isEmpty_nil, Bool.true_or, Bool.not_true, hc]
  have : ((r.name :: r.aliases).any fun ident => st.any fun x => x.name == ident || x.aliases.contains ident) = false := by
    simpa [idents, taken] using ht
  rw [this]
  rfl

private theorem find?_append_some {α} (p : α → Bool) (l t : List α) (x : α) (h : l.find? p = some x) :
    (l ++ t).find? p = some x := by
  rw [List.find?_append, h]; rfl

/-- an accepted call never changes what an already known identifier resolves to (and a rejected one changes nothing):
    lookups are stable along every history -/
theorem find_stable (st : Store) (r : Resource) (i : Str) (x : Resource) (h : st.find i = some x) :
    (st.add r).find i = some x := by
  rcases add_cases st r with e | ⟨e, ht, _⟩
  · rw [e]; exact h
  · rw [e]
    unfold Store.find at h ⊢
    cases hn : st.find? (fun y => y.name == i) with
    | some y =>
      rw [hn] at h
      rw [find?_append_some _ _ _ _ hn]
      exact h
    | none =>
      rw [hn] at h
      simp only at h
      -- `i` is an alias in `st`, so it is taken and `r` is not named `i`
      cases ha : st.find? (fun y => y.aliases.contains i) with
      | none => rw [ha] at h; cases h
      | some a =>
        rw [ha] at h
        simp only at h
        have hmem : a ∈ st := List.mem_of_find?_eq_some ha
        have hal : a.aliases.contains i = true := by simpa using List.find?_some ha
        have htk : taken st i = true :=
          (taken_iff st i).2 ⟨a, hmem, by unfold idents; exact List.mem_cons_of_mem _ (by simpa using hal)⟩
        have hrn : (r.name == i) = false := by
          cases hq : (r.name == i)
          · rfl
          · have hri : r.name = i := by simpa using hq
            have : (idents r).any (taken st) = true :=
              List.any_eq_true.2 ⟨i, by unfold idents; rw [hri]; exact List.mem_cons_self, htk⟩
            rw [ht] at this
            cases this
        have hn' : (st ++ [r]).find? (fun y => y.name == i) = none := by
          rw [List.find?_append, hn]
          simp [hrn]
        rw [hn']
        simp only
        rw [find?_append_some _ _ _ _ ha]
        simp only
        exact find?_append_some _ _ _ _ h

theorem fold_find_stable (rs : List Resource) (st : Store) (i : Str) (x : Resource) (h : st.find i = some x) :
    (rs.foldl Store.add st).find i = some x := by
  induction rs generalizing st with
  | nil => exact h
  | cons r rs ih => exact ih _ (find_stable st r i x h)

/-- along a history of attempted calls, an identifier that resolves after the first `k` calls resolves to the same
    resource after all of them -/
theorem ofAttempts_find_stable (rs more : List Resource) (i : Str) (x : Resource)
    (h : (Store.ofAttempts rs).find i = some x) : (Store.ofAttempts (rs ++ more)).find i = some x := by
  unfold Store.ofAttempts at *
  rw [List.foldl_append]
  exact fold_find_stable more _ i x h

end Adb.Props.C13Store
