import Adb.Model.Wire
/-
  C10 — Loading corrupt or hostile serialized data fails cleanly and atomically.
  What a theorem carries: the header dispatch (total, and exactly which byte strings reach the
  decoder) and atomicity (the state is replaced only after a complete successful decode).
  The msgpack decoder's own totality / allocation behaviour lives in `rmp-serde` and is exercised by
  fault enumeration (this property is claimed as partial, see DESIGN.md).
-/
namespace Adb.Wire
open Adb Adb.Net

/-- exactly the byte strings `magic ++ 0 :: rest` are handed to the decoder -/
theorem dispatch_v0_iff (b : List Nat) : dispatch b = .v0 ↔ ∃ rest, b = magic ++ 0 :: rest := by
  unfold dispatch
  constructor
  · intro h
    by_cases hm : magic.isPrefixOf b = true
    · simp only [hm, if_true] at h
      obtain ⟨t, rfl⟩ := List.isPrefixOf_iff_prefix.1 hm
      simp only [List.drop_left'] at h
      cases t with
      | nil => simp at h
      | cons v vs =>
        simp only at h
        split at h
        · rename_i hv; exact ⟨vs, by simp at hv; rw [hv]⟩
        · cases h
    · simp only [hm, Bool.false_eq_true, if_false] at h
      split at h <;> cases h
  · rintro ⟨rest, rfl⟩
    have : magic.isPrefixOf (magic ++ 0 :: rest) = true := List.isPrefixOf_iff_prefix.2 ⟨_, rfl⟩
    simp [this]

/-- the four magic bytes alone are rejected (index out of bounds before the fix) -/
theorem magic_only_rejected : dispatch magic = .noHeader := by decide

/-- every proper prefix of the header is rejected without reaching the decoder -/
theorem short_input_rejected (b : List Nat) (h : b.length ≤ 4) : dispatch b ≠ .v0 := by
  intro hv
  obtain ⟨rest, rfl⟩ := (dispatch_v0_iff b).1 hv
  simp [magic] at h

/-- a wrong version byte is reported as such -/
theorem wrong_version (v : Nat) (rest : List Nat) (hv : v ≠ 0) :
    dispatch (magic ++ v :: rest) = .unsupportedVersion v := by
  unfold dispatch
  have : magic.isPrefixOf (magic ++ v :: rest) = true := List.isPrefixOf_iff_prefix.2 ⟨_, rfl⟩
  simp [this, hv]

/-- the legacy gzip header is recognised (and refused) -/
theorem gzip_refused (rest : List Nat) : dispatch (gzHeader ++ rest) = .legacyGzip := by
  unfold dispatch
  have h1 : magic.isPrefixOf (gzHeader ++ rest) = false := by simp [magic, gzHeader, List.isPrefixOf]
  have h2 : gzHeader.isPrefixOf (gzHeader ++ rest) = true := List.isPrefixOf_iff_prefix.2 ⟨_, rfl⟩
  simp [h1, h2]

/-- **atomicity**: when loading returns an error the engine is exactly what it was before the call —
    for every byte string and every decoder outcome -/
theorem failed_load_preserves_state (e : EngineSt) (bytes : List Nat) (decoded : Option (Blocker × Cosmetic.Cache))
    (h : (deserialize e bytes decoded).2 = false) : (deserialize e bytes decoded).1 = e := by
  unfold deserialize at *
  split at h
  · split at h
    · cases h
    · rfl
  · rfl

/-- a byte string that does not pass the header dispatch never changes the engine, whatever the decoder
    would have made of it -/
theorem bad_header_preserves_state (e : EngineSt) (bytes : List Nat) (decoded : Option (Blocker × Cosmetic.Cache))
    (h : dispatch bytes ≠ .v0) : deserialize e bytes decoded = (e, false) := by
  unfold deserialize
  split
  · rename_i hd; exact absurd hd h
  · rfl

/-- a successful load keeps the caller's enabled tags -/
theorem successful_load_keeps_tags (e : EngineSt) (bytes : List Nat) (b : Blocker) (c : Cosmetic.Cache) (x : Str)
    (h : dispatch bytes = .v0) :
    x ∈ (deserialize e bytes (some (b, c))).1.blocker.tagsEnabled ↔ x ∈ e.blocker.tagsEnabled := by
  unfold deserialize
  simp only [h]
  unfold Blocker.loadFrom
  simp only
  unfold Blocker.useTags Blocker.tagsWithSet
  simp only
  -- dedupS keeps membership
  have : ∀ l : List Str, ∀ y, y ∈ dedupS l ↔ y ∈ l := by
    intro l y
    unfold dedupS
    suffices hh : ∀ acc : List Str, y ∈ l.foldl (fun acc x => if acc.contains x then acc else acc ++ [x]) acc ↔ y ∈ acc ∨ y ∈ l by
      simpa using hh []
    induction l with
    | nil => intro acc; simp
    | cons a as ih =>
      intro acc
      simp only [List.foldl_cons, ih, List.mem_cons]
      split
      · rename_i hc
        have ha : a ∈ acc := by simpa using hc
        constructor
        · rintro (h1 | h1); exact Or.inl h1; exact Or.inr (Or.inr h1)
        · rintro (h1 | rfl | h1); exact Or.inl h1; exact Or.inl ha; exact Or.inr h1
      · simp only [List.mem_append, List.mem_singleton]
        constructor
        · rintro ((h1 | rfl) | h1); exact Or.inl h1; exact Or.inr (Or.inl rfl); exact Or.inr (Or.inr h1)
        · rintro (h1 | rfl | h1); exact Or.inl (Or.inl h1); exact Or.inl (Or.inr rfl); exact Or.inr h1
  exact this _ x

/-! ### header variants of the property's list -/
example : dispatch [] = .noHeader := by decide
example : dispatch [0xd1, 0xd9, 0x3a] = .noHeader := by decide
example : dispatch [0xd1, 0xd9, 0x3a, 0xaf, 7] = .unsupportedVersion 7 := by decide
example : dispatch [0xd1, 0xd9, 0x3a, 0xaf, 0] = .v0 := by decide
example : dispatch [31, 139, 8, 0, 0, 0, 0, 0, 0, 255, 1, 2] = .legacyGzip := by decide

end Adb.Wire
