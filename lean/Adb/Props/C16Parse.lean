/-
  What the cosmetic rule parser guarantees about generic rules (rules without any location): they
  are plain hide rules — never an exception, a scriptlet injection or an action rule. The generic
  stores of the cosmetic cache (C16, C17) hold selectors only and rely on exactly this.
-/
import Adb.Model.CosmeticParse
namespace Adb.Props.C16Parse
open Adb Adb.CosmeticParse

theorem parseBody_generic (line : Str) (ss : Nat) (sel : Str) (act : Option Action) (script : Bool)
    (h : parseBody line ss true = .ok (sel, act, script)) : script = false ∧ act = none := by
  unfold parseBody at h
  simp only at h
  split at h
  · simp at h
  · split at h
    · cases h
    · rename_i s a _
      split at h
      · cases h
      · rename_i hact
        injection h with h
        injection h with h1 h2
        injection h2 with h3 h4
        refine ⟨h4.symm, ?_⟩
        rw [← h3]
        cases a with
        | none => rfl
        | some x => simp at hact

theorem finish_generic (line : Str) (ss : Nat) (locs : Locations) (unhide : Bool) (r : PRule)
    (h : finishCosmetic line ss locs unhide = .ok r) (hg : locs.isGeneric = true) :
    r.unhide = false ∧ r.scriptInject = false ∧ r.action = none := by
  unfold finishCosmetic at h
  rw [hg] at h
  split at h
  · cases h
  · rename_i hun
    split at h
    · cases h
    · split at h
      · cases h
      · rename_i sel act script hb
        split at h
        · cases h
        · injection h with h
          subst h
          obtain ⟨h1, h2⟩ := parseBody_generic line ss sel act script hb
          exact ⟨by simpa using hun, h1, h2⟩

theorem finish_locs (line : Str) (ss : Nat) (locs : Locations) (unhide : Bool) (r : PRule)
    (h : finishCosmetic line ss locs unhide = .ok r) : r.locs = locs := by
  unfold finishCosmetic at h
  split at h
  · cases h
  · split at h
    · cases h
    · split at h
      · cases h
      · split at h
        · cases h
        · injection h with h; subst h; rfl

/-- **A rule without locations that the parser accepts is a plain hide rule** (not an exception, not a
    scriptlet injection, no action) — whether the location list is absent or present but empty. -/
theorem generic_is_plain_hide (line : Str) (r : PRule) (h : parseCosmetic line = .ok r)
    (hg : r.locs.isGeneric = true) : r.unhide = false ∧ r.scriptInject = false ∧ r.action = none := by
  unfold parseCosmetic at h
  split at h
  · cases h
  · split at h
    · cases h
    · rename_i locs _
      have hl := finish_locs _ _ _ _ _ h
      rw [hl] at hg
      exact finish_generic _ _ _ _ _ h hg

/-- an exception rule never carries negated locations (`DoubleNegation`) -/
theorem exception_not_negated (line : Str) (r : PRule) (h : parseCosmetic line = .ok r)
    (hu : r.unhide = true) : r.locs.notEntities = none ∧ r.locs.notHostnames = none := by
  unfold parseCosmetic at h
  split at h
  · cases h
  · split at h
    · cases h
    · unfold finishCosmetic at h
      split at h
      · cases h
      · split at h
        · cases h
        · split at h
          · cases h
          · split at h
            · cases h
            · rename_i hdn
              injection h with h
              subst h
              simp only at hu
              simp only [hu, Bool.and_true, Bool.or_eq_true, not_or, Bool.not_eq_true,
                Option.isSome_eq_false_iff, Option.isNone_iff_eq_none] at hdn
              exact hdn

end Adb.Props.C16Parse
