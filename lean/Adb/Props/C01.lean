import Adb.Spec.Verdict
/- C01 — placeholder: theorems follow (index_complete, engine_eq_scan). -/
namespace Adb.Net
theorem tagOk_nil_of_none (r : Rule) (h : r.tag = none) : tagOk r [] = true := by
  simp [tagOk, h]
end Adb.Net
