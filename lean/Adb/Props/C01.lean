import Adb.Lemmas.Index
/-
  C01 — Engine verdict equals rule-by-rule evaluation of the loaded list.

  `index_complete`: for *every* rule list, tag set and request, looking rules up through the token
  index (bucket chosen per rule by the token histogram of the whole list, sorted de-duplicated
  buckets, probing by the request's source-host hashes, URL tokens and the fallback token 0) returns
  exactly the rules that match when tested one by one — provided each matching rule is
  `tokenSound` for the request (one of its token groups is probed entirely) and rule ids identify
  rules within the list (the properties' no-hash-collision assumption).  Both hypotheses are evaluated
  by the driver on every generated case (the `D` flag).
-/
namespace Adb.Net
open Adb Adb.Net.Spec

/-- rule ids (seahash of the rule text) identify rules within the list -/
def IdsIdentify (rules : List Rule) : Prop := ∀ f ∈ rules, ∀ g ∈ rules, f.id = g.id → f = g

/-- **no rule that does not match is applied, and every returned rule is a rule of the list** -/
theorem index_sound (rules : List Rule) (q : Request) (tags : List Str) (f : Rule)
    (h : f ∈ (Index.build rules false).checkAll q tags) : f ∈ hits rules q tags := by
  rw [mem_checkAll] at h
  obtain ⟨_, t, _, hget, hm, ht⟩ := h
  rw [build_eq_insertAll] at hget
  rcases insertAll_sound _ _ _ _ hget with h0 | ⟨p, hp, rfl⟩
  · simp [Index.get] at h0
  · unfold buildPairs at hp
    simp only [List.mem_flatMap, List.mem_map] at hp
    obtain ⟨r, hr, g, _, rfl⟩ := hp
    unfold hits
    simp only [List.mem_filter, Bool.and_eq_true]
    exact ⟨hr, hm, ht⟩

/-- a matching rule has a token group that the request probes entirely (group-wise form of
    `Spec.tokenSound` without the removeparam escape) -/
def GroupProbed (r : Rule) (q : Request) : Prop :=
  r.matches q = true → ∃ g ∈ r.getTokens, ∀ t ∈ g, t ∈ q.probe

/-- **no rule that matches is lost** because of how rules are bucketed by token, de-duplicated or
    looked up: any list, any histogram, any bucket choice. -/
theorem index_complete (rules : List Rule) (q : Request) (tags : List Str) (f : Rule)
    (hids : IdsIdentify rules) (h0 : 0 ∈ q.probe) (hgp : GroupProbed f q)
    (h : f ∈ hits rules q tags) : f ∈ (Index.build rules false).checkAll q tags := by
  unfold hits at h
  simp only [List.mem_filter, Bool.and_eq_true] at h
  obtain ⟨hf, hm, ht⟩ := h
  obtain ⟨g, hg, hprobe⟩ := hgp hm
  rw [mem_checkAll, build_eq_insertAll]
  -- the pair (best token of g, f) is inserted
  let toks := rules.map (fun r => (r, r.getTokens))
  let th := tokenHistogram (toks.map (·.2))
  let k := bestToken th.2.get? (th.1 + 1) g
  have hpair : (k, f) ∈ buildPairs rules := by
    unfold buildPairs
    simp only [List.mem_flatMap, List.mem_map]
    exact ⟨f, hf, g, hg, rfl⟩
  have hk : k ∈ q.probe := by
    rcases bestToken_mem th.2.get? (th.1 + 1) g with h1 | h1
    · show bestToken th.2.get? (th.1 + 1) g ∈ q.probe
      rw [h1]; exact h0
    · exact hprobe _ h1
  obtain ⟨y, hy, hid⟩ := insertAll_complete (buildPairs rules) [] (k, f) hpair
  -- the stored rule with f's id is a rule of the list, hence f itself
  have hyl : y ∈ rules := by
    rcases insertAll_sound _ _ _ _ hy with h1 | ⟨p, hp, rfl⟩
    · simp [Index.get] at h1
    · unfold buildPairs at hp
      simp only [List.mem_flatMap, List.mem_map] at hp
      obtain ⟨r, hr, _, _, rfl⟩ := hp
      exact hr
  have hyf : y = f := hids y hyl f hf hid
  subst hyf
  refine ⟨insertAll_ne_nil _ _ (Or.inl (List.ne_nil_of_mem hpair)), k, hk, hy, hm, ht⟩

/-- **lookup through the index = rule-by-rule evaluation**, as sets of rules, for every list. -/
theorem index_eq_scan (rules : List Rule) (q : Request) (tags : List Str)
    (hids : IdsIdentify rules) (h0 : 0 ∈ q.probe) (hgp : ∀ r ∈ rules, GroupProbed r q) (f : Rule) :
    f ∈ (Index.build rules false).checkAll q tags ↔ f ∈ hits rules q tags := by
  constructor
  · exact index_sound rules q tags f
  · intro h
    have hf : f ∈ rules := by unfold hits at h; exact (List.mem_filter.1 h).1
    exact index_complete rules q tags f hids h0 (hgp f hf) h

/-- `check` (first match) finds something iff some rule matches -/
theorem index_check_isSome (rules : List Rule) (q : Request) (tags : List Str)
    (hids : IdsIdentify rules) (h0 : 0 ∈ q.probe) (hgp : ∀ r ∈ rules, GroupProbed r q) :
    ((Index.build rules false).check q tags).isSome = !(hits rules q tags).isEmpty := by
  unfold Index.check
  rw [Bool.eq_iff_iff]
  simp only [Option.isSome_iff_exists, List.head?_eq_some_iff, Bool.not_eq_true',
    List.isEmpty_eq_false_iff_exists_mem]
  constructor
  · rintro ⟨a, l, hl⟩
    exact ⟨a, (index_eq_scan rules q tags hids h0 hgp a).1 (by rw [hl]; exact List.mem_cons_self ..)⟩
  · rintro ⟨a, ha⟩
    have := (index_eq_scan rules q tags hids h0 hgp a).2 ha
    cases hc : (Index.build rules false).checkAll q tags with
    | nil => rw [hc] at this; cases this
    | cons b l => exact ⟨b, l, rfl⟩

/-- every request built by the library probes the fallback token 0 (`calculate_tokens` appends it) -/
theorem mkRequest_probes_zero (rawType url schema hostname src : Str) (tp : Bool) (orig : Str) :
    (0 : Hash) ∈ (mkRequest rawType url schema hostname src tp orig).probe := by
  unfold Request.probe mkRequest
  simp

/-- the executable check the driver evaluates per case implies the theorem's hypothesis -/
theorem tokenSound_groupProbed (r : Rule) (q : Request)
    (h : tokenSound r q = true) (hrp : r.isRemoveparam = false ∨ paramPresent r q = true) : GroupProbed r q := by
  intro hm
  unfold tokenSound at h
  have hesc : (r.isRemoveparam && !paramPresent r q) = false := by
    rcases hrp with h1 | h1 <;> simp [h1]
  simp only [hm, hesc, Bool.not_true, Bool.false_or, List.any_eq_true] at h
  obtain ⟨g, hg, hp⟩ := h
  refine ⟨g, hg, ?_⟩
  split at hp
  · rename_i he
    have : g = [] := by simpa using he
    subst this; simp
  · intro t ht
    simp only [List.all_eq_true, List.contains_eq_mem, decide_eq_true_eq] at hp
    exact hp t ht

end Adb.Net
