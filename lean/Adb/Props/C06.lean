import Adb.Model.RegexCache
import Adb.Model.History
import Adb.Props.C01Engine
import Adb.Props.C15
/-
  C06 — Answers depend only on current rules, tags and resources, not on history.

  Part 1 (this file, `Adb.Cache`): the compiled-regex cache is transparent — for every sequence of
  queries, allocations, frees, clock readings, discard-policy changes and explicit discards, and for
  every allocator (any address that is not live may be handed out), each answer equals the answer of
  the regex compiled from the filter that is live at that address now.
  Part 2 (`Adb.Net`): the blocker state after any sequence of tag operations is the state a fresh
  build reaches with the final tag set.
-/
namespace Adb.Cache
open Adb Adb.Net

/-- every compiled entry belongs to the filter that is live at its address -/
def Inv (s : St) : Prop :=
  ∀ a e k, (a, e) ∈ s.rm.map → e.regex = some k → ∃ r, s.heap.get a = some r ∧ k = keyOf r

private theorem mem_put (m : RM) (a : Addr) (e : Entry) (p : Addr × Entry) (h : p ∈ (m.put a e).map) :
    p = (a, e) ∨ (p ∈ m.map ∧ p.1 ≠ a) := by
  unfold RM.put at h
  split at h
  · simp only [List.mem_map] at h
    obtain ⟨p0, hp0, rfl⟩ := h
    by_cases hk : p0.1 == a
    · simp [hk]
    · simp only [hk, Bool.false_eq_true, if_false]
      right; exact ⟨hp0, by simpa using hk⟩
  · rename_i hany
    simp only [List.mem_append, List.mem_singleton] at h
    rcases h with h | h
    · right
      refine ⟨h, ?_⟩
      intro heq
      apply hany
      simp only [List.any_eq_true]; exact ⟨p, h, by simp [heq]⟩
    · exact Or.inl h

private theorem find_mem (m : RM) (a : Addr) (e : Entry) (h : m.find a = some e) : (a, e) ∈ m.map := by
  unfold RM.find at h
  cases hf : m.map.find? (·.1 == a) with
  | none => simp [hf] at h
  | some p =>
    simp only [hf, Option.map_some, Option.some.injEq] at h
    have hk := List.find?_some hf
    have hm := List.mem_of_find?_eq_some hf
    have : p.1 = a := by simpa using hk
    obtain ⟨pa, pe⟩ := p
    simp only at this h
    subst this; subst h; exact hm

/-- a query is answered as by the freshly compiled regex, and keeps the invariant -/
theorem query_fresh (s : St) (a : Addr) (text : Str) (r : Rule) (hinv : Inv s) (hr : s.heap.get a = some r) :
    (step true s (.query a text)).2 = some (fresh r text) ∧ Inv (step true s (.query a text)).1 := by
  have hstep : step true s (.query a text) =
      ({ s with rm := (s.rm.matches a r text).1 }, some (s.rm.matches a r text).2) := by
    simp only [step, hr]
  rw [hstep]
  simp only
  unfold RM.matches fresh
  by_cases hnr : (!r.isRegex && !r.isCompleteRegex) = true
  · simp only [hnr, if_true, Bool.true_or]
    exact ⟨trivial, hinv⟩
  · simp only [hnr, Bool.false_eq_true, if_false]
    have hnr' : (!r.isRegex && !r.isCompleteRegex) = false := by simpa using hnr
    cases hf : s.rm.find a with
    | none =>
      simp only [hnr', Bool.false_or]
      refine ⟨trivial, ?_⟩
      intro a' e' k' hmem hk
      rcases mem_put _ _ _ _ hmem with h1 | ⟨h1, _⟩
      · simp only [Prod.mk.injEq] at h1
        obtain ⟨rfl, rfl⟩ := h1
        simp only [Option.some.injEq] at hk
        exact ⟨r, hr, hk.symm⟩
      · exact hinv a' e' k' h1 hk
    | some e =>
      have hmem := find_mem _ _ _ hf
      have hfin : ∀ k, k = keyOf r →
          some (evalKey k r.rx text) = some (evalKey (keyOf r) r.rx text) ∧
          Inv { heap := s.heap, rm := s.rm.put a ⟨some k, s.rm.now⟩ } := by
        intro k hk0
        subst hk0
        refine ⟨rfl, ?_⟩
        intro a' e' k' hmem' hk
        rcases mem_put _ _ _ _ hmem' with h1 | ⟨h1, _⟩
        · simp only [Prod.mk.injEq] at h1
          obtain ⟨rfl, rfl⟩ := h1
          simp only [Option.some.injEq] at hk
          exact ⟨r, hr, hk.symm⟩
        · exact hinv a' e' k' h1 hk
      simp only [hnr', Bool.false_or]
      cases hreg : e.regex with
      | none => exact hfin _ rfl
      | some k =>
        obtain ⟨r', hr', hk⟩ := hinv a e k hmem hreg
        rw [hr] at hr'; cases hr'
        exact hfin _ hk

private theorem inv_of_weaker (s : St) (m' : RM) (hinv : Inv s)
    (h : ∀ a e k, (a, e) ∈ m'.map → e.regex = some k → ∃ e0, (a, e0) ∈ s.rm.map ∧ e0.regex = some k) :
    Inv { s with rm := m' } := by
  intro a e k hm hk
  obtain ⟨e0, h0, hk0⟩ := h a e k hm hk
  exact hinv a e0 k h0 hk0

private theorem get_append (h : Heap) (a a' : Addr) (r r' : Rule) (hg : h.get a' = some r') :
    (h ++ [(a, r)]).get a' = some r' := by
  unfold Heap.get at hg ⊢
  rw [List.find?_append]
  cases hf : h.find? (·.1 == a') with
  | none => simp [hf] at hg
  | some p => simpa [hf] using hg

/-- **every operation preserves the invariant, whatever address the allocator hands out** -/
theorem inv_step (s : St) (op : Op) (hinv : Inv s) : Inv (step true s op).1 := by
  cases op with
  | query a text =>
    cases hr : s.heap.get a with
    | some r => exact (query_fresh s a text r hinv hr).2
    | none =>
      have : step true s (.query a text) = (s, none) := by simp only [step, hr]
      rw [this]; exact hinv
  | alloc a r =>
    by_cases hl : (s.heap.get a).isSome = true
    · have : step true s (.alloc a r) = (s, none) := by simp only [step, hl, if_true]
      rw [this]; exact hinv
    · have : step true s (.alloc a r) = ({ s with heap := s.heap ++ [(a, r)] }, none) := by
        simp only [step, hl, Bool.false_eq_true, if_false]
      rw [this]
      intro a' e k hm hk
      obtain ⟨r', hr', hk'⟩ := hinv a' e k hm hk
      exact ⟨r', get_append _ _ _ _ _ hr', hk'⟩
  | free as =>
    simp only [step, if_true]
    intro a e k hm _
    simp [RM.clear] at hm
  | tick t =>
    simp only [step]
    apply inv_of_weaker s _ hinv
    intro a e k hm hk
    unfold RM.updateTime at hm
    simp only at hm
    split at hm
    · unfold RM.cleanup at hm
      simp only [List.mem_map] at hm
      obtain ⟨p, hp, hpe⟩ := hm
      obtain ⟨pa, pe⟩ := p
      simp only at hpe
      split at hpe
      · simp only [Prod.mk.injEq] at hpe; obtain ⟨rfl, rfl⟩ := hpe; simp at hk
      · simp only [Prod.mk.injEq] at hpe; obtain ⟨rfl, rfl⟩ := hpe; exact ⟨pe, hp, hk⟩
    · exact ⟨e, hm, hk⟩
  | setPolicy i u =>
    simp only [step]
    apply inv_of_weaker s _ hinv
    intro a e k hm hk
    exact ⟨e, hm, hk⟩
  | discard a0 =>
    simp only [step]
    apply inv_of_weaker s _ hinv
    intro a e k hm hk
    unfold RM.discard at hm
    simp only [List.mem_map] at hm
    obtain ⟨p, hp, hpe⟩ := hm
    obtain ⟨pa, pe⟩ := p
    simp only at hpe
    split at hpe
    · simp only [Prod.mk.injEq] at hpe; obtain ⟨rfl, rfl⟩ := hpe; simp at hk
    · simp only [Prod.mk.injEq] at hpe; obtain ⟨rfl, rfl⟩ := hpe; exact ⟨pe, hp, hk⟩

/-- the history without any cache: only the heap is tracked -/
def specStep (h : Heap) : Op → Heap × Option Bool
  | .query a text => (h, (h.get a).map (fun r => fresh r text))
  | .alloc a r => if (h.get a).isSome then (h, none) else (h ++ [(a, r)], none)
  | .free as => (h.filter (fun p => !as.contains p.1), none)
  | _ => (h, none)

def specRun (h : Heap) : List Op → List (Option Bool)
  | [] => []
  | op :: ops => let (h', o) := specStep h op; o :: specRun h' ops

/-- **history independence of the cache**: for all operation sequences (any length, any
    interleaving of queries, re-allocations at reused addresses, clock readings, policy changes and
    discards), every answer equals the cache-free answer. -/
theorem cache_transparent (s : St) (ops : List Op) (hinv : Inv s) :
    (run true s ops).2 = specRun s.heap ops := by
  induction ops generalizing s with
  | nil => rfl
  | cons op ops ih =>
    unfold run specRun
    simp only
    have hinv' := inv_step s op hinv
    have hstep : (step true s op).2 = (specStep s.heap op).2 ∧ (step true s op).1.heap = (specStep s.heap op).1 := by
      cases op with
      | query a text =>
        cases hr : s.heap.get a with
        | some r =>
          have := (query_fresh s a text r hinv hr).1
          refine ⟨by rw [this]; simp [specStep, hr], ?_⟩
          simp only [step, hr, specStep]
        | none => simp only [step, hr, specStep, Option.map_none, and_self]
      | alloc a r =>
        by_cases hl : (s.heap.get a).isSome = true
        · simp only [step, specStep, hl, if_true, and_self]
        · simp only [step, specStep, hl, Bool.false_eq_true, if_false, and_self]
      | free as => simp only [step, specStep, and_self]
      | tick t => simp only [step, specStep, and_self]
      | setPolicy i u => simp only [step, specStep, and_self]
      | discard a => simp only [step, specStep, and_self]
    rw [hstep.1, ih _ hinv', hstep.2]

theorem inv_init : Inv {} := by intro a e k hm; simp at hm

/-! ### the pinned (pre-fix) behaviour violates the property: a concrete history -/
private def wild (pat : String) : Rule :=
  { mask := 2 ^ Gen.IS_REGEX, filter := .simple pat.toList, hostname := none, domains := none,
    notDomains := none, domainsUnion := none, notDomainsUnion := none, modifier := none, tag := none, id := 0 }

private def reuse : List Op :=
  [.alloc 7 (wild "ads*x"), .query 7 "ads-1-x".toList, .free [7], .alloc 7 (wild "track*y"), .query 7 "track-1-y".toList]

/-- without the cache clear, the filter re-allocated at address 7 inherits the old compiled regex -/
example : (run false {} reuse).2 = [none, some true, none, none, some false] := by decide
/-- with it (the repaired tree) the answer is the fresh one -/
example : (run true {} reuse).2 = [none, some true, none, none, some true] := by decide
example : specRun [] reuse = [none, some true, none, none, some true] := by decide

end Adb.Cache

namespace Adb.Net
open Adb Adb.Net.Spec

/-- re-tagging rebuilds the tagged list from `tagged_filters_all`: the representation invariant is
    re-established for the new tag set, whatever the previous one was -/
theorem repr_tagsWithSet (b : Blocker) (rules : List Rule) (T T' : List Str) (h : b.Repr rules T) :
    (b.tagsWithSet T').Repr rules T' := by
  constructor
  all_goals (try simp only [Blocker.tagsWithSet])
  · exact h.importants
  · exact h.exceptions
  · exact h.filters
  · rw [h.taggedAll, h.optimize]
  · exact h.redirects
  · exact h.removeparam
  · exact h.csp
  · exact h.genericHide
  · exact h.taggedAll
  · exact h.optimize

/-- the tag operations of a history -/
def HOp.isTagOp : HOp → Bool
  | .useTags _ | .enableTags _ | .disableTags _ => true
  | _ => false

/-- **after any sequence of use / enable / disable** (any length, any repetition) the blocker is in
    the state determined by the rules and the final tag set alone -/
theorem repr_after_tag_history (s : HState) (rules : List Rule) (ops : List HOp)
    (hops : ∀ op ∈ ops, op.isTagOp = true) (h : s.b.Repr rules s.b.tagsEnabled) :
    (hrun s ops).b.Repr rules (hrun s ops).b.tagsEnabled := by
  unfold hrun
  induction ops generalizing s with
  | nil => exact h
  | cons op ops ih =>
    simp only [List.foldl_cons]
    apply ih
    · intro o ho; exact hops o (List.mem_cons_of_mem _ ho)
    · have hop := hops op (List.mem_cons_self ..)
      cases op with
      | useTags t => exact repr_tagsWithSet _ _ _ _ h
      | enableTags t => exact repr_tagsWithSet _ _ _ _ h
      | disableTags t => exact repr_tagsWithSet _ _ _ _ h
      | optimize => cases hop
      | add r => cases hop
      | reload => cases hop
      | loadFresh t => cases hop

/-- two blockers in the state determined by the same rules and tags answer every query alike -/
theorem repr_determines_answers (b b' : Blocker) (rules : List Rule) (T : List Str)
    (h : b.Repr rules T) (h' : b'.Repr rules T) (st : Store) (q : Request) :
    b.check st q = b'.check st q ∧ b.csp? q = b'.csp? q ∧ b.genericHide? q = b'.genericHide? q := by
  unfold Blocker.check Blocker.csp? Blocker.genericHide?
  rw [h.importants, h.exceptions, h.filters, h.tagged, h.redirects, h.removeparam, h.tags, h.csp, h.genericHide,
    h'.importants, h'.exceptions, h'.filters, h'.tagged, h'.redirects, h'.removeparam, h'.tags, h'.csp, h'.genericHide]
  exact ⟨rfl, rfl, rfl⟩

/-- `Blocker::new` leaves the blocker in the state for the empty tag set -/
theorem new_repr (rules : List Rule) (hsep : idsSeparate rules = true) :
    (Blocker.new rules false).Repr rules [] := by
  have hl := liveIds_eq_live rules hsep
  have hempty : (pickC rules .tagged).filter
      (tagEnabled ([] : List Str)) = [] := by
    apply List.filter_eq_nil_iff.2
    intro f _
    unfold tagEnabled
    cases f.tag <;> simp
  refine ⟨?_, ?_, ?_, ?_, ?_, ?_, ?_, ?_, ?_, ?_, ?_⟩
  · simp only [Blocker.new, hl, pickC]
  · simp only [Blocker.new, hl, pickC]
  · simp only [Blocker.new, hl, pickC]
  · rw [hempty]; simp only [Blocker.new]
  · simp only [Blocker.new, hl]
  · simp only [Blocker.new, hl, pickC]
  · simp only [Blocker.new, hl, pickC]
  · simp only [Blocker.new, hl, pickC]
  · simp only [Blocker.new, hl, pickC]
  · simp only [Blocker.new]
  · simp only [Blocker.new]

/-- the enabled set is kept duplicate-free by every tag operation -/
theorem tags_nodup_after (s : HState) (ops : List HOp) (hops : ∀ op ∈ ops, op.isTagOp = true)
    (h : s.b.tagsEnabled.Nodup) : (hrun s ops).b.tagsEnabled.Nodup := by
  unfold hrun
  induction ops generalizing s with
  | nil => exact h
  | cons op ops ih =>
    simp only [List.foldl_cons]
    apply ih
    · intro o ho; exact hops o (List.mem_cons_of_mem _ ho)
    · have hop := hops op (List.mem_cons_self ..)
      cases op with
      | useTags t => exact dedupS_nodup _
      | enableTags t => exact dedupS_nodup _
      | disableTags t =>
        simp only [hstep, Blocker.disableTags, Blocker.tagsWithSet]
        exact List.Nodup.sublist List.filter_sublist h
      | optimize => cases hop
      | add r => cases hop
      | reload => cases hop
      | loadFresh t => cases hop

/-- **history independence for tag switching** (unoptimised engine): however often and in whatever
    order tags were used, enabled and disabled — with queries of any kind in between, which do not
    change the model state (the regex cache is transparent, `cache_transparent`) — every answer equals
    that of an engine built freshly from the same rules on which `use_tags` is called once with the
    final tag set. -/
theorem history_independent_tags (rules : List Rule) (ops : List HOp) (hops : ∀ op ∈ ops, op.isTagOp = true)
    (hsep : idsSeparate rules = true) (st : Store) (q : Request) :
    let final := (hrun (HState.init rules false) ops).b
    let freshB := (Blocker.new rules false).useTags final.tagsEnabled
    final.check st q = freshB.check st q ∧ final.csp? q = freshB.csp? q ∧
      final.genericHide? q = freshB.genericHide? q := by
  intro final freshB
  have h0 : (HState.init rules false).b.Repr rules (HState.init rules false).b.tagsEnabled :=
    new_repr rules hsep
  have hfin := repr_after_tag_history (HState.init rules false) rules ops hops h0
  have hnd : final.tagsEnabled.Nodup :=
    tags_nodup_after (HState.init rules false) ops hops (by simp [HState.init, Blocker.new])
  have hfresh : freshB.Repr rules final.tagsEnabled := by
    have := repr_tagsWithSet (Blocker.new rules false) rules [] (dedupS final.tagsEnabled) (new_repr rules hsep)
    rw [dedupS_of_nodup _ hnd] at this
    have he : freshB = (Blocker.new rules false).tagsWithSet final.tagsEnabled := by
      show (Blocker.new rules false).useTags final.tagsEnabled = _
      unfold Blocker.useTags; rw [dedupS_of_nodup _ hnd]
    rw [he]; exact this
  exact repr_determines_answers final freshB rules final.tagsEnabled hfin hfresh st q

/-! ### non-vacuity: a history of tag operations -/
example : HOp.isTagOp (.useTags []) = true ∧ HOp.isTagOp (.disableTags ["t".toList]) = true := by decide

end Adb.Net
