/-
  C20 — content-blocking export: ordering, ASCII, never both domain lists, exact `filters_used`,
  url-filters inside the Safari regex subset, and the emitted pattern reads back as the original
  pattern (hence matches every URL the original matches) for `^`-free patterns.
-/
import Adb.Model.ContentBlocking
import Adb.Props.C02
namespace Adb.Props.C20
open Adb Adb.Net Adb.CB Adb.Gen

/-! ### what one converted rule looks like -/

theorem splitDoc_mem (single cb : CbRule) (h : cb ∈ splitDoc single) :
    cb.typ = single.typ ∧ cb.selector = single.selector ∧ cb.urlFilter = single.urlFilter ∧
    cb.ifDomain = single.ifDomain ∧ cb.unlessDomain = single.unlessDomain := by
  unfold splitDoc at h
  split at h
  · split at h
    · simp only [List.mem_cons, List.mem_nil_iff, or_false] at h
      rcases h with rfl | rfl <;> exact ⟨rfl, rfl, rfl, rfl, rfl⟩
    · simp only [List.mem_singleton] at h; subst h; exact ⟨rfl, rfl, rfl, rfl, rfl⟩
  · simp only [List.mem_singleton] at h; subst h; exact ⟨rfl, rfl, rfl, rfl, rfl⟩

theorem splitDoc_ne_nil (single : CbRule) : splitDoc single ≠ [] := by
  unfold splitDoc
  split
  · split <;> simp
  · simp

theorem isAscii_congr (a b : CbRule) (h1 : a.selector = b.selector) (h2 : a.urlFilter = b.urlFilter)
    (h3 : a.ifDomain = b.ifDomain) (h4 : a.unlessDomain = b.unlessDomain) : a.isAscii = b.isAscii := by
  unfold CbRule.isAscii; rw [h1, h2, h3, h4]

/-- everything `convNet` emits for one rule -/
theorem convNet_ok (r : Rule) (raw : Str) (l : List CbRule) (h : convNet r raw = .ok l) :
    ∃ uf ifD unD rts, urlFilter r = .ok uf ∧ l = splitDoc (mkSingle r uf ifD unD rts) ∧
      (mkSingle r uf ifD unD rts).isAscii = true ∧ ¬ (ifD.isSome = true ∧ unD.isSome = true) := by
  unfold convNet at h
  split at h
  · cases h
  · split at h
    · cases h
    · rename_i uf huf
      split at h
      · cases h
      · rename_i ifD unD _
        split at h
        · cases h
        · rename_i hboth
          split at h
          · cases h
          · rename_i rts _
            split at h
            · cases h
            · rename_i hasc
              injection h with h
              refine ⟨uf, ifD, unD, rts, huf, h.symm, ?_, ?_⟩
              · simpa using hasc
              · simpa using hboth

theorem convNet_rule (r : Rule) (raw : Str) (l : List CbRule) (h : convNet r raw = .ok l) :
    l ≠ [] ∧ ∀ cb ∈ l, cb.isAscii = true ∧ ¬ (cb.ifDomain.isSome = true ∧ cb.unlessDomain.isSome = true) ∧
      cb.typ = (if r.isException then .ignorePrevious else .block) ∧ urlFilter r = .ok cb.urlFilter := by
  obtain ⟨uf, ifD, unD, rts, huf, hl, hasc, hboth⟩ := convNet_ok r raw l h
  subst hl
  refine ⟨splitDoc_ne_nil _, ?_⟩
  intro cb hcb
  obtain ⟨h1, h2, h3, h4, h5⟩ := splitDoc_mem _ cb hcb
  refine ⟨?_, ?_, ?_, ?_⟩
  · rw [isAscii_congr cb _ h2 h3 h4 h5]; exact hasc
  · rw [h4, h5]; exact hboth
  · rw [h1]; rfl
  · rw [h3]; exact huf

theorem convCos_rule (c : CosIn) (cb : CbRule) (h : convCos c = .ok cb) :
    cb.isAscii = true ∧ ¬ (cb.ifDomain.isSome = true ∧ cb.unlessDomain.isSome = true) ∧
      cb.typ = .cssDisplayNone ∧ cb.urlFilter = ".*".toList := by
  unfold convCos at h
  split at h
  · cases h
  · split at h
    · cases h
    · split at h
      · cases h
      · split at h
        · cases h
        · rename_i hboth
          split at h
          · cases h
          · rename_i sel _
            split at h
            · cases h
            · rename_i hasc
              injection h with h
              subst h
              refine ⟨by simpa using hasc, ?_, rfl, rfl⟩
              intro hb
              apply hboth
              unfold cosRule at hb
              cases hu : c.unhide <;> simp_all

theorem fpDocuments_props : fpDocuments.isAscii = true ∧ fpDocuments.typ = .ignorePrevious ∧
    fpDocuments.ifDomain = none ∧ fpDocuments.unlessDomain = none := by
  refine ⟨by decide +kernel, rfl, rfl, rfl⟩

/-! ### the whole set -/

/-- every emitted rule comes from a converted input rule, or is the trailing first-party-document
    exception -/
theorem emitted_origin (net : List (Rule × Str)) (cos : List CosIn) (cb : CbRule)
    (h : cb ∈ (intoContentBlocking net cos).1) :
    cb = fpDocuments ∨ (∃ p ∈ net, ∃ l, convNet p.1 p.2 = .ok l ∧ cb ∈ l) ∨ (∃ c ∈ cos, convCos c = .ok cb) := by
  unfold intoContentBlocking at h
  simp only [List.mem_append, List.mem_filter, List.mem_flatMap] at h
  have key : ∀ x, (x ∈ net.flatMap (fun p => okRules (convNet p.1 p.2)) ∨
      x ∈ cos.flatMap (fun c => okRules ((convCos c).map fun r => [r]))) →
      (∃ p ∈ net, ∃ l, convNet p.1 p.2 = .ok l ∧ x ∈ l) ∨ (∃ c ∈ cos, convCos c = .ok x) := by
    intro x hx
    rcases hx with hx | hx
    · left
      simp only [List.mem_flatMap] at hx
      obtain ⟨p, hp, hm⟩ := hx
      cases hc : convNet p.1 p.2 with
      | error e => rw [hc] at hm; simp [okRules] at hm
      | ok l => rw [hc] at hm; exact ⟨p, hp, l, hc, by simpa [okRules] using hm⟩
    · right
      simp only [List.mem_flatMap] at hx
      obtain ⟨c, hcm, hm⟩ := hx
      cases hc : convCos c with
      | error e => rw [hc] at hm; simp [okRules, Except.map] at hm
      | ok r => rw [hc] at hm; simp [okRules, Except.map] at hm; subst hm; exact ⟨c, hcm, hc⟩
  rcases h with (⟨hm, _⟩ | ⟨hm, _⟩) | hm
  · right; exact key cb (by simpa [List.mem_flatMap] using hm)
  · right; exact key cb (by simpa [List.mem_flatMap] using hm)
  · split at hm
    · cases hm
    · simp only [List.mem_singleton] at hm; left; exact hm

/-- **Every emitted rule is pure ASCII and never carries both an if-domain and an unless-domain
    list.** -/
theorem emitted_ascii_and_one_domain_list (net : List (Rule × Str)) (cos : List CosIn) (cb : CbRule)
    (h : cb ∈ (intoContentBlocking net cos).1) :
    cb.isAscii = true ∧ ¬ (cb.ifDomain.isSome = true ∧ cb.unlessDomain.isSome = true) := by
  rcases emitted_origin net cos cb h with rfl | ⟨p, _, l, hl, hm⟩ | ⟨c, _, hc⟩
  · exact ⟨fpDocuments_props.1, by simp [fpDocuments]⟩
  · have := (convNet_rule p.1 p.2 l hl).2 cb hm
    exact ⟨this.1, this.2.1⟩
  · have := convCos_rule c cb hc
    exact ⟨this.1, this.2.1⟩

/-- **All ignore-previous-rules entries come after all other entries.** -/
theorem ignores_last (net : List (Rule × Str)) (cos : List CosIn) :
    ∃ a b, (intoContentBlocking net cos).1 = a ++ b ∧
      (∀ r ∈ a, r.typ ≠ .ignorePrevious) ∧ (∀ r ∈ b, r.typ = .ignorePrevious) := by
  unfold intoContentBlocking
  simp only
  refine ⟨_, _, List.append_assoc _ _ _, ?_, ?_⟩
  · intro r hr
    simp only [List.mem_filter] at hr
    simpa using hr.2
  · intro r hr
    simp only [List.mem_append, List.mem_filter] at hr
    rcases hr with ⟨_, h⟩ | h
    · simpa using h
    · split at h
      · cases h
      · simp only [List.mem_singleton] at h; subst h; rfl

/-- index form: nothing but ignore-previous-rules entries follows an ignore-previous-rules entry -/
theorem no_block_after_ignore (net : List (Rule × Str)) (cos : List CosIn) (i j : Nat) (ri rj : CbRule)
    (hij : i < j) (hi : (intoContentBlocking net cos).1[i]? = some ri)
    (hj : (intoContentBlocking net cos).1[j]? = some rj) (hign : ri.typ = .ignorePrevious) :
    rj.typ = .ignorePrevious := by
  obtain ⟨a, b, hab, ha, hb⟩ := ignores_last net cos
  rw [hab] at hi hj
  by_cases hia : i < a.length
  · rw [List.getElem?_append_left hia] at hi
    have := ha ri (List.mem_of_getElem? hi)
    exact absurd hign this
  · rw [List.getElem?_append_right (by omega)] at hj
    exact hb rj (List.mem_of_getElem? hj)

/-- **The list of rules reported as converted is exactly the set of input rules that produced
    output**: the raw text of the network rules, then of the cosmetic rules, whose conversion
    succeeds — and each of them contributed at least one emitted rule. -/
theorem used_exact (net : List (Rule × Str)) (cos : List CosIn) :
    (intoContentBlocking net cos).2 =
      (net.filter fun p => isOk (convNet p.1 p.2)).map (·.2) ++ (cos.filter fun c => isOk (convCos c)).map (·.raw) := rfl

theorem used_contributes (net : List (Rule × Str)) (cos : List CosIn) (p : Rule × Str) (hp : p ∈ net)
    (hok : isOk (convNet p.1 p.2) = true) :
    ∃ cb, cb ∈ (intoContentBlocking net cos).1 ∧ ∃ l, convNet p.1 p.2 = .ok l ∧ cb ∈ l := by
  cases hc : convNet p.1 p.2 with
  | error e => rw [hc] at hok; cases hok
  | ok l =>
    obtain ⟨hne, _⟩ := convNet_rule p.1 p.2 l hc
    obtain ⟨cb, hcb⟩ := List.exists_mem_of_ne_nil l hne
    refine ⟨cb, ?_, l, rfl, hcb⟩
    unfold intoContentBlocking
    simp only [List.mem_append, List.mem_filter]
    have hin : cb ∈ net.flatMap (fun p => okRules (convNet p.1 p.2)) := by
      simp only [List.mem_flatMap]
      exact ⟨p, hp, by rw [hc]; simpa [okRules] using hcb⟩
    by_cases ht : cb.typ = .ignorePrevious
    · left; right; exact ⟨Or.inl hin, by simp [ht]⟩
    · left; left; exact ⟨Or.inl hin, by simp [ht]⟩

/-! ### url-filters are inside the regex subset Safari accepts -/

def Quiet (st : RState) : Prop := st.depth = 0 ∧ st.inClass = false ∧ st.ended = false ∧ st.esc = false

theorem scan_append (st : RState) (a b : Str) :
    scan st (a ++ b) = (scan st a).bind (fun st' => scan st' b) := by
  simp [scan, List.foldlM_append]

theorem scan_append_some (st st' : RState) (a b : Str) (h : scan st a = some st') :
    scan st (a ++ b) = scan st' b := by
  rw [scan_append, h]; rfl

/-- what one pattern character becomes in the url-filter body -/
def emitChar (c : Char) : Str := if isSpecial c then ['\\', c] else if c == '*' then ['.', '*'] else [c]

theorem star_not_special : isSpecial '*' = false := by decide +kernel

theorem body_eq (s : Str) : replaceWild (escapeSpecial s) = s.flatMap emitChar := by
  induction s with
  | nil => rfl
  | cons c r ih =>
    have hstep : replaceWild (escapeSpecial (c :: r)) =
        replaceWild (if isSpecial c then ['\\', c] else [c]) ++ replaceWild (escapeSpecial r) := by
      simp [escapeSpecial, replaceWild, List.flatMap_append]
    rw [hstep, ih]
    simp only [List.flatMap_cons]
    congr 1
    unfold emitChar
    by_cases hs : isSpecial c = true
    · have hne : c ≠ '*' := by intro e; subst e; rw [star_not_special] at hs; cases hs
      simp [hs, replaceWild, hne]
    · simp only [hs, Bool.false_eq_true, if_false]
      by_cases hc : c = '*'
      · subst hc; simp [replaceWild]
      · simp [replaceWild, hc]

theorem ne_of_not_special (c d : Char) (h : isSpecial c = false) (hd : isSpecial d = true) : c ≠ d := by
  intro e; subst e; rw [h] at hd; cases hd

/-- a character that is not escaped is none of the regex metacharacters — whatever the order of the
    escaped class in the source (each membership is evaluated on the re-extracted table) -/
theorem not_special_ne (c : Char) (h : isSpecial c = false) :
    c ≠ '.' ∧ c ≠ '+' ∧ c ≠ '?' ∧ c ≠ '^' ∧ c ≠ '$' ∧ c ≠ '{' ∧ c ≠ '}' ∧ c ≠ '(' ∧ c ≠ ')' ∧ c ≠ '|' ∧
      c ≠ '[' ∧ c ≠ ']' ∧ c ≠ '\\' :=
  ⟨ne_of_not_special c _ h (by decide +kernel), ne_of_not_special c _ h (by decide +kernel),
   ne_of_not_special c _ h (by decide +kernel), ne_of_not_special c _ h (by decide +kernel),
   ne_of_not_special c _ h (by decide +kernel), ne_of_not_special c _ h (by decide +kernel),
   ne_of_not_special c _ h (by decide +kernel), ne_of_not_special c _ h (by decide +kernel),
   ne_of_not_special c _ h (by decide +kernel), ne_of_not_special c _ h (by decide +kernel),
   ne_of_not_special c _ h (by decide +kernel), ne_of_not_special c _ h (by decide +kernel),
   ne_of_not_special c _ h (by decide +kernel)⟩

theorem quiet_emit (st : RState) (c : Char) (hq : Quiet st) (hc : c.val < 128) :
    ∃ st', scan st (emitChar c) = some st' ∧ Quiet st' ∧ st'.atStart = false := by
  obtain ⟨hd, hic, he, hes⟩ := hq
  have hge : decide (c.val ≥ 128) = false := by simp; exact hc
  unfold emitChar
  by_cases hs : isSpecial c = true
  · simp only [hs, if_true]
    refine ⟨{ st with esc := false, canQuant := true, atStart := false }, ?_, ⟨hd, hic, he, rfl⟩, rfl⟩
    have h1 : stepR st '\\' = some { st with esc := true, atStart := false } := by
      simp [stepR, he, hes, hic]
    simp only [scan, List.foldlM_cons, List.foldlM_nil, h1, Option.bind_eq_bind, Option.bind_some]
    simp [stepR, he, hge, hic, hs]
  · have hs' : isSpecial c = false := by simpa using hs
    simp only [hs', Bool.false_eq_true, if_false]
    by_cases hstar : c = '*'
    · subst hstar
      simp only [beq_self_eq_true, if_true]
      refine ⟨{ st with canQuant := false, atStart := false }, ?_, ⟨hd, hic, he, hes⟩, rfl⟩
      have h1 : stepR st '.' = some { st with canQuant := true, atStart := false } := by
        simp [stepR, he, hes, hic]
      simp only [scan, List.foldlM_cons, List.foldlM_nil, h1, Option.bind_eq_bind, Option.bind_some]
      simp [stepR, he, hes, hic]
    · have hne := not_special_ne c hs'
      obtain ⟨_, h2, h3, h4, h5, h6, h7, h8, h9, h10, h11, h12, h13⟩ := hne
      simp only [beq_iff_eq, hstar, if_false]
      refine ⟨{ st with canQuant := true, atStart := false }, ?_, ⟨hd, hic, he, hes⟩, rfl⟩
      simp [scan, stepR, he, hes, hic, hge, hstar, h2, h3, h4, h5, h6, h7, h8, h9, h10, h11, h12, h13]

theorem quiet_body (st : RState) (s : Str) (hq : Quiet st) (hs : isAsciiS s = true) :
    ∃ st', scan st (s.flatMap emitChar) = some st' ∧ Quiet st' := by
  induction s generalizing st with
  | nil => exact ⟨st, rfl, hq⟩
  | cons c r ih =>
    simp only [isAsciiS, List.all_cons, Bool.and_eq_true, decide_eq_true_eq] at hs
    obtain ⟨st1, h1, hq1, _⟩ := quiet_emit st c hq hs.1
    obtain ⟨st2, h2, hq2⟩ := ih st1 hq1 (by simpa [isAsciiS] using hs.2)
    refine ⟨st2, ?_, hq2⟩
    rw [List.flatMap_cons, scan_append_some _ _ _ _ h1, h2]

theorem mem_emitChar (c : Char) : c ∈ emitChar c := by
  unfold emitChar
  split
  · simp
  · split
    · rename_i h; simp at h; subst h; simp
    · simp

theorem ascii_of_body (s : Str) (h : isAsciiS (s.flatMap emitChar) = true) : isAsciiS s = true := by
  simp only [isAsciiS, List.all_eq_true, List.mem_flatMap, decide_eq_true_eq] at h ⊢
  intro c hc
  exact h c ⟨c, hc, mem_emitChar c⟩

theorem isAsciiS_append (a b : Str) : isAsciiS (a ++ b) = (isAsciiS a && isAsciiS b) := by
  simp [isAsciiS, List.all_append]

theorem host_eq_body (h : Str) (hstar : '*' ∉ h) : escapeSpecial h = h.flatMap emitChar := by
  rw [← body_eq]
  have : ∀ t : Str, '*' ∉ t → replaceWild t = t := by
    intro t ht
    induction t with
    | nil => rfl
    | cons c r ih =>
      have hc : c ≠ '*' := by intro e; subst e; simp at ht
      have hr : '*' ∉ r := by intro e; exact ht (by simp [e])
      have e : replaceWild (c :: r) = (if c == '*' then ['.', '*'] else [c]) ++ replaceWild r := by
        simp [replaceWild]
      rw [e, ih hr]
      simp [hc]
  refine (this _ ?_).symm
  intro hm
  simp only [escapeSpecial, List.mem_flatMap] at hm
  obtain ⟨c, hc, hcm⟩ := hm
  split at hcm
  · rename_i hsp
    simp only [List.mem_cons, List.mem_nil_iff, or_false] at hcm
    rcases hcm with e | e
    · cases e
    · subst e; rw [star_not_special] at hsp; cases hsp
  · simp only [List.mem_singleton] at hcm; subst hcm; exact hstar hc

theorem quiet_fin (st : RState) (hq : Quiet st) (ra : Str) (hra : ra = [] ∨ ra = ['$']) :
    ∃ st', scan st ra = some st' ∧ st'.depth = 0 ∧ st'.inClass = false ∧ st'.esc = false := by
  obtain ⟨hd, hic, he, hes⟩ := hq
  rcases hra with rfl | rfl
  · exact ⟨st, rfl, hd, hic, hes⟩
  · refine ⟨{ st with ended := true, atStart := false }, ?_, hd, hic, hes⟩
    simp [scan, stepR, he, hes, hic]

theorem safariOk_of (uf : Str) (st : RState) (h : scan {} uf = some st)
    (hd : st.depth = 0) (hic : st.inClass = false) (hes : st.esc = false) : safariOk uf = true := by
  unfold safariOk; rw [h]; simp [hd, hic, hes]

/-- scanning `s` from the start ends in a quiet state -/
def quietAfter (s : Str) : Bool :=
  match scan {} s with
  | some st => st.depth == 0 && !st.inClass && !st.ended && !st.esc
  | none => false

theorem quietAfter_spec (s : Str) (h : quietAfter s = true) : ∃ st, scan {} s = some st ∧ Quiet st := by
  unfold quietAfter at h
  split at h
  · rename_i st hst
    simp only [Bool.and_eq_true, beq_iff_eq, Bool.not_eq_true'] at h
    exact ⟨st, hst, h.1.1.1, h.1.1.2, h.1.2, h.2⟩
  · cases h

theorem hostPrefix_scan : ∃ st, scan {} hostPrefix = some st ∧ Quiet st :=
  quietAfter_spec _ (by decide +kernel)

theorem schemePart_scan (m : Mask) (both one : String) (sp : Str) (h : schemePart m both one = some sp)
    (hb : (both = "" ∧ one = ".*") ∨ (both = "^https?://" ∧ one = "")) :
    ∃ st, scan {} sp = some st ∧ Quiet st := by
  unfold schemePart at h
  rcases hb with ⟨rfl, rfl⟩ | ⟨rfl, rfl⟩
  all_goals
    split at h
    · injection h with h; subst h
      exact quietAfter_spec _ (by decide +kernel)
    · split at h
      · injection h with h; subst h
        exact quietAfter_spec _ (by decide +kernel)
      · split at h
        · injection h with h; subst h
          exact quietAfter_spec _ (by decide +kernel)
        · split at h
          · injection h with h; subst h
            exact quietAfter_spec _ (by decide +kernel)
          · cases h

/-- a quiet state stays quiet over an escaped host name / a pattern body, then an optional `$` -/
theorem finish_body (st : RState) (hq : Quiet st) (body ra : Str) (hb : isAsciiS body = true)
    (hra : ra = [] ∨ ra = ['$']) :
    ∃ st', scan st (body.flatMap emitChar ++ ra) = some st' ∧ st'.depth = 0 ∧ st'.inClass = false ∧ st'.esc = false := by
  obtain ⟨st1, h1, hq1⟩ := quiet_body st body hq hb
  obtain ⟨st2, h2, hfin⟩ := quiet_fin st1 hq1 ra hra
  exact ⟨st2, by rw [scan_append_some _ _ _ _ h1, h2], hfin⟩

theorem ra_cases (r : Rule) : (if has r.mask IS_RIGHT_ANCHOR then ['$'] else ([] : Str)) = [] ∨
    (if has r.mask IS_RIGHT_ANCHOR then ['$'] else ([] : Str)) = ['$'] := by
  split <;> simp

/-- **Every url-filter the conversion builds is inside the regex subset Safari accepts** (ASCII
    rule; the host name carries no `*`, which the rule parser guarantees by cutting the host name at
    the first of `/ ^ *`). -/
theorem urlFilter_in_subset (r : Rule) (uf : Str) (h : urlFilter r = .ok uf) (hasc : isAsciiS uf = true)
    (hhost : ∀ hn, r.hostname = some hn → '*' ∉ hn) : safariOk uf = true := by
  unfold urlFilter at h
  simp only at h
  split at h
  · cases h
  · -- simple part with a host name
    rename_i part hn hf hh
    injection h with h
    subst h
    have hstar := hhost hn hh
    simp only [bodyOf, body_eq, host_eq_body hn hstar, isAsciiS_append, Bool.and_eq_true] at hasc ⊢
    obtain ⟨⟨⟨⟨_, hah⟩, hax⟩, hab⟩, _⟩ := hasc
    obtain ⟨st0, hs0, hq0⟩ := hostPrefix_scan
    obtain ⟨st1, hs1, hq1⟩ := quiet_body st0 hn hq0 (ascii_of_body hn hah)
    -- the optional `.*`
    have hx : ∃ st2, scan st1 (if has r.mask IS_HOSTNAME_REGEX then ".*".toList else []) = some st2 ∧ Quiet st2 := by
      split
      · obtain ⟨st2, h2, hq2, _⟩ := quiet_emit st1 '*' hq1 (by decide)
        exact ⟨st2, by simpa [emitChar, star_not_special] using h2, hq2⟩
      · exact ⟨st1, rfl, hq1⟩
    obtain ⟨st2, hs2, hq2⟩ := hx
    obtain ⟨st3, hs3, hd, hic, hes⟩ := finish_body st2 hq2 (stripTrailingSep part) _
      (ascii_of_body _ hab) (ra_cases r)
    refine safariOk_of _ st3 ?_ hd hic hes
    rw [List.append_assoc, List.append_assoc, List.append_assoc, scan_append_some _ _ _ _ hs0,
      scan_append_some _ _ _ _ hs1, scan_append_some _ _ _ _ hs2]
    exact hs3
  · -- simple part, no host name
    rename_i part hf hh
    split at h
    · injection h with h
      subst h
      simp only [bodyOf, body_eq, isAsciiS_append, Bool.and_eq_true] at hasc ⊢
      obtain ⟨⟨_, hab⟩, _⟩ := hasc
      have hq0 : Quiet { atStart := false, canQuant := false } := ⟨rfl, rfl, rfl, rfl⟩
      obtain ⟨st3, hs3, hd, hic, hes⟩ := finish_body _ hq0 (stripTrailingSep part) _
        (ascii_of_body _ hab) (ra_cases r)
      refine safariOk_of _ st3 ?_ hd hic hes
      have h0 : scan {} ['^'] = some { atStart := false, canQuant := false } := by decide +kernel
      rw [List.append_assoc, scan_append_some _ _ _ _ h0]
      exact hs3
    · split at h
      · rename_i sp hsp
        injection h with h
        subst h
        simp only [bodyOf, body_eq, isAsciiS_append, Bool.and_eq_true] at hasc ⊢
        obtain ⟨⟨_, hab⟩, _⟩ := hasc
        obtain ⟨st0, hs0, hq0⟩ := schemePart_scan _ _ _ sp hsp (Or.inl ⟨rfl, rfl⟩)
        obtain ⟨st3, hs3, hd, hic, hes⟩ := finish_body st0 hq0 (stripTrailingSep part) _
          (ascii_of_body _ hab) (ra_cases r)
        refine safariOk_of _ st3 ?_ hd hic hes
        rw [List.append_assoc, scan_append_some _ _ _ _ hs0]
        exact hs3
      · cases h
  · -- no pattern, host name only
    rename_i hn hf hh
    injection h with h
    subst h
    have hstar := hhost hn hh
    simp only [host_eq_body hn hstar, isAsciiS_append, Bool.and_eq_true] at hasc ⊢
    obtain ⟨st0, hs0, hq0⟩ := hostPrefix_scan
    obtain ⟨st1, hs1, hq1⟩ := quiet_body st0 hn hq0 (ascii_of_body hn hasc.2)
    refine safariOk_of _ st1 ?_ hq1.1 hq1.2.1 hq1.2.2.2
    rw [scan_append_some _ _ _ _ hs0]
    exact hs1
  · -- neither pattern nor host name: the scheme alone
    split at h
    · rename_i sp hsp
      injection h with h
      subst h
      obtain ⟨st0, hs0, hq0⟩ := schemePart_scan _ _ _ _ hsp (Or.inr ⟨rfl, rfl⟩)
      exact safariOk_of _ st0 hs0 hq0.1 hq0.2.1 hq0.2.2.2
    · cases h

/-- … hence every emitted network rule (`convNet`) has its url-filter in the subset. -/
theorem convNet_in_subset (r : Rule) (raw : Str) (l : List CbRule) (h : convNet r raw = .ok l)
    (hhost : ∀ hn, r.hostname = some hn → '*' ∉ hn) (cb : CbRule) (hcb : cb ∈ l) :
    safariOk cb.urlFilter = true := by
  have hr := (convNet_rule r raw l h).2 cb hcb
  have hasc : isAsciiS cb.urlFilter = true := by
    have := hr.1
    unfold CbRule.isAscii at this
    simp only [Bool.and_eq_true] at this
    exact this.1.1.2
  exact urlFilter_in_subset r cb.urlFilter hr.2.2.2 hasc hhost

theorem cosmetic_and_fp_in_subset : safariOk ".*".toList = true ∧ safariOk fpDocuments.urlFilter = true := by
  constructor <;> decide +kernel

/-! ### the emitted pattern, read as a regex, is the original pattern -/

/-- how Safari reads a url-filter built from `^`? body `$`?: start / end anchors and the body's
    literals and wildcards -/
def emittedMatch (la ra : Bool) (body : Str) (url : Str) : Bool :=
  match readBody body with
  | some ps => if la then matchHere ra ps url else matchAnywhere ra ps url
  | none => false

theorem readBody_cons_plain (c : Char) (rest : Str) (h1 : c ≠ '\\') (h2 : c ≠ '.') :
    readBody (c :: rest) = (readBody rest).map (PElem.lit c :: ·) := by
  cases rest with
  | nil => simp [readBody, h1, h2]
  | cons d r => simp [readBody, h1, h2]

/-- **Reading the emitted body back gives the pattern's own elements**: every special character
    was escaped to itself, every `*` became the wildcard, nothing else changed (all strings). -/
theorem readBody_body (s : Str) : readBody (s.flatMap emitChar) = some (elemsNoSep s) := by
  induction s with
  | nil => rfl
  | cons c r ih =>
    rw [List.flatMap_cons]
    by_cases hs : isSpecial c = true
    · have hne : c ≠ '*' := by intro e; subst e; rw [star_not_special] at hs; cases hs
      have he : emitChar c = ['\\', c] := by simp [emitChar, hs]
      rw [he]
      simp only [List.cons_append, List.nil_append, readBody, ih, Option.map_some]
      simp [elemsNoSep, hne]
    · have hs' : isSpecial c = false := by simpa using hs
      by_cases hstar : c = '*'
      · subst hstar
        have he : emitChar '*' = ['.', '*'] := by simp [emitChar, hs']
        rw [he]
        simp only [List.cons_append, List.nil_append, readBody, ih, Option.map_some]
        simp [elemsNoSep]
      · obtain ⟨h1, _, _, _, _, _, _, _, _, _, _, _, h13⟩ := not_special_ne c hs'
        have he : emitChar c = [c] := by simp [emitChar, hs', hstar]
        rw [he]
        simp only [List.cons_append, List.nil_append]
        rw [readBody_cons_plain c _ h13 h1, ih]
        simp [elemsNoSep, hstar]

theorem elemOf_noSep (c : Char) (h : c ≠ '^') : elemOf c = (if c == '*' then PElem.star else PElem.lit c) := by
  unfold elemOf
  split
  · rfl
  · simp [h]

/-- a `^`-free pattern denotes its characters one by one -/
theorem elems_noSep (s : Str) (h : '^' ∉ s) : elems s = elemsNoSep s := by
  fun_induction elems s with
  | case1 => rfl
  | case2 c =>
    have hc : c ≠ '^' := by intro e; subst e; simp at h
    simp [elemsNoSep, elemOf, hc]
  | case3 c d =>
    have hc : c ≠ '^' := by intro e; subst e; simp at h
    have hd : d ≠ '^' := by intro e; subst e; simp at h
    simp [elemsNoSep, elemOf, hc, hd]
  | case4 c d e rest hcd ih =>
    exfalso
    simp only [Bool.and_eq_true, beq_iff_eq] at hcd
    exact h (by simp [hcd.1])
  | case5 c d e rest hcd ih =>
    have hc : c ≠ '^' := by intro e'; subst e'; simp at h
    have hr : '^' ∉ d :: e :: rest := fun hm => h (List.mem_cons_of_mem _ hm)
    rw [ih hr]
    simp [elemsNoSep, elemOf, hc]

theorem elems_cons_noSep (c : Char) (t : Str) (hc : c ≠ '^') (ht : 2 ≤ t.length) :
    elems (c :: t) = elemOf c :: elems t := by
  match t, ht with
  | d :: e :: rest, _ =>
    rw [elems]
    simp [hc]

/-- … and with one trailing `^` the separator comes last -/
theorem elems_trailing_sep (s : Str) (h : '^' ∉ s) : elems (s ++ ['^']) = elemsNoSep s ++ [PElem.sep] := by
  induction s with
  | nil => rfl
  | cons c r ih =>
    have hc : c ≠ '^' := by intro e; subst e; simp at h
    have hr : '^' ∉ r := fun hm => h (List.mem_cons_of_mem _ hm)
    cases r with
    | nil => simp [elems, elemsNoSep, elemOf, hc]
    | cons d r' =>
      have : elems (c :: (d :: r' ++ ['^'])) = elemOf c :: elems (d :: r' ++ ['^']) :=
        elems_cons_noSep c _ hc (by simp)
      rw [List.cons_append, this, ih hr]
      simp [elemsNoSep, elemOf, hc]

theorem starLoop_mono (k k' : Str → Bool) (hk : ∀ t, k t = true → k' t = true) (s : Str)
    (h : starLoop k s = true) : starLoop k' s = true := by
  induction s with
  | nil => exact hk _ h
  | cons c r ih =>
    simp only [starLoop, Bool.or_eq_true] at h ⊢
    rcases h with h | h
    · exact Or.inl (hk _ h)
    · exact Or.inr (ih h)

/-- dropping a trailing separator only adds matches (no end anchor) -/
theorem drop_trailing_sep (ps : List PElem) (s : Str) (h : matchHere false (ps ++ [.sep]) s = true) :
    matchHere false ps s = true := by
  induction ps generalizing s with
  | nil => simp [matchHere]
  | cons p ps ih =>
    cases p with
    | lit c =>
      cases s with
      | nil => simp [matchHere] at h
      | cons d s' =>
        simp only [List.cons_append, matchHere, Bool.and_eq_true] at h ⊢
        exact ⟨h.1, ih s' h.2⟩
    | sep =>
      cases s with
      | nil => simp [matchHere] at h
      | cons d s' =>
        simp only [List.cons_append, matchHere, Bool.and_eq_true] at h ⊢
        exact ⟨h.1, ih s' h.2⟩
    | never => simp [matchHere] at h
    | star =>
      simp only [List.cons_append, matchHere] at h ⊢
      exact starLoop_mono _ _ (fun t ht => ih t ht) s h

theorem matchAnywhere_mono (ps ps' : List PElem) (hk : ∀ t, matchHere false ps t = true → matchHere false ps' t = true)
    (s : Str) (h : matchAnywhere false ps s = true) : matchAnywhere false ps' s = true := by
  induction s with
  | nil => simp only [matchAnywhere] at h ⊢; exact hk _ h
  | cons c r ih =>
    simp only [matchAnywhere, Bool.or_eq_true] at h ⊢
    rcases h with h | h
    · exact Or.inl (hk _ h)
    · exact Or.inr (ih h)

/-- **A `^`-free pattern converts to a url-filter with exactly the original pattern's matches**
    (wildcards included; for both anchors). -/
theorem emitted_eq_original (la ra : Bool) (f url : Str) (h : '^' ∉ f) :
    emittedMatch la ra (bodyOf f) url = regexOne la ra f url := by
  have hstrip : stripTrailingSep f = f := by
    unfold stripTrailingSep
    split
    · rename_i hl
      exfalso
      exact h (List.mem_of_getLast? (by simpa using hl))
    · rfl
  unfold emittedMatch regexOne bodyOf
  rw [hstrip, body_eq, readBody_body, elems_noSep f h]

/-- **A pattern `p^` (separator only at the end, no end anchor) converts to a url-filter that
    matches every URL the original matches.** -/
theorem emitted_superset_trailing_sep (la : Bool) (p url : Str) (h : '^' ∉ p)
    (hm : regexOne la false (p ++ ['^']) url = true) : emittedMatch la false (bodyOf (p ++ ['^'])) url = true := by
  have hstrip : stripTrailingSep (p ++ ['^']) = p := by
    unfold stripTrailingSep
    simp
  unfold emittedMatch bodyOf
  rw [hstrip, body_eq, readBody_body]
  unfold regexOne at hm
  rw [elems_trailing_sep p h] at hm
  simp only
  cases la with
  | true => simp only [if_true] at hm ⊢; exact drop_trailing_sep _ _ hm
  | false =>
    simp only [Bool.false_eq_true, if_false] at hm ⊢
    exact matchAnywhere_mono _ _ (fun t ht => drop_trailing_sep _ t ht) url hm

/-- the whole url-filter of an unanchored / left-anchored rule without host name, for both schemes:
    optional `^`, the body, optional `$` -/
theorem urlFilter_shape_no_host (r : Rule) (part : Str) (hf : r.filter = .simple part) (hh : r.hostname = none)
    (hs : has r.mask FROM_HTTP = true ∧ has r.mask FROM_HTTPS = true) :
    urlFilter r = .ok ((if has r.mask IS_LEFT_ANCHOR then ['^'] else []) ++ bodyOf part ++
      (if has r.mask IS_RIGHT_ANCHOR then ['$'] else [])) := by
  unfold urlFilter
  simp only [hf, hh]
  split
  · rfl
  · simp [schemePart, hs.1, hs.2]

end Adb.Props.C20
