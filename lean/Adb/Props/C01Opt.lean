/-
  C01, engine level, for BOTH settings of the optimisation flag: the verdict of the engine model —
  built with or without rule fusion — is one of the verdicts the rule-by-rule reference admits, for
  every rule list, tag set, resource store and request.
-/
import Adb.Props.C01Engine
import Adb.Lemmas.IndexOpt
namespace Adb.Net
open Adb Adb.Net.Spec

/-- rules stored in an index built from `S` are rules of `S` -/
theorem build_get_sub (S : List Rule) (k : Hash) (x : Rule) (h : x ∈ (Index.build S false).get k) : x ∈ S := by
  rw [build_eq_insertAll] at h
  rcases insertAll_sound _ _ _ _ h with h0 | ⟨p, hp, rfl⟩
  · simp [Index.get] at h0
  · unfold buildPairs at hp
    simp only [List.mem_flatMap, List.mem_map] at hp
    obtain ⟨r, hr, g, _, rfl⟩ := hp
    exact hr

theorem build_opt (S : List Rule) : Index.build S true = (Index.build S false).optimize := by
  unfold Index.build
  simp

/-- lookups in a category list, with or without optimisation: whether something is found is decided
    by the rule-by-rule scan, and what is found carries the mask of a rule of the list -/
theorem cat_lookup_o (rules S : List Rule) (q : Request) (tg : List Str) (o : Bool) (ok : CaseOK rules q)
    (hwf : ∀ f ∈ rules, WFPart f) (hs : ∀ f ∈ S, f ∈ rules) (hnrp : ∀ f ∈ S, f.isRemoveparam = false) :
    (((Index.build S o).check q tg).isSome = !(hits S q tg).isEmpty) ∧
    (∀ f, (Index.build S o).check q tg = some f → ∃ g ∈ S, f.mask = g.mask) := by
  obtain ⟨_, h2, h3⟩ := cat_lookup rules S q tg ok hs hnrp
  cases o with
  | false =>
    refine ⟨h2, ?_⟩
    intro f hf
    have := h3 f hf
    unfold hits at this
    exact ⟨f, (List.mem_filter.1 this).1, rfl⟩
  | true =>
    have hwfb : ∀ k, ∀ f ∈ (Index.build S false).get k, WFPart f :=
      fun k f hf => hwf f (hs f (build_get_sub S k f hf))
    rw [build_opt]
    refine ⟨by rw [optimize_check_isSome _ q tg hwfb]; exact h2, ?_⟩
    intro f hf
    obtain ⟨t, h | ⟨base, g, hb, _, he, hF⟩⟩ := optimize_check_some _ q tg hwfb f hf
    · exact ⟨f, build_get_sub S t f h, rfl⟩
    · exact ⟨base, build_get_sub S t base hb, by rw [he, fuse_mask base g hF]⟩

/-- what `Blocker::new` + tag operations establish, for either setting of the optimisation flag -/
structure Blocker.ReprO (b : Blocker) (rules : List Rule) (T : List Str) (o : Bool) : Prop where
  importants : b.importants = Index.build (pickC rules .important) o
  exceptions : b.exceptions = Index.build (pickC rules .exception) o
  filters : b.filters = Index.build (pickC rules .normal) o
  tagged : b.filtersTagged = Index.build ((pickC rules .tagged).filter (tagEnabled T)) o
  redirects : b.redirects = Index.build ((live rules).filter Rule.isRedirect) o
  removeparam : b.removeparam = Index.build (pickC rules .removeparam) false
  tags : b.tagsEnabled = T

theorem new_useTags_reprO (rules : List Rule) (tags : List Str) (o : Bool) (hsep : idsSeparate rules = true) :
    ((Blocker.new rules o).useTags tags).ReprO rules (dedupS tags) o := by
  have hl := liveIds_eq_live rules hsep
  constructor
  all_goals (try simp [Blocker.useTags, Blocker.tagsWithSet, Blocker.new, hl, pickC])
  all_goals (try rfl)

theorem isImportant_of_mask (f g : Rule) (h : f.mask = g.mask) : f.isImportant = g.isImportant := by
  unfold Rule.isImportant; rw [h]

/-- redirect rules are never selected for fusion -/
theorem redirect_not_selected (r : Rule) (h : r.isRedirect = true) : selectOpt r = false := by
  unfold selectOpt; simp [h]

/-- **C01 at the level of the whole engine, optimised or not.** -/
theorem check_of_reprO (b : Blocker) (rules : List Rule) (T : List Str) (st : Store) (q : Request) (o : Bool)
    (hb : b.ReprO rules T o) (ok : CaseOK rules q) (hwf : ∀ f ∈ rules, WFPart f) :
    b.check st q ∈ verdicts rules T st q := by
  unfold Blocker.check verdicts
  cases hs : q.isSupported with
  | false => simp
  | true =>
  simp only [Bool.not_true, Bool.false_eq_true, if_false]
  rw [hb.importants, hb.exceptions, hb.filters, hb.tagged, hb.redirects, hb.removeparam, hb.tags]
  have nrpI : ∀ f ∈ pickC rules .important, f.isRemoveparam = false :=
    fun f hf => cat_not_rp (cat_of_pick hf) (by simp) (by simp)
  have nrpE : ∀ f ∈ pickC rules .exception, f.isRemoveparam = false :=
    fun f hf => cat_not_rp (cat_of_pick hf) (by simp) (by simp)
  have nrpN : ∀ f ∈ pickC rules .normal, f.isRemoveparam = false :=
    fun f hf => cat_not_rp (cat_of_pick hf) (by simp) (by simp)
  have nrpG : ∀ f ∈ (pickC rules .tagged).filter (tagEnabled T), f.isRemoveparam = false :=
    fun f hf => cat_not_rp (cat_of_pick (List.mem_filter.1 hf).1) (by simp) (by simp)
  obtain ⟨hI, hIm⟩ := cat_lookup_o rules _ q T o ok hwf (pick_sub rules .important) nrpI
  obtain ⟨hE, _⟩ := cat_lookup_o rules _ q T o ok hwf (pick_sub rules .exception) nrpE
  obtain ⟨hN, hNm⟩ := cat_lookup_o rules _ q [] o ok hwf (pick_sub rules .normal) nrpN
  obtain ⟨hG, hGm⟩ := cat_lookup_o rules _ q T o ok hwf
    (fun f hf => pick_sub rules .tagged f (List.mem_filter.1 hf).1) nrpG
  rw [hits_tagged_prefilter _ q T (fun f hf => cat_tagged_tag (cat_of_pick hf))] at hG
  -- redirects: the optimiser only reorders the redirect list
  have hRplain : ∀ f, f ∈ (Index.build ((live rules).filter Rule.isRedirect) false).checkAll q [] ↔
      f ∈ hits ((live rules).filter Rule.isRedirect) q [] := by
    intro f
    constructor
    · exact index_sound _ q [] f
    · intro h
      have hf : f ∈ (live rules).filter Rule.isRedirect := by unfold hits at h; exact (List.mem_filter.1 h).1
      have hfr : f ∈ rules := live_sub rules f (List.mem_filter.1 hf).1
      exact index_complete _ q [] f
        (ids_sub ok.ids (fun g hg => live_sub rules g (List.mem_filter.1 hg).1)) ok.zero
        (ok.probedRd f hfr (List.mem_filter.1 hf).2) h
  have hRmem : ∀ f, f ∈ (Index.build ((live rules).filter Rule.isRedirect) o).checkAll q [] ↔
      f ∈ hits ((live rules).filter Rule.isRedirect) q [] := by
    intro f
    cases o with
    | false => exact hRplain f
    | true =>
      rw [build_opt, optimize_checkAll_mem_of_none _ q [] ?_ f]
      · exact hRplain f
      · intro k r hr
        have := build_get_sub _ k r hr
        exact redirect_not_selected r (List.mem_filter.1 this).2
  have hRd : (chooseRedirect ((Index.build ((live rules).filter Rule.isRedirect) o).checkAll q [])).bind st.redirect ∈
      (if (redirectChoices (hits ((live rules).filter Rule.isRedirect) q [])).isEmpty then [none]
       else (redirectChoices (hits ((live rules).filter Rule.isRedirect) q [])).map st.redirect) := by
    cases hc : chooseRedirect ((Index.build ((live rules).filter Rule.isRedirect) o).checkAll q []) with
    | none =>
      have h1 := (redirect_none_iff _).1 hc
      have h2 : redirectChoices (hits ((live rules).filter Rule.isRedirect) q []) = [] := by
        apply List.eq_nil_iff_forall_not_mem.2
        intro res hres
        have := (redirectChoices_congr _ _ hRmem res).2 hres
        rw [h1] at this; cases this
      simp [h2]
    | some res =>
      have h1 := redirect_sound _ res hc
      have h2 := (redirectChoices_congr _ _ hRmem res).1 h1
      have hne : (redirectChoices (hits ((live rules).filter Rule.isRedirect) q [])).isEmpty = false := by
        cases hh : redirectChoices (hits ((live rules).filter Rule.isRedirect) q []) with
        | nil => rw [hh] at h2; cases h2
        | cons _ _ => rfl
      simp only [hne, Bool.false_eq_true, if_false, Option.bind_some, List.mem_map]
      exact ⟨res, h2, rfl⟩
  -- the rewritten URL: the removeparam list is never optimised
  have hRw := removeparam_lookup rules q ok
  rw [hRw]
  simp only [List.mem_map]
  refine ⟨_, hRd, ?_⟩
  simp only [pickC] at hI hIm hE hN hNm hG hGm ⊢
  rw [← hI, ← hE, ← hN, ← hG]
  apply assemble_eq
  · intro f hf
    obtain ⟨g, hg, hm⟩ := hIm f hf
    rw [isImportant_of_mask f g hm]
    have hc : cat g = .important := by simpa using (List.mem_filter.1 hg).2
    exact cat_important_flag hc
  · intro f hf
    obtain ⟨g, hg, hm⟩ := hGm f hf
    rw [isImportant_of_mask f g hm]
    have hc : cat g = .tagged := by simpa using (List.mem_filter.1 (List.mem_filter.1 hg).1).2
    exact cat_blocking_not_important (Or.inl hc)
  · intro f hf
    obtain ⟨g, hg, hm⟩ := hNm f hf
    rw [isImportant_of_mask f g hm]
    have hc : cat g = .normal := by simpa using (List.mem_filter.1 hg).2
    exact cat_blocking_not_important (Or.inr hc)

/-- **the engine, built with or without optimisation, answers as the rule-by-rule reference** -/
theorem engine_eq_scan (rules : List Rule) (tags : List Str) (st : Store) (q : Request) (o : Bool)
    (ok : CaseOK rules q) (hwf : ∀ f ∈ rules, WFPart f) :
    ((Blocker.new rules o).useTags tags).check st q ∈ verdicts rules (dedupS tags) st q :=
  check_of_reprO _ rules _ st q o (new_useTags_reprO rules tags o ok.sep) ok hwf

theorem wfRules_sound (rules : List Rule) (h : wfRules rules = true) : ∀ f ∈ rules, WFPart f := by
  intro f hf
  unfold wfRules at h
  have := List.all_eq_true.1 h f hf
  unfold WFPart
  simpa using this

/-- in the form the correspondence check uses (`D = 1` cases) -/
theorem engine_eq_scan_opt_of_caseOK (rules : List Rule) (tags : List Str) (st : Store) (q : Request) (o : Bool)
    (h : caseOK rules q = true) (hw : wfRules rules = true) :
    ((Blocker.new rules o).useTags tags).check st q ∈ verdicts rules (dedupS tags) st q :=
  engine_eq_scan rules tags st q o (caseOK_sound rules q h) (wfRules_sound rules hw)

end Adb.Net
