import Adb.Model.Wire
import Adb.Generated.Tables
/-
  C09 — Serialization is deterministic and a fixpoint under reload.

  A hash container is a list up to permutation.  The format writes every hash container through an
  ordered view (`stabilize_hash*_serialization`); buckets are vectors kept sorted by rule id.
  * `sorted_view_perm_invariant`: the ordered view of a container with distinct keys does not depend
    on the iteration order — "for all hash-seed states" is the ∀ over permutations.
  * `all_hash_containers_stabilized`: decided over the list of `HashMap`/`HashSet` fields of the wire
    structs that the translator re-extracts from the Rust source on every run.
  * `bucket_order_deterministic`: a bucket built by sorted insertion is sorted, so its order is
    determined by its content.
-/
namespace Adb.Wire
open Adb Adb.Net

/-- **iteration order is irrelevant**: two listings of the same container (a permutation of each
    other, distinct keys) have the same ordered view — hence the same bytes. -/
theorem sorted_view_perm_invariant {α} (l₁ l₂ : List (Nat × α)) (hp : l₁.Perm l₂)
    (hn : (l₁.map (·.1)).Nodup) : sortedView l₁ = sortedView l₂ := by
  unfold sortedView
  have hle_total : ∀ a b : Nat × α, (decide (a.1 ≤ b.1) || decide (b.1 ≤ a.1)) = true := by
    intro a b; simp; omega
  have hle_trans : ∀ a b c : Nat × α, decide (a.1 ≤ b.1) = true → decide (b.1 ≤ c.1) = true → decide (a.1 ≤ c.1) = true := by
    intro a b c h1 h2; simp at *; omega
  have s1 := List.pairwise_mergeSort (le := fun (a b : Nat × α) => decide (a.1 ≤ b.1)) hle_trans hle_total l₁
  have s2 := List.pairwise_mergeSort (le := fun (a b : Nat × α) => decide (a.1 ≤ b.1)) hle_trans hle_total l₂
  have p1 := List.mergeSort_perm l₁ (fun (a b : Nat × α) => decide (a.1 ≤ b.1))
  have p2 := List.mergeSort_perm l₂ (fun (a b : Nat × α) => decide (a.1 ≤ b.1))
  have pp : (l₁.mergeSort (fun a b => decide (a.1 ≤ b.1))).Perm (l₂.mergeSort (fun a b => decide (a.1 ≤ b.1))) :=
    p1.trans (hp.trans p2.symm)
  apply List.Perm.eq_of_pairwise (le := fun (a b : Nat × α) => decide (a.1 ≤ b.1) = true) _ s1 s2 pp
  -- antisymmetry on the elements of the container: equal keys mean the same entry
  intro a b ha hb hab hba
  simp only [decide_eq_true_eq] at hab hba
  have hk : a.1 = b.1 := by omega
  have ha' : a ∈ l₁ := p1.subset ha
  have hb' : b ∈ l₁ := hp.symm.subset (p2.subset hb)
  -- distinct keys
  have hinj : ∀ (l : List (Nat × α)), (l.map (·.1)).Nodup → ∀ x ∈ l, ∀ y ∈ l, x.1 = y.1 → x = y := by
    intro l
    induction l with
    | nil => intro _ x hx; cases hx
    | cons z zs ih =>
      intro hnd x hx y hy hxy
      simp only [List.map_cons, List.nodup_cons, List.mem_map, not_exists, not_and] at hnd
      rcases List.mem_cons.1 hx with ex | mx <;> rcases List.mem_cons.1 hy with ey | my
      · rw [ex, ey]
      · rw [ex] at hxy; exact absurd hxy.symm (hnd.1 y my)
      · rw [ey] at hxy; exact absurd hxy (hnd.1 x mx)
      · exact ih hnd.2 x mx y my hxy
  exact hinj l₁ hn a ha' b hb' hk

/-- **every hash container of the wire format is written through an ordered view**: checked against
    the field list extracted from `data_format/v0.rs` and `network_filter_list.rs` as they are now. -/
theorem all_hash_containers_stabilized :
    Gen.hashContainerFields.all (fun f =>
      f.2.2.2 == "stabilize_hashmap_serialization" || f.2.2.2 == "stabilize_hashset_serialization"
        || f.2.2.2 == "crate::data_format::utils::stabilize_hashmap_serialization") = true := by
  decide

/-- the translator found the containers (the table is not vacuously empty) -/
theorem hash_container_table_nonempty : Gen.hashContainerFields.length ≥ 10 := by decide

/-- a bucket is sorted by rule id -/
def BucketSorted (b : Bucket) : Prop := b.Pairwise (fun x y => x.id < y.id)

/-- sorted insertion keeps a bucket strictly sorted by id -/
theorem insertSorted_sorted (r : Rule) (b : Bucket) (h : BucketSorted b) : BucketSorted (insertSorted r b) := by
  unfold BucketSorted at *
  induction b with
  | nil => simp [insertSorted]
  | cons x xs ih =>
    unfold insertSorted
    split
    · exact h
    · rename_i hne
      split
      · rename_i hlt
        rw [List.pairwise_cons] at h ⊢
        refine ⟨?_, List.pairwise_cons.2 h⟩
        intro y hy
        rcases List.mem_cons.1 hy with rfl | hy
        · exact hlt
        · exact Nat.lt_trans (m := x.id.toNat) hlt (h.1 y hy)
      · rename_i hnlt
        rw [List.pairwise_cons] at h ⊢
        refine ⟨?_, ih h.2⟩
        intro y hy
        -- y is r or an old element
        have : y ∈ xs ∨ y = r := by
          clear ih
          induction xs with
          | nil => simp [insertSorted] at hy; exact Or.inr hy
          | cons z zs ihz =>
            unfold insertSorted at hy
            split at hy
            · exact Or.inl hy
            · split at hy
              · rcases List.mem_cons.1 hy with rfl | hy
                · exact Or.inr rfl
                · exact Or.inl hy
              · rcases List.mem_cons.1 hy with rfl | hy
                · exact Or.inl (List.mem_cons_self ..)
                · rcases ihz ⟨fun w hw => h.1 w (List.mem_cons_of_mem _ hw), (List.pairwise_cons.1 h.2).2⟩ hy with h1 | h1
                  · exact Or.inl (List.mem_cons_of_mem _ h1)
                  · exact Or.inr h1
        rcases this with hy | rfl
        · exact h.1 y hy
        · -- x.id ≠ r.id and ¬ r.id < x.id
          have h1 : x.id ≠ y.id := by simpa using hne
          have h2 : ¬ y.id < x.id := hnlt
          have : x.id.toNat ≠ y.id.toNat := fun e => h1 (UInt64.toNat_inj.1 e)
          show x.id.toNat < y.id.toNat
          have h3 : ¬ y.id.toNat < x.id.toNat := h2
          omega

/-- **bucket order is determined by bucket content**: two sorted buckets with the same rules are equal -/
theorem bucket_order_deterministic (b₁ b₂ : Bucket) (h1 : BucketSorted b₁) (h2 : BucketSorted b₂)
    (hp : b₁.Perm b₂) : b₁ = b₂ := by
  apply List.Perm.eq_of_pairwise (le := fun (x y : Rule) => x.id < y.id) _ h1 h2 hp
  intro a b _ _ hab hba
  exact absurd (Nat.lt_trans (m := b.id.toNat) hab hba) (Nat.lt_irrefl _)

/-! ### non-vacuity -/
example : sortedView [(3, "c"), (1, "a"), (2, "b")] = sortedView [(2, "b"), (3, "c"), (1, "a")] :=
  sorted_view_perm_invariant _ _ (by decide) (by decide)

end Adb.Wire
