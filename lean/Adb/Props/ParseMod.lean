/-
  One modifier per rule: a parsed rule is never both a redirect rule and a removeparam rule
  (`validate_options` rejects two modifier options, and nothing after the option fold sets either bit).
  This is the last conjunct of the per-case hypothesis `caseOK` of the C01 engine theorems.
-/
import Adb.Props.ParseInv
import Adb.Props.C03
namespace Adb.Props.ParseMod
open Adb Adb.Net Adb.Parse Adb.Gen Adb.Props.ParseInv

/-- the type bits `parse_filter_options` can put into the positive / negated sets -/
def optOK : NOpt → Prop
  | .ctype b _ => b ∈ FROM_ALL_TYPES
  | _ => True

theorem ctypeBit_mem (c : String) (b : Nat) (h : ctypeBit c = some b) : b ∈ FROM_ALL_TYPES := by
  unfold ctypeBit at h
  split at h <;> first | (cases h; decide) | cases h

theorem parseOption_ok (raw : Str) (o : NOpt) (h : parseOption raw = .ok o) : optOK o := by
  unfold parseOption at h
  simp only at h
  repeat' first
    | (injection h with h; subst h; first | trivial | exact ctypeBit_mem _ _ ‹_›)
    | (cases h; done)
    | split at h

/-! ### bit bookkeeping -/

theorem has_foldSet (l : List Nat) (m : Mask) (b : Nat) :
    has (l.foldl (fun m b => setBit m b true) m) b = (has m b || l.contains b) := by
  induction l generalizing m with
  | nil => simp
  | cons x xs ih =>
    simp only [List.foldl_cons, ih, has_setBit, List.contains_cons]
    by_cases e : b = x
    · subst e; simp
    · have : (b == x) = false := by simpa using e
      simp [e, this]

theorem has_zero (b : Nat) : has 0 b = false := by unfold has; simp

theorem has_maskOf (l : List Nat) (b : Nat) : has (maskOf l) b = l.contains b := by
  unfold maskOf; rw [has_foldSet, has_zero]; simp

theorem has_clearBits (l : List Nat) (m : Mask) (b : Nat) :
    has (clearBits m l) b = (has m b && !l.contains b) := by
  unfold clearBits
  induction l generalizing m with
  | nil => simp
  | cons x xs ih =>
    simp only [List.foldl_cons, ih, has_setBit, List.contains_cons]
    by_cases e : b = x
    · subst e; simp
    · have : (b == x) = false := by simpa using e
      simp [e, this]

theorem has_negClear (neg : Mask) (l : List Nat) (m : Mask) (b : Nat)
    (h : has (l.foldl (fun m b => if has neg b then setBit m b false else m) m) b = true) : has m b = true := by
  induction l generalizing m with
  | nil => simpa using h
  | cons x xs ih =>
    simp only [List.foldl_cons] at h
    have := ih _ h
    split at this
    · rw [has_setBit] at this
      split at this
      · cases this
      · exact this
    · exact this

theorem has_fst_ite {β : Type} (c : Prop) [Decidable c] (a b : Mask × β) (bit : Nat) :
    has (if c then a else b).1 bit = if c then has a.1 bit else has b.1 bit := by split <;> rfl

/-- the two modifier flags in question -/
def ModBit (b : Nat) : Prop := b = IS_REMOVEPARAM ∨ b = IS_REDIRECT

macro "modbits" : tactic => `(tactic|
  simp [has_setBit, has_or, has_maskOf, has_clearBits, FROM_IMAGE, FROM_MEDIA, FROM_OBJECT, FROM_OTHER, FROM_PING,
    FROM_SCRIPT, FROM_STYLESHEET, FROM_SUBDOCUMENT, FROM_WEBSOCKET, FROM_XMLHTTPREQUEST, FROM_FONT, FROM_HTTP,
    FROM_HTTPS, IS_IMPORTANT, MATCH_CASE, IS_REMOVEPARAM, THIRD_PARTY, FIRST_PARTY, IS_REGEX, IS_LEFT_ANCHOR,
    IS_RIGHT_ANCHOR, IS_HOSTNAME_ANCHOR, IS_EXCEPTION, IS_CSP, IS_COMPLETE_REGEX, IS_REDIRECT, BAD_FILTER,
    IS_HOSTNAME_REGEX, FROM_DOCUMENT, GENERIC_HIDE, ALSO_BLOCK_REDIRECT, FROM_NETWORK_TYPES, FROM_ALL_TYPES])

theorem maskBefore_mod (parsed : Abstract) (st : OptState) (b : Nat) (hb : ModBit b) :
    has (maskBeforePattern parsed st) b = (has st.mask b || has st.pos b) := by
  unfold maskBeforePattern anchorStage typeStage
  rcases hb with rfl | rfl <;> (simp only []; repeat' split) <;> modbits

theorem markComplete_mod (mask : Mask) (p : Str) (m : Mask) (h : markComplete mask p = .ok m) (b : Nat)
    (hb : ModBit b) : has m b = has mask b := by
  unfold markComplete at h
  simp only at h
  split at h
  · injection h with h; subst h; rcases hb with rfl | rfl <;> modbits
  · split at h
    · cases h
    · injection h with h; subst h; rfl

theorem splitHost_mod (la : Option LAnchor) (mask : Mask) (p : Str) (b : Nat) (hb : ModBit b) :
    has (splitHostPart la mask p).1 b = has mask b := by
  unfold splitHostPart
  rcases hb with rfl | rfl <;> (simp only []; repeat' split) <;> modbits

theorem trimStars_mod (mask : Mask) (p : Str) (fs : Nat) (b : Nat) (hb : ModBit b) :
    has (trimStars mask p fs).1 b = has mask b := by
  unfold trimStars
  rcases hb with rfl | rfl <;> (simp only []; repeat' split) <;> modbits

theorem schemeOnly_mod (mask : Mask) (t : Str) (fs fe : Nat) (b : Nat) (hb : ModBit b) :
    has (schemeOnly mask t fs fe).1 b = has mask b := by
  unfold schemeOnly
  rcases hb with rfl | rfl <;> (repeat' split) <;> modbits

theorem surgery_mod (mask : Mask) (p : Str) (fs : Nat) (b : Nat) (hb : ModBit b) :
    has (filterSurgery mask p fs).1 b = has mask b := by
  unfold filterSurgery
  have h1 := trimStars_mod mask p fs b hb
  split
  rename_i m1 s1 e1 ht
  rw [ht] at h1
  have h2 := schemeOnly_mod m1 (p.drop s1) s1 e1 b hb
  split
  rename_i m2 s2 hs
  rw [hs] at h2
  simp only at h1 h2
  split
  · simp only [has_setBit]
    rcases hb with rfl | rfl
    · rw [if_neg (by decide), h2, h1]
    · rw [if_neg (by decide), h2, h1]
  · simp only [h2, h1]

theorem finish_mod (line : Str) (parsed : Abstract) (st : OptState) (mask : Mask) (filter host : Option Str)
    (r : Rule) (h : finishNetwork line parsed st mask filter host = .ok r) (b : Nat) (hb : ModBit b)
    (hr : has r.mask b = true) : has mask b = true := by
  unfold finishNetwork at h
  split at h
  · cases h
  · split at h
    · cases h
    · injection h with h; subst h
      simp only at hr
      have := has_negClear _ _ _ _ hr
      split at this
      · rcases hb with rfl | rfl <;> (revert this; modbits)
      · exact this

/-! ### the option list -/

theorem mapM_ok {α β : Type} (f : α → Except String β) (l : List α) (os : List β) (h : l.mapM f = .ok os) :
    ∀ o ∈ os, ∃ x ∈ l, f x = .ok o := by
  induction l generalizing os with
  | nil =>
    simp only [List.mapM_nil, pure, Except.pure] at h
    injection h with h; subst h; intro o ho; cases ho
  | cons x xs ih =>
    rw [List.mapM_cons] at h
    simp only [bind, Except.bind] at h
    split at h
    · cases h
    · rename_i y hy
      split at h
      · cases h
      · rename_i ys hys
        simp only [pure, Except.pure] at h
        injection h with h; subst h
        intro o ho
        rcases List.mem_cons.1 ho with rfl | ho
        · exact ⟨x, List.mem_cons_self, hy⟩
        · obtain ⟨z, hz, hfz⟩ := ih ys hys o ho
          exact ⟨z, List.mem_cons_of_mem _ hz, hfz⟩

theorem parseOptions_ok (raw : Str) (os : List NOpt) (h : parseOptions raw = .ok os) : ∀ o ∈ os, optOK o := by
  intro o ho
  obtain ⟨x, _, hx⟩ := mapM_ok _ _ _ h o ho
  exact parseOption_ok x o hx

theorem parseAbstract_options (line : Str) (parsed : Abstract) (h : parseAbstract line = .ok parsed)
    (os : List NOpt) (ho : parsed.options = some os) : ∀ o ∈ os, optOK o := by
  unfold parseAbstract at h
  split at h
  · cases h
  · rename_i patSide options hsplit
    injection h with h; subst h
    unfold abstractOf at ho
    simp only at ho
    subst ho
    unfold splitOptions at hsplit
    split at hsplit
    · split at hsplit
      · rename_i o hpo
        injection hsplit with hsplit
        injection hsplit with _ h2
        injection h2 with h2; subst h2
        exact parseOptions_ok _ _ hpo
      · cases hsplit
    · injection hsplit with hsplit
      injection hsplit with _ h2
      cases h2

def isModOpt : NOpt → Bool
  | .csp _ => true | .redirect _ => true | .redirectRule _ => true | .removeparam _ => true | _ => false

theorem validate_one_modifier (opts : List NOpt) (h : validateOptions opts = .ok ()) :
    (opts.filter isModOpt).length ≤ 1 := by
  unfold validateOptions at h
  simp only at h
  split at h
  · cases h
  · split at h
    · cases h
    · rename_i hlen
      have e : ∀ f : NOpt → Bool, (∀ o, f o = isModOpt o) →
          (opts.filter f).length = (opts.filter isModOpt).length :=
        fun f hf => by rw [List.filter_congr (fun o _ => hf o)]
      rw [e _ (fun o => by cases o <;> rfl)] at hlen
      omega

theorem two_in_short {α : Type} (l : List α) (h : l.length ≤ 1) (a b : α) (ha : a ∈ l) (hb : b ∈ l) : a = b := by
  match l, h with
  | [], _ => cases ha
  | [x], _ =>
    simp only [List.mem_cons, List.mem_nil_iff, or_false] at ha hb
    rw [ha, hb]
  | _ :: _ :: _, h => simp at h

/-- after a validated option fold the state never carries both modifier flags, and its positive
    type set carries neither -/
theorem fold_mod (opts : List NOpt) (hv : validateOptions opts = .ok ()) (hok : ∀ o ∈ opts, optOK o) (m0 : Mask)
    (h0r : has m0 IS_REDIRECT = false) (h0p : has m0 IS_REMOVEPARAM = false) :
    let st := opts.foldl applyOption { mask := m0 }
    (has st.mask IS_REDIRECT && has st.mask IS_REMOVEPARAM) = false ∧
    has st.pos IS_REDIRECT = false ∧ has st.pos IS_REMOVEPARAM = false := by
  intro st
  have hR : has st.mask IS_REDIRECT = opts.any (setsB IS_REDIRECT) := by
    show has (opts.foldl applyOption _).mask _ = _
    rw [option_mask_set_bits _ _ _ (by decide) (by decide)]; simp [h0r]
  have hP : has st.mask IS_REMOVEPARAM = opts.any (setsB IS_REMOVEPARAM) := by
    show has (opts.foldl applyOption _).mask _ = _
    rw [option_mask_set_bits _ _ _ (by decide) (by decide)]; simp [h0p]
  have hposR : has st.pos IS_REDIRECT = opts.any (posB IS_REDIRECT) := by
    show has (opts.foldl applyOption _).pos _ = _
    rw [option_pos_bits]; simp [has_zero]
  have hposP : has st.pos IS_REMOVEPARAM = opts.any (posB IS_REMOVEPARAM) := by
    show has (opts.foldl applyOption _).pos _ = _
    rw [option_pos_bits]; simp [has_zero]
  have hpos : ∀ b, ModBit b → opts.any (posB b) = false := by
    intro b hb
    rw [List.any_eq_false]
    intro o ho hp
    have hk := hok o ho
    cases o with
    | ctype bit e =>
      cases e with
      | true =>
        simp only [posB, beq_iff_eq] at hp
        subst hp
        unfold optOK at hk
        rcases hb with rfl | rfl <;> revert hk <;> decide
      | false => simp [posB] at hp
    | document =>
      simp only [posB, beq_iff_eq] at hp
      rcases hb with rfl | rfl <;> revert hp <;> decide
    | _ => simp [posB] at hp
  refine ⟨?_, by rw [hposR]; exact hpos _ (Or.inr rfl), by rw [hposP]; exact hpos _ (Or.inl rfl)⟩
  rw [hR, hP]
  cases hA : opts.any (setsB IS_REDIRECT)
  · rfl
  cases hB : opts.any (setsB IS_REMOVEPARAM)
  · rfl
  exfalso
  obtain ⟨o1, ho1, h1⟩ := List.any_eq_true.1 hA
  obtain ⟨o2, ho2, h2⟩ := List.any_eq_true.1 hB
  have hlen := validate_one_modifier opts hv
  have m1 : isModOpt o1 = true := by
    cases o1 <;> first | rfl | (revert h1; simp [setsB, setsBit, modifierBits]; try decide)
  have m2 : isModOpt o2 = true := by
    cases o2 <;> first | rfl | (revert h2; simp [setsB, setsBit, modifierBits]; try decide)
  have e := two_in_short _ hlen o1 o2 (List.mem_filter.2 ⟨ho1, m1⟩) (List.mem_filter.2 ⟨ho2, m2⟩)
  subst e
  cases o1 <;> revert h1 h2 <;> simp [setsB, setsBit, modifierBits] <;> decide

theorem optionState_mod (parsed : Abstract) (st : OptState) (h : optionState parsed = .ok st)
    (hok : ∀ os, parsed.options = some os → ∀ o ∈ os, optOK o) :
    (has st.mask IS_REDIRECT && has st.mask IS_REMOVEPARAM) = false ∧
    has st.pos IS_REDIRECT = false ∧ has st.pos IS_REMOVEPARAM = false := by
  unfold optionState at h
  simp only at h
  have hm0 : ∀ b, ModBit b →
      has (if parsed.exception then setBit (maskOf [THIRD_PARTY, FIRST_PARTY, FROM_HTTPS, FROM_HTTP]) IS_EXCEPTION true
           else maskOf [THIRD_PARTY, FIRST_PARTY, FROM_HTTPS, FROM_HTTP]) b = false := by
    intro b hb
    rcases hb with rfl | rfl <;> split <;> modbits
  split at h
  · rename_i opts hopts
    split at h
    · cases h
    · rename_i hv
      injection h with h; subst h
      exact fold_mod opts hv (hok opts hopts) _ (hm0 _ (Or.inr rfl)) (hm0 _ (Or.inl rfl))
  · injection h with h; subst h
    simp only [hm0 _ (Or.inr rfl), hm0 _ (Or.inl rfl), has_zero, Bool.false_and, and_self]

/-- **A parsed rule is never both a redirect rule and a removeparam rule.** -/
theorem parse_one_modifier (line : Str) (r : Rule) (h : parseNetwork line = .ok r) :
    (r.isRedirect && r.isRemoveparam) = false := by
  obtain ⟨parsed, st, mask0, mask1, host0, fStart, mask2, filter, host, hpa, hst, hm0, hs, hf, _, hfin⟩ :=
    parse_stages line r h
  obtain ⟨hboth, hpR, hpP⟩ := optionState_mod parsed st hst (parseAbstract_options line parsed hpa)
  -- every later stage leaves both flags as the option fold left them
  have back : ∀ b, ModBit b → has r.mask b = true → has st.mask b = true := by
    intro b hb hr
    have h2 := finish_mod _ _ _ _ _ _ _ hfin b hb hr
    have e2 : has mask2 b = has mask1 b := by
      have := surgery_mod mask1 parsed.pattern fStart b hb; rw [hf] at this; exact this
    have e1 : has mask1 b = has mask0 b := by
      have := splitHost_mod parsed.la mask0 parsed.pattern b hb; rw [hs] at this; exact this
    have e0 := markComplete_mod _ _ _ hm0 b hb
    rw [e2, e1, e0, maskBefore_mod parsed st b hb] at h2
    rcases hb with rfl | rfl
    · simpa [hpP] using h2
    · simpa [hpR] using h2
  unfold Rule.isRedirect Rule.isRemoveparam
  cases hA : has r.mask IS_REDIRECT
  · rfl
  cases hB : has r.mask IS_REMOVEPARAM
  · rfl
  rw [back _ (Or.inr rfl) hA, back _ (Or.inl rfl) hB] at hboth
  cases hboth

/-- the same for parsed rule lists, in the shape `caseOK` asks for -/
theorem parsedRules_one_modifier (lines : List Str) (r : Rule)
    (hr : r ∈ lines.filterMap (fun l => match parseNetwork l with | .ok r => some r | .error _ => none)) :
    (!(r.isRedirect && r.isRemoveparam)) = true := by
  obtain ⟨l, _, hl⟩ := List.mem_filterMap.1 hr
  split at hl
  · rename_i r' hp
    injection hl with hl; subst hl
    rw [parse_one_modifier l _ hp]; rfl
  · cases hl

example : (match parseNetwork "||a.com^$redirect=noop.js".toList with
    | .ok r => r.isRedirect && !r.isRemoveparam | .error _ => false) = true := by decide +kernel
example : parseNetwork "x$redirect=a,removeparam=b".toList matches .error _ := by decide +kernel

end Adb.Props.ParseMod
