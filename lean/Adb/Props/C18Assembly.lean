/-
  C18 — assembly of the injected script (model: Adb.Model.ScriptletAssembly):
  * every resource that ends up in the dependency list was permission-checked against the mask of an
    injection that requested it, for every store, dependency graph (cycles, aliases, missing nodes)
    and injection list — also when an injection fails half-way and leaves dependencies behind;
  * the dependency walk terminates: with the depth fuel the model uses (`|store| + 1`) it never runs
    out, whatever the graph (the visited set grows by a new canonical name at every descent).
-/
import Adb.Model.ScriptletAssembly
namespace Adb.Props.C18Assembly
open Adb Adb.Assembly

/-! ### permission safety -/

/-- `out` extends `inn` only by resources injectable under `mask` -/
def Grows (mask : Nat) (inn out : List Res) : Prop :=
  ∀ r ∈ out, r ∈ inn ∨ injectable r.permission mask = true

theorem Grows.refl (mask : Nat) (l : List Res) : Grows mask l l := fun _ h => Or.inl h

theorem Grows.trans {mask : Nat} {a b c : List Res} (h1 : Grows mask a b) (h2 : Grows mask b c) : Grows mask a c := by
  intro r hr
  rcases h2 r hr with h | h
  · exact h1 r h
  · exact Or.inr h

theorem permissioned_ok (st : Store) (ident : Str) (mask : Nat) (r : Res) (h : permissioned st ident mask = .ok r) :
    injectable r.permission mask = true ∧ st.find ident = some r := by
  unfold permissioned at h
  split at h
  · cases h
  · rename_i r' hf
    split at h
    · rename_i hi
      injection h with h
      subst h
      exact ⟨hi, hf⟩
    · cases h

theorem visitAll_grows (st : Store) (mask fuel : Nat)
    (hv : ∀ d w, Grows mask w.deps (visit st mask fuel d w).1.deps) :
    ∀ ds w, Grows mask w.deps (visitAll st mask fuel ds w).1.deps := by
  intro ds
  induction ds with
  | nil => intro w; unfold visitAll; exact Grows.refl _ _
  | cons d ds ih =>
    intro w
    unfold visitAll
    have h1 := hv d w
    split
    · rename_i w' e he
      rw [he] at h1; exact h1
    · rename_i w' he
      rw [he] at h1
      exact Grows.trans h1 (ih w')

theorem visit_grows (st : Store) (mask fuel : Nat) :
    ∀ d w, Grows mask w.deps (visit st mask fuel d w).1.deps := by
  induction fuel with
  | zero => intro d w; unfold visit; exact Grows.refl _ _
  | succ fuel ih =>
    intro d w
    unfold visit
    split
    · exact Grows.refl _ _
    · rename_i r hp
      obtain ⟨hinj, _⟩ := permissioned_ok st d mask r hp
      split
      · exact Grows.refl _ _
      · have hstart : Grows mask w.deps (if w.deps.any (·.name == r.name) then w.deps else w.deps ++ [r]) := by
          intro x hx
          split at hx
          · exact Or.inl hx
          · simp only [List.mem_append, List.mem_singleton] at hx
            rcases hx with hx | hx
            · exact Or.inl hx
            · subst hx; exact Or.inr hinj
        exact Grows.trans hstart (visitAll_grows st mask fuel ih r.deps _)

/-- what one injection does to the dependency list, whether it succeeds or not -/
theorem scriptletResource_grows (st : Store) (raw : Str) (mask : Nat) (deps : List Res) :
    Grows mask deps (scriptletResource st raw mask deps).2 := by
  unfold scriptletResource
  split
  · exact Grows.refl _ _
  · exact Grows.refl _ _
  · split
    · exact Grows.refl _ _
    · split
      · exact Grows.refl _ _
      · rename_i r hp
        obtain ⟨hinj, _⟩ := permissioned_ok st _ mask r hp
        split
        · exact Grows.refl _ _
        · have hw := visitAll_grows st mask (st.length + 1) (visit_grows st mask (st.length + 1)) r.deps
            { deps := deps, visited := [] }
          split
          · rename_i w e he; rw [he] at hw; exact hw
          · rename_i w he
            rw [he] at hw
            split
            · exact hw
            · split
              · simp only
                intro x hx
                split at hx
                · exact hw x hx
                · simp only [List.mem_append, List.mem_singleton] at hx
                  rcases hx with hx | hx
                  · exact hw x hx
                  · subst hx; exact Or.inr hinj
              · exact hw

/-- **Permission safety of the assembled script.** Every resource in the dependency list of the
    injected script is injectable under the permission mask of one of the requested injections: a
    resource that requires permission bits is there only if a list that was granted all of them
    asked for something that depends on it. -/
theorem injStep_grows (st : Store) (acc : List Res × List Str × List Str) (p : Str × Nat) :
    Grows p.2 acc.1 (injStep st acc p).1 := by
  unfold injStep
  split
  · exact Grows.refl _ _
  · have hg := scriptletResource_grows st p.1 p.2 acc.1
    split
    · rename_i inv deps' he; rw [he] at hg; exact hg
    · rename_i e deps' he; rw [he] at hg; exact hg

theorem foldl_permissioned (st : Store) (done todo : List (Str × Nat)) (acc : List Res × List Str × List Str)
    (hacc : ∀ r ∈ acc.1, ∃ p ∈ done, injectable r.permission p.2 = true) :
    ∀ r ∈ (todo.foldl (injStep st) acc).1, ∃ p ∈ done ++ todo, injectable r.permission p.2 = true := by
  induction todo generalizing done acc with
  | nil => intro r hr; simpa using hacc r hr
  | cons p ps ih =>
    intro r hr
    simp only [List.foldl_cons] at hr
    have hstep : ∀ x ∈ (injStep st acc p).1, ∃ q ∈ done ++ [p], injectable x.permission q.2 = true := by
      intro x hx
      rcases injStep_grows st acc p x hx with h1 | h1
      · obtain ⟨q, hq, hqi⟩ := hacc x h1
        exact ⟨q, by simp [hq], hqi⟩
      · exact ⟨p, by simp, h1⟩
    have := ih (done ++ [p]) _ hstep r hr
    simpa using this

/-- **Permission safety of the assembled script.** Every resource in the dependency list of the
    injected script is injectable under the permission mask of one of the requested injections: a
    resource that requires permission bits is there only if a list that was granted all of them
    asked for something that depends on it. -/
theorem deps_permissioned (st : Store) (inj : List (Str × Nat)) :
    ∀ r ∈ (scriptletResources st inj).1, ∃ p ∈ inj, injectable r.permission p.2 = true := by
  unfold scriptletResources
  simp only
  have := foldl_permissioned st [] inj ([], [], []) (by intro r hr; cases hr)
  simpa using this

/-! ### termination of the dependency walk -/

def names (st : Store) : List Str := st.map (·.name)

def remL (ns : List Str) (visited : List Str) : Nat := (ns.filter (fun n => !visited.contains n)).length

/-- canonical names not yet visited -/
def remaining (st : Store) (visited : List Str) : Nat := remL (names st) visited

theorem remL_cons (n : Str) (ns v : List Str) :
    remL (n :: ns) v = (if n ∈ v then 0 else 1) + remL ns v := by
  unfold remL
  rw [List.filter_cons]
  by_cases hn : n ∈ v
  · simp [hn]
  · simp [hn]; omega

theorem remL_mono (ns v v' : List Str) (h : ∀ x ∈ v, x ∈ v') : remL ns v' ≤ remL ns v := by
  induction ns with
  | nil => simp [remL]
  | cons n ns ih =>
    rw [remL_cons, remL_cons]
    by_cases hn : n ∈ v
    · have hn' : n ∈ v' := h n hn
      simp only [hn, hn', if_true]; omega
    · by_cases hn' : n ∈ v'
      · simp only [hn, hn', if_true, if_false]; omega
      · simp only [hn, hn', if_false]; omega

theorem remL_lt (ns v : List Str) (n : Str) (hmem : n ∈ ns) (hn : n ∉ v) : remL ns (v ++ [n]) < remL ns v := by
  induction ns with
  | nil => cases hmem
  | cons m ms ih =>
    rw [remL_cons, remL_cons]
    have hmono := remL_mono ms v (v ++ [n]) (fun x hx => by simp [hx])
    by_cases hm : m = n
    · subst hm
      have h1 : m ∈ v ++ [m] := by simp
      simp only [h1, hn, if_true, if_false]; omega
    · have hmem' : n ∈ ms := by
        rcases List.mem_cons.1 hmem with h | h
        · exact absurd h.symm hm
        · exact h
      have := ih hmem'
      by_cases hv : m ∈ v
      · have h2 : m ∈ v ++ [n] := by simp [hv]
        simp only [hv, h2, if_true]; omega
      · have h2 : m ∉ v ++ [n] := by simp [hv, hm]
        simp only [hv, h2, if_false]; omega

theorem remaining_mono (st : Store) (v v' : List Str) (h : ∀ x ∈ v, x ∈ v') : remaining st v' ≤ remaining st v :=
  remL_mono _ _ _ h

theorem remaining_lt (st : Store) (v : List Str) (n : Str) (hmem : n ∈ names st) (hn : v.contains n = false) :
    remaining st (v ++ [n]) < remaining st v :=
  remL_lt _ _ _ hmem (by simpa using hn)

theorem find_mem (st : Store) (ident : Str) (r : Res) (h : st.find ident = some r) : r.name ∈ names st := by
  unfold Store.find at h
  have key : ∀ (p : Res → Bool) (x : Res), st.find? p = some x → x.name ∈ names st := by
    intro p x hx
    exact List.mem_map.2 ⟨x, List.mem_of_find?_eq_some hx, rfl⟩
  split at h
  · rename_i r' hf; injection h with h; subst h; exact key _ _ hf
  · split at h
    · exact key _ _ h
    · cases h

/-- the walk only ever adds to the visited set, and never runs out of fuel while the fuel exceeds the
    number of canonical names still unvisited -/
def WalkOK (st : Store) (w : Walk) (out : Walk × Option String) : Prop :=
  (∀ x ∈ w.visited, x ∈ out.1.visited) ∧ out.2 ≠ some "out-of-fuel"

theorem visitAll_ok (st : Store) (mask fuel : Nat)
    (hv : ∀ d w, remaining st w.visited < fuel → WalkOK st w (visit st mask fuel d w)) :
    ∀ ds w, remaining st w.visited < fuel → WalkOK st w (visitAll st mask fuel ds w) := by
  intro ds
  induction ds with
  | nil => intro w _; unfold visitAll; exact ⟨fun _ h => h, by simp⟩
  | cons d ds ih =>
    intro w hw
    unfold visitAll
    have h1 := hv d w hw
    split
    · rename_i w' e he
      rw [he] at h1; exact h1
    · rename_i w' he
      rw [he] at h1
      have hrem : remaining st w'.visited < fuel :=
        Nat.lt_of_le_of_lt (remaining_mono st _ _ h1.1) hw
      have h2 := ih w' hrem
      exact ⟨fun x hx => h2.1 x (h1.1 x hx), h2.2⟩

theorem visit_ok (st : Store) (mask fuel : Nat) :
    ∀ d w, remaining st w.visited < fuel → WalkOK st w (visit st mask fuel d w) := by
  induction fuel with
  | zero => intro d w h; omega
  | succ fuel ih =>
    intro d w hw
    unfold visit
    split
    · rename_i e hp
      refine ⟨fun _ h => h, ?_⟩
      unfold permissioned at hp
      split at hp
      · injection hp with hp; subst hp; simp
      · split at hp
        · cases hp
        · injection hp with hp; subst hp; simp
    · rename_i r hp
      obtain ⟨_, hfind⟩ := permissioned_ok st d mask r hp
      split
      · exact ⟨fun _ h => h, by simp⟩
      · rename_i hnv
        have hnv' : w.visited.contains r.name = false := by simpa using hnv
        have hlt := remaining_lt st w.visited r.name (find_mem st d r hfind) hnv'
        have h2 := visitAll_ok st mask fuel ih r.deps
          { deps := if w.deps.any (·.name == r.name) then w.deps else w.deps ++ [r], visited := w.visited ++ [r.name] }
          (by simp only; omega)
        exact ⟨fun x hx => h2.1 x (by simp [hx]), h2.2⟩

/-- **The dependency walk terminates for every store and every dependency graph**: with the fuel
    `|store| + 1` the model uses, no injection ever fails for lack of fuel — cycles, self loops and
    cycles through aliases included. -/
theorem assembly_terminates (st : Store) (raw : Str) (mask : Nat) (deps : List Res) :
    (scriptletResource st raw mask deps).1 ≠ .error "out-of-fuel" := by
  unfold scriptletResource
  split
  · simp
  · simp
  · split
    · simp
    · split
      · rename_i e hp
        unfold permissioned at hp
        split at hp
        · injection hp with hp; subst hp; simp
        · split at hp
          · cases hp
          · injection hp with hp; subst hp; simp
      · split
        · simp
        · rename_i r _ _
          have hrem : remaining st ([] : List Str) < st.length + 1 := by
            unfold remaining remL names
            have := List.length_filter_le (fun n => !([] : List Str).contains n) (st.map (·.name))
            simp only [List.length_map] at this
            omega
          have hok := visitAll_ok st mask (st.length + 1) (visit_ok st mask (st.length + 1)) r.deps
            { deps := deps, visited := [] } hrem
          split
          · rename_i w e he
            rw [he] at hok
            intro hc
            injection hc with hc
            exact hok.2 (by rw [hc])
          · split
            · simp
            · split <;> simp

end Adb.Props.C18Assembly
