/-
  `check_options ∘ parse = refOptions`, component by component (C03).

  For every rule line the parser accepts and every request: the badfilter / party gate, the
  request-type gate and the scheme gate of `check_options` on the parsed rule equal the reference's,
  so `check_options` equals `refOptions` whenever the `domain=` gate does — in particular for every
  rule without a `domain=` option. (The `domain=` gate compares hashes; its agreement with the
  string reference is proved structurally in `C03` and needs collision-freedom of the hash.)
  Hypotheses: the request type is one of the twelve request types, the request is not both http and
  https, and the pattern does not end in `*` (the property's domain excludes that spelling; `|ws://*`
  and `|http://*` are treated like `|ws://`, `|http://` by the code).
-/
import Adb.Props.ParseScheme
namespace Adb.Props.ParseCompose
open Adb Adb.Net Adb.Parse Adb.Gen Adb.Spec Adb.Props.ParseInv Adb.Props.ParseMod Adb.Props.ParseFlags
open Adb.Props.ParseTypes Adb.Props.ParseScheme

/-- the scheme part of `check_options` -/
def schemeGate (r : Rule) (q : Request) : Bool :=
  !((q.isHttps && !r.forHttps) || (q.isHttp && !r.forHttp) || (!q.isHttp && !q.isHttps && (r.forHttp != r.forHttps)))

/-- `check_options` is the conjunction of its four gates -/
theorem checkOptions_gates (r : Rule) (q : Request) :
    checkOptions r q = (flagsGate r q && checkCptAllowed r q && schemeGate r q && domainGate r q) := by
  unfold checkOptions flagsGate schemeGate
  generalize domainGate r q = d
  cases r.isBadfilter
  · simp only [Bool.false_eq_true, if_false, Bool.not_false, Bool.true_and]
    cases checkCptAllowed r q <;> cases q.isHttps <;> cases q.isHttp <;> cases r.forHttps <;> cases r.forHttp <;>
      cases r.firstParty <;> cases r.thirdParty <;> cases q.thirdParty <;> simp
  · simp

theorem refOptions_gates (a : Abstract) (oq : OReq) :
    refOptions a oq = (refGate (a.options.getD []) oq.thirdParty && refTypeOk a (a.options.getD []) oq.tyBit
      && schemeOk a oq && (refIncOk (a.options.getD []) oq.srcHost && refExcOk (a.options.getD []) oq.srcHost)) := by
  unfold refOptions refGate
  simp only []
  generalize (a.options.getD []).any (· == .badfilter) = b
  generalize refTypeOk a (a.options.getD []) oq.tyBit = t
  generalize refPartyOk (a.options.getD []) oq.thirdParty = pty
  generalize schemeOk a oq = sch
  generalize refIncOk (a.options.getD []) oq.srcHost = i
  generalize refExcOk (a.options.getD []) oq.srcHost = e
  cases b <;> cases t <;> cases pty <;> cases sch <;> cases i <;> cases e <;> rfl

/-! ### the request-type gate -/

theorem parsed_type_gate (line : Str) (r : Rule) (h : parseNetwork line = .ok r) :
    ∃ parsed, parseAbstract line = .ok parsed ∧
      ∀ q : Request, q.tyBit ∈ FROM_ALL_TYPES →
        ¬(parsed.la = some .single ∧ parsed.pattern = ['w', 's', ':', '/', '/', '*']) →
        checkCptAllowed r q = refTypeOk parsed (parsed.options.getD []) q.tyBit := by
  obtain ⟨parsed, hpa, hty⟩ := parse_type_bits line r h
  obtain ⟨parsed', hpa', hfl⟩ := parse_flags line r h
  have : parsed' = parsed := by rw [hpa] at hpa'; injection hpa' with e; exact e.symm
  subst this
  refine ⟨parsed', hpa, ?_⟩
  intro q hq hdeg
  unfold checkCptAllowed refTypeOk
  have hdoc : FROM_DOCUMENT ∈ FROM_ALL_TYPES := by decide
  split
  · rw [hty _ hdoc, typeBits_eq_ref _ _ _ hdoc hdeg, hfl.1]
  · rw [hty _ hq, typeBits_eq_ref _ _ _ hq hdeg]

/-! ### the scheme gate -/

theorem parsed_scheme_gate (line : Str) (r : Rule) (h : parseNetwork line = .ok r) :
    ∃ parsed, parseAbstract line = .ok parsed ∧
      ∀ (q : Request) (oq : OReq), oq.isHttp = q.isHttp → oq.isHttps = q.isHttps → ¬(q.isHttp = true ∧ q.isHttps = true) →
        parsed.pattern.getLast? ≠ some '*' →
        schemeGate r q = schemeOk parsed oq := by
  obtain ⟨parsed, hpa, hh, hs⟩ := parse_scheme_bits line r h
  refine ⟨parsed, hpa, ?_⟩
  intro q oq e1 e2 hboth hdeg
  have nostar : ∀ S : Str, isLitText S parsed.pattern = (parsed.pattern == S) := by
    intro S
    unfold isLitText
    have : (parsed.pattern == S ++ ['*']) = false := by
      apply Bool.eq_false_iff.2; intro hx
      have := beq_iff_eq.1 hx
      rw [this] at hdeg; simp at hdeg
    rw [this, Bool.or_false]
  unfold schemeGate schemeOk
  rw [hh, hs, http_lit, https_lit, ws_lit', e1, e2]
  unfold schemeHttp schemeHttps bare
  simp only [nostar]
  by_cases hla : parsed.la = some .single
  · have hla' : (parsed.la == some LAnchor.single) = true := by simpa using hla
    simp only [hla', Bool.true_and, if_true]
    by_cases hw : parsed.pattern = wsL
    · have e : (parsed.pattern == wsL) = true := by simpa using hw
      have eh : (parsed.pattern == httpL) = false := by rw [hw]; decide
      have es : (parsed.pattern == httpsL) = false := by rw [hw]; decide
      simp only [e, eh, es, if_true, Bool.false_eq_true, if_false]
      cases q.isHttp <;> cases q.isHttps <;> simp
    · have e : (parsed.pattern == wsL) = false := by simpa using hw
      by_cases hh' : parsed.pattern = httpL
      · have eh : (parsed.pattern == httpL) = true := by simpa using hh'
        simp only [e, eh, if_true, Bool.false_eq_true, if_false]
        cases hq1 : q.isHttp <;> cases hq2 : q.isHttps <;> simp
        exact hboth ⟨hq1, hq2⟩
      · have eh : (parsed.pattern == httpL) = false := by simpa using hh'
        by_cases hs' : parsed.pattern = httpsL
        · have es : (parsed.pattern == httpsL) = true := by simpa using hs'
          simp only [e, eh, es, if_true, Bool.false_eq_true, if_false]
          cases hq1 : q.isHttp <;> cases hq2 : q.isHttps <;> simp
          exact hboth ⟨hq1, hq2⟩
        · have es : (parsed.pattern == httpsL) = false := by simpa using hs'
          simp only [e, eh, es, Bool.false_eq_true, if_false]
          cases q.isHttp <;> cases q.isHttps <;> simp
  · have hla' : (parsed.la == some LAnchor.single) = false := by simpa using hla
    simp only [hla', Bool.false_and, Bool.false_eq_true, if_false]
    cases q.isHttp <;> cases q.isHttps <;> simp


/-! ### the composition -/

/-- **`check_options ∘ parse` against the reference, gate by gate**: for every rule line the parser
    accepts and every request inside the stated domain, `check_options` on the parsed rule equals the
    reference's badfilter / party / request-type / scheme verdict conjoined with the code's own
    `domain=` gate. -/
theorem parsed_checkOptions_gates (line : Str) (r : Rule) (h : parseNetwork line = .ok r) :
    ∃ parsed, parseAbstract line = .ok parsed ∧
      ∀ (q : Request) (src : Str), q.tyBit ∈ FROM_ALL_TYPES → ¬(q.isHttp = true ∧ q.isHttps = true) →
        parsed.pattern.getLast? ≠ some '*' →
        let oq : OReq := ⟨q.tyBit, q.isHttp, q.isHttps, q.thirdParty, src⟩
        let opts := parsed.options.getD []
        checkOptions r q = (refGate opts q.thirdParty && refTypeOk parsed opts q.tyBit && schemeOk parsed oq
          && domainGate r q) := by
  obtain ⟨p1, hp1, hg⟩ := parsed_gate_eq_ref line r h
  obtain ⟨p2, hp2, ht⟩ := parsed_type_gate line r h
  obtain ⟨p3, hp3, hs⟩ := parsed_scheme_gate line r h
  have e2 : p2 = p1 := by rw [hp1] at hp2; injection hp2 with e; exact e.symm
  have e3 : p3 = p1 := by rw [hp1] at hp3; injection hp3 with e; exact e.symm
  subst e2; subst e3
  refine ⟨p3, hp1, ?_⟩
  intro q src hty hboth hdeg oq opts
  have hdeg' : ¬(p3.la = some .single ∧ p3.pattern = ['w', 's', ':', '/', '/', '*']) := by
    rintro ⟨_, hp⟩; rw [hp] at hdeg; exact hdeg rfl
  rw [checkOptions_gates, hg q, ht q hty hdeg', hs q oq rfl rfl hboth hdeg]

/-- … hence `check_options ∘ parse = refOptions` whenever the `domain=` gates agree -/
theorem parsed_checkOptions_eq_ref (line : Str) (r : Rule) (h : parseNetwork line = .ok r) :
    ∃ parsed, parseAbstract line = .ok parsed ∧
      ∀ (q : Request) (src : Str), q.tyBit ∈ FROM_ALL_TYPES → ¬(q.isHttp = true ∧ q.isHttps = true) →
        parsed.pattern.getLast? ≠ some '*' →
        domainGate r q = (refIncOk (parsed.options.getD []) src && refExcOk (parsed.options.getD []) src) →
        checkOptions r q = refOptions parsed ⟨q.tyBit, q.isHttp, q.isHttps, q.thirdParty, src⟩ := by
  obtain ⟨parsed, hpa, hc⟩ := parsed_checkOptions_gates line r h
  refine ⟨parsed, hpa, ?_⟩
  intro q src hty hboth hdeg hdom
  rw [hc q src hty hboth hdeg, refOptions_gates, hdom]

/-! ### rules without a `domain=` option: no hypothesis about hashes is left -/

def noDomainOpt : NOpt → Bool
  | .domain _ => false
  | _ => true

theorem applyOption_domains (s : OptState) (o : NOpt) (h : noDomainOpt o = true) :
    (applyOption s o).domains = s.domains ∧ (applyOption s o).notDomains = s.notDomains := by
  cases o with
  | domain ds => simp [noDomainOpt] at h
  | thirdParty b => cases b <;> exact ⟨rfl, rfl⟩
  | firstParty b => cases b <;> exact ⟨rfl, rfl⟩
  | ctype bit e => cases e <;> exact ⟨rfl, rfl⟩
  | _ => exact ⟨rfl, rfl⟩

theorem fold_no_domains (opts : List NOpt) (hnd : opts.all noDomainOpt = true) (s : OptState) :
    (opts.foldl applyOption s).domains = s.domains ∧ (opts.foldl applyOption s).notDomains = s.notDomains := by
  induction opts generalizing s with
  | nil => exact ⟨rfl, rfl⟩
  | cons o os ih =>
    simp only [List.all_cons, Bool.and_eq_true] at hnd
    obtain ⟨h1, h2⟩ := ih hnd.2 (applyOption s o)
    simp only [List.foldl_cons]
    rw [h1, h2]
    exact applyOption_domains s o hnd.1

theorem ref_no_domains (opts : List NOpt) (hnd : opts.all noDomainOpt = true) :
    includedDomains opts = none ∧ excludedDomains opts = none := by
  unfold includedDomains excludedDomains
  have gen : ∀ (acc1 acc2 : Option (List Str)),
      opts.foldl (fun acc o => match o with
        | .domain ds => let inc := (ds.filter (·.1)).map (·.2); if inc.isEmpty then acc else some inc
        | _ => acc) acc1 = acc1 ∧
      opts.foldl (fun acc o => match o with
        | .domain ds => let exc := (ds.filter (fun p => !p.1)).map (·.2); if exc.isEmpty then acc else some exc
        | _ => acc) acc2 = acc2 := by
    induction opts with
    | nil => intro _ _; exact ⟨rfl, rfl⟩
    | cons o os ih =>
      intro acc1 acc2
      simp only [List.all_cons, Bool.and_eq_true] at hnd
      simp only [List.foldl_cons]
      cases o <;> first | (simp [noDomainOpt] at hnd; done) | exact ih hnd.2 _ _
  exact gen none none

theorem parsed_checkOptions_eq_ref_nodomain (line : Str) (r : Rule) (h : parseNetwork line = .ok r) :
    ∃ parsed, parseAbstract line = .ok parsed ∧
      ((parsed.options.getD []).all noDomainOpt = true →
      ∀ (q : Request) (src : Str), q.tyBit ∈ FROM_ALL_TYPES → ¬(q.isHttp = true ∧ q.isHttps = true) →
        parsed.pattern.getLast? ≠ some '*' →
        checkOptions r q = refOptions parsed ⟨q.tyBit, q.isHttp, q.isHttps, q.thirdParty, src⟩) := by
  obtain ⟨parsed, hpa, hc⟩ := parsed_checkOptions_eq_ref line r h
  refine ⟨parsed, hpa, ?_⟩
  intro hnd q src hty hboth hdeg
  apply hc q src hty hboth hdeg
  -- both `domain=` gates are vacuous
  obtain ⟨pp, opts, st, m0, m1, fStart, m2, filter, host, hpa', hopts, hok, hstEq, _, _, _, _, _, _, _, _, hfin⟩ :=
    parse_pipeline line r h
  have : pp = parsed := by rw [hpa] at hpa'; injection hpa' with e; exact e.symm
  subst this
  rw [hopts] at hnd ⊢
  have hd := fold_no_domains opts hnd (st0 pp.exception)
  have hr : r.domains = none ∧ r.notDomains = none := by
    unfold finishNetwork at hfin
    split at hfin
    · cases hfin
    · split at hfin
      · cases hfin
      · injection hfin with hfin; subst hfin
        simp only
        rw [hstEq, hd.1, hd.2]; exact ⟨rfl, rfl⟩
  obtain ⟨hi, he⟩ := ref_no_domains opts hnd
  unfold domainGate refIncOk refExcOk
  rw [hr.1, hr.2, hi, he]

example : (match parseNetwork "|https://$script,~third-party".toList with
    | .ok r => r.forHttps && !r.forHttp && has r.mask FROM_SCRIPT && !has r.mask FROM_IMAGE && !r.thirdParty
    | .error _ => false) = true := by decide +kernel

end Adb.Props.ParseCompose
