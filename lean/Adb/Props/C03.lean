import Adb.Spec.Options
import Adb.Lemmas.Bits
/-
  C03 — Rule options restrict matching exactly as the option semantics specify.

  The mask construction of `NetworkFilter::parse` is a fold over the option list; the theorems below
  characterise, for *every* option list (any length, any order, duplicates, conflicting options), each
  bit the fold produces as a statement about which options occur — which makes the result independent
  of option order and idempotent, and is the bridge between the bit-level `check_options` and the
  declarative `Spec.refOptions`.
-/
namespace Adb.Parse
open Adb Adb.Net Adb.Gen Adb.Spec

/-- the options that only set or clear single flags of the mask -/
def setsBit : NOpt → Option Nat
  | .badfilter => some BAD_FILTER | .important => some IS_IMPORTANT | .matchCase => some MATCH_CASE
  | .generichide => some GENERIC_HIDE | _ => none

def clearsBit : NOpt → Option Nat
  | .thirdParty true => some FIRST_PARTY | .thirdParty false => some THIRD_PARTY
  | .firstParty true => some THIRD_PARTY | .firstParty false => some FIRST_PARTY
  | _ => none

/-- options that carry a value (they also set flag bits, listed in `modifierBits`) -/
def modifierBits : NOpt → List Nat
  | .redirect _ => [IS_REDIRECT, ALSO_BLOCK_REDIRECT] | .redirectRule _ => [IS_REDIRECT]
  | .removeparam _ => [IS_REMOVEPARAM] | .csp _ => [IS_CSP, FROM_DOCUMENT] | _ => []

def setsB (b : Nat) (o : NOpt) : Bool := setsBit o == some b || (modifierBits o).contains b
def clearsB (b : Nat) (o : NOpt) : Bool := clearsBit o == some b

private theorem domain_mask (s : OptState) (ds : List (Bool × Str)) : (applyOption s (.domain ds)).mask = s.mask := by
  simp only [applyOption]; split <;> split <;> rfl

private theorem set_case (m : Mask) (b c : Nat) :
    (if b = c then true else has m b) = (has m b || (some c == some b)) := by
  by_cases h : b = c
  · subst h; simp
  · have h' : ¬ c = b := fun e => h e.symm
    simp [h, h']

/-- one option, a bit other than the two party bits: it is set iff it was set or the option sets it -/
private theorem head_set (s : OptState) (o : NOpt) (b : Nat) (h3 : b ≠ THIRD_PARTY) (h1 : b ≠ FIRST_PARTY) :
    has (applyOption s o).mask b = (has s.mask b || setsB b o) := by
  unfold setsB
  cases o with
  | domain ds => rw [domain_mask]; simp [setsBit, modifierBits]
  | badfilter => simp only [applyOption, has_setBit, setsBit, modifierBits, List.contains_nil, Bool.or_false]; exact set_case ..
  | important => simp only [applyOption, has_setBit, setsBit, modifierBits, List.contains_nil, Bool.or_false]; exact set_case ..
  | matchCase => simp only [applyOption, has_setBit, setsBit, modifierBits, List.contains_nil, Bool.or_false]; exact set_case ..
  | generichide => simp only [applyOption, has_setBit, setsBit, modifierBits, List.contains_nil, Bool.or_false]; exact set_case ..
  | thirdParty v => cases v <;> simp [applyOption, has_setBit, setsBit, modifierBits, h3, h1]
  | firstParty v => cases v <;> simp [applyOption, has_setBit, setsBit, modifierBits, h3, h1]
  | tag v => simp [applyOption, setsBit, modifierBits]
  | redirect v =>
    simp only [applyOption, has_setBit, setsBit, modifierBits]
    by_cases h1 : b = ALSO_BLOCK_REDIRECT <;> by_cases h2 : b = IS_REDIRECT <;> simp [h1, h2]
  | redirectRule v =>
    simp only [applyOption, has_setBit, setsBit, modifierBits]
    by_cases h2 : b = IS_REDIRECT <;> simp [h2]
  | removeparam v =>
    simp only [applyOption, has_setBit, setsBit, modifierBits]
    by_cases h2 : b = IS_REMOVEPARAM <;> simp [h2]
  | csp v =>
    simp only [applyOption, has_setBit, setsBit, modifierBits]
    by_cases h1 : b = FROM_DOCUMENT <;> by_cases h2 : b = IS_CSP <;> simp [h1, h2]
  | document => simp [applyOption, setsBit, modifierBits]
  | ctype bit en => cases en <;> simp [applyOption, setsBit, modifierBits]

/-- one option, a party bit: it stays set iff it was set and the option does not clear it -/
private theorem head_clear (s : OptState) (o : NOpt) (b : Nat) (hb : b = THIRD_PARTY ∨ b = FIRST_PARTY) :
    has (applyOption s o).mask b = (has s.mask b && !clearsB b o) := by
  unfold clearsB
  have e3 : THIRD_PARTY = 16 := rfl
  have e1 : FIRST_PARTY = 17 := rfl
  cases o with
  | domain ds => rw [domain_mask]; simp [clearsBit]
  | thirdParty v =>
    rcases hb with rfl | rfl <;> cases v <;> simp [applyOption, has_setBit, clearsBit, e3, e1]
  | firstParty v =>
    rcases hb with rfl | rfl <;> cases v <;> simp [applyOption, has_setBit, clearsBit, e3, e1]
  | ctype bit en => cases en <;> simp [applyOption, clearsBit]
  | badfilter => rcases hb with rfl | rfl <;> simp [applyOption, has_setBit, clearsBit, e3, e1, BAD_FILTER]
  | important => rcases hb with rfl | rfl <;> simp [applyOption, has_setBit, clearsBit, e3, e1, IS_IMPORTANT]
  | matchCase => rcases hb with rfl | rfl <;> simp [applyOption, has_setBit, clearsBit, e3, e1, MATCH_CASE]
  | generichide => rcases hb with rfl | rfl <;> simp [applyOption, has_setBit, clearsBit, e3, e1, GENERIC_HIDE]
  | tag v => simp [applyOption, clearsBit]
  | redirect v => rcases hb with rfl | rfl <;> simp [applyOption, has_setBit, clearsBit, e3, e1, IS_REDIRECT, ALSO_BLOCK_REDIRECT]
  | redirectRule v => rcases hb with rfl | rfl <;> simp [applyOption, has_setBit, clearsBit, e3, e1, IS_REDIRECT]
  | removeparam v => rcases hb with rfl | rfl <;> simp [applyOption, has_setBit, clearsBit, e3, e1, IS_REMOVEPARAM]
  | csp v => rcases hb with rfl | rfl <;> simp [applyOption, has_setBit, clearsBit, e3, e1, IS_CSP, FROM_DOCUMENT]
  | document => simp [applyOption, clearsBit]

/-- **every flag bit of the option mask, for every option list**: a bit other than the party bits
    is set iff it was set initially or some option sets it … -/
theorem option_mask_set_bits (opts : List NOpt) (s : OptState) (b : Nat)
    (h3 : b ≠ THIRD_PARTY) (h1 : b ≠ FIRST_PARTY) :
    has (opts.foldl applyOption s).mask b = (has s.mask b || opts.any (setsB b)) := by
  induction opts generalizing s with
  | nil => simp
  | cons o os ih =>
    simp only [List.foldl_cons, List.any_cons]
    rw [ih, head_set s o b h3 h1, Bool.or_assoc]

/-- … and a party bit stays set iff it was set initially and no option clears it. -/
theorem option_mask_party_bits (opts : List NOpt) (s : OptState) (b : Nat)
    (hb : b = THIRD_PARTY ∨ b = FIRST_PARTY) :
    has (opts.foldl applyOption s).mask b = (has s.mask b && !opts.any (clearsB b)) := by
  induction opts generalizing s with
  | nil => simp
  | cons o os ih =>
    simp only [List.foldl_cons, List.any_cons]
    rw [ih, head_clear s o b hb, Bool.not_or, Bool.and_assoc]

/-- does the option add type bit `b` to the positive / negated content-type set? -/
def posB (b : Nat) : NOpt → Bool
  | .document => b == FROM_DOCUMENT
  | .ctype bit true => b == bit
  | _ => false
def negB (b : Nat) : NOpt → Bool
  | .ctype bit false => b == bit
  | _ => false

private theorem domain_pos (s : OptState) (ds : List (Bool × Str)) : (applyOption s (.domain ds)).pos = s.pos := by
  simp only [applyOption]; split <;> split <;> rfl
private theorem domain_neg (s : OptState) (ds : List (Bool × Str)) : (applyOption s (.domain ds)).neg = s.neg := by
  simp only [applyOption]; split <;> split <;> rfl

private theorem set_case' (m : Mask) (b c : Nat) :
    (if b = c then true else has m b) = (has m b || (b == c)) := by
  by_cases h : b = c
  · subst h; simp
  · simp [h]

private theorem head_pos (s : OptState) (o : NOpt) (b : Nat) :
    has (applyOption s o).pos b = (has s.pos b || posB b o) := by
  cases o with
  | domain ds => rw [domain_pos]; simp [posB]
  | document => simp only [applyOption, has_setBit, posB]; exact set_case' ..
  | ctype bit en =>
    cases en
    · simp [applyOption, posB]
    · simp only [applyOption, if_true, has_setBit, posB]; exact set_case' ..
  | thirdParty v => cases v <;> simp [applyOption, posB]
  | firstParty v => cases v <;> simp [applyOption, posB]
  | _ => simp [applyOption, posB]

private theorem head_neg (s : OptState) (o : NOpt) (b : Nat) :
    has (applyOption s o).neg b = (has s.neg b || negB b o) := by
  cases o with
  | domain ds => rw [domain_neg]; simp [negB]
  | ctype bit en =>
    cases en
    · simp only [applyOption, Bool.false_eq_true, if_false, has_setBit, negB]; exact set_case' ..
    · simp [applyOption, negB]
  | thirdParty v => cases v <;> simp [applyOption, negB]
  | firstParty v => cases v <;> simp [applyOption, negB]
  | _ => simp [applyOption, negB]

/-- the positive / negated content-type masks are exactly the sets of positive / negated type options -/
theorem option_pos_bits (opts : List NOpt) (s : OptState) (b : Nat) :
    has (opts.foldl applyOption s).pos b = (has s.pos b || opts.any (posB b)) := by
  induction opts generalizing s with
  | nil => simp
  | cons o os ih => simp only [List.foldl_cons, List.any_cons]; rw [ih, head_pos, Bool.or_assoc]

theorem option_neg_bits (opts : List NOpt) (s : OptState) (b : Nat) :
    has (opts.foldl applyOption s).neg b = (has s.neg b || opts.any (negB b)) := by
  induction opts generalizing s with
  | nil => simp
  | cons o os ih => simp only [List.foldl_cons, List.any_cons]; rw [ih, head_neg, Bool.or_assoc]

/-- … which are the reference's `positives` / `negatives` -/
theorem positives_contains (opts : List NOpt) (b : Nat) : (positives opts).contains b = opts.any (posB b) := by
  induction opts with
  | nil => rfl
  | cons o os ih =>
    have hstep : ∀ (x : Option Nat) (v : Bool), (match x with | some c => b == c | none => false) = v →
        ((match x with | some c => c :: positives os | none => positives os).contains b) = (v || os.any (posB b)) := by
      intro x v hv
      cases x with
      | none => simp only at hv ⊢; rw [← hv, ih]; simp
      | some c => simp only at hv ⊢; rw [← hv, List.contains_cons, ih]
    cases o with
    | document => exact hstep (some FROM_DOCUMENT) _ rfl
    | ctype bit en => cases en; exact hstep none _ rfl; exact hstep (some bit) _ rfl
    | _ => exact hstep none _ rfl

theorem negatives_contains (opts : List NOpt) (b : Nat) : (negatives opts).contains b = opts.any (negB b) := by
  induction opts with
  | nil => rfl
  | cons o os ih =>
    have hstep : ∀ (x : Option Nat) (v : Bool), (match x with | some c => b == c | none => false) = v →
        ((match x with | some c => c :: negatives os | none => negatives os).contains b) = (v || os.any (negB b)) := by
      intro x v hv
      cases x with
      | none => simp only at hv ⊢; rw [← hv, ih]; simp
      | some c => simp only at hv ⊢; rw [← hv, List.contains_cons, ih]
    cases o with
    | ctype bit en => cases en; exact hstep (some bit) _ rfl; exact hstep none _ rfl
    | _ => exact hstep none _ rfl

/-- **party**: the rule applies to third-party requests iff no option restricts it to first-party,
    and to first-party requests iff no option restricts it to third-party — for every option list. -/
theorem party_bits (opts : List NOpt) (m0 : Mask) (h3 : has m0 THIRD_PARTY = true) (h1 : has m0 FIRST_PARTY = true) :
    let m := (opts.foldl applyOption { mask := m0 }).mask
    has m THIRD_PARTY = !opts.any (fun o => o == .thirdParty false || o == .firstParty true) ∧
    has m FIRST_PARTY = !opts.any (fun o => o == .thirdParty true || o == .firstParty false) := by
  intro m
  constructor
  · show has (opts.foldl applyOption { mask := m0 }).mask THIRD_PARTY = _
    rw [option_mask_party_bits _ _ _ (Or.inl rfl)]
    simp only [h3, Bool.true_and]
    congr 1
    have hf : clearsB THIRD_PARTY = (fun o => o == NOpt.thirdParty false || o == NOpt.firstParty true) := by
      funext o
      cases o with
      | thirdParty v => cases v <;> simp [clearsB, clearsBit] <;> decide
      | firstParty v => cases v <;> simp [clearsB, clearsBit] <;> decide
      | _ => simp [clearsB, clearsBit]
    rw [hf]
  · show has (opts.foldl applyOption { mask := m0 }).mask FIRST_PARTY = _
    rw [option_mask_party_bits _ _ _ (Or.inr rfl)]
    simp only [h1, Bool.true_and]
    congr 1
    have hf : clearsB FIRST_PARTY = (fun o => o == NOpt.thirdParty true || o == NOpt.firstParty false) := by
      funext o
      cases o with
      | thirdParty v => cases v <;> simp [clearsB, clearsBit] <;> decide
      | firstParty v => cases v <;> simp [clearsB, clearsBit] <;> decide
      | _ => simp [clearsB, clearsBit]
    rw [hf]

/-- **order independence and idempotence**: two option lists with the same members produce the same
    mask bits, positive-type bits and negated-type bits. -/
theorem option_bits_perm (o1 o2 : List NOpt) (s : OptState) (h : ∀ o, o ∈ o1 ↔ o ∈ o2) (b : Nat) :
    has (o1.foldl applyOption s).mask b = has (o2.foldl applyOption s).mask b ∧
    has (o1.foldl applyOption s).pos b = has (o2.foldl applyOption s).pos b ∧
    has (o1.foldl applyOption s).neg b = has (o2.foldl applyOption s).neg b := by
  have hany : ∀ f : NOpt → Bool, o1.any f = o2.any f := by
    intro f; rw [Bool.eq_iff_iff]; simp only [List.any_eq_true]
    constructor
    · rintro ⟨x, hx, hf⟩; exact ⟨x, (h x).1 hx, hf⟩
    · rintro ⟨x, hx, hf⟩; exact ⟨x, (h x).2 hx, hf⟩
  refine ⟨?_, ?_, ?_⟩
  · by_cases hb : b = THIRD_PARTY ∨ b = FIRST_PARTY
    · rw [option_mask_party_bits _ _ _ hb, option_mask_party_bits _ _ _ hb, hany]
    · have h3 : b ≠ THIRD_PARTY := fun e => hb (Or.inl e)
      have h1 : b ≠ FIRST_PARTY := fun e => hb (Or.inr e)
      rw [option_mask_set_bits _ _ _ h3 h1, option_mask_set_bits _ _ _ h3 h1, hany]
  · rw [option_pos_bits, option_pos_bits, hany]
  · rw [option_neg_bits, option_neg_bits, hany]

/-- **a listed domain covers its subdomains at label boundaries only** -/
theorem covers_iff (d host : Str) : covers d host = true ↔ host = d ∨ ∃ pre, host = pre ++ '.' :: d := by
  unfold covers
  simp only [Bool.or_eq_true, beq_iff_eq, List.isSuffixOf_iff_suffix]
  constructor
  · rintro (h | ⟨pre, h⟩); exact Or.inl h; exact Or.inr ⟨pre, h.symm⟩
  · rintro (h | ⟨pre, h⟩); exact Or.inl h; exact Or.inr ⟨pre, h.symm⟩

/-- **badfilter never applies; exclusions win over inclusions** (reference level) -/
theorem ref_exclusion_wins (a : Abstract) (q : OReq) (ds : List Str) (d : Str)
    (he : excludedDomains (a.options.getD []) = some ds) (hd : d ∈ ds) (hc : covers d q.srcHost = true)
    (hs : q.srcHost ≠ []) : refOptions a q = false := by
  unfold refOptions refExcOk
  simp only [he]
  have : ds.any (fun d => covers d q.srcHost) = true := List.any_eq_true.2 ⟨d, hd, hc⟩
  have hne : q.srcHost.isEmpty = false := by cases h : q.srcHost <;> simp_all
  simp [this, hne]

/-! ### non-vacuity -/
example : (parseOptions "script,~third-party,domain=a.com|~b.a.com".toList).toOption.isSome = true := by decide
example : covers "a.com".toList "sub.a.com".toList = true ∧ covers "a.com".toList "nota.com".toList = false := by decide

end Adb.Parse
