/-
  The request-type table of the source (re-extracted on every run) against its independent statement.
  Registered under every property whose answers depend on the request type (C03, C12, C14, C15).
-/
import Adb.Generated.Tables
import Adb.Spec.Types
namespace Adb.Props.TypeTable
open Adb

/-- every arm of `cpt_match_type` maps its string to the type that string denotes -/
theorem cptMatch_as_specified : ∀ p ∈ Gen.cptMatch, Spec.typeOf p.1 = p.2 := by decide

/-- every string that denotes a type other than `Other` has an arm -/
theorem cptMatch_covers_named : ∀ s ∈ Spec.namedTypes, (Gen.cptMatch.lookup s) = some (Spec.typeOf s) := by decide

/-- anything else is `Other` -/
theorem cptDefault_other : Gen.cptDefault = "Other" := by decide

end Adb.Props.TypeTable
