/-
  C19 — concurrent queries equal sequential ones, for every schedule.

  The model (Adb.Model.Conc) lets an adversarial scheduler interleave the steps of any number of
  threads (lock, clock reading, each rule evaluation, unlock) and exclusive engine mutations.
  * `good_run`            : the invariant holds after every schedule;
  * `answers_sequential`  : every completed query of every thread got exactly the answers of a
                            cache-free single-threaded evaluation on the heap it saw;
  * `answers_sequential_static` : without mutations, a finished thread's answers are its program's
                            sequential answers;
  * `progress`, `step_le` : as long as work remains some step strictly decreases it, and no step
                            increases it: no deadlock, every fair schedule terminates.
  Lock poisoning (a panic while the guard is held) is runtime behaviour the model cannot exhibit.
-/
import Adb.Model.Conc
import Adb.Props.C06
import Adb.Generated.Tables
namespace Adb.Props.C19
open Adb Adb.Net Adb.Cache Adb.Conc

/-! ### facts about single steps of the cache state machine -/

theorem query_heap (st : St) (a : Addr) (text : Str) : (step true st (.query a text)).1.heap = st.heap := by
  simp only [step]
  cases st.heap.get a <;> rfl

theorem tick_heap (st : St) (t : Nat) : (step true st (.tick t)).1.heap = st.heap := rfl

theorem query_out (st : St) (a : Addr) (text : Str) (hinv : Inv st) :
    (step true st (.query a text)).2 = (st.heap.get a).map (fun r => fresh r text) := by
  cases hr : st.heap.get a with
  | some r => rw [(query_fresh st a text r hinv hr).1]; rfl
  | none => simp [step, hr]

/-! ### the invariant -/

def ThreadOk (heap : Heap) (t : Thread) : Prop :=
  t.heaps.length = t.done.length ∧
  t.answers = List.zipWith expected t.heaps t.done ∧
  (t.holding = true → t.curHeap = heap ∧ t.curAns = expected heap t.curDone)

def Good (s : Sys) : Prop :=
  Inv s.st ∧
  (∀ (i : Nat) (t : Thread), s.threads[i]? = some t → (t.holding = true ↔ s.lock = some i)) ∧
  (∀ (i : Nat), s.lock = some i → ∃ t : Thread, s.threads[i]? = some t) ∧
  (∀ (i : Nat) (t : Thread), s.threads[i]? = some t → ThreadOk s.st.heap t)

theorem get_set (l : List Thread) (i j : Nat) (t t' : Thread) (h : l[i]? = some t) :
    (l.set i t')[j]? = if j = i then some t' else l[j]? := by
  have hi : i < l.length := by
    rcases List.getElem?_eq_some_iff.mp h with ⟨hi, _⟩
    exact hi
  by_cases hji : j = i
  · subst hji; simp [hi]
  · have : i ≠ j := fun e => hji e.symm
    simp [List.getElem?_set_ne this, hji]

theorem get_set_self (l : List Thread) (i : Nat) (t t' : Thread) (h : l[i]? = some t) :
    (l.set i t')[i]? = some t' := by
  rw [get_set l i i t t' h, if_pos rfl]

theorem threadOk_not_holding (h h' : Heap) (t : Thread) (hn : t.holding = false) (ok : ThreadOk h t) :
    ThreadOk h' t := by
  refine ⟨ok.1, ok.2.1, ?_⟩
  intro hh; rw [hn] at hh; cases hh

theorem expected_append (h : Heap) (q : Query) (a : Addr) (text : Str) :
    expected h (q ++ [(a, text)]) = expected h q ++ [(h.get a).map (fun r => fresh r text)] := by
  simp [expected]

theorem zipWith_snoc (f : Heap → Query → List (Option Bool)) (hs : List Heap) (qs : List Query) (h : Heap) (q : Query)
    (hl : hs.length = qs.length) :
    List.zipWith f (hs ++ [h]) (qs ++ [q]) = List.zipWith f hs qs ++ [f h q] := by
  induction hs generalizing qs with
  | nil => cases qs with
    | nil => rfl
    | cons _ _ => simp at hl
  | cons x xs ih => cases qs with
    | nil => simp at hl
    | cons y ys =>
      simp only [List.cons_append, List.zipWith_cons_cons]
      rw [ih ys (by simpa using hl)]

theorem good_stepThread (s : Sys) (i now : Nat) (hg : Good s) : Good (stepThread s i now) := by
  obtain ⟨hinv, hlock, hex, hok⟩ := hg
  unfold stepThread
  cases hti : s.threads[i]? with
  | none => exact ⟨hinv, hlock, hex, hok⟩
  | some t =>
    simp only
    have hti_ok := hok i t hti
    by_cases hh : t.holding = true
    · simp only [hh, if_true]
      have hli : s.lock = some i := (hlock i t hti).mp hh
      cases hcur : t.cur with
      | cons p rest =>
        obtain ⟨a, text⟩ := p
        simp only
        refine ⟨inv_step s.st (.query a text) hinv, ?_, ?_, ?_⟩
        · intro j tj hj
          rw [get_set _ i j t _ hti] at hj
          by_cases hji : j = i
          · simp only [hji, if_true, Option.some.injEq] at hj
            subst hj; subst hji
            simp only [hh, true_iff]; exact hli
          · simp only [hji, if_false] at hj
            exact hlock j tj hj
        · intro j hj
          have := hex j hj
          obtain ⟨tj, htj⟩ := this
          by_cases hji : j = i
          · subst hji; exact ⟨_, get_set_self _ _ _ _ hti⟩
          · refine ⟨tj, ?_⟩; rw [get_set _ i j t _ hti, if_neg hji]; exact htj
        · intro j tj hj
          rw [get_set _ i j t _ hti] at hj
          rw [query_heap]
          by_cases hji : j = i
          · simp only [hji, if_true, Option.some.injEq] at hj
            subst hj
            refine ⟨hti_ok.1, hti_ok.2.1, ?_⟩
            intro _
            obtain ⟨hch, hca⟩ := hti_ok.2.2 hh
            refine ⟨hch, ?_⟩
            simp only
            rw [expected_append, hca, query_out s.st a text hinv]
          · simp only [hji, if_false] at hj
            exact hok j tj hj
      | nil =>
        simp only
        refine ⟨hinv, ?_, ?_, ?_⟩
        · intro j tj hj
          rw [get_set _ i j t _ hti] at hj
          by_cases hji : j = i
          · simp only [hji, if_true, Option.some.injEq] at hj
            subst hj
            simp
          · simp only [hji, if_false] at hj
            have := hlock j tj hj
            constructor
            · intro hjh
              have := this.mp hjh
              rw [hli] at this
              injection this with this
              exact absurd this.symm hji
            · intro hc; cases hc
        · intro j hj; cases hj
        · intro j tj hj
          rw [get_set _ i j t _ hti] at hj
          by_cases hji : j = i
          · simp only [hji, if_true, Option.some.injEq] at hj
            subst hj
            obtain ⟨hch, hca⟩ := hti_ok.2.2 hh
            refine ⟨?_, ?_, ?_⟩
            · simp [hti_ok.1]
            · simp only
              rw [zipWith_snoc expected _ _ _ _ hti_ok.1, ← hti_ok.2.1, hca, hch]
            · intro hc; cases hc
          · simp only [hji, if_false] at hj
            exact hok j tj hj
    · have hh' : t.holding = false := by cases h : t.holding <;> simp_all
      simp only [hh', Bool.false_eq_true, if_false]
      cases hl : s.lock with
      | some k => exact ⟨hinv, hlock, hex, hok⟩
      | none =>
        cases htodo : t.todo with
        | nil => exact ⟨hinv, hlock, hex, hok⟩
        | cons q rest =>
          simp only
          -- nobody holds the lock
          have nohold : ∀ (j : Nat) (tj : Thread), s.threads[j]? = some tj → tj.holding = false := by
            intro j tj hj
            cases hjh : tj.holding with
            | false => rfl
            | true =>
              have := (hlock j tj hj).mp hjh
              rw [hl] at this; cases this
          refine ⟨inv_step s.st (.tick now) hinv, ?_, ?_, ?_⟩
          · intro j tj hj
            rw [get_set _ i j t _ hti] at hj
            by_cases hji : j = i
            · simp only [hji, if_true, Option.some.injEq] at hj
              subst hj; subst hji
              simp
            · simp only [hji, if_false] at hj
              have := nohold j tj hj
              simp only [this, Bool.false_eq_true, false_iff]
              intro hc; injection hc with hc; exact hji hc.symm
          · intro j hj
            injection hj with hj
            subst hj
            exact ⟨_, get_set_self _ _ _ _ hti⟩
          · intro j tj hj
            rw [get_set _ i j t _ hti] at hj
            rw [tick_heap]
            by_cases hji : j = i
            · simp only [hji, if_true, Option.some.injEq] at hj
              subst hj
              refine ⟨hti_ok.1, hti_ok.2.1, ?_⟩
              intro _
              exact ⟨rfl, rfl⟩
            · simp only [hji, if_false] at hj
              exact hok j tj hj

theorem good_stepMut (s : Sys) (hg : Good s) : Good (stepMut s) := by
  obtain ⟨hinv, hlock, hex, hok⟩ := hg
  unfold stepMut
  cases hl : s.lock with
  | some k => exact ⟨hinv, hlock, hex, hok⟩
  | none =>
    cases hm : s.muts with
    | nil => exact ⟨hinv, hlock, hex, hok⟩
    | cons op rest =>
      have nohold : ∀ (j : Nat) (tj : Thread), s.threads[j]? = some tj → tj.holding = false := by
        intro j tj hj
        cases hjh : tj.holding with
        | false => rfl
        | true =>
          have := (hlock j tj hj).mp hjh
          rw [hl] at this; cases this
      have key : ∀ st', Cache.Inv st' →
          Good { st := st', lock := none, threads := s.threads, muts := rest } := by
        intro st' hi
        refine ⟨hi, ?_, ?_, ?_⟩
        · intro j tj hj
          have := hlock j tj hj
          rw [hl] at this
          exact this
        · intro j hj; cases hj
        · intro j tj hj
          exact threadOk_not_holding _ _ tj (nohold j tj hj) (hok j tj hj)
      cases op <;> simp only
      case query a text => exact key _ hinv
      case alloc a r => exact key _ (inv_step s.st _ hinv)
      case free as => exact key _ (inv_step s.st _ hinv)
      case tick t => exact key _ (inv_step s.st _ hinv)
      case setPolicy a b => exact key _ (inv_step s.st _ hinv)
      case discard a => exact key _ (inv_step s.st _ hinv)

/-- The invariant holds after every schedule (any interleaving, any clock readings). -/
theorem good_run (s : Sys) (sched : List Ev) (hg : Good s) : Good (runSched s sched) := by
  induction sched generalizing s with
  | nil => exact hg
  | cons ev rest ih =>
    unfold runSched
    simp only [List.foldl_cons]
    apply ih
    cases ev with
    | thread i now => exact good_stepThread s i now hg
    | mutate => exact good_stepMut s hg

/-- the system at start: a cache satisfying its invariant, free lock, every thread with its program -/
def initSys (st : St) (progs : List (List Query)) (muts : List Op) : Sys :=
  { st, lock := none, threads := progs.map (fun p => { todo := p }), muts }

theorem good_init (st : St) (progs : List (List Query)) (muts : List Op) (hinv : Inv st) :
    Good (initSys st progs muts) := by
  refine ⟨hinv, ?_, ?_, ?_⟩
  · intro i t hi
    simp only [initSys, List.getElem?_map] at hi
    cases hp : progs[i]? with
    | none => simp [hp] at hi
    | some p => simp [hp] at hi; subst hi; simp [initSys]
  · intro i hi; cases hi
  · intro i t hi
    simp only [initSys, List.getElem?_map] at hi
    cases hp : progs[i]? with
    | none => simp [hp] at hi
    | some p =>
      simp [hp] at hi; subst hi
      exact ⟨rfl, rfl, by intro h; cases h⟩

/-- **Concurrent answers are the sequential ones.** After any schedule of any number of threads and
    exclusive mutations, every completed query of every thread has exactly the answers a
    cache-free, single-threaded evaluation gives on the heap of live filters the query saw. -/
theorem answers_sequential (st : St) (progs : List (List Query)) (muts : List Op) (hinv : Inv st)
    (sched : List Ev) (i : Nat) (t : Thread)
    (ht : (runSched (initSys st progs muts) sched).threads[i]? = some t) :
    t.answers = List.zipWith expected t.heaps t.done ∧ t.heaps.length = t.done.length := by
  have hg := good_run _ sched (good_init st progs muts hinv)
  have := hg.2.2.2 i t ht
  exact ⟨this.2.1, this.1⟩

/-! ### without mutations: the heap never changes and programs are conserved -/

def Conserved (heap : Heap) (progs : List (List Query)) (s : Sys) : Prop :=
  s.st.heap = heap ∧ s.muts = [] ∧ s.threads.length = progs.length ∧
  ∀ (i : Nat) (t : Thread), s.threads[i]? = some t →
    (∀ h ∈ t.heaps, h = heap) ∧
    progs[i]? = some (t.done ++ (if t.holding then [t.curDone ++ t.cur] else []) ++ t.todo)

theorem conserved_step (heap : Heap) (progs : List (List Query)) (s : Sys) (ev : Ev)
    (hg : Good s) (hc : Conserved heap progs s) : Conserved heap progs (stepEv s ev) := by
  obtain ⟨hheap, hmuts, hlen, hth⟩ := hc
  cases ev with
  | mutate =>
    simp only [stepEv, stepMut, hmuts]
    cases s.lock <;> exact ⟨hheap, hmuts, hlen, hth⟩
  | thread i now =>
    simp only [stepEv]
    unfold stepThread
    cases hti : s.threads[i]? with
    | none => exact ⟨hheap, hmuts, hlen, hth⟩
    | some t =>
      simp only
      obtain ⟨hhs, hprog⟩ := hth i t hti
      by_cases hh : t.holding = true
      · simp only [hh, if_true] at hprog ⊢
        cases hcur : t.cur with
        | cons p rest =>
          obtain ⟨a, text⟩ := p
          simp only
          refine ⟨by rw [query_heap]; exact hheap, hmuts, by simp [hlen], ?_⟩
          intro j tj hj
          rw [get_set _ i j t _ hti] at hj
          by_cases hji : j = i
          · simp only [hji, if_true, Option.some.injEq] at hj
            subst hj; subst hji
            refine ⟨hhs, ?_⟩
            simp only [hh, if_true]
            rw [hprog, hcur]
            simp
          · simp only [hji, if_false] at hj
            exact hth j tj hj
        | nil =>
          simp only
          refine ⟨hheap, hmuts, by simp [hlen], ?_⟩
          intro j tj hj
          rw [get_set _ i j t _ hti] at hj
          by_cases hji : j = i
          · simp only [hji, if_true, Option.some.injEq] at hj
            subst hj; subst hji
            have hch := ((hg.2.2.2 j t hti).2.2 hh).1
            refine ⟨?_, ?_⟩
            · intro h hm
              simp only [List.mem_append, List.mem_singleton] at hm
              rcases hm with hm | hm
              · exact hhs h hm
              · rw [hm, hch, hheap]
            · simp only [Bool.false_eq_true, if_false]
              rw [hprog, hcur]
              simp
          · simp only [hji, if_false] at hj
            exact hth j tj hj
      · have hh' : t.holding = false := by cases h : t.holding <;> simp_all
        simp only [hh', Bool.false_eq_true, if_false] at hprog ⊢
        cases hl : s.lock with
        | some k => exact ⟨hheap, hmuts, hlen, hth⟩
        | none =>
          cases htodo : t.todo with
          | nil => exact ⟨hheap, hmuts, hlen, hth⟩
          | cons q rest =>
            simp only
            refine ⟨by rw [tick_heap]; exact hheap, hmuts, by simp [hlen], ?_⟩
            intro j tj hj
            rw [get_set _ i j t _ hti] at hj
            by_cases hji : j = i
            · simp only [hji, if_true, Option.some.injEq] at hj
              subst hj; subst hji
              refine ⟨hhs, ?_⟩
              simp only [if_true]
              rw [hprog, htodo]
              simp
            · simp only [hji, if_false] at hj
              exact hth j tj hj

theorem conserved_run (heap : Heap) (progs : List (List Query)) (s : Sys) (sched : List Ev)
    (hg : Good s) (hc : Conserved heap progs s) : Conserved heap progs (runSched s sched) := by
  induction sched generalizing s with
  | nil => exact hc
  | cons ev rest ih =>
    unfold runSched
    simp only [List.foldl_cons]
    apply ih
    · cases ev with
      | thread i now => exact good_stepThread s i now hg
      | mutate => exact good_stepMut s hg
    · exact conserved_step heap progs s ev hg hc

theorem zipWith_const (heap : Heap) (hs : List Heap) (qs : List Query) (hl : hs.length = qs.length)
    (hall : ∀ h ∈ hs, h = heap) : List.zipWith expected hs qs = qs.map (expected heap) := by
  induction hs generalizing qs with
  | nil => cases qs with
    | nil => rfl
    | cons _ _ => simp at hl
  | cons x xs ih => cases qs with
    | nil => simp at hl
    | cons y ys =>
      simp only [List.zipWith_cons_cons, List.map_cons]
      rw [hall x (by simp), ih ys (by simpa using hl) (fun h hm => hall h (by simp [hm]))]

/-- **Every thread that has finished its program received exactly the sequential answers** (the
    answers a single thread gets on a cache-free engine), whatever the schedule, the number of
    threads, the clock readings and the discard policy. Threads still running have received a
    prefix of them. -/
theorem answers_sequential_static (st : St) (progs : List (List Query)) (hinv : Inv st)
    (sched : List Ev) (i : Nat) (t : Thread) (prog : List Query)
    (hp : progs[i]? = some prog)
    (ht : (runSched (initSys st progs []) sched).threads[i]? = some t) :
    t.answers = t.done.map (expected st.heap) ∧ t.done <+: prog ∧
      (t.finished = true → t.answers = prog.map (expected st.heap)) := by
  have hg0 := good_init st progs [] hinv
  have hc0 : Conserved st.heap progs (initSys st progs []) := by
    refine ⟨rfl, rfl, by simp [initSys], ?_⟩
    intro j tj hj
    simp only [initSys, List.getElem?_map] at hj
    cases hpj : progs[j]? with
    | none => simp [hpj] at hj
    | some p => simp [hpj] at hj; subst hj; simp
  have hg := good_run _ sched hg0
  have hc := conserved_run st.heap progs _ sched hg0 hc0
  obtain ⟨hhs, hprog⟩ := hc.2.2.2 i t ht
  have hok := hg.2.2.2 i t ht
  have hans : t.answers = t.done.map (expected st.heap) := by
    rw [hok.2.1]; exact zipWith_const st.heap _ _ hok.1 hhs
  rw [hp] at hprog
  injection hprog with hprog
  refine ⟨hans, ?_, ?_⟩
  · rw [hprog, List.append_assoc]; exact List.prefix_append _ _
  · intro hf
    unfold Thread.finished at hf
    simp only [Bool.and_eq_true, Bool.not_eq_true', List.isEmpty_iff] at hf
    rw [hf.1, hf.2] at hprog
    simp at hprog
    rw [hans, hprog]

/-! ### no deadlock: remaining work strictly decreases until nothing is left -/

theorem sum_set (l : List Thread) (i : Nat) (t t' : Thread) (h : l[i]? = some t) :
    ((l.set i t').map Thread.work).sum + t.work = (l.map Thread.work).sum + t'.work := by
  induction l generalizing i with
  | nil => simp at h
  | cons x xs ih =>
    cases i with
    | zero =>
      simp only [List.getElem?_cons_zero, Option.some.injEq] at h
      subst h
      simp only [List.set_cons_zero, List.map_cons, List.sum_cons]
      omega
    | succ k =>
      simp only [List.getElem?_cons_succ] at h
      have := ih k h
      simp only [List.set_cons_succ, List.map_cons, List.sum_cons]
      omega

theorem exists_pos (l : List Thread) (h : 0 < (l.map Thread.work).sum) :
    ∃ (i : Nat) (t : Thread), l[i]? = some t ∧ 0 < t.work := by
  induction l with
  | nil => simp at h
  | cons x xs ih =>
    simp only [List.map_cons, List.sum_cons] at h
    by_cases hx : 0 < x.work
    · exact ⟨0, x, rfl, hx⟩
    · obtain ⟨i, t, hi, ht⟩ := ih (by omega)
      exact ⟨i + 1, t, by simpa using hi, ht⟩

/-- a thread holding the lock can always take its next step, which consumes one unit of work -/
theorem holder_steps (s : Sys) (i now : Nat) (t : Thread) (hti : s.threads[i]? = some t)
    (hh : t.holding = true) : (stepThread s i now).work + 1 = s.work := by
  unfold stepThread
  simp only [hti, hh, if_true]
  cases hcur : t.cur with
  | cons p rest =>
    obtain ⟨a, text⟩ := p
    simp only [Sys.work]
    have := sum_set s.threads i t
      { t with cur := rest, curDone := t.curDone ++ [(a, text)], curAns := t.curAns ++ [(step true s.st (.query a text)).2] } hti
    simp only [Thread.work, hh, if_true, hcur, List.length_cons] at this ⊢
    omega
  | nil =>
    simp only [Sys.work]
    have := sum_set s.threads i t
      { t with holding := false, done := t.done ++ [t.curDone], answers := t.answers ++ [t.curAns],
               heaps := t.heaps ++ [t.curHeap], curDone := [], curAns := [] } hti
    simp only [Thread.work, hh, if_true, hcur, List.length_nil, Bool.false_eq_true, if_false] at this ⊢
    omega

/-- with the lock free, a thread with queries left can take the lock, which consumes one unit -/
theorem acquirer_steps (s : Sys) (i now : Nat) (t : Thread) (hti : s.threads[i]? = some t)
    (hh : t.holding = false) (hl : s.lock = none) (q : Query) (rest : List Query) (htodo : t.todo = q :: rest) :
    (stepThread s i now).work + 1 = s.work := by
  unfold stepThread
  simp only [hti, hh, Bool.false_eq_true, if_false, hl, htodo]
  simp only [Sys.work]
  have := sum_set s.threads i t
    { t with holding := true, cur := q, curDone := [], curAns := [], todo := rest, curHeap := s.st.heap } hti
  simp only [Thread.work, hh, if_true, Bool.false_eq_true, if_false, htodo, List.map_cons, List.sum_cons] at this ⊢
  omega

/-- no step ever adds work: a step either leaves the system unchanged (the thread is blocked or
    done) or consumes exactly one unit -/
theorem step_le (s : Sys) (ev : Ev) : stepEv s ev = s ∨ (stepEv s ev).work + 1 = s.work := by
  cases ev with
  | mutate =>
    simp only [stepEv, stepMut]
    cases hl : s.lock with
    | some k => left; rfl
    | none =>
      cases hm : s.muts with
      | nil => left; rfl
      | cons op rest =>
        right
        cases op <;> simp [Sys.work, hm] <;> omega
  | thread i now =>
    simp only [stepEv]
    cases hti : s.threads[i]? with
    | none => left; simp [stepThread, hti]
    | some t =>
      by_cases hh : t.holding = true
      · right; exact holder_steps s i now t hti hh
      · have hh' : t.holding = false := by cases h : t.holding <;> simp_all
        cases hl : s.lock with
        | some k => left; simp [stepThread, hti, hh', hl]
        | none =>
          cases htodo : t.todo with
          | nil => left; simp [stepThread, hti, hh', hl, htodo]
          | cons q rest => right; exact acquirer_steps s i now t hti hh' hl q rest htodo

/-- **Deadlock freedom.** In every reachable state with work left, some thread (or the pending
    mutation) can take a step that strictly reduces the remaining work. Together with `step_le`
    (no step adds work) every schedule that keeps scheduling enabled steps terminates with all
    programs completed. -/
theorem progress (s : Sys) (hg : Good s) (hw : 0 < s.work) : ∃ ev, (stepEv s ev).work < s.work := by
  obtain ⟨_, hlock, hex, _⟩ := hg
  cases hl : s.lock with
  | some i =>
    obtain ⟨t, hti⟩ := hex i hl
    have hh : t.holding = true := (hlock i t hti).mpr hl
    refine ⟨.thread i 0, ?_⟩
    have := holder_steps s i 0 t hti hh
    simp only [stepEv]; omega
  | none =>
    cases hm : s.muts with
    | cons op rest =>
      refine ⟨.mutate, ?_⟩
      have := step_le s .mutate
      rcases this with h | h
      · exfalso
        simp only [stepEv, stepMut, hl, hm] at h
        have : (s.muts).length = rest.length := by
          cases op <;> (rw [← h])
        rw [hm] at this; simp at this
      · omega
    | nil =>
      have hsum : 0 < (s.threads.map Thread.work).sum := by
        simp only [Sys.work, hm, List.length_nil] at hw; omega
      obtain ⟨i, t, hti, htw⟩ := exists_pos s.threads hsum
      have hh : t.holding = false := by
        cases hjh : t.holding with
        | false => rfl
        | true => have := (hlock i t hti).mp hjh; rw [hl] at this; cases this
      cases htodo : t.todo with
      | nil => simp [Thread.work, hh, htodo] at htw
      | cons q rest =>
        refine ⟨.thread i 0, ?_⟩
        have := acquirer_steps s i 0 t hti hh hl q rest htodo
        simp only [stepEv]; omega

/-- when no work is left every thread has finished and released the lock -/
theorem work_zero_finished (s : Sys) (hw : s.work = 0) (i : Nat) (t : Thread)
    (hti : s.threads[i]? = some t) : t.finished = true := by
  have h0 : t.work = 0 := by
    by_cases hp : 0 < t.work
    · exfalso
      have : ∀ (l : List Thread) (i : Nat), l[i]? = some t → t.work ≤ (l.map Thread.work).sum := by
        intro l
        induction l with
        | nil => intro i h; simp at h
        | cons x xs ih =>
          intro i h
          cases i with
          | zero => simp at h; subst h; simp
          | succ k =>
            have := ih k (by simpa using h)
            simp only [List.map_cons, List.sum_cons]; omega
      have := this s.threads i hti
      simp only [Sys.work] at hw
      omega
    · omega
  unfold Thread.work at h0
  unfold Thread.finished
  cases hh : t.holding with
  | true => simp [hh] at h0
  | false =>
    simp only [hh, Bool.false_eq_true, if_false, Nat.zero_add] at h0
    cases htodo : t.todo with
    | nil => simp
    | cons q r => simp [htodo] at h0

/-! ### the source still has the shape the model assumes (tables re-extracted on every run) -/

def immutableStaticTypes : List String :=
  ["Lazy<Regex>", "Lazy<HashSet<String>>", "[Lazy<Regex>; 9]", "[u8; 256]",
   "once_cell::sync::OnceCell<Box<dyn ResolvesDomain>>"]

def cellOk (c : String × String × String × String) : Bool :=
  -- the one cell the model has: the regex manager behind its RefCell / Mutex
  (c.1 == "blocker.rs" && c.2.1 == "Blocker" && c.2.2.1 == "regex_manager" &&
     (c.2.2.2 == "std::cell::RefCell<RegexManager>" || c.2.2.2 == "std::sync::Mutex<RegexManager>"))
  -- statics that are initialised once and never written
  || (c.2.1 == "static" && immutableStaticTypes.contains c.2.2.2)
  -- the manual `Send` the property names
  || (c.1 == "regex_manager.rs" && c.2.1 == "manual marker impl" && c.2.2.1 == "RegexManager" && c.2.2.2 == "Send")

/-- **The regex manager is the only mutable state shared between queries**: every struct field of
    an interior-mutability type, every `static`, `thread_local!` and manual marker-trait impl found in the
    library as it is now is either that cell, an initialise-once constant, or the manual `Send`. -/
theorem single_shared_cell : Gen.sharedCells.all cellOk = true := by decide

theorem shared_cell_present :
    Gen.sharedCells.contains ("blocker.rs", "Blocker", "regex_manager", "std::sync::Mutex<RegexManager>") = true := by
  decide

/-- the methods that touch the cell directly (found by the translator: they mention `self.regex_manager`) -/
def isAccessor (n : String) : Bool := Gen.lockAccessors.contains n

/-- the methods that take the lock: the accessors and everything that calls one -/
def borrowers : List String := (Gen.lockFns.filter (fun f => f.2.2.1 ≥ 1 || isAccessor f.1)).map (·.1)

def fnOk (f : String × String × Nat × Nat × Nat × List String) : Bool :=
  if isAccessor f.1 then
    -- an accessor takes the lock and calls nothing else that takes it
    f.2.2.2.2.2.all (fun c => !borrowers.contains c)
  else
    (f.2.2.2.2.1 == 0 && f.2.2.1 ≤ 1
      -- a `&self` query binds the guard to a local for its whole body
      && (f.2.1 != "&self" || f.2.2.2.1 == f.2.2.1)
      -- and never calls another method that takes the lock (no re-entrancy, no lock ordering)
      && (f.2.2.1 == 0 || f.2.2.2.2.2.all (fun c => isAccessor c || !borrowers.contains c)))

/-- **Lock discipline of `impl Blocker`**: only the accessor(s) touch the cell; every other method
    takes the lock at most once, `&self` methods keep the guard in a local for the whole query, and no
    method calls another locking method while it may hold the guard. (Names are not fixed: the
    accessors are whatever methods mention the cell.) -/
theorem lock_discipline : Gen.lockFns.all fnOk = true := by decide

theorem lock_table_nonempty : Gen.lockAccessors ≠ [] ∧ borrowers.length ≥ 3 := by decide

/-! ### the statements are not vacuous: two threads, one blocked while the other holds the lock -/

example :
    let s := runSched (initSys {} [[[(1, ['a'])]], [[(2, ['b'])], []]] [])
      [.thread 0 0, .thread 1 0, .thread 0 1, .thread 1 1, .thread 0 2, .thread 1 3, .thread 1 4,
       .thread 1 5, .thread 1 6, .thread 1 7]
    s.work = 0 ∧ s.lock = none ∧ (s.threads.map (·.answers)) = [[[none]], [[none], []]] := by
  decide

end Adb.Props.C19
