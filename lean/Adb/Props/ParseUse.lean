/-
  The parser invariants discharged where other theorems assume them: rule lists that come out of the
  parser satisfy `WFPart` (C01 / C05) and the host-name hypothesis of C20's `urlFilter_in_subset`.
-/
import Adb.Props.ParseInv
import Adb.Props.C05
import Adb.Props.C20
namespace Adb.Props.ParseUse
open Adb Adb.Net Adb.Parse Adb.CB Adb.Props.ParseInv

/-- the rules a list of lines parses to (lines the parser rejects contribute nothing) -/
def parsedRules (lines : List Str) : List Rule :=
  lines.filterMap fun l => match parseNetwork l with | .ok r => some r | .error _ => none

theorem mem_parsedRules (lines : List Str) (r : Rule) (h : r ∈ parsedRules lines) :
    ∃ l ∈ lines, parseNetwork l = .ok r := by
  unfold parsedRules at h
  obtain ⟨l, hl, hr⟩ := List.mem_filterMap.1 h
  refine ⟨l, hl, ?_⟩
  split at hr
  · rename_i r' hp; injection hr with hr; rw [hp, hr]
  · cases hr

/-- **Every parsed rule list is well-formed in the sense C01 and C05 assume.** -/
theorem parsedRules_wf (lines : List Str) : ∀ f ∈ parsedRules lines, WFPart f := by
  intro f hf
  obtain ⟨l, _, hp⟩ := mem_parsedRules lines f hf
  exact parse_wf l f hp []

/-- **For a parsed rule the url-filter of the content-blocking export is inside the Safari subset**
    — `urlFilter_in_subset` without its host-name hypothesis. -/
theorem parsed_urlFilter_in_subset (line : Str) (r : Rule) (hp : parseNetwork line = .ok r) (uf : Str)
    (h : urlFilter r = .ok uf) (hasc : isAsciiS uf = true) : safariOk uf = true :=
  Adb.Props.C20.urlFilter_in_subset r uf h hasc (fun hn hh hm => (parse_host_noSep line r hp hn hh '*' hm).1 rfl)

example : parseNetwork "||WWW.Example.com^$script".toList matches .ok _ := by decide +kernel
example : (parsedRules ["||a.com/x*y".toList, "@@|b|".toList]).length = 2 := by decide +kernel

end Adb.Props.ParseUse
