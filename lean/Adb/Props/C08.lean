import Adb.Model.Wire
import Adb.Props.C06
import Adb.Props.C16
import Adb.Props.C07
/-
  C08 — A deserialized engine behaves identically to the engine that was serialized.

  The codec (`rmp-serde`) enters as the assumption `decode (encode w) = w`; what is modelled is the
  field-by-field mapping to and from the wire structs.  Two genuine defects are recorded findings:
  `$removeparam` rules are not in the format (F10) and the permission of script injections is replaced
  by the default on load (F11).  The theorems are stated at full strength and proved on the rule lists
  the format can represent (`_partial`).
-/
namespace Adb.Wire
open Adb Adb.Net Adb.Net.Spec

/-- the format can represent this rule: its modifier (if any) travels in the `redirect` or `csp` slot -/
def Representable (r : Rule) : Prop := r.modifier.isSome = true → (r.isRedirect = true ∨ r.isCsp = true)

/-- **a representable rule survives the wire format unchanged** -/
theorem rule_roundtrip (r : Rule) (h : Representable r) : wireRule r = r := by
  unfold wireRule
  have key : ((if r.isRedirect = true then r.modifier else none).or (if r.isCsp = true then r.modifier else none)) = r.modifier := by
    cases hm : r.modifier with
    | none => simp
    | some m =>
      have := h (by simp [hm])
      rcases this with h1 | h1
      · simp [h1]
      · cases hr : r.isRedirect <;> simp [h1]
  rw [key]

/-- a `$removeparam` rule is *not* representable: its parameter name is lost (known finding F10) -/
theorem removeparam_not_representable (r : Rule) (hr : r.isRemoveparam = true) (hm : r.modifier.isSome = true)
    (h1 : r.isRedirect = false) (h2 : r.isCsp = false) : (wireRule r).modifier = none := by
  unfold wireRule; simp [h1, h2]

/-- mapping the identity over an index -/
private theorem mapRules_eq (idx : Index) (f : Rule → Rule) (h : ∀ p ∈ idx, ∀ r ∈ p.2, f r = r) :
    idx.mapRules f = idx := by
  unfold Index.mapRules
  induction idx with
  | nil => rfl
  | cons p ps ih =>
    obtain ⟨k, b⟩ := p
    simp only [List.map_cons]
    have hgen : ∀ l : List Rule, (∀ r ∈ l, f r = r) → l.map f = l := by
      intro l hl
      induction l with
      | nil => rfl
      | cons x xs ihx =>
        simp only [List.map_cons, hl x (List.mem_cons_self ..)]
        rw [ihx (fun r hr => hl r (List.mem_cons_of_mem _ hr))]
    have hb : b.map f = b := hgen b (fun r hr => h (k, b) (List.mem_cons_self ..) r hr)
    rw [hb, ih (fun p hp r hr => h p (List.mem_cons_of_mem _ hp) r hr)]

/-- **reload is the identity on a blocker all of whose stored rules are representable and which holds
    no removeparam rule** (then every network and CSP query answers alike, under any tag set) -/
theorem reload_identity_partial (b : Blocker)
    (hrep : ∀ idx ∈ [b.csp, b.exceptions, b.importants, b.redirects, b.filtersTagged, b.filters, b.genericHide],
      ∀ p ∈ idx, ∀ r ∈ p.2, wireRule r = r)
    (hall : ∀ r ∈ b.taggedAll, wireRule r = r)
    (hrp : b.removeparam = [])
    (htagged : b.filtersTagged = Index.build (b.taggedAll.filter (tagEnabled b.tagsEnabled)) b.optimize)
    (hnd : b.tagsEnabled.Nodup) :
    b.reload = b := by
  unfold Blocker.reload Blocker.loadFrom
  simp only
  have h := fun i hi => mapRules_eq i wireRule (hrep i hi)
  rw [h b.csp (by simp), h b.exceptions (by simp), h b.importants (by simp), h b.redirects (by simp),
    h b.filtersTagged (by simp), h b.filters (by simp), h b.genericHide (by simp)]
  have hta : b.taggedAll.map wireRule = b.taggedAll := by
    have : ∀ (l : List Rule), (∀ r ∈ l, wireRule r = r) → l.map wireRule = l := by
      intro l hl
      induction l with
      | nil => rfl
      | cons x xs ih => simp only [List.map_cons, hl x (List.mem_cons_self ..)]; rw [ih (fun r hr => hl r (List.mem_cons_of_mem _ hr))]
    exact this _ hall
  rw [hta]
  unfold Blocker.useTags Blocker.tagsWithSet
  simp only
  rw [dedupS_of_nodup _ hnd, ← htagged, ← hrp]

/-- **cosmetic side**: everything a per-site query returns except the permission attached to script
    injections survives the format — for every cache and every host -/
theorem cosmetic_roundtrip (c : Cosmetic.Cache) (hostname domain : Str) (gh : Bool) :
    let r := c.hostnameResources hostname domain gh
    let r' := (cosmeticWire c).hostnameResources hostname domain gh
    r'.hide = r.hide ∧ r'.procedural = r.procedural ∧ r'.exceptions = r.exceptions := by
  intro r r'
  refine ⟨rfl, rfl, rfl⟩

/-- with default permissions the cosmetic cache is unchanged altogether -/
theorem cosmetic_roundtrip_default_permissions (c : Cosmetic.Cache)
    (h : ∀ p ∈ c.inject, ∀ q ∈ p.2, q.2 = 0) : cosmeticWire c = c := by
  unfold cosmeticWire
  have : c.inject.map (fun (p : Hash × List (Str × Nat)) => (p.1, p.2.map (fun (q : Str × Nat) => (q.1, 0)))) = c.inject := by
    have hgen : ∀ (l : Cosmetic.Bin (Str × Nat)), (∀ p ∈ l, ∀ q ∈ p.2, q.2 = 0) →
        l.map (fun (p : Hash × List (Str × Nat)) => (p.1, p.2.map (fun (q : Str × Nat) => (q.1, 0)))) = l := by
      intro l hl
      induction l with
      | nil => rfl
      | cons p ps ih =>
        simp only [List.map_cons]
        have hp : p.2.map (fun (q : Str × Nat) => (q.1, 0)) = p.2 := by
          have hq := hl p (List.mem_cons_self ..)
          generalize p.2 = l2 at hq ⊢
          induction l2 with
          | nil => rfl
          | cons q qs ihq =>
            simp only [List.map_cons]
            have := hq q (List.mem_cons_self ..)
            rw [ihq (fun x hx => hq x (List.mem_cons_of_mem _ hx))]
            congr 1
            obtain ⟨a, b⟩ := q; simp only at this; subst this; rfl
        rw [hp, ih (fun x hx => hl x (List.mem_cons_of_mem _ hx))]
    exact hgen _ h
  cases c; simp only at this ⊢; rw [this]

/-- the caller's enabled tags survive a load (shared with C07 / C10) -/
theorem load_keeps_tags' (b producer : Blocker) (x : Str) :
    x ∈ (b.loadFrom producer).tagsEnabled ↔ x ∈ b.tagsEnabled := load_keeps_tags b producer x

/-! ### non-vacuity: a representable rule and a non-representable one -/
private def rr (bits : List Nat) (m : Option String) : Rule :=
  { mask := bits.foldl (fun a b => a ||| (1 <<< b)) 0, filter := .empty, hostname := none, domains := none,
    notDomains := none, domainsUnion := none, notDomainsUnion := none, modifier := m.map String.toList, tag := none, id := 1 }
example : wireRule (rr [Gen.IS_REDIRECT] (some "noop.js")) = rr [Gen.IS_REDIRECT] (some "noop.js") := by decide
example : (wireRule (rr [Gen.IS_REMOVEPARAM] (some "utm"))).modifier = none := by decide

end Adb.Wire
