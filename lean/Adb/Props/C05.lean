import Adb.Spec.Verdict
/- C05 — theorems follow. -/
namespace Adb.Net
theorem placeholder_C05 : True := trivial
end Adb.Net
