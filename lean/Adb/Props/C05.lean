import Adb.Spec.Verdict
import Adb.Lemmas.Bits
/-
  C05 — Rule optimisation never changes any verdict.

  `fuse_matches`: a fused rule matches a request exactly when one of the rules it was fused from does,
  through every matcher path a fusable rule can take (plain, left/right/both anchored, wildcard/separator
  regex, complete regex) and for `Simple`, `AnyOf` and empty patterns alike; the tag gate is unchanged.
  `optimizeRules_any`: optimising a bucket preserves "some active rule of the bucket matches".
-/
namespace Adb.Net
open Adb

/-- a filter part produced by the parser or by fusion is never an empty `AnyOf` -/
def WFPart (r : Rule) : Prop := r.filter ≠ .anyOf []

private theorem items_ne_nil {r : Rule} (hw : WFPart r) (he : r.filter ≠ .empty) : r.filter.items ≠ [] := by
  unfold WFPart at hw
  cases hf : r.filter with
  | empty => exact absurd hf he
  | simple s => simp [FilterPart.items]
  | anyOf ss =>
    simp only [FilterPart.items]
    intro h; subst h; exact hw hf

/-- what a (non hostname-anchored) rule's pattern test looks like in terms of its pattern items -/
def itemTest (mask : Mask) (q : Request) (f : Str) : Bool :=
  let url := if has mask Gen.MATCH_CASE then q.url else q.urlLower
  if has mask Gen.IS_COMPLETE_REGEX then f.isEmpty
  else if has mask Gen.IS_REGEX then
    f.isEmpty || regexOne (has mask Gen.IS_LEFT_ANCHOR) (has mask Gen.IS_RIGHT_ANCHOR) f url
  else if has mask Gen.IS_LEFT_ANCHOR && has mask Gen.IS_RIGHT_ANCHOR then url == f
  else if has mask Gen.IS_LEFT_ANCHOR then f.isPrefixOf url
  else if has mask Gen.IS_RIGHT_ANCHOR then f.isSuffixOf url
  else (findSub f url).isSome

theorem checkPattern_items (r : Rule) (q : Request) (hh : r.isHostnameAnchor = false) :
    checkPattern r q = (r.filter.items.isEmpty || r.filter.items.any (itemTest r.mask q) ||
      (r.isCompleteRegex && r.rx)) := by
  unfold checkPattern
  simp only [hh, Bool.false_eq_true, if_false]
  cases hc : r.isCompleteRegex with
  | true =>
    have hc' : has r.mask Gen.IS_COMPLETE_REGEX = true := hc
    simp only [Bool.or_true, if_true, Bool.true_and]
    unfold regexMatches
    simp only [hc, Bool.not_true, Bool.and_false, Bool.false_eq_true, if_false, if_true]
    have hit : itemTest r.mask q = fun f => f.isEmpty := by
      funext f; unfold itemTest; simp [hc']
    rw [hit]
    cases h1 : r.filter.items.any (·.isEmpty) <;> cases h2 : r.filter.items.isEmpty <;> simp
  | false =>
    have hc' : has r.mask Gen.IS_COMPLETE_REGEX = false := hc
    simp only [Bool.or_false, Bool.false_and]
    cases hr : r.isRegex with
    | true =>
      have hr' : has r.mask Gen.IS_REGEX = true := hr
      simp only [if_true]
      unfold regexMatches
      simp only [hr, hc, Bool.not_true, Bool.false_and, Bool.false_eq_true, if_false]
      have hit : itemTest r.mask q = fun f => f.isEmpty ||
          regexOne r.isLeftAnchor r.isRightAnchor f (reqUrl r q) := by
        funext f; unfold itemTest reqUrl Rule.isLeftAnchor Rule.isRightAnchor Rule.matchCase
        simp [hc', hr']
      rw [hit]
      cases h1 : r.filter.items.any (·.isEmpty) with
      | true =>
        simp only [if_true]
        have : r.filter.items.any (fun f => f.isEmpty || regexOne r.isLeftAnchor r.isRightAnchor f (reqUrl r q)) = true := by
          simp only [List.any_eq_true] at h1 ⊢
          obtain ⟨x, hx, he⟩ := h1
          exact ⟨x, hx, by simp [he]⟩
        simp [this]
      | false =>
        simp only [Bool.false_eq_true, if_false]
        cases h2 : r.filter.items.isEmpty with
        | true => simp
        | false =>
          simp only [Bool.false_eq_true, if_false, Bool.false_or]
          rw [Bool.eq_iff_iff]
          simp only [List.any_eq_true, Bool.or_eq_true]
          simp only [List.any_eq_false] at h1
          constructor
          · rintro ⟨x, hx, h⟩; exact ⟨x, hx, Or.inr h⟩
          · rintro ⟨x, hx, h | h⟩
            · exact absurd h (by simpa using h1 x hx)
            · exact ⟨x, hx, h⟩
    | false =>
      have hr' : has r.mask Gen.IS_REGEX = false := hr
      simp only [Bool.false_eq_true, if_false]
      have hit : itemTest r.mask q = fun f =>
          if r.isLeftAnchor && r.isRightAnchor then reqUrl r q == f
          else if r.isLeftAnchor then f.isPrefixOf (reqUrl r q)
          else if r.isRightAnchor then f.isSuffixOf (reqUrl r q)
          else (findSub f (reqUrl r q)).isSome := by
        funext f; unfold itemTest reqUrl Rule.isLeftAnchor Rule.isRightAnchor Rule.matchCase
        simp [hc', hr']
      rw [hit]
      cases r.isLeftAnchor <;> cases r.isRightAnchor <;> simp

/-- `check_options` of a rule without domain options only reads the mask -/
theorem checkOptions_mask (r s : Rule) (q : Request) (hm : r.mask = s.mask)
    (h1 : r.domains = none) (h2 : r.notDomains = none) (h3 : s.domains = none) (h4 : s.notDomains = none) :
    checkOptions r q = checkOptions s q := by
  unfold checkOptions domainGate checkCptAllowed Rule.isBadfilter Rule.forHttp Rule.forHttps Rule.firstParty
    Rule.thirdParty Rule.isException
  simp only [hm, h1, h2, h3, h4]

private theorem any_const {α} (g : List α) (p : α → Bool) (b : Bool) (hne : g ≠ [])
    (h : ∀ x ∈ g, p x = b) : g.any p = b := by
  cases g with
  | nil => exact absurd rfl hne
  | cons x xs =>
    cases b with
    | true => simp [h x (List.mem_cons_self ..)]
    | false =>
      simp only [List.any_eq_false]
      intro y hy; simpa using h y hy

/-- the hypotheses under which the optimiser fuses a group (what `select` and `group_by_criteria`
    guarantee), plus well-formedness of the pattern parts -/
structure Fusable (base : Rule) (g : List Rule) : Prop where
  ne : g ≠ []
  mask : ∀ f ∈ g, f.mask = base.mask
  tag : ∀ f ∈ g, f.tag = base.tag
  sel : ∀ f ∈ g, selectOpt f = true
  wf : ∀ f ∈ g, WFPart f
  baseSel : selectOpt base = true

theorem fuse_mask (base : Rule) (g : List Rule) (h : Fusable base g) : (fuse base g).mask = base.mask := by
  unfold fuse
  simp only
  have h1 : g.any Rule.isRegex = base.isRegex :=
    any_const g _ _ h.ne (fun f hf => by unfold Rule.isRegex; rw [h.mask f hf])
  have h2 : g.any Rule.isCompleteRegex = base.isCompleteRegex :=
    any_const g _ _ h.ne (fun f hf => by unfold Rule.isCompleteRegex; rw [h.mask f hf])
  rw [h1, h2]
  unfold Rule.isRegex Rule.isCompleteRegex has
  rw [setBit_same, setBit_same]

private theorem selectOpt_fields {f : Rule} (h : selectOpt f = true) :
    f.domains = none ∧ f.notDomains = none ∧ f.isHostnameAnchor = false := by
  unfold selectOpt at h
  simp only [Bool.and_eq_true, Option.isNone_iff_eq_none, Bool.not_eq_true'] at h
  exact ⟨h.1.1.1.1, h.1.1.1.2, h.1.1.2⟩

/-- the items of the fused pattern part -/
theorem fuse_items (base : Rule) (g : List Rule) :
    (fuse base g).filter.items =
      if g.any (fun f => f.filter == .empty) then [] else g.flatMap (fun f => f.filter.items) := by
  unfold fuse
  simp only
  split
  · rfl
  · split
    · rename_i h; rw [h]; rfl
    · rename_i s h; rw [h]; rfl
    · rfl

/-- **a fused rule matches exactly when one of its members does** — every fusable matcher path,
    `Simple` / `AnyOf` / empty patterns, any group size. -/
theorem fuse_matches (base : Rule) (g : List Rule) (q : Request) (h : Fusable base g) :
    (fuse base g).matches q = g.any (fun f => f.matches q) := by
  have hm := fuse_mask base g h
  obtain ⟨hbd, hbn, hbh⟩ := selectOpt_fields h.baseSel
  have hfd : (fuse base g).domains = none := by unfold fuse; exact hbd
  have hfn : (fuse base g).notDomains = none := by unfold fuse; exact hbn
  have hfh : (fuse base g).isHostnameAnchor = false := by
    unfold Rule.isHostnameAnchor; rw [hm]; exact hbh
  -- options: identical for every member and the fused rule
  have hopt : ∀ f ∈ g, checkOptions f q = checkOptions (fuse base g) q := by
    intro f hf
    obtain ⟨h1, h2, _⟩ := selectOpt_fields (h.sel f hf)
    exact checkOptions_mask f _ q (by rw [h.mask f hf, hm]) h1 h2 hfd hfn
  -- patterns
  have hpat : ∀ f ∈ g, checkPattern f q = (f.filter.items.isEmpty ||
      f.filter.items.any (itemTest base.mask q) || (base.isCompleteRegex && f.rx)) := by
    intro f hf
    obtain ⟨_, _, h3⟩ := selectOpt_fields (h.sel f hf)
    rw [checkPattern_items f q h3, h.mask f hf]
    unfold Rule.isCompleteRegex; rw [h.mask f hf]
  have hfp : checkPattern (fuse base g) q = ((fuse base g).filter.items.isEmpty ||
      (fuse base g).filter.items.any (itemTest base.mask q) || (base.isCompleteRegex && g.any (·.rx))) := by
    rw [checkPattern_items _ q hfh, hm]
    unfold Rule.isCompleteRegex; rw [hm]
    unfold fuse; rfl
  unfold Rule.matches
  rw [hfp, fuse_items]
  -- split on whether some member has an empty pattern
  cases hany : g.any (fun f => f.filter == .empty) with
  | true =>
    simp only [if_true, List.isEmpty_nil, Bool.true_or, Bool.and_true]
    simp only [List.any_eq_true] at hany
    obtain ⟨e, he, hemp⟩ := hany
    have hemp' : e.filter = .empty := by simpa using hemp
    rw [Bool.eq_iff_iff]
    simp only [List.any_eq_true, Bool.and_eq_true]
    constructor
    · intro ho
      refine ⟨e, he, ?_, ?_⟩
      · rw [hopt e he]; exact ho
      · rw [hpat e he, hemp']; simp [FilterPart.items]
    · rintro ⟨f, hf, ho, _⟩
      rw [← hopt f hf]; exact ho
  | false =>
    simp only [Bool.false_eq_true, if_false]
    simp only [List.any_eq_false, beq_iff_eq] at hany
    have hne : ∀ f ∈ g, f.filter.items.isEmpty = false := by
      intro f hf
      have := items_ne_nil (h.wf f hf) (hany f hf)
      cases hi : f.filter.items with
      | nil => exact absurd hi this
      | cons _ _ => rfl
    have hflat : (g.flatMap (fun f => f.filter.items)).isEmpty = false := by
      cases g with
      | nil => exact absurd rfl h.ne
      | cons x xs =>
        have := hne x (List.mem_cons_self ..)
        cases hi : x.filter.items with
        | nil => rw [hi] at this; cases this
        | cons a as => simp [hi]
    rw [hflat, List.any_flatMap]
    rw [Bool.eq_iff_iff]
    simp only [Bool.false_or, Bool.and_eq_true, Bool.or_eq_true, List.any_eq_true]
    constructor
    · rintro ⟨ho, hp⟩
      rcases hp with ⟨f, hf, x, hx, hx2⟩ | ⟨hc, f, hf, hrx⟩
      · refine ⟨f, hf, by rw [hopt f hf]; exact ho, ?_⟩
        rw [hpat f hf, hne f hf]
        simp only [Bool.false_or, Bool.or_eq_true, List.any_eq_true]
        exact Or.inl ⟨x, hx, hx2⟩
      · refine ⟨f, hf, by rw [hopt f hf]; exact ho, ?_⟩
        rw [hpat f hf]; simp [hc, hrx]
    · rintro ⟨f, hf, ho, hp⟩
      refine ⟨by rw [← hopt f hf]; exact ho, ?_⟩
      rw [hpat f hf, hne f hf] at hp
      simp only [Bool.false_or, Bool.or_eq_true, List.any_eq_true, Bool.and_eq_true] at hp
      rcases hp with ⟨x, hx, hx2⟩ | ⟨hc, hrx⟩
      · exact Or.inl ⟨f, hf, x, hx, hx2⟩
      · exact Or.inr ⟨hc, f, hf, hrx⟩

/-- the tag gate of a fused rule is the common tag gate of its members -/
theorem fuse_tagOk (base : Rule) (g : List Rule) (T : List Str) (h : Fusable base g) :
    ∀ f ∈ g, tagOk (fuse base g) T = tagOk f T := by
  intro f hf
  unfold tagOk
  have : (fuse base g).tag = base.tag := by unfold fuse; rfl
  rw [this, h.tag f hf]

/-- fused rules stay fusable / well-formed (optimising twice is harmless) -/
theorem fuse_wf (base : Rule) (g : List Rule) : WFPart (fuse base g) := by
  unfold WFPart fuse
  simp only
  split
  · simp
  · split <;> simp_all

/-! ### the per-bucket optimiser -/

/-- "this rule is active and matches" — what `check` / `check_all` test per stored rule -/
def okFor (q : Request) (T : List Str) (r : Rule) : Bool := r.matches q && tagOk r T

/-- invariant of the grouping fold (`insert_dup` into `to_fuse`) -/
private structure GroupInv (processed : List Rule) (gs : List (List Rule)) : Prop where
  ne : ∀ g ∈ gs, g ≠ []
  same : ∀ g ∈ gs, ∀ b, g.head? = some b → ∀ x ∈ g, sameGroup b x = true
  mem : ∀ x, x ∈ gs.flatten ↔ x ∈ processed

private theorem any_congr' {α} (l : List α) (p p' : α → Bool) (h : ∀ x ∈ l, p x = p' x) :
    l.any p = l.any p' := by
  induction l with
  | nil => rfl
  | cons x xs ih =>
    simp only [List.any_cons]
    rw [h x (List.mem_cons_self ..), ih (fun y hy => h y (List.mem_cons_of_mem _ hy))]

private theorem addToGroups_inv (processed : List Rule) (gs : List (List Rule)) (r : Rule)
    (h : GroupInv processed gs) : GroupInv (processed ++ [r]) (addToGroups gs r) := by
  unfold addToGroups
  by_cases hany : gs.any (isHome r) = true
  · simp only [hany, if_true]
    refine ⟨?_, ?_, ?_⟩
    · intro g hg
      simp only [List.mem_map] at hg
      obtain ⟨g0, hg0, rfl⟩ := hg
      by_cases hhome : isHome r g0 = true
      · simp [hhome]
      · simp only [hhome, Bool.false_eq_true, if_false]; exact h.ne g0 hg0
    · intro g hg b hb x hx
      simp only [List.mem_map] at hg
      obtain ⟨g0, hg0, rfl⟩ := hg
      by_cases hhome : isHome r g0 = true
      · simp only [hhome, if_true] at hb hx
        have hne := h.ne g0 hg0
        cases g0 with
        | nil => exact absurd rfl hne
        | cons y ys =>
          simp only [List.cons_append, List.head?_cons, Option.some.injEq] at hb
          subst hb
          simp only [List.cons_append, List.mem_cons, List.mem_append, List.not_mem_nil, or_false] at hx
          rcases hx with rfl | hx | rfl
          · exact h.same _ hg0 _ rfl _ (List.mem_cons_self ..)
          · exact h.same _ hg0 _ rfl _ (List.mem_cons_of_mem _ hx)
          · simpa [isHome] using hhome
      · simp only [hhome, Bool.false_eq_true, if_false] at hb hx
        exact h.same g0 hg0 b hb x hx
    · intro x
      simp only [List.mem_flatten, List.mem_map, List.mem_append, List.mem_singleton]
      constructor
      · rintro ⟨g, ⟨g0, hg0, rfl⟩, hx⟩
        by_cases hhome : isHome r g0 = true
        · simp only [hhome, if_true] at hx
          rcases List.mem_append.1 hx with hx | hx
          · exact Or.inl ((h.mem x).1 (List.mem_flatten.2 ⟨g0, hg0, hx⟩))
          · exact Or.inr (by simpa using hx)
        · simp only [hhome, Bool.false_eq_true, if_false] at hx
          exact Or.inl ((h.mem x).1 (List.mem_flatten.2 ⟨g0, hg0, hx⟩))
      · rintro (hx | rfl)
        · obtain ⟨g0, hg0, hx0⟩ := List.mem_flatten.1 ((h.mem x).2 hx)
          refine ⟨_, ⟨g0, hg0, rfl⟩, ?_⟩
          by_cases hhome : isHome x g0 = true
          all_goals (by_cases hh : isHome r g0 = true)
          all_goals (first | (simp only [hh, if_true]; exact List.mem_append_left _ hx0)
                           | (simp only [hh, Bool.false_eq_true, if_false]; exact hx0))
        · simp only [List.any_eq_true] at hany
          obtain ⟨g0, hg0, hhome⟩ := hany
          refine ⟨_, ⟨g0, hg0, rfl⟩, ?_⟩
          simp [hhome]
  · simp only [hany, Bool.false_eq_true, if_false]
    refine ⟨?_, ?_, ?_⟩
    · intro g hg
      rcases List.mem_append.1 hg with hg | hg
      · exact h.ne g hg
      · simp only [List.mem_singleton] at hg; subst hg; simp
    · intro g hg b hb x hx
      rcases List.mem_append.1 hg with hg | hg
      · exact h.same g hg b hb x hx
      · simp only [List.mem_singleton] at hg; subst hg
        simp only [List.head?_cons, Option.some.injEq] at hb; subst hb
        simp only [List.mem_singleton] at hx; subst hx
        simp [sameGroup]
    · intro x
      simp only [List.flatten_append, List.mem_append, List.flatten_cons, List.flatten_nil,
        List.append_nil, List.mem_singleton]
      rw [h.mem x]

private theorem groupRules_inv (rs : List Rule) : GroupInv rs (groupRules rs) := by
  unfold groupRules
  suffices h : ∀ (processed : List Rule) (gs : List (List Rule)), GroupInv processed gs →
      GroupInv (processed ++ rs) (rs.foldl addToGroups gs) by
    simpa using h [] [] ⟨by simp, by simp, by simp⟩
  induction rs with
  | nil => intro p gs h; simpa using h
  | cons r rs ih =>
    intro p gs h
    simp only [List.foldl_cons]
    have := ih (p ++ [r]) (addToGroups gs r) (addToGroups_inv p gs r h)
    simpa using this

private theorem any_and_const {α} (g : List α) (m : α → Bool) (c : Bool) :
    g.any (fun f => m f && c) = (g.any m && c) := by
  cases c <;> simp

/-- **optimising a bucket preserves "some active rule of the bucket matches"**, for every bucket. -/
theorem optimizeRules_any (rs : List Rule) (q : Request) (T : List Str) (hwf : ∀ f ∈ rs, WFPart f) :
    (optimizeRules rs).any (okFor q T) = rs.any (okFor q T) := by
  unfold optimizeRules sortById
  simp only
  rw [(List.mergeSort_perm _ _).any_eq]
  have inv := groupRules_inv (rs.filter selectOpt)
  -- a fused group behaves like its members
  have hfuse : ∀ g ∈ groupRules (rs.filter selectOpt), ∀ b, g.head? = some b →
      okFor q T (fuse b g) = g.any (okFor q T) := by
    intro g hg b hb
    have hbg : b ∈ g := List.mem_of_mem_head? (by rw [hb]; rfl)
    have hin : ∀ x ∈ g, x ∈ rs.filter selectOpt := fun x hx => (inv.mem x).1 (List.mem_flatten.2 ⟨g, hg, hx⟩)
    have hF : Fusable b g := {
      ne := inv.ne g hg
      mask := fun f hf => by
        have := inv.same g hg b hb f hf
        simp only [sameGroup, Bool.and_eq_true, beq_iff_eq] at this; exact this.1.symm
      tag := fun f hf => by
        have := inv.same g hg b hb f hf
        simp only [sameGroup, Bool.and_eq_true, beq_iff_eq] at this; exact this.2.symm
      sel := fun f hf => (List.mem_filter.1 (hin f hf)).2
      wf := fun f hf => hwf f (List.mem_filter.1 (hin f hf)).1
      baseSel := (List.mem_filter.1 (hin b hbg)).2 }
    unfold okFor
    rw [fuse_matches b g q hF]
    have : g.any (fun f => f.matches q && tagOk f T) = g.any (fun f => f.matches q && tagOk (fuse b g) T) := by
      apply any_congr'
      intro f hf; rw [fuse_tagOk b g T hF f hf]
    rw [this, any_and_const]
  -- fused ++ singles cover the selected rules
  have hcover : ((((groupRules (rs.filter selectOpt)).filter (·.length > 1)).filterMap
        (fun g => g.head?.map (fun b => fuse b g))).any (okFor q T) ||
      (((groupRules (rs.filter selectOpt)).filter (·.length ≤ 1)).flatten).any (okFor q T))
      = (rs.filter selectOpt).any (okFor q T) := by
    rw [Bool.eq_iff_iff, Bool.or_eq_true, List.any_eq_true, List.any_eq_true, List.any_eq_true]
    constructor
    · rintro (⟨f, hf, hok⟩ | ⟨x, hx, hok⟩)
      · rw [List.mem_filterMap] at hf
        obtain ⟨g, hg, hfg⟩ := hf
        have hg' := (List.mem_filter.1 hg).1
        cases hh : g.head? with
        | none => rw [hh] at hfg; cases hfg
        | some b =>
          rw [hh] at hfg
          simp only [Option.map_some, Option.some.injEq] at hfg
          subst hfg
          rw [hfuse g hg' b hh, List.any_eq_true] at hok
          obtain ⟨x, hx, hxo⟩ := hok
          exact ⟨x, (inv.mem x).1 (List.mem_flatten.2 ⟨g, hg', hx⟩), hxo⟩
      · obtain ⟨g, hg, hxg⟩ := List.mem_flatten.1 hx
        exact ⟨x, (inv.mem x).1 (List.mem_flatten.2 ⟨g, (List.mem_filter.1 hg).1, hxg⟩), hok⟩
    · rintro ⟨x, hx, hok⟩
      obtain ⟨g, hg, hxg⟩ := List.mem_flatten.1 ((inv.mem x).2 hx)
      by_cases hl : g.length > 1
      · left
        have hne := inv.ne g hg
        cases hgc : g with
        | nil => exact absurd hgc hne
        | cons b tl =>
          have hh : g.head? = some b := by rw [hgc]; rfl
          refine ⟨fuse b g, ?_, ?_⟩
          · rw [List.mem_filterMap]
            exact ⟨g, List.mem_filter.2 ⟨hg, by simpa using hl⟩, by rw [hh]; rfl⟩
          · rw [hfuse g hg b hh, List.any_eq_true]; exact ⟨x, hxg, hok⟩
      · right
        exact ⟨x, List.mem_flatten.2 ⟨g, List.mem_filter.2 ⟨hg, by simpa using Nat.le_of_not_gt hl⟩, hxg⟩, hok⟩
  -- put the three parts together
  have hsplit : rs.any (okFor q T) = ((rs.filter selectOpt).any (okFor q T) ||
      (rs.filter (fun r => !selectOpt r)).any (okFor q T)) := by
    rw [Bool.eq_iff_iff]
    simp only [Bool.or_eq_true, List.any_eq_true, List.mem_filter, Bool.not_eq_true']
    constructor
    · rintro ⟨x, hx, h⟩
      cases hs : selectOpt x with
      | true => exact Or.inl ⟨x, ⟨hx, hs⟩, h⟩
      | false => exact Or.inr ⟨x, ⟨hx, hs⟩, h⟩
    · rintro (⟨x, ⟨hx, _⟩, h⟩ | ⟨x, ⟨hx, _⟩, h⟩) <;> exact ⟨x, hx, h⟩
  rw [hsplit, ← hcover, List.any_append, List.any_append]
  generalize (((groupRules (rs.filter selectOpt)).filter (·.length > 1)).filterMap
        (fun g => g.head?.map (fun b => fuse b g))).any (okFor q T) = a
  generalize (rs.filter (fun r => !selectOpt r)).any (okFor q T) = b
  generalize (((groupRules (rs.filter selectOpt)).filter (·.length ≤ 1)).flatten).any (okFor q T) = c
  cases a <;> cases b <;> cases c <;> rfl

/-- a group the optimiser formed: its head is a loaded rule and the group meets `Fusable` -/
private theorem fusable_of_group (rs : List Rule) (hwf : ∀ f ∈ rs, WFPart f) (g : List Rule)
    (hg : g ∈ groupRules (rs.filter selectOpt)) (b : Rule) (hb : g.head? = some b) :
    Fusable b g ∧ b ∈ rs := by
  have inv := groupRules_inv (rs.filter selectOpt)
  have hbg : b ∈ g := List.mem_of_mem_head? (by rw [hb]; rfl)
  have hin : ∀ x ∈ g, x ∈ rs.filter selectOpt := fun x hx => (inv.mem x).1 (List.mem_flatten.2 ⟨g, hg, hx⟩)
  refine ⟨{
    ne := inv.ne g hg
    mask := fun f hf => by
      have := inv.same g hg b hb f hf
      simp only [sameGroup, Bool.and_eq_true, beq_iff_eq] at this; exact this.1.symm
    tag := fun f hf => by
      have := inv.same g hg b hb f hf
      simp only [sameGroup, Bool.and_eq_true, beq_iff_eq] at this; exact this.2.symm
    sel := fun f hf => (List.mem_filter.1 (hin f hf)).2
    wf := fun f hf => hwf f (List.mem_filter.1 (hin f hf)).1
    baseSel := (List.mem_filter.1 (hin b hbg)).2 }, (List.mem_filter.1 (hin b hbg)).1⟩

/-- **what an optimised bucket holds**: original rules, and fusions of a group of original rules
    whose base is one of them. -/
theorem optimizeRules_mem (rs : List Rule) (hwf : ∀ f ∈ rs, WFPart f) (f : Rule) (hf : f ∈ optimizeRules rs) :
    f ∈ rs ∨ ∃ b g, b ∈ rs ∧ (∀ x ∈ g, x ∈ rs) ∧ f = fuse b g ∧ Fusable b g := by
  unfold optimizeRules sortById at hf
  simp only at hf
  rw [(List.mergeSort_perm _ _).mem_iff] at hf
  have inv := groupRules_inv (rs.filter selectOpt)
  simp only [List.mem_append] at hf
  rcases hf with (hf | hf) | hf
  · right
    rw [List.mem_filterMap] at hf
    obtain ⟨g, hg, hfg⟩ := hf
    have hg' := (List.mem_filter.1 hg).1
    cases hh : g.head? with
    | none => rw [hh] at hfg; cases hfg
    | some b =>
      rw [hh] at hfg
      simp only [Option.map_some, Option.some.injEq] at hfg
      obtain ⟨hF, hb⟩ := fusable_of_group rs hwf g hg' b hh
      refine ⟨b, g, hb, ?_, hfg.symm, hF⟩
      intro x hx
      exact (List.mem_filter.1 ((inv.mem x).1 (List.mem_flatten.2 ⟨g, hg', hx⟩))).1
  · left; exact (List.mem_filter.1 hf).1
  · left
    obtain ⟨g, hg, hxg⟩ := List.mem_flatten.1 hf
    exact (List.mem_filter.1 ((inv.mem f).1 (List.mem_flatten.2 ⟨g, (List.mem_filter.1 hg).1, hxg⟩))).1

/-- when nothing is selected for fusion (e.g. a list of redirect rules) optimising only reorders -/
theorem optimizeRules_perm_of_none (rs : List Rule) (h : ∀ r ∈ rs, selectOpt r = false) :
    (optimizeRules rs).Perm rs := by
  unfold optimizeRules sortById
  simp only
  have hpos : rs.filter selectOpt = [] := by
    apply List.filter_eq_nil_iff.2
    intro r hr; simp [h r hr]
  have hneg : rs.filter (fun r => !selectOpt r) = rs := by
    apply List.filter_eq_self.2
    intro r hr; simp [h r hr]
  rw [hpos, hneg]
  simp only [groupRules, List.foldl_nil, List.filter_nil, List.filterMap_nil, List.flatten_nil, List.nil_append,
    List.append_nil]
  exact List.mergeSort_perm _ _

end Adb.Net
