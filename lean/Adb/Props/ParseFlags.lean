/-
  The option flags of a parsed rule, read off its option list: every parser stage after the option
  fold leaves the flag bits alone (frame lemmas), so a parsed rule is a badfilter / important /
  generichide / csp / redirect / removeparam rule exactly when its option list says so, is an
  exception exactly when the line starts with `@@`, and applies to first- / third-party requests
  exactly as C03's reference semantics `refOptions` asks. This is the composition
  `parse ; check_options = reference` for the party and badfilter components (the request-type, scheme
  and `domain=` components stay validated exhaustively by the C03 correspondence run).
-/
import Adb.Props.ParseMod
namespace Adb.Props.ParseFlags
open Adb Adb.Net Adb.Parse Adb.Gen Adb.Spec Adb.Props.ParseInv Adb.Props.ParseMod

/-- the flag bits no parser stage after the option fold writes -/
def flagBits : List Nat := [IS_IMPORTANT, MATCH_CASE, IS_REMOVEPARAM, THIRD_PARTY, FIRST_PARTY, IS_EXCEPTION, IS_CSP,
  IS_REDIRECT, BAD_FILTER, GENERIC_HIDE, ALSO_BLOCK_REDIRECT]

set_option hygiene false in
macro "flagcases" h:ident : tactic => `(tactic|
  (simp only [flagBits, List.mem_cons, List.mem_nil_iff, or_false] at $h:ident
   rcases $h:ident with rfl | rfl | rfl | rfl | rfl | rfl | rfl | rfl | rfl | rfl | rfl))

theorem maskBefore_flag (parsed : Abstract) (st : OptState) (b : Nat) (hb : b ∈ flagBits) :
    has (maskBeforePattern parsed st) b = (has st.mask b || has st.pos b) := by
  unfold maskBeforePattern anchorStage typeStage
  flagcases hb <;> (simp only []; repeat' split) <;> modbits

theorem markComplete_flag (mask : Mask) (p : Str) (m : Mask) (h : markComplete mask p = .ok m) (b : Nat)
    (hb : b ∈ flagBits) : has m b = has mask b := by
  unfold markComplete at h
  simp only at h
  split at h
  · injection h with h; subst h; flagcases hb <;> modbits
  · split at h
    · cases h
    · injection h with h; subst h; rfl

theorem splitHost_flag (la : Option LAnchor) (mask : Mask) (p : Str) (b : Nat) (hb : b ∈ flagBits) :
    has (splitHostPart la mask p).1 b = has mask b := by
  unfold splitHostPart
  flagcases hb <;> (simp only []; repeat' split) <;> modbits

theorem trimStars_flag (mask : Mask) (p : Str) (fs : Nat) (b : Nat) (hb : b ∈ flagBits) :
    has (trimStars mask p fs).1 b = has mask b := by
  unfold trimStars
  flagcases hb <;> (simp only []; repeat' split) <;> modbits

theorem schemeOnly_flag (mask : Mask) (t : Str) (fs fe : Nat) (b : Nat) (hb : b ∈ flagBits) :
    has (schemeOnly mask t fs fe).1 b = has mask b := by
  unfold schemeOnly
  flagcases hb <;> (repeat' split) <;> modbits

theorem surgery_flag (mask : Mask) (p : Str) (fs : Nat) (b : Nat) (hb : b ∈ flagBits) :
    has (filterSurgery mask p fs).1 b = has mask b := by
  unfold filterSurgery
  have h1 := trimStars_flag mask p fs b hb
  split
  rename_i m1 s1 e1 ht
  rw [ht] at h1
  have h2 := schemeOnly_flag m1 (p.drop s1) s1 e1 b hb
  split
  rename_i m2 s2 hs
  rw [hs] at h2
  simp only at h1 h2
  split
  · simp only [has_setBit]
    have : b ≠ IS_REGEX := by flagcases hb <;> decide
    rw [if_neg this, h2, h1]
  · simp only [h2, h1]

theorem has_negClear_eq (neg : Mask) (l : List Nat) (m : Mask) (b : Nat) (hn : has neg b = false) :
    has (l.foldl (fun m b => if has neg b then setBit m b false else m) m) b = has m b := by
  induction l generalizing m with
  | nil => rfl
  | cons x xs ih =>
    simp only [List.foldl_cons]
    rw [ih]
    split
    · rename_i hx
      rw [has_setBit]
      split
      · rename_i e; subst e; rw [hn] at hx; cases hx
      · rfl
    · rfl

theorem finish_flag (line : Str) (parsed : Abstract) (st : OptState) (mask : Mask) (filter host : Option Str)
    (r : Rule) (h : finishNetwork line parsed st mask filter host = .ok r) (b : Nat) (hb : b ∈ flagBits)
    (hn : has st.neg b = false) : has r.mask b = has mask b := by
  unfold finishNetwork at h
  split at h
  · cases h
  · split at h
    · cases h
    · injection h with h; subst h
      simp only
      rw [has_negClear_eq _ _ _ _ hn]
      split
      · flagcases hb <;> modbits
      · rfl

/-- no type option touches a flag bit -/
theorem fold_pos_neg_flag (opts : List NOpt) (hok : ∀ o ∈ opts, optOK o) (s : OptState)
    (hp : s.pos = 0) (hn : s.neg = 0) (b : Nat) (hb : b ∈ flagBits) :
    has (opts.foldl applyOption s).pos b = false ∧ has (opts.foldl applyOption s).neg b = false := by
  rw [option_pos_bits, option_neg_bits, hp, hn, has_zero]
  simp only [Bool.false_or]
  constructor
  · rw [List.any_eq_false]
    intro o ho hpb
    have hk := hok o ho
    cases o with
    | ctype bit e =>
      cases e with
      | true =>
        simp only [posB, beq_iff_eq] at hpb
        subst hpb
        unfold optOK at hk
        flagcases hb <;> revert hk <;> decide
      | false => simp [posB] at hpb
    | document =>
      simp only [posB, beq_iff_eq] at hpb
      flagcases hb <;> revert hpb <;> decide
    | _ => simp [posB] at hpb
  · rw [List.any_eq_false]
    intro o ho hnb
    have hk := hok o ho
    cases o with
    | ctype bit e =>
      cases e with
      | false =>
        simp only [negB, beq_iff_eq] at hnb
        subst hnb
        unfold optOK at hk
        flagcases hb <;> revert hk <;> decide
      | true => simp [negB] at hnb
    | _ => simp [negB] at hnb

/-- the initial mask of the option fold -/
def mask0 (exception : Bool) : Mask :=
  if exception then setBit (maskOf [THIRD_PARTY, FIRST_PARTY, FROM_HTTPS, FROM_HTTP]) IS_EXCEPTION true
  else maskOf [THIRD_PARTY, FIRST_PARTY, FROM_HTTPS, FROM_HTTP]

/-- **Frame**: a flag bit of a parsed rule is the bit the option fold produced. -/
theorem parse_flag_frame (line : Str) (r : Rule) (h : parseNetwork line = .ok r) :
    ∃ parsed, parseAbstract line = .ok parsed ∧
      ∀ b ∈ flagBits, has r.mask b =
        has ((parsed.options.getD []).foldl applyOption { mask := mask0 parsed.exception }).mask b := by
  obtain ⟨parsed, st, m0, m1, host0, fStart, m2, filter, host, hpa, hst, hm0, hs, hf, _, hfin⟩ :=
    parse_stages line r h
  refine ⟨parsed, hpa, ?_⟩
  intro b hb
  have hok := parseAbstract_options line parsed hpa
  -- the option state
  have hstEq : st = (parsed.options.getD []).foldl applyOption { mask := mask0 parsed.exception } := by
    unfold optionState at hst
    simp only at hst
    split at hst
    · rename_i opts ho
      split at hst
      · cases hst
      · injection hst with hst; subst hst; rw [ho]; rfl
    · rename_i ho
      injection hst with hst; subst hst; rw [ho]; rfl
  have hpn := fold_pos_neg_flag (parsed.options.getD []) (by
      intro o ho
      cases hopt : parsed.options with
      | none => rw [hopt] at ho; cases ho
      | some os => rw [hopt] at ho; exact hok os hopt o ho)
    { mask := mask0 parsed.exception } rfl rfl b hb
  rw [← hstEq] at hpn
  have e3 := finish_flag _ _ _ _ _ _ _ hfin b hb hpn.2
  have e2 : has m2 b = has m1 b := by
    have := surgery_flag m1 parsed.pattern fStart b hb; rw [hf] at this; exact this
  have e1 : has m1 b = has m0 b := by
    have := splitHost_flag parsed.la m0 parsed.pattern b hb; rw [hs] at this; exact this
  have e0 := markComplete_flag _ _ _ hm0 b hb
  rw [e3, e2, e1, e0, maskBefore_flag parsed st b hb, hpn.1, Bool.or_false, hstEq]

theorem has_mask0 (e : Bool) (b : Nat) :
    has (mask0 e) b = ([THIRD_PARTY, FIRST_PARTY, FROM_HTTPS, FROM_HTTP].contains b || (e && b == IS_EXCEPTION)) := by
  unfold mask0
  cases e
  · simp [has_maskOf]
  · simp only [if_true, has_setBit, has_maskOf, Bool.true_and]
    by_cases hb : b = IS_EXCEPTION
    · subst hb; decide
    · have : (b == IS_EXCEPTION) = false := by simpa using hb
      rw [if_neg hb, this, Bool.or_false]

/-- **The flags of a parsed rule are what its option list says.** -/
theorem parse_flags (line : Str) (r : Rule) (h : parseNetwork line = .ok r) :
    ∃ parsed, parseAbstract line = .ok parsed ∧
      let opts := parsed.options.getD []
      r.isException = parsed.exception ∧
      r.isBadfilter = opts.any (· == .badfilter) ∧
      r.isImportant = opts.any (· == .important) ∧
      r.isGenericHide = opts.any (· == .generichide) ∧
      r.isCsp = isCspRule opts ∧
      r.isRemoveparam = Spec.isRemoveparam opts ∧
      r.isRedirect = opts.any (fun o => match o with | .redirect _ => true | .redirectRule _ => true | _ => false) ∧
      r.thirdParty = !opts.any (fun o => o == .thirdParty false || o == .firstParty true) ∧
      r.firstParty = !opts.any (fun o => o == .thirdParty true || o == .firstParty false) := by
  obtain ⟨parsed, hpa, hfr⟩ := parse_flag_frame line r h
  refine ⟨parsed, hpa, ?_⟩
  intro opts
  have hset : ∀ b ∈ flagBits, b ≠ THIRD_PARTY → b ≠ FIRST_PARTY →
      has r.mask b = ((parsed.exception && b == IS_EXCEPTION) || opts.any (setsB b)) := by
    intro b hb h3 h1
    rw [hfr b hb, option_mask_set_bits _ _ _ h3 h1, has_mask0]
    congr 1
    have : [THIRD_PARTY, FIRST_PARTY, FROM_HTTPS, FROM_HTTP].contains b = false := by
      flagcases hb <;> first | decide | exact absurd rfl h3 | exact absurd rfl h1
    rw [this, Bool.false_or]
  have anyc : ∀ (f g : NOpt → Bool), (∀ o, f o = g o) → opts.any f = opts.any g := by
    intro f g hfg; congr 1; funext o; exact hfg o
  have hparty := party_bits opts (mask0 parsed.exception) (by rw [has_mask0]; cases parsed.exception <;> decide) (by rw [has_mask0]; cases parsed.exception <;> decide)
  refine ⟨?_, ?_, ?_, ?_, ?_, ?_, ?_, ?_, ?_⟩
  · show has r.mask IS_EXCEPTION = _
    rw [hset _ (by decide) (by decide) (by decide)]
    have : opts.any (setsB IS_EXCEPTION) = false := by
      rw [List.any_eq_false]; intro o _; cases o <;> simp [setsB, setsBit, modifierBits] <;> decide
    rw [this]; simp
  · show has r.mask BAD_FILTER = _
    rw [hset _ (by decide) (by decide) (by decide)]
    have e : (parsed.exception && BAD_FILTER == IS_EXCEPTION) = false := by
      have : (BAD_FILTER == IS_EXCEPTION) = false := by decide
      rw [this, Bool.and_false]
    rw [e, Bool.false_or]
    apply anyc; intro o; cases o <;> first | rfl | (simp [setsB, setsBit, modifierBits] <;> decide)
  · show has r.mask IS_IMPORTANT = _
    rw [hset _ (by decide) (by decide) (by decide)]
    have e : (parsed.exception && IS_IMPORTANT == IS_EXCEPTION) = false := by
      have : (IS_IMPORTANT == IS_EXCEPTION) = false := by decide
      rw [this, Bool.and_false]
    rw [e, Bool.false_or]
    apply anyc; intro o; cases o <;> first | rfl | (simp [setsB, setsBit, modifierBits] <;> decide)
  · show has r.mask GENERIC_HIDE = _
    rw [hset _ (by decide) (by decide) (by decide)]
    have e : (parsed.exception && GENERIC_HIDE == IS_EXCEPTION) = false := by
      have : (GENERIC_HIDE == IS_EXCEPTION) = false := by decide
      rw [this, Bool.and_false]
    rw [e, Bool.false_or]
    apply anyc; intro o; cases o <;> first | rfl | (simp [setsB, setsBit, modifierBits] <;> decide)
  · show has r.mask IS_CSP = _
    rw [hset _ (by decide) (by decide) (by decide)]
    have e : (parsed.exception && IS_CSP == IS_EXCEPTION) = false := by
      have : (IS_CSP == IS_EXCEPTION) = false := by decide
      rw [this, Bool.and_false]
    rw [e, Bool.false_or]
    unfold isCspRule
    apply anyc; intro o; cases o <;> first | rfl | (simp [setsB, setsBit, modifierBits] <;> decide)
  · show has r.mask IS_REMOVEPARAM = _
    rw [hset _ (by decide) (by decide) (by decide)]
    have e : (parsed.exception && IS_REMOVEPARAM == IS_EXCEPTION) = false := by
      have : (IS_REMOVEPARAM == IS_EXCEPTION) = false := by decide
      rw [this, Bool.and_false]
    rw [e, Bool.false_or]
    unfold Spec.isRemoveparam
    apply anyc; intro o; cases o <;> first | rfl | (simp [setsB, setsBit, modifierBits] <;> decide)
  · show has r.mask IS_REDIRECT = _
    rw [hset _ (by decide) (by decide) (by decide)]
    have e : (parsed.exception && IS_REDIRECT == IS_EXCEPTION) = false := by
      have : (IS_REDIRECT == IS_EXCEPTION) = false := by decide
      rw [this, Bool.and_false]
    rw [e, Bool.false_or]
    apply anyc; intro o; cases o <;> first | rfl | (simp [setsB, setsBit, modifierBits] <;> decide)
  · show has r.mask THIRD_PARTY = _
    rw [hfr _ (by decide)]; exact hparty.1
  · show has r.mask FIRST_PARTY = _
    rw [hfr _ (by decide)]; exact hparty.2

/-! ### the badfilter and party components of `check_options` against the reference -/

/-- the part of `check_options` that reads the badfilter and party flags -/
def flagsGate (r : Rule) (q : Request) : Bool :=
  !r.isBadfilter && !(!r.firstParty && !q.thirdParty) && !(!r.thirdParty && q.thirdParty)

theorem checkOptions_le_gate (r : Rule) (q : Request) (h : checkOptions r q = true) : flagsGate r q = true := by
  unfold checkOptions at h
  unfold flagsGate
  split at h
  · cases h
  · rename_i hb
    split at h
    · cases h
    · rename_i hc
      simp only [Bool.or_eq_true, not_or, Bool.not_eq_true] at hc
      obtain ⟨⟨_, h1⟩, h3⟩ := hc
      simp only [Bool.not_eq_true] at hb
      rw [hb, h1, h3]; rfl

/-- the badfilter and party components of the reference semantics -/
def refGate (opts : List NOpt) (thirdParty : Bool) : Bool :=
  !opts.any (· == .badfilter) && refPartyOk opts thirdParty

theorem refOptions_le_gate (a : Abstract) (oq : OReq) (h : refOptions a oq = true) :
    refGate (a.options.getD []) oq.thirdParty = true := by
  unfold refOptions at h
  unfold refGate
  simp only [Bool.and_eq_true] at h ⊢
  obtain ⟨⟨⟨⟨⟨hb, _⟩, hp⟩, _⟩, _⟩, _⟩ := h
  exact ⟨hb, hp⟩

/-- **For a parsed rule the badfilter / party gate of `check_options` is the reference's**, for every
    request: `check_options` can only accept what the reference's gate accepts, and it rejects
    whenever that gate rejects. -/
theorem parsed_gate_eq_ref (line : Str) (r : Rule) (h : parseNetwork line = .ok r) :
    ∃ parsed, parseAbstract line = .ok parsed ∧
      ∀ q : Request, flagsGate r q = refGate (parsed.options.getD []) q.thirdParty := by
  obtain ⟨parsed, hpa, hf⟩ := parse_flags line r h
  refine ⟨parsed, hpa, ?_⟩
  intro q
  obtain ⟨_, hbad, _, _, _, _, _, h3, h1⟩ := hf
  unfold flagsGate refGate refPartyOk
  rw [hbad, h3, h1]
  cases q.thirdParty <;> simp

theorem parsed_check_implies_ref_gate (line : Str) (r : Rule) (h : parseNetwork line = .ok r) :
    ∃ parsed, parseAbstract line = .ok parsed ∧
      ∀ q : Request, checkOptions r q = true → refGate (parsed.options.getD []) q.thirdParty = true := by
  obtain ⟨parsed, hpa, hg⟩ := parsed_gate_eq_ref line r h
  exact ⟨parsed, hpa, fun q hq => by rw [← hg q]; exact checkOptions_le_gate r q hq⟩

example : (match parseNetwork "@@||a.com^$third-party,important,badfilter".toList with
    | .ok r => r.isException && r.isBadfilter && r.isImportant && r.thirdParty && !r.firstParty
    | .error _ => false) = true := by decide +kernel

end Adb.Props.ParseFlags
