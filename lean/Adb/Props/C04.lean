import Adb.Lemmas.Live
/-
  C04 — Exception, important and badfilter precedence; rule addition is monotone.
  Stated on the rule-by-rule reference verdict (`Spec.verdicts`); C01 relates the engine to it.
-/
namespace Adb.Net
open Adb Adb.Net.Spec

/-- some loaded rule of category `c` matches the request under the tag set -/
def hit (rules : List Rule) (c : Cat) (q : Request) (tags : List Str) : Bool :=
  !(hits ((live rules).filter (fun f => cat f == c)) q tags).isEmpty

/-- "the request is reported blocked" -/
def blocked (rules : List Rule) (tags : List Str) (q : Request) : Bool :=
  q.isSupported &&
    (let important := hit rules .important q tags
     let blocking := important || hit rules .tagged q tags || hit rules .normal q []
     let exception := !important && blocking && hit rules .exception q tags
     blocking && !exception)

/-- every admissible verdict reports `blocked` in its `matched` field -/
theorem verdict_matched_eq (rules : List Rule) (tags : List Str) (st : Store) (q : Request)
    (v : Verdict) (hv : v ∈ verdicts rules tags st q) : v.matched = blocked rules tags q := by
  unfold verdicts at hv
  unfold blocked hit
  cases hs : q.isSupported with
  | false => simp [hs] at hv; subst hv; simp
  | true =>
    simp only [hs, Bool.not_true, Bool.false_eq_true, if_false, List.mem_map] at hv
    obtain ⟨rd, _, rfl⟩ := hv
    simp

theorem hit_iff (rules : List Rule) (c : Cat) (q : Request) (tags : List Str) :
    hit rules c q tags = true ↔
      ∃ f ∈ live rules, cat f = c ∧ f.matches q = true ∧ tagOk f tags = true := by
  unfold hit hits
  rw [Bool.not_eq_true', List.isEmpty_eq_false_iff_exists_mem]
  constructor
  · rintro ⟨f, hf⟩
    simp only [List.mem_filter, Bool.and_eq_true, beq_iff_eq] at hf
    exact ⟨f, hf.1.1, hf.1.2, hf.2.1, hf.2.2⟩
  · rintro ⟨f, h1, h2, h3, h4⟩
    exact ⟨f, by simp only [List.mem_filter, Bool.and_eq_true, beq_iff_eq]; exact ⟨⟨h1, h2⟩, h3, h4⟩⟩

/-- **precedence**: a (supported) request is blocked iff an `$important` blocking rule matches, or
    some blocking rule matches and no active exception rule matches. -/
theorem blocked_iff_spec (rules : List Rule) (tags : List Str) (q : Request) :
    blocked rules tags q = true ↔ q.isSupported = true ∧
      (hit rules .important q tags = true ∨
       ((hit rules .important q tags = true ∨ hit rules .tagged q tags = true ∨ hit rules .normal q [] = true) ∧
        hit rules .exception q tags = false)) := by
  unfold blocked
  cases q.isSupported <;> cases hit rules .important q tags <;> cases hit rules .tagged q tags <;>
    cases hit rules .normal q [] <;> cases hit rules .exception q tags <;> simp

/-! ### badfilter -/

/-- **a `$badfilter` rule never matches anything** -/
theorem badfilter_never_matches (r : Rule) (q : Request) (h : r.isBadfilter = true) : r.matches q = false := by
  simp [Rule.matches, checkOptions, h]

/-- … and is never loaded -/
theorem badfilter_not_live (rules : List Rule) (r : Rule) (h : r.isBadfilter = true) : r ∉ live rules := by
  unfold live; simp [h]

/-- **`z$badfilter` disables `y` iff they have the same pattern and the same matching options**
    (`key` = modifier, mask without the badfilter bit, pattern, hostname, included and excluded domains). -/
theorem badfilter_cancels_iff (rules : List Rule) (y : Rule) (hy : y ∈ rules) (hb : y.isBadfilter = false) :
    y ∉ live rules ↔ ∃ z ∈ rules, z.isBadfilter = true ∧ key z = key y := by
  simp [live, cancels, hy, hb]

/-! ### rule addition is monotone -/

private theorem mem_live_insert (l1 l2 : List Rule) (x f : Rule) (hx : x.isBadfilter = false) :
    f ∈ live (l1 ++ x :: l2) ↔
      f ∈ live (l1 ++ l2) ∨ (f = x ∧ ¬ ∃ z ∈ l1 ++ l2, cancels z x = true) := by
  have hc : ∀ y, cancels x y = false := by intro y; simp [cancels, hx]
  unfold live
  simp only [List.mem_filter, List.mem_append, List.mem_cons, List.any_append, List.any_cons, hc,
    Bool.false_or, Bool.and_eq_true, Bool.not_eq_true', Bool.or_eq_false_iff, List.any_eq_false]
  constructor
  · rintro ⟨hm, hb, h1, h2⟩
    rcases hm with hm | rfl | hm
    · left; exact ⟨Or.inl hm, hb, h1, h2⟩
    · by_cases hin : f ∈ l1 ∨ f ∈ l2
      · left; exact ⟨hin, hb, h1, h2⟩
      · right; refine ⟨rfl, ?_⟩
        rintro ⟨z, hz, hcz⟩
        rcases hz with hz | hz
        · exact absurd hcz (by simp [h1 z hz])
        · exact absurd hcz (by simp [h2 z hz])
    · left; exact ⟨Or.inr hm, hb, h1, h2⟩
  · rintro (⟨hm, hb, h1, h2⟩ | ⟨rfl, hn⟩)
    · refine ⟨?_, hb, h1, h2⟩
      rcases hm with hm | hm
      · exact Or.inl hm
      · exact Or.inr (Or.inr hm)
    · refine ⟨Or.inr (Or.inl rfl), by simpa using hx, ?_, ?_⟩
      · intro z hz; cases hcz : cancels z f with
        | false => simp
        | true => exact absurd ⟨z, Or.inl hz, hcz⟩ hn
      · intro z hz; cases hcz : cancels z f with
        | false => simp
        | true => exact absurd ⟨z, Or.inr hz, hcz⟩ hn

private theorem hit_insert (l1 l2 : List Rule) (x : Rule) (hx : x.isBadfilter = false) (c : Cat)
    (q : Request) (tags : List Str) :
    hit (l1 ++ x :: l2) c q tags = true ↔
      hit (l1 ++ l2) c q tags = true ∨
      ((¬ ∃ z ∈ l1 ++ l2, cancels z x = true) ∧ cat x = c ∧ x.matches q = true ∧ tagOk x tags = true) := by
  rw [hit_iff, hit_iff]
  constructor
  · rintro ⟨f, hf, h1, h2, h3⟩
    rcases (mem_live_insert l1 l2 x f hx).1 hf with hf | ⟨rfl, hn⟩
    · exact Or.inl ⟨f, hf, h1, h2, h3⟩
    · exact Or.inr ⟨hn, h1, h2, h3⟩
  · rintro (⟨f, hf, h1, h2, h3⟩ | ⟨hn, h1, h2, h3⟩)
    · exact ⟨f, (mem_live_insert l1 l2 x f hx).2 (Or.inl hf), h1, h2, h3⟩
    · exact ⟨x, (mem_live_insert l1 l2 x x hx).2 (Or.inr ⟨rfl, hn⟩), h1, h2, h3⟩

private theorem cat_exception_not_blocking (x : Rule) (h : x.isException = true) :
    cat x ≠ .important ∧ cat x ≠ .tagged ∧ cat x ≠ .normal := by
  unfold cat; simp only [h]
  split; · simp
  split; · simp
  split; · simp
  simp

private theorem cat_nonexception (x : Rule) (h : x.isException = false) : cat x ≠ .exception := by
  unfold cat; simp only [h]
  split; · simp
  split; · simp
  split; · simp
  simp only [Bool.false_eq_true, if_false]
  split; · simp
  split; · simp
  split <;> simp

/-- **adding an exception rule can never turn an allowed request into a blocked one** — for every
    list, every insertion position, every tag set and request (the extra rule is not a badfilter). -/
theorem add_exception_antitone (l1 l2 : List Rule) (x : Rule) (tags : List Str) (q : Request)
    (hx : x.isBadfilter = false) (he : x.isException = true)
    (h : blocked (l1 ++ x :: l2) tags q = true) : blocked (l1 ++ l2) tags q = true := by
  rw [blocked_iff_spec] at h ⊢
  obtain ⟨hs, h⟩ := h
  refine ⟨hs, ?_⟩
  obtain ⟨n1, n2, n3⟩ := cat_exception_not_blocking x he
  have keep : ∀ c, c = Cat.important ∨ c = Cat.tagged ∨ c = Cat.normal → ∀ tg,
      hit (l1 ++ x :: l2) c q tg = true → hit (l1 ++ l2) c q tg = true := by
    intro c hc tg hh
    rcases (hit_insert l1 l2 x hx c q tg).1 hh with h1 | ⟨_, h2, _⟩
    · exact h1
    · rcases hc with rfl | rfl | rfl
      · exact absurd h2 n1
      · exact absurd h2 n2
      · exact absurd h2 n3
  rcases h with h | ⟨hb, hex⟩
  · exact Or.inl (keep _ (Or.inl rfl) _ h)
  · right
    constructor
    · rcases hb with hb | hb | hb
      · exact Or.inl (keep _ (Or.inl rfl) _ hb)
      · exact Or.inr (Or.inl (keep _ (Or.inr (Or.inl rfl)) _ hb))
      · exact Or.inr (Or.inr (keep _ (Or.inr (Or.inr rfl)) _ hb))
    · cases hh : hit (l1 ++ l2) .exception q tags with
      | false => rfl
      | true =>
        have := (hit_insert l1 l2 x hx .exception q tags).2 (Or.inl hh)
        rw [this] at hex; cases hex

/-- **adding a blocking (non-exception) rule can never turn a blocked request into an allowed one.** -/
theorem add_blocking_monotone (l1 l2 : List Rule) (x : Rule) (tags : List Str) (q : Request)
    (hx : x.isBadfilter = false) (he : x.isException = false)
    (h : blocked (l1 ++ l2) tags q = true) : blocked (l1 ++ x :: l2) tags q = true := by
  rw [blocked_iff_spec] at h ⊢
  obtain ⟨hs, h⟩ := h
  refine ⟨hs, ?_⟩
  have up : ∀ c tg, hit (l1 ++ l2) c q tg = true → hit (l1 ++ x :: l2) c q tg = true :=
    fun c tg hh => (hit_insert l1 l2 x hx c q tg).2 (Or.inl hh)
  rcases h with h | ⟨hb, hex⟩
  · exact Or.inl (up _ _ h)
  · right
    constructor
    · rcases hb with hb | hb | hb
      · exact Or.inl (up _ _ hb)
      · exact Or.inr (Or.inl (up _ _ hb))
      · exact Or.inr (Or.inr (up _ _ hb))
    · cases hh : hit (l1 ++ x :: l2) .exception q tags with
      | false => rfl
      | true =>
        rcases (hit_insert l1 l2 x hx .exception q tags).1 hh with h1 | ⟨_, h2, _⟩
        · rw [h1] at hex; cases hex
        · exact absurd h2 (cat_nonexception x he)

/-! ### non-vacuity: a concrete list where every hypothesis is met and the conclusion is non-trivial -/
private def mkRule (maskBits : List Nat) (pat : String) (id : Nat) : Rule :=
  { mask := maskBits.foldl (fun m b => m ||| (1 <<< b)) 0, filter := .simple pat.toList, hostname := none,
    domains := none, notDomains := none, domainsUnion := none, notDomainsUnion := none,
    modifier := none, tag := none, id := id.toUInt64 }
private def base : List Nat := [Gen.FROM_SCRIPT, Gen.FROM_HTTPS, Gen.FROM_HTTP, Gen.THIRD_PARTY, Gen.FIRST_PARTY]
private def q0 : Request := mkRequest "script".toList "https://a.com/ads.js".toList "https".toList "a.com".toList
  "a.com".toList false "https://a.com/ads.js".toList
example : blocked [mkRule base "ads" 1] [] q0 = true := by decide
example : blocked ([mkRule base "ads" 1] ++ mkRule (Gen.IS_EXCEPTION :: base) "ads.js" 2 :: []) [] q0 = false := by decide
example : (mkRule (Gen.IS_EXCEPTION :: base) "ads.js" 2).isException = true := by decide

end Adb.Net
