import Adb.Spec.Verdict
/- C04 — theorems follow. -/
namespace Adb.Net
theorem placeholder_C04 : True := trivial
end Adb.Net
