/-
  The `domain=` gate of `check_options` on a parsed rule against the reference (C03): the code compares
  64-bit hashes of the initiator host and its parent domains with the sorted hash lists built at parse
  time (behind a bitwise-union pre-filter); the reference asks whether a listed domain covers the host.
  They agree for every rule line and every initiator host on which the hash does not collide.
-/
import Adb.Props.ParseCompose
namespace Adb.Props.ParseDomains
open Adb Adb.Net Adb.Parse Adb.Gen Adb.Spec Adb.Props.ParseInv Adb.Props.ParseMod Adb.Props.ParseFlags
open Adb.Props.ParseTypes Adb.Props.ParseScheme Adb.Props.ParseCompose

/-! ### the union pre-filter never rejects a listed hash -/

theorem and_or_absorb (h a b : UInt64) (e : h &&& a = h) : h &&& (a ||| b) = h := by
  apply UInt64.eq_of_toBitVec_eq
  have := congrArg UInt64.toBitVec e
  simp at this ⊢
  ext i hi
  have hb := congrArg (fun v => v.getLsbD i) this
  simp at hb ⊢
  intro h1
  simp [hb h1]

theorem and_or_self (h a : UInt64) : h &&& (a ||| h) = h := by
  apply UInt64.eq_of_toBitVec_eq
  simp
  ext i
  simp
  intro h1; simp [h1]

theorem union_keeps (hs : List Hash) (a : Hash) (h : Hash) (hm : h ∈ hs ∨ h &&& a = h) :
    h &&& hs.foldl (· ||| ·) a = h := by
  induction hs generalizing a with
  | nil =>
    rcases hm with hm | hm
    · cases hm
    · exact hm
  | cons x xs ih =>
    simp only [List.foldl_cons]
    apply ih
    rcases hm with hm | hm
    · rcases List.mem_cons.1 hm with rfl | hm
      · exact Or.inr (and_or_self h a)
      · exact Or.inl hm
    · exact Or.inr (and_or_absorb h a x hm)

/-! ### the hash lists built at parse time, member by member -/

/-- `hs` holds exactly the hashes of the strings of `l` -/
def HashesOf (l : List Str) (hs : List Hash) : Prop := ∀ h, h ∈ hs ↔ ∃ d ∈ l, fastHash d = h

theorem mem_dedup_fold (l : List (Bool × Str)) (acc : List (Bool × Str)) (x : Bool × Str) :
    x ∈ l.foldl (fun acc x => if acc.contains x then acc else acc ++ [x]) acc ↔ x ∈ acc ∨ x ∈ l := by
  induction l generalizing acc with
  | nil => simp
  | cons y ys ih =>
    simp only [List.foldl_cons]
    rw [ih]
    split
    · rename_i hc
      have hy : y ∈ acc := by simpa using hc
      constructor
      · rintro (h | h)
        · exact Or.inl h
        · exact Or.inr (List.mem_cons_of_mem _ h)
      · rintro (h | h)
        · exact Or.inl h
        · rcases List.mem_cons.1 h with rfl | h
          · exact Or.inl hy
          · exact Or.inr h
    · constructor
      · rintro (h | h)
        · rcases List.mem_append.1 h with h | h
          · exact Or.inl h
          · have : x = y := by simpa using h
            exact Or.inr (this ▸ List.mem_cons_self)
        · exact Or.inr (List.mem_cons_of_mem _ h)
      · rintro (h | h)
        · exact Or.inl (List.mem_append_left _ h)
        · rcases List.mem_cons.1 h with rfl | h
          · exact Or.inl (List.mem_append_right _ (List.mem_singleton.2 rfl))
          · exact Or.inr h

theorem mem_dedupPairs (l : List (Bool × Str)) (x : Bool × Str) : x ∈ dedupPairs l ↔ x ∈ l := by
  unfold dedupPairs
  rw [mem_dedup_fold]; simp

theorem mem_sortHashes (l : List Hash) (h : Hash) : h ∈ sortHashes l ↔ h ∈ l := by
  unfold sortHashes
  exact (List.mergeSort_perm l _).mem_iff

theorem hashesOf_filter (ds : List (Bool × Str)) (p : Bool × Str → Bool) :
    HashesOf ((ds.filter p).map (·.2)) (sortHashes (((dedupPairs ds).filter p).map (fun x => fastHash x.2))) := by
  intro h
  rw [mem_sortHashes]
  simp only [List.mem_map, List.mem_filter, mem_dedupPairs]
  constructor
  · rintro ⟨x, ⟨hx, hp⟩, rfl⟩
    exact ⟨x.2, ⟨x, ⟨hx, hp⟩, rfl⟩, rfl⟩
  · rintro ⟨d, ⟨x, ⟨hx, hp⟩, rfl⟩, rfl⟩
    exact ⟨x, ⟨hx, hp⟩, rfl⟩

theorem hashesOf_isEmpty (l : List Str) (hs : List Hash) (h : HashesOf l hs) : hs.isEmpty = l.isEmpty := by
  cases l with
  | nil =>
    cases hs with
    | nil => rfl
    | cons x xs =>
      obtain ⟨d, hd, _⟩ := (h x).1 List.mem_cons_self
      cases hd
  | cons d ds =>
    cases hs with
    | nil =>
      have := (h (fastHash d)).2 ⟨d, List.mem_cons_self, rfl⟩
      cases this
    | cons x xs => rfl

/-- string accumulator of the reference against hash accumulator of the parser -/
def RelO : Option (List Str) → Option (List Hash) → Prop
  | none, none => True
  | some l, some hs => HashesOf l hs
  | _, _ => False

/-- the invariant of the option fold on the four `domain=` fields -/
structure DomInv (s : OptState) (aI aE : Option (List Str)) : Prop where
  inc : RelO aI s.domains
  exc : RelO aE s.notDomains
  incU : s.domainsUnion = s.domains.map (fun l => l.foldl (· ||| ·) 0)
  excU : s.notDomainsUnion = s.notDomains.map (fun l => l.foldl (· ||| ·) 0)

theorem applyOption_domfields (s : OptState) (o : NOpt) (h : noDomainOpt o = true) :
    (applyOption s o).domains = s.domains ∧ (applyOption s o).notDomains = s.notDomains ∧
    (applyOption s o).domainsUnion = s.domainsUnion ∧ (applyOption s o).notDomainsUnion = s.notDomainsUnion := by
  cases o with
  | domain ds => simp [noDomainOpt] at h
  | thirdParty b => cases b <;> exact ⟨rfl, rfl, rfl, rfl⟩
  | firstParty b => cases b <;> exact ⟨rfl, rfl, rfl, rfl⟩
  | ctype bit e => cases e <;> exact ⟨rfl, rfl, rfl, rfl⟩
  | _ => exact ⟨rfl, rfl, rfl, rfl⟩

theorem step_nodomain (aI aE : Option (List Str)) (o : NOpt) (h : noDomainOpt o = true) :
    incStep aI o = aI ∧ excStep aE o = aE := by
  cases o <;> first | (simp [noDomainOpt] at h; done) | exact ⟨rfl, rfl⟩

theorem domInv_step (s : OptState) (aI aE : Option (List Str)) (o : NOpt) (h : DomInv s aI aE) :
    DomInv (applyOption s o) (incStep aI o) (excStep aE o) := by
  by_cases hnd : noDomainOpt o = true
  · obtain ⟨h1, h2, h3, h4⟩ := applyOption_domfields s o hnd
    obtain ⟨e1, e2⟩ := step_nodomain aI aE o hnd
    exact ⟨by rw [h1, e1]; exact h.inc, by rw [h2, e2]; exact h.exc, by rw [h3, h1]; exact h.incU,
      by rw [h4, h2]; exact h.excU⟩
  · cases o with
    | domain ds =>
      have hI := hashesOf_filter ds (·.1)
      have hE := hashesOf_filter ds (fun p => !p.1)
      have eI := hashesOf_isEmpty _ _ hI
      have eE := hashesOf_isEmpty _ _ hE
      unfold applyOption incStep excStep
      simp only []
      rw [eI, eE]
      cases hi : ((ds.filter (·.1)).map (·.2)).isEmpty <;> cases he : ((ds.filter (fun p => !p.1)).map (·.2)).isEmpty <;>
        simp only [Bool.false_eq_true, if_false, if_true]
      · exact ⟨hI, hE, rfl, rfl⟩
      · exact ⟨hI, h.exc, rfl, h.excU⟩
      · exact ⟨h.inc, hE, h.incU, rfl⟩
      · exact ⟨h.inc, h.exc, h.incU, h.excU⟩
    | _ => exact absurd rfl hnd

theorem domInv_fold (opts : List NOpt) (s : OptState) (aI aE : Option (List Str)) (h : DomInv s aI aE) :
    DomInv (opts.foldl applyOption s) (opts.foldl incStep aI) (opts.foldl excStep aE) := by
  induction opts generalizing s aI aE with
  | nil => exact h
  | cons o os ih => exact ih _ _ _ (domInv_step s aI aE o h)


/-! ### the initiator's parent domains -/

theorem mem_labelTails (src d : Str) (hd : d ≠ []) : d ∈ labelTails src ↔ ∃ pre, src = pre ++ '.' :: d := by
  induction src with
  | nil =>
    constructor
    · intro h; cases h
    · rintro ⟨pre, h⟩; cases pre <;> cases h
  | cons c rest ih =>
    unfold labelTails
    constructor
    · intro h
      split at h
      · rename_i hc
        simp only [Bool.and_eq_true, beq_iff_eq] at hc
        rcases List.mem_cons.1 h with rfl | h
        · exact ⟨[], by rw [hc.1]; rfl⟩
        · obtain ⟨pre, hp⟩ := ih.1 h
          exact ⟨c :: pre, by rw [hp]; rfl⟩
      · obtain ⟨pre, hp⟩ := ih.1 h
        exact ⟨c :: pre, by rw [hp]; rfl⟩
    · rintro ⟨pre, hp⟩
      cases pre with
      | nil =>
        simp only [List.nil_append, List.cons.injEq] at hp
        obtain ⟨rfl, rfl⟩ := hp
        have : (('.' == '.') && !rest.isEmpty) = true := by
          cases rest with
          | nil => exact absurd rfl hd
          | cons _ _ => rfl
        rw [if_pos this]
        exact List.mem_cons_self
      | cons p ps =>
        simp only [List.cons_append, List.cons.injEq] at hp
        have hm : d ∈ labelTails rest := ih.2 ⟨ps, hp.2⟩
        split
        · exact List.mem_cons_of_mem _ hm
        · exact hm

theorem covers_mem (d src : Str) (hd : d ≠ []) : covers d src = true ↔ d ∈ src :: labelTails src := by
  rw [covers_iff, List.mem_cons, mem_labelTails src d hd]
  constructor
  · rintro (h | h)
    · exact Or.inl h.symm
    · exact Or.inr h
  · rintro (h | h)
    · exact Or.inl h.symm
    · exact Or.inr h

/-! ### the two halves of the gate -/

/-- the hash is injective between the listed domains and the initiator's names -/
def NoCollision (l : List Str) (src : Str) : Prop :=
  ∀ d ∈ l, ∀ s ∈ src :: labelTails src, fastHash d = fastHash s → d = s

theorem inc_gate (l : List Str) (hs : List Hash) (src : Str) (hh : HashesOf l hs) (hne : ∀ d ∈ l, d ≠ [])
    (hinj : NoCollision l src) (hsrc : src ≠ []) :
    let S := fastHash src :: (labelTails src).map fastHash
    ((!S.all (fun h => h &&& hs.foldl (· ||| ·) 0 != h)) && !S.all (fun h => !binLookup hs h)) =
      l.any (fun d => covers d src) := by
  intro S
  have hS : ∀ h, h ∈ S ↔ ∃ s ∈ src :: labelTails src, fastHash s = h := by
    intro h
    show h ∈ fastHash src :: (labelTails src).map fastHash ↔ _
    simp only [List.mem_cons, List.mem_map]
    constructor
    · rintro (rfl | ⟨s, hs', rfl⟩)
      · exact ⟨src, Or.inl rfl, rfl⟩
      · exact ⟨s, Or.inr hs', rfl⟩
    · rintro ⟨s, (rfl | hs'), rfl⟩
      · exact Or.inl rfl
      · exact Or.inr ⟨s, hs', rfl⟩
  rw [Bool.eq_iff_iff]
  simp only [Bool.and_eq_true, Bool.not_eq_true', List.all_eq_false, List.any_eq_true, Bool.not_eq_true,
    bne_iff_ne, ne_eq, Decidable.not_not, Bool.not_eq_false']
  unfold binLookup
  constructor
  · rintro ⟨_, h, hS', hc⟩
    have hmem : h ∈ hs := by simpa using hc
    obtain ⟨s, hs1, rfl⟩ := (hS h).1 hS'
    obtain ⟨d, hd, hdh⟩ := (hh _).1 hmem
    have := hinj d hd s hs1 hdh
    subst this
    exact ⟨d, hd, (covers_mem d src (hne d hd)).2 hs1⟩
  · rintro ⟨d, hd, hc⟩
    have hs1 := (covers_mem d src (hne d hd)).1 hc
    have hS' : fastHash d ∈ S := (hS _).2 ⟨d, hs1, rfl⟩
    have hmem : fastHash d ∈ hs := (hh _).2 ⟨d, hd, rfl⟩
    exact ⟨⟨fastHash d, hS', union_keeps hs 0 _ (Or.inl hmem)⟩, fastHash d, hS', by simpa using hmem⟩

theorem exc_gate (l : List Str) (hs : List Hash) (src : Str) (hh : HashesOf l hs) (hne : ∀ d ∈ l, d ≠ [])
    (hinj : NoCollision l src) :
    let S := fastHash src :: (labelTails src).map fastHash
    (!S.any (fun h => (h &&& hs.foldl (· ||| ·) 0 == h) && binLookup hs h)) = !l.any (fun d => covers d src) := by
  intro S
  have hS : ∀ h, h ∈ S ↔ ∃ s ∈ src :: labelTails src, fastHash s = h := by
    intro h
    show h ∈ fastHash src :: (labelTails src).map fastHash ↔ _
    simp only [List.mem_cons, List.mem_map]
    constructor
    · rintro (rfl | ⟨s, hs', rfl⟩)
      · exact ⟨src, Or.inl rfl, rfl⟩
      · exact ⟨s, Or.inr hs', rfl⟩
    · rintro ⟨s, (rfl | hs'), rfl⟩
      · exact Or.inl rfl
      · exact Or.inr ⟨s, hs', rfl⟩
  congr 1
  rw [Bool.eq_iff_iff]
  simp only [List.any_eq_true, Bool.and_eq_true, beq_iff_eq]
  unfold binLookup
  constructor
  · rintro ⟨h, hS', _, hc⟩
    have hmem : h ∈ hs := by simpa using hc
    obtain ⟨s, hs1, rfl⟩ := (hS h).1 hS'
    obtain ⟨d, hd, hdh⟩ := (hh _).1 hmem
    have := hinj d hd s hs1 hdh
    subst this
    exact ⟨d, hd, (covers_mem d src (hne d hd)).2 hs1⟩
  · rintro ⟨d, hd, hc⟩
    have hs1 := (covers_mem d src (hne d hd)).1 hc
    have hS' : fastHash d ∈ S := (hS _).2 ⟨d, hs1, rfl⟩
    have hmem : fastHash d ∈ hs := (hh _).2 ⟨d, hd, rfl⟩
    exact ⟨fastHash d, hS', union_keeps hs 0 _ (Or.inl hmem), by simpa using hmem⟩


/-! ### assembly -/

/-- every domain a rule's `domain=` / `from=` options list (of the lists that count) -/
def listed (opts : List NOpt) : List Str := (includedDomains opts).getD [] ++ (excludedDomains opts).getD []

/-- **The `domain=` gate of a parsed rule is the reference's**, for every rule line the parser accepts,
    every request whose initiator hashes are those of `src`, when no listed domain is empty and the hash
    does not collide between the listed domains and the initiator's names. -/
theorem parsed_domain_gate (line : Str) (r : Rule) (h : parseNetwork line = .ok r) :
    ∃ parsed, parseAbstract line = .ok parsed ∧
      ∀ (q : Request) (src : Str), q.srcHashes = srcHashesOf src →
        (∀ d ∈ listed (parsed.options.getD []), d ≠ []) → NoCollision (listed (parsed.options.getD [])) src →
        domainGate r q = (refIncOk (parsed.options.getD []) src && refExcOk (parsed.options.getD []) src) := by
  obtain ⟨parsed, opts, st, m0, m1, fStart, m2, filter, host, hpa, hopts, hok, hstEq, _, _, _, _, _, _, _, _, hfin⟩ :=
    parse_pipeline line r h
  refine ⟨parsed, hpa, ?_⟩
  rw [hopts]
  intro q src hq hne hinj
  -- the rule carries the option state's four fields
  have hr : r.domains = st.domains ∧ r.notDomains = st.notDomains ∧ r.domainsUnion = st.domainsUnion ∧
      r.notDomainsUnion = st.notDomainsUnion := by
    unfold finishNetwork at hfin
    split at hfin
    · cases hfin
    · split at hfin
      · cases hfin
      · injection hfin with hfin; subst hfin; exact ⟨rfl, rfl, rfl, rfl⟩
  have hinv : DomInv st (includedDomains opts) (excludedDomains opts) := by
    rw [hstEq]
    exact domInv_fold opts (st0 parsed.exception) none none ⟨trivial, trivial, rfl, rfl⟩
  have hneI : ∀ l, includedDomains opts = some l → (∀ d ∈ l, d ≠ []) ∧ NoCollision l src := by
    intro l hl
    refine ⟨fun d hd => hne d ?_, fun d hd => hinj d ?_⟩ <;>
      (unfold listed; rw [hl]; exact List.mem_append_left _ hd)
  have hneE : ∀ l, excludedDomains opts = some l → (∀ d ∈ l, d ≠ []) ∧ NoCollision l src := by
    intro l hl
    refine ⟨fun d hd => hne d ?_, fun d hd => hinj d ?_⟩ <;>
      (unfold listed; rw [hl]; exact List.mem_append_right _ hd)
  unfold domainGate refIncOk refExcOk
  simp only []
  rw [hr.1, hr.2.1, hr.2.2.1, hr.2.2.2, hinv.incU, hinv.excU, hq]
  congr 1
  · -- inclusion
    have hrel := hinv.inc
    cases hI : includedDomains opts with
    | none =>
      rw [hI] at hrel
      cases hd : st.domains with
      | none => rfl
      | some hs => rw [hd] at hrel; exact absurd hrel (by simp [RelO])
    | some l =>
      rw [hI] at hrel
      cases hd : st.domains with
      | none => rw [hd] at hrel; exact absurd hrel (by simp [RelO])
      | some hs =>
        rw [hd] at hrel
        obtain ⟨hn, hc⟩ := hneI l hI
        unfold srcHashesOf
        by_cases hs0 : src = []
        · subst hs0; rfl
        · have : src.isEmpty = false := by cases src <;> simp_all
          simp only [this, Bool.false_eq_true, if_false, Option.map_some, Bool.not_false, Bool.true_and]
          exact inc_gate l hs src hrel hn hc hs0
  · -- exclusion
    have hrel := hinv.exc
    cases hE : excludedDomains opts with
    | none =>
      rw [hE] at hrel
      cases hd : st.notDomains with
      | none => rfl
      | some hs => rw [hd] at hrel; exact absurd hrel (by simp [RelO])
    | some l =>
      rw [hE] at hrel
      cases hd : st.notDomains with
      | none => rw [hd] at hrel; exact absurd hrel (by simp [RelO])
      | some hs =>
        rw [hd] at hrel
        obtain ⟨hn, hc⟩ := hneE l hE
        unfold srcHashesOf
        by_cases hs0 : src = []
        · subst hs0; rfl
        · have : src.isEmpty = false := by cases src <;> simp_all
          simp only [this, Bool.false_eq_true, if_false, Option.map_some, Bool.false_or]
          exact exc_gate l hs src hrel hn hc

/-- **`check_options ∘ parse = refOptions`** (C03), for every rule line the parser accepts and every
    request in the stated domain, up to hash collisions. -/
theorem check_options_parse_eq_ref (line : Str) (r : Rule) (h : parseNetwork line = .ok r) :
    ∃ parsed, parseAbstract line = .ok parsed ∧
      ∀ (q : Request) (src : Str), q.tyBit ∈ FROM_ALL_TYPES → ¬(q.isHttp = true ∧ q.isHttps = true) →
        parsed.pattern.getLast? ≠ some '*' → q.srcHashes = srcHashesOf src →
        (∀ d ∈ listed (parsed.options.getD []), d ≠ []) → NoCollision (listed (parsed.options.getD [])) src →
        checkOptions r q = refOptions parsed ⟨q.tyBit, q.isHttp, q.isHttps, q.thirdParty, src⟩ := by
  obtain ⟨p1, hp1, hc⟩ := parsed_checkOptions_eq_ref line r h
  obtain ⟨p2, hp2, hd⟩ := parsed_domain_gate line r h
  have e : p2 = p1 := by rw [hp1] at hp2; injection hp2 with e; exact e.symm
  subst e
  exact ⟨p2, hp1, fun q src hty hboth hdeg hq hne hinj => hc q src hty hboth hdeg (hd q src hq hne hinj)⟩

end Adb.Props.ParseDomains
