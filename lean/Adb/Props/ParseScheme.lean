/-
  The scheme flags (`FROM_HTTP`, `FROM_HTTPS`) of a parsed rule: both are set unless the pattern is a
  bare scheme (`|http://`, `|https://`, `|ws://`, `|http*://`, optionally followed by one `*`), in
  which case the scheme-only stage restricts them — the scheme component of `check_options ∘ parse`.
-/
import Adb.Props.ParseTypes
namespace Adb.Props.ParseScheme
open Adb Adb.Net Adb.Parse Adb.Gen Adb.Spec Adb.Props.ParseInv Adb.Props.ParseMod Adb.Props.ParseFlags
open Adb.Props.ParseTypes

/-- the scheme-only stage fires the arm of literal `S` -/
def litCond (S : Str) (mask : Mask) (tail : Str) (fStart fEnd : Nat) : Bool :=
  has mask IS_LEFT_ANCHOR && (fEnd == fStart + S.length && S.isPrefixOf tail)

def fires (S : Str) (mask1 : Mask) (p : Str) (fStart : Nat) : Bool :=
  match trimStars mask1 p fStart with
  | (mA, sA, eA) => litCond S mA (p.drop sA) sA eA

def wsL : Str := ['w', 's', ':', '/', '/']
def httpL : Str := ['h', 't', 't', 'p', ':', '/', '/']
def httpsL : Str := ['h', 't', 't', 'p', 's', ':', '/', '/']
def httpxL : Str := ['h', 't', 't', 'p', '*', ':', '/', '/']

theorem http_lit : "http://".toList = httpL := by decide +kernel
theorem https_lit : "https://".toList = httpsL := by decide +kernel
theorem httpx_lit : "http*://".toList = httpxL := by decide +kernel

/-- is the pattern the literal, optionally followed by one `*`? -/
def isLitText (S p : Str) : Bool := p == S || p == S ++ ['*']

/-- the end of the pattern once a trailing `*` is dropped -/
def fEndOf (p : Str) (fs : Nat) : Nat := if p.length > fs && p.getLast? == some '*' then p.length - 1 else p.length

theorem trimStars_nostar (m : Mask) (p : Str) (fs : Nat) (h : ((p.drop fs).head? == some '*') = false) :
    trimStars m p fs = (m, fs, fEndOf p fs) := by
  unfold trimStars fEndOf
  simp only [h, Bool.and_false, Bool.false_eq_true, if_false]

theorem trimStars_star (m : Mask) (p : Str) (fs : Nat) (h : ((p.drop fs).head? == some '*') = true) :
    trimStars m p fs = (if fEndOf p fs > fs then (setBit m IS_LEFT_ANCHOR false, fs + 1, fEndOf p fs) else (m, fs, fEndOf p fs)) := by
  unfold trimStars fEndOf
  simp only [h, Bool.and_true, decide_eq_true_eq]

theorem isLitText_head (S p : Str) (hS : S ≠ []) (h : isLitText S p = true) : p.head? = S.head? := by
  unfold isLitText at h
  simp only [Bool.or_eq_true, beq_iff_eq] at h
  rcases h with rfl | rfl
  · rfl
  · cases S with
    | nil => exact absurd rfl hS
    | cons a as => rfl

theorem lit_core (S p : Str) (hS : S ≠ []) (hl : S.getLast? ≠ some '*') :
    (fEndOf p 0 == S.length && S.isPrefixOf p) = isLitText S p := by
  unfold isLitText
  by_cases hp : S.isPrefixOf p = true
  · obtain ⟨rest, rfl⟩ := List.isPrefixOf_iff_prefix.1 hp
    rw [hp, Bool.and_true]
    have hSl : 0 < S.length := List.length_pos_iff.2 hS
    match rest with
    | [] =>
      have h1 : fEndOf (S ++ []) 0 = S.length := by
        unfold fEndOf
        rw [List.append_nil]
        have : (S.getLast? == some '*') = false := by simpa using hl
        rw [this, Bool.and_false]; rfl
      rw [h1]; simp
    | [c] =>
      have hlast : (S ++ [c]).getLast? = some c := by simp
      by_cases hc : c = '*'
      · subst hc
        have h1 : fEndOf (S ++ ['*']) 0 = S.length := by
          unfold fEndOf; rw [hlast]; simp
        rw [h1]; simp
      · have h1 : fEndOf (S ++ [c]) 0 = S.length + 1 := by
          unfold fEndOf; rw [hlast]
          have : (some c == some '*') = false := by simpa using hc
          rw [this, Bool.and_false]; simp
        have e1 : (S ++ [c] == S) = false := by
          apply Bool.eq_false_iff.2; intro h
          have := congrArg List.length (beq_iff_eq.1 h); simp at this
        have e2 : (S ++ [c] == S ++ ['*']) = false := by
          apply Bool.eq_false_iff.2; intro h
          have := List.append_cancel_left (beq_iff_eq.1 h)
          simp at this; exact hc this
        rw [h1, e1, e2]; simp
    | c :: d :: r =>
      have h1 : fEndOf (S ++ c :: d :: r) 0 ≥ S.length + 1 := by
        unfold fEndOf; split <;> simp <;> omega
      have e1 : (S ++ c :: d :: r == S) = false := by
        apply Bool.eq_false_iff.2; intro h
        have := congrArg List.length (beq_iff_eq.1 h); simp at this
      have e2 : (S ++ c :: d :: r == S ++ ['*']) = false := by
        apply Bool.eq_false_iff.2; intro h
        have := congrArg List.length (beq_iff_eq.1 h); simp at this
      rw [e1, e2]
      have : (fEndOf (S ++ c :: d :: r) 0 == S.length) = false := by
        apply Bool.eq_false_iff.2; intro h
        have := beq_iff_eq.1 h; omega
      rw [this]; rfl
  · have hp' : S.isPrefixOf p = false := Bool.eq_false_iff.2 hp
    have hne1 : (p == S) = false := by
      apply Bool.eq_false_iff.2; intro h
      have : p = S := by simpa using h
      subst this; simp at hp
    have hne2 : (p == S ++ ['*']) = false := by
      apply Bool.eq_false_iff.2; intro h
      have : p = S ++ ['*'] := by simpa using h
      subst this; simp at hp
    rw [hne1, hne2, hp', Bool.and_false]; rfl

theorem fires_zero (S : Str) (m : Mask) (p : Str) (hS : S ≠ []) (hh : S.head? ≠ some '*')
    (hl : S.getLast? ≠ some '*') : fires S m p 0 = (has m IS_LEFT_ANCHOR && isLitText S p) := by
  unfold fires
  cases hstar : ((p.drop 0).head? == some '*')
  · rw [trimStars_nostar m p 0 hstar]
    simp only [litCond, List.drop_zero, Nat.zero_add]
    rw [lit_core S p hS hl]
  · rw [trimStars_star m p 0 hstar]
    have hlit : isLitText S p = false := by
      apply Bool.eq_false_iff.2; intro h
      have := isLitText_head S p hS h
      rw [List.drop_zero, this] at hstar
      exact hh (by simpa using hstar)
    rw [hlit, Bool.and_false]
    by_cases hz : fEndOf p 0 > 0
    · rw [if_pos hz]; simp [litCond, has_setBit]
    · rw [if_neg hz]
      have hSl : 0 < S.length := List.length_pos_iff.2 hS
      have : (fEndOf p 0 == 0 + S.length) = false := by
        apply Bool.eq_false_iff.2; intro h
        have := beq_iff_eq.1 h; omega
      simp only [litCond, this, Bool.false_and, Bool.and_false]


theorem isPrefixOf_head_ne (S tail : Str) (a c : Char) (hS : S.head? = some a) (ht : tail.head? = some c)
    (hne : c ≠ a) : S.isPrefixOf tail = false := by
  cases S with
  | nil => cases hS
  | cons x xs =>
    cases tail with
    | nil => cases ht
    | cons y ys =>
      simp only [List.head?_cons, Option.some.injEq] at hS ht
      subst hS; subst ht
      simp [List.isPrefixOf, hne.symm]

theorem fires_of_head (S : Str) (m : Mask) (p : Str) (fs : Nat) (a c : Char) (hS : S.head? = some a)
    (h : (p.drop fs).head? = some c) (hc : c ≠ a) : fires S m p fs = false := by
  unfold fires
  cases hstar : ((p.drop fs).head? == some '*')
  · rw [trimStars_nostar m p fs hstar]
    simp only [litCond, isPrefixOf_head_ne S _ a c hS h hc, Bool.and_false]
  · rw [trimStars_star m p fs hstar]
    by_cases hz : fEndOf p fs > fs
    · rw [if_pos hz]; simp [litCond, has_setBit]
    · rw [if_neg hz]
      simp only [litCond, isPrefixOf_head_ne S _ a c hS h hc, Bool.and_false]

theorem fires_at_end (S : Str) (m : Mask) (p : Str) (hS : S ≠ []) : fires S m p p.length = false := by
  have hSl : 0 < S.length := List.length_pos_iff.2 hS
  unfold fires
  have hstar : ((p.drop p.length).head? == some '*') = false := by simp
  rw [trimStars_nostar m p _ hstar]
  have : fEndOf p p.length = p.length := by unfold fEndOf; simp
  simp only [litCond, this]
  have : (p.length == p.length + S.length) = false := by
    apply Bool.eq_false_iff.2; intro h
    have := beq_iff_eq.1 h; omega
  rw [this]; simp

theorem firstSeparator_head3 (p : Str) (i : Nat) (h : firstSeparator p = some i) :
    ∃ c, (p.drop i).head? = some c ∧ (c = '/' ∨ c = '^' ∨ c = '*') := by
  unfold firstSeparator at h
  obtain ⟨hlt, hp, _⟩ := List.findIdx?_eq_some_iff_getElem.1 h
  refine ⟨p[i], ?_, ?_⟩
  · rw [List.head?_drop, List.getElem?_eq_getElem hlt]
  · simpa [or_assoc] using hp

/-- with a `||` host part no scheme arm fires (the filter part starts with a separator) -/
theorem fires_double (S : Str) (a : Char) (hS : S.head? = some a) (ha : a ≠ '/' ∧ a ≠ '^' ∧ a ≠ '*')
    (m0 : Mask) (p : Str) (h19 : has m0 IS_LEFT_ANCHOR = false) (hh : S.head? ≠ some '*')
    (hl : S.getLast? ≠ some '*') :
    fires S (splitHostPart (some .double) m0 p).1 p (splitHostPart (some .double) m0 p).2.2 = false := by
  have hSne : S ≠ [] := by intro e; rw [e] at hS; cases hS
  unfold splitHostPart
  simp only []
  split
  · split
    · rename_i i hi
      obtain ⟨c, hc, hw⟩ := firstSeparator_head3 p i hi
      have hca : c ≠ a := by
        rcases hw with rfl | rfl | rfl
        · exact fun e => ha.1 e.symm
        · exact fun e => ha.2.1 e.symm
        · exact fun e => ha.2.2 e.symm
      split
      · exact fires_at_end S _ _ hSne
      · exact fires_of_head S _ _ _ a c hS hc hca
    · rw [fires_zero S _ _ hSne hh hl, h19]; rfl
  · split
    · rename_i i hi
      exact fires_of_head S _ _ _ a '/' hS (slashIdx_head p i hi) (fun e => ha.1 e.symm)
    · exact fires_at_end S _ _ hSne


/-! ### what the scheme-only stage does to the two scheme flags -/

theorem ws_lit' : "ws://".toList = wsL := by decide +kernel

theorem schemeOnly_http (mask : Mask) (t : Str) (fs fe : Nat) :
    has (schemeOnly mask t fs fe).1 FROM_HTTP =
      (if litCond wsL mask t fs fe then false else if litCond httpL mask t fs fe then true
       else if litCond httpsL mask t fs fe then false else if litCond httpxL mask t fs fe then true
       else has mask FROM_HTTP) := by
  unfold schemeOnly litCond startsWith
  rw [ws_lit', http_lit, https_lit, httpx_lit]
  have l1 : wsL.length = 5 := rfl
  have l2 : httpL.length = 7 := rfl
  have l3 : httpsL.length = 8 := rfl
  have l4 : httpxL.length = 8 := rfl
  rw [l1, l2, l3, l4]
  cases has mask IS_LEFT_ANCHOR
  · simp
  · simp only [if_true, Bool.true_and]
    repeat' split
    all_goals simp_all [has_clearBits, has_setBit, FROM_HTTP, FROM_HTTPS, IS_LEFT_ANCHOR, FROM_WEBSOCKET]

theorem schemeOnly_https (mask : Mask) (t : Str) (fs fe : Nat) :
    has (schemeOnly mask t fs fe).1 FROM_HTTPS =
      (if litCond wsL mask t fs fe then false else if litCond httpL mask t fs fe then false
       else if litCond httpsL mask t fs fe then true else if litCond httpxL mask t fs fe then true
       else has mask FROM_HTTPS) := by
  unfold schemeOnly litCond startsWith
  rw [ws_lit', http_lit, https_lit, httpx_lit]
  have l1 : wsL.length = 5 := rfl
  have l2 : httpL.length = 7 := rfl
  have l3 : httpsL.length = 8 := rfl
  have l4 : httpxL.length = 8 := rfl
  rw [l1, l2, l3, l4]
  cases has mask IS_LEFT_ANCHOR
  · simp
  · simp only [if_true, Bool.true_and]
    repeat' split
    all_goals simp_all [has_clearBits, has_setBit, FROM_HTTP, FROM_HTTPS, IS_LEFT_ANCHOR, FROM_WEBSOCKET]


theorem surgery_http (mask : Mask) (p : Str) (fs : Nat) :
    has (filterSurgery mask p fs).1 FROM_HTTP =
      (if fires wsL mask p fs then false else if fires httpL mask p fs then true
       else if fires httpsL mask p fs then false else if fires httpxL mask p fs then true
       else has mask FROM_HTTP) := by
  have n18 : FROM_HTTP ≠ IS_REGEX := by decide
  unfold filterSurgery fires
  have h1 := trimStars_frame mask p fs FROM_HTTP (by decide)
  split
  rename_i mA sA eA hT
  rw [hT] at h1
  simp only at h1 ⊢
  have hB := schemeOnly_http mA (p.drop sA) sA eA
  rw [h1] at hB
  simp only [hT]
  split
  · simp only [has_setBit_ne _ _ _ _ n18]; exact hB
  · exact hB

theorem surgery_https (mask : Mask) (p : Str) (fs : Nat) :
    has (filterSurgery mask p fs).1 FROM_HTTPS =
      (if fires wsL mask p fs then false else if fires httpL mask p fs then false
       else if fires httpsL mask p fs then true else if fires httpxL mask p fs then true
       else has mask FROM_HTTPS) := by
  have n18 : FROM_HTTPS ≠ IS_REGEX := by decide
  unfold filterSurgery fires
  have h1 := trimStars_frame mask p fs FROM_HTTPS (by decide)
  split
  rename_i mA sA eA hT
  rw [hT] at h1
  simp only at h1 ⊢
  have hB := schemeOnly_https mA (p.drop sA) sA eA
  rw [h1] at hB
  simp only [hT]
  split
  · simp only [has_setBit_ne _ _ _ _ n18]; exact hB
  · exact hB

/-- the last stage leaves a bit that is neither a request type nor negated alone -/
theorem finish_frame (line : Str) (parsed : Abstract) (st : OptState) (mask : Mask) (filter host : Option Str)
    (r : Rule) (h : finishNetwork line parsed st mask filter host = .ok r) (b : Nat) (hb : b ∉ FROM_ALL_TYPES)
    (hn : has st.neg b = false) : has r.mask b = has mask b := by
  unfold finishNetwork at h
  split at h
  · cases h
  · split at h
    · cases h
    · injection h with h; subst h
      simp only
      rw [has_negClear_eq _ _ _ _ hn]
      split
      · rw [has_or, has_maskOf]
        have : FROM_ALL_TYPES.contains b = false := by simpa using hb
        rw [this, Bool.or_false]
      · rfl


/-! ### assembly -/

/-- is the rule `|S` or `|S*`? -/
def bare (S : Str) (a : Abstract) : Bool := a.la == some .single && isLitText S a.pattern

def schemeHttp (a : Abstract) : Bool :=
  if bare wsL a then false else if bare httpL a then true else if bare httpsL a then false else true
def schemeHttps (a : Abstract) : Bool :=
  if bare wsL a then false else if bare httpL a then false else if bare httpsL a then true else true

theorem fires_eq_bare (S : Str) (c : Char) (hS : S.head? = some c) (hc : c ≠ '/' ∧ c ≠ '^' ∧ c ≠ '*')
    (hl : S.getLast? ≠ some '*') (parsed : Abstract) (m0 : Mask)
    (h19 : has m0 IS_LEFT_ANCHOR = (parsed.la == some .single)) :
    fires S (splitHostPart parsed.la m0 parsed.pattern).1 parsed.pattern (splitHostPart parsed.la m0 parsed.pattern).2.2
      = bare S parsed := by
  have hSne : S ≠ [] := by intro e; rw [e] at hS; cases hS
  have hh : S.head? ≠ some '*' := by rw [hS]; intro e; injection e with e; exact hc.2.2 e
  unfold bare
  cases hla : parsed.la with
  | none =>
    have : splitHostPart none m0 parsed.pattern = (m0, none, 0) := rfl
    rw [this, fires_zero S _ _ hSne hh hl, h19, hla]
  | some x =>
    cases x with
    | single =>
      have : splitHostPart (some .single) m0 parsed.pattern = (m0, none, 0) := rfl
      rw [this, fires_zero S _ _ hSne hh hl, h19, hla]
    | double =>
      rw [fires_double S c hS hc m0 parsed.pattern (by rw [h19, hla]; rfl) hh hl]; rfl

/-- **The scheme flags of a parsed rule.** -/
theorem parse_scheme_bits (line : Str) (r : Rule) (h : parseNetwork line = .ok r) :
    ∃ parsed, parseAbstract line = .ok parsed ∧ r.forHttp = schemeHttp parsed ∧ r.forHttps = schemeHttps parsed := by
  obtain ⟨parsed, opts, st, m0, m1, fStart, m2, filter, host, hpa, hopts, hok, hstEq, hm0b, h19, h20, h21, hm1, hfs,
    hm2, hm0, hfin⟩ := parse_pipeline line r h
  refine ⟨parsed, hpa, ?_⟩
  -- both scheme bits are set before the pattern is taken apart
  have before : ∀ b, (b = FROM_HTTP ∨ b = FROM_HTTPS) → has m1 b = true ∧ has st.neg b = false := by
    intro b hb
    have hnt : b ∉ FROM_ALL_TYPES := by rcases hb with rfl | rfl <;> decide
    have hneg : has st.neg b = false := by
      rw [hstEq, fold_neg]
      cases hc : (negatives opts).contains b
      · rfl
      · exact absurd (negatives_sub opts hok b hc) hnt
    refine ⟨?_, hneg⟩
    rw [hm1, splitHost_frame _ _ _ _ (by rcases hb with rfl | rfl <;> decide) (by rcases hb with rfl | rfl <;> decide)
      (by rcases hb with rfl | rfl <;> decide) (by rcases hb with rfl | rfl <;> decide),
      hm0b b (by rcases hb with rfl | rfl <;> decide)]
    unfold maskBeforePattern
    rw [anchorStage_frame _ _ _ (by rcases hb with rfl | rfl <;> decide) (by rcases hb with rfl | rfl <;> decide)
      (by rcases hb with rfl | rfl <;> decide) (by rcases hb with rfl | rfl <;> decide), typeStage_has]
    have hmask : has st.mask b = true := by
      rw [hstEq, option_mask_set_bits _ _ _ (by rcases hb with rfl | rfl <;> decide)
        (by rcases hb with rfl | rfl <;> decide)]
      have : has (st0 parsed.exception).mask b = true := by
        show has (mask0 parsed.exception) b = true
        rw [has_mask0]; rcases hb with rfl | rfl <;> cases parsed.exception <;> decide
      rw [this]; rfl
    simp only [hmask, Bool.true_or]
  have fw := fires_eq_bare wsL 'w' rfl (by decide) (by decide) parsed m0 h19
  have fh := fires_eq_bare httpL 'h' rfl (by decide) (by decide) parsed m0 h19
  have fs := fires_eq_bare httpsL 'h' rfl (by decide) (by decide) parsed m0 h19
  rw [← hm1, ← hfs] at fw fh fs
  constructor
  · show has r.mask FROM_HTTP = _
    rw [finish_frame _ _ _ _ _ _ _ hfin _ (by decide) (before _ (Or.inl rfl)).2, hm2, surgery_http, fw, fh, fs,
      (before _ (Or.inl rfl)).1]
    unfold schemeHttp
    repeat' split
    all_goals rfl
  · show has r.mask FROM_HTTPS = _
    rw [finish_frame _ _ _ _ _ _ _ hfin _ (by decide) (before _ (Or.inr rfl)).2, hm2, surgery_https, fw, fh, fs,
      (before _ (Or.inr rfl)).1]
    unfold schemeHttps
    repeat' split
    all_goals rfl

end Adb.Props.ParseScheme
