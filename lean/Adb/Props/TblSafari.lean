/-
  Safari resource types of the request-type options.
  The table is re-extracted from the source on every run; its independent statement is in `Adb.Spec.Tables`.
-/
import Adb.Generated.Tables
import Adb.Spec.Tables
namespace Adb.Props.TblSafari
open Adb

/-- position of a mask flag, by name -/
def flagPos (name : String) : Option Nat := Gen.maskFlags.lookup name

/-- the Safari resource type of each request-type option -/
theorem safari_types_as_specified :
    Gen.cbTypeFlags.map (fun p => (some p.1, p.2)) = Spec.networkTypeFlags_cb.map (fun n => (flagPos n, Spec.safariTypeOf n)) := by
  decide

end Adb.Props.TblSafari
