/-
  The request-type bits of a parsed rule, stage by stage (towards `check_options ∘ parse = refOptions`).
-/
import Adb.Props.ParseFlags
namespace Adb.Props.ParseTypes
open Adb Adb.Net Adb.Parse Adb.Gen Adb.Spec Adb.Props.ParseInv Adb.Props.ParseMod Adb.Props.ParseFlags

set_option hygiene false in
macro "typecases" h:ident : tactic => `(tactic|
  (simp only [FROM_ALL_TYPES, List.mem_cons, List.mem_nil_iff, or_false] at $h:ident
   rcases $h:ident with rfl | rfl | rfl | rfl | rfl | rfl | rfl | rfl | rfl | rfl | rfl | rfl))

/-- a request-type bit is none of the flag / anchor bits -/
theorem type_ne (t : Nat) (ht : t ∈ FROM_ALL_TYPES) :
    t ≠ IS_REMOVEPARAM ∧ t ≠ IS_REGEX ∧ t ≠ IS_LEFT_ANCHOR ∧ t ≠ IS_RIGHT_ANCHOR ∧ t ≠ IS_HOSTNAME_ANCHOR ∧
    t ≠ IS_COMPLETE_REGEX ∧ t ≠ IS_HOSTNAME_REGEX ∧ t ≠ FROM_HTTP ∧ t ≠ FROM_HTTPS ∧ t ≠ IS_EXCEPTION ∧
    t ≠ THIRD_PARTY ∧ t ≠ FIRST_PARTY := by
  typecases ht <;> decide

theorem has_setBit_ne (m : Mask) (b t : Nat) (v : Bool) (h : t ≠ b) : has (setBit m b v) t = has m t := by
  rw [has_setBit, if_neg h]

/-- bits of the anchor stage -/
theorem anchorStage_has (parsed : Abstract) (m : Mask) (b : Nat) :
    has (anchorStage parsed m) b =
      (if b = IS_REGEX then checkIsRegex parsed.pattern
       else if b = IS_RIGHT_ANCHOR ∧ parsed.ra = true then true
       else if b = IS_HOSTNAME_ANCHOR ∧ parsed.la = some .double then true
       else if b = IS_LEFT_ANCHOR ∧ parsed.la = some .single then true
       else has m b) := by
  have n1 : IS_RIGHT_ANCHOR ≠ IS_REGEX := by decide
  have n2 : IS_HOSTNAME_ANCHOR ≠ IS_REGEX := by decide
  have n3 : IS_LEFT_ANCHOR ≠ IS_REGEX := by decide
  have n4 : IS_HOSTNAME_ANCHOR ≠ IS_RIGHT_ANCHOR := by decide
  have n5 : IS_LEFT_ANCHOR ≠ IS_RIGHT_ANCHOR := by decide
  have n6 : IS_LEFT_ANCHOR ≠ IS_HOSTNAME_ANCHOR := by decide
  unfold anchorStage
  simp only [has_setBit]
  by_cases h18 : b = IS_REGEX
  · simp [h18]
  · rw [if_neg h18, if_neg h18]
    cases hra : parsed.ra <;> cases hla : parsed.la with
    | none => simp [has_setBit]
    | some x =>
      cases x <;> simp [has_setBit] <;>
        (by_cases h20 : b = IS_RIGHT_ANCHOR <;> by_cases h21 : b = IS_HOSTNAME_ANCHOR <;> by_cases h19 : b = IS_LEFT_ANCHOR <;>
          simp_all)

theorem anchorStage_frame (parsed : Abstract) (m : Mask) (b : Nat) (h18 : b ≠ IS_REGEX) (h19 : b ≠ IS_LEFT_ANCHOR)
    (h20 : b ≠ IS_RIGHT_ANCHOR) (h21 : b ≠ IS_HOSTNAME_ANCHOR) : has (anchorStage parsed m) b = has m b := by
  rw [anchorStage_has, if_neg h18, if_neg (fun h => h20 h.1), if_neg (fun h => h21 h.1), if_neg (fun h => h19 h.1)]

/-- bits of the type stage -/
theorem typeStage_has (st : OptState) (b : Nat) :
    has (typeStage st) b =
      (let rp := has st.mask IS_REMOVEPARAM || has st.pos IS_REMOVEPARAM
       has st.mask b || has st.pos b
        || (!rp && hasAny st.neg FROM_NETWORK_TYPES && FROM_NETWORK_TYPES.contains b)
        || (!hasAny st.pos FROM_ALL_TYPES &&
              (if rp then [FROM_DOCUMENT, FROM_SUBDOCUMENT, FROM_XMLHTTPREQUEST].contains b
               else FROM_NETWORK_TYPES.contains b))) := by
  have rpN : IS_REMOVEPARAM ∉ FROM_NETWORK_TYPES := by decide
  unfold typeStage
  simp only []
  generalize hasAny st.neg FROM_NETWORK_TYPES = nn
  generalize hasAny st.pos FROM_ALL_TYPES = pa
  cases hrp : (has st.mask IS_REMOVEPARAM || has st.pos IS_REMOVEPARAM) <;> cases nn <;> cases pa <;>
    simp [has_or, has_maskOf, hrp, rpN, Bool.or_assoc]

theorem maskBefore_type (parsed : Abstract) (st : OptState) (t : Nat) (ht : t ∈ FROM_ALL_TYPES) :
    has (maskBeforePattern parsed st) t = has (typeStage st) t := by
  obtain ⟨_, h18, h19, h20, h21, _⟩ := type_ne t ht
  unfold maskBeforePattern
  exact anchorStage_frame parsed _ t h18 h19 h20 h21

/-! ### frames of the later stages, for any bit they do not write -/

theorem markComplete_frame (mask : Mask) (p : Str) (m : Mask) (h : markComplete mask p = .ok m) (b : Nat)
    (hb : b ≠ IS_COMPLETE_REGEX) : has m b = has mask b := by
  unfold markComplete at h
  simp only at h
  split at h
  · injection h with h; subst h; exact has_setBit_ne _ _ _ _ hb
  · split at h
    · cases h
    · injection h with h; subst h; rfl

theorem splitHost_frame (la : Option LAnchor) (mask : Mask) (p : Str) (b : Nat)
    (h28 : b ≠ IS_HOSTNAME_REGEX) (h18 : b ≠ IS_REGEX) (h20 : b ≠ IS_RIGHT_ANCHOR) (h19 : b ≠ IS_LEFT_ANCHOR) :
    has (splitHostPart la mask p).1 b = has mask b := by
  unfold splitHostPart
  simp only []
  repeat' split
  all_goals simp only [has_setBit_ne _ _ _ _ h28, has_setBit_ne _ _ _ _ h18, has_setBit_ne _ _ _ _ h20,
    has_setBit_ne _ _ _ _ h19]

theorem trimStars_frame (mask : Mask) (p : Str) (fs : Nat) (b : Nat) (h19 : b ≠ IS_LEFT_ANCHOR) :
    has (trimStars mask p fs).1 b = has mask b := by
  unfold trimStars
  simp only []
  repeat' split
  all_goals simp only [has_setBit_ne _ _ _ _ h19]

/-- when the scheme-only stage turns the rule into a websocket-scheme rule -/
def wsCond (mask : Mask) (tail : Str) (fStart fEnd : Nat) : Bool :=
  has mask IS_LEFT_ANCHOR && (fEnd == fStart + 5 && startsWith "ws://" tail)

theorem has_clearBits_ne (l : List Nat) (m : Mask) (b : Nat) (h : b ∉ l) : has (clearBits m l) b = has m b := by
  rw [has_clearBits]
  have : l.contains b = false := by simpa using h
  rw [this]; simp

theorem schemeOnly_frame (mask : Mask) (t : Str) (fs fe : Nat) (b : Nat)
    (h8 : b ≠ FROM_WEBSOCKET) (h11 : b ≠ FROM_HTTP) (h12 : b ≠ FROM_HTTPS) (h19 : b ≠ IS_LEFT_ANCHOR) :
    has (schemeOnly mask t fs fe).1 b = has mask b := by
  unfold schemeOnly
  repeat' split
  all_goals first
    | rfl
    | (simp only []
       rw [has_clearBits_ne _ _ _ (by simp [h11, h12, h19])]
       simp only [has_setBit_ne _ _ _ _ h8, has_setBit_ne _ _ _ _ h11, has_setBit_ne _ _ _ _ h12])

theorem schemeOnly_ws (mask : Mask) (t : Str) (fs fe : Nat) :
    has (schemeOnly mask t fs fe).1 FROM_WEBSOCKET = (has mask FROM_WEBSOCKET || wsCond mask t fs fe) := by
  have e1 : FROM_WEBSOCKET ∉ [FROM_HTTP, FROM_HTTPS, IS_LEFT_ANCHOR] := by decide
  have e2 : FROM_WEBSOCKET ∉ [FROM_HTTPS, IS_LEFT_ANCHOR] := by decide
  have e3 : FROM_WEBSOCKET ∉ [FROM_HTTP, IS_LEFT_ANCHOR] := by decide
  have e4 : FROM_WEBSOCKET ∉ [IS_LEFT_ANCHOR] := by decide
  have n11 : FROM_WEBSOCKET ≠ FROM_HTTP := by decide
  have n12 : FROM_WEBSOCKET ≠ FROM_HTTPS := by decide
  unfold schemeOnly wsCond
  split
  · rename_i hl
    rw [hl]
    split
    · rename_i hc
      simp only [has_clearBits_ne _ _ _ e1, has_setBit, if_true, hc, Bool.true_and, Bool.or_true]
    · rename_i hc
      have hc' : (fe == fs + 5 && startsWith "ws://" t) = false := by simpa using hc
      rw [hc']
      repeat' split
      all_goals simp only [has_clearBits_ne _ _ _ e2, has_clearBits_ne _ _ _ e3, has_clearBits_ne _ _ _ e4,
        has_setBit_ne _ _ _ _ n11, has_setBit_ne _ _ _ _ n12, Bool.and_false, Bool.or_false]
  · rename_i hl
    have : has mask IS_LEFT_ANCHOR = false := by simpa using hl
    rw [this]; simp

theorem has_negClear_full (neg : Mask) (l : List Nat) (m : Mask) (b : Nat) :
    has (l.foldl (fun m b => if has neg b then setBit m b false else m) m) b =
      (has m b && !(has neg b && l.contains b)) := by
  induction l generalizing m with
  | nil => simp
  | cons x xs ih =>
    simp only [List.foldl_cons, ih, List.contains_cons]
    by_cases e : b = x
    · subst e
      cases hn : has neg b
      · simp
      · simp [has_setBit]
    · have e' : (b == x) = false := by simpa using e
      rw [e', Bool.false_or]
      split
      · rw [has_setBit_ne _ _ _ _ e]
      · rfl


/-- does the scheme-only stage fire its `ws://` arm for this pattern? -/
def wsFires (mask1 : Mask) (p : Str) (fStart : Nat) : Bool :=
  match trimStars mask1 p fStart with
  | (mA, sA, eA) => wsCond mA (p.drop sA) sA eA

theorem surgery_type (mask : Mask) (p : Str) (fs : Nat) (t : Nat) (ht : t ∈ FROM_ALL_TYPES) :
    has (filterSurgery mask p fs).1 t = (has mask t || (t == FROM_WEBSOCKET && wsFires mask p fs)) := by
  obtain ⟨_, h18, h19, _, _, _, _, h11, h12, _⟩ := type_ne t ht
  unfold filterSurgery wsFires
  have h1 := trimStars_frame mask p fs t h19
  split
  rename_i mA sA eA hT
  rw [hT] at h1
  simp only at h1 ⊢
  have hB : has (schemeOnly mA (p.drop sA) sA eA).1 t =
      (has mask t || (t == FROM_WEBSOCKET && wsCond mA (p.drop sA) sA eA)) := by
    by_cases e : t = FROM_WEBSOCKET
    · subst e
      rw [schemeOnly_ws, h1]; simp
    · rw [schemeOnly_frame _ _ _ _ _ e h11 h12 h19, h1]
      have : (t == FROM_WEBSOCKET) = false := by simpa using e
      rw [this]; simp
  simp only [hT]
  split
  · simp only [has_setBit_ne _ _ _ _ h18]; exact hB
  · exact hB

/-- the implicit-all condition of the last stage -/
def allCond (parsed : Abstract) (st : OptState) (mask : Mask) : Bool :=
  !hasAny st.pos FROM_ALL_TYPES && !hasAny st.neg FROM_ALL_TYPES && has mask IS_HOSTNAME_ANCHOR
    && has mask IS_RIGHT_ANCHOR && !parsed.ra && !has mask IS_REMOVEPARAM

theorem finish_type (line : Str) (parsed : Abstract) (st : OptState) (mask : Mask) (filter host : Option Str)
    (r : Rule) (h : finishNetwork line parsed st mask filter host = .ok r) (t : Nat) (ht : t ∈ FROM_ALL_TYPES) :
    has r.mask t = ((has mask t || allCond parsed st mask) && !has st.neg t) := by
  have hlt : (List.range 32).contains t = true := by typecases ht <;> decide
  have hall : FROM_ALL_TYPES.contains t = true := by simpa using ht
  unfold finishNetwork at h
  split at h
  · cases h
  · split at h
    · cases h
    · injection h with h; subst h
      simp only
      rw [has_negClear_full, hlt, Bool.and_true]
      congr 1
      unfold allCond
      split
      · rename_i hc
        rw [hc, has_or, has_maskOf, hall]
      · rename_i hc
        have : (!hasAny st.pos FROM_ALL_TYPES && !hasAny st.neg FROM_ALL_TYPES && has mask IS_HOSTNAME_ANCHOR &&
            has mask IS_RIGHT_ANCHOR && !parsed.ra && !has mask IS_REMOVEPARAM) = false := by simpa using hc
        rw [this, Bool.or_false]


/-! ### the option state in terms of the option list -/

theorem any_contains_comm (l1 l2 : List Nat) : l1.any (fun b => l2.contains b) = l2.any (fun b => l1.contains b) := by
  rw [Bool.eq_iff_iff]
  simp only [List.any_eq_true, List.contains_iff_mem]
  constructor
  · rintro ⟨x, h1, h2⟩; exact ⟨x, h2, h1⟩
  · rintro ⟨x, h1, h2⟩; exact ⟨x, h2, h1⟩

/-- the state the option fold starts from -/
def st0 (e : Bool) : OptState := { mask := mask0 e }

theorem fold_pos (opts : List NOpt) (e : Bool) (b : Nat) :
    has (opts.foldl applyOption (st0 e)).pos b = (positives opts).contains b := by
  rw [option_pos_bits, positives_contains]; simp [st0, has_zero]

theorem fold_neg (opts : List NOpt) (e : Bool) (b : Nat) :
    has (opts.foldl applyOption (st0 e)).neg b = (negatives opts).contains b := by
  rw [option_neg_bits, negatives_contains]; simp [st0, has_zero]

theorem hasAny_pos (opts : List NOpt) (e : Bool) (l : List Nat) :
    hasAny (opts.foldl applyOption (st0 e)).pos l = (positives opts).any (fun b => l.contains b) := by
  unfold hasAny
  rw [← any_contains_comm]
  congr 1; funext b; exact fold_pos opts e b

theorem hasAny_neg (opts : List NOpt) (e : Bool) (l : List Nat) :
    hasAny (opts.foldl applyOption (st0 e)).neg l = (negatives opts).any (fun b => l.contains b) := by
  unfold hasAny
  rw [← any_contains_comm]
  congr 1; funext b; exact fold_neg opts e b

def isCspOpt : NOpt → Bool
  | .csp _ => true
  | _ => false

theorem isCspRule_eq (opts : List NOpt) : isCspRule opts = opts.any isCspOpt := by
  unfold isCspRule; congr 1

theorem setsB_type (o : NOpt) (t : Nat) (ht : t ∈ FROM_ALL_TYPES) :
    setsB t o = (isCspOpt o && t == FROM_DOCUMENT) := by
  typecases ht <;> cases o <;>
    first
      | rfl
      | decide
      | (simp [setsB, setsBit, modifierBits, isCspOpt]; done)
      | (simp [setsB, setsBit, modifierBits, isCspOpt] <;> decide)

theorem fold_mask_type (opts : List NOpt) (e : Bool) (t : Nat) (ht : t ∈ FROM_ALL_TYPES) :
    has (opts.foldl applyOption (st0 e)).mask t = (isCspRule opts && t == FROM_DOCUMENT) := by
  obtain ⟨_, _, _, _, _, _, _, _, _, hex, h3, h1⟩ := type_ne t ht
  rw [option_mask_set_bits _ _ _ h3 h1]
  have h0 : has (st0 e).mask t = false := by
    show has (mask0 e) t = false
    rw [has_mask0]
    have : (t == IS_EXCEPTION) = false := by simpa using hex
    rw [this, Bool.and_false, Bool.or_false]
    typecases ht <;> decide
  rw [h0, Bool.false_or]
  rw [isCspRule_eq]
  induction opts with
  | nil => rfl
  | cons o os ih =>
    simp only [List.any_cons]
    rw [ih, setsB_type o t ht]
    cases isCspOpt o <;> simp

theorem fold_mask_rp (opts : List NOpt) (e : Bool) :
    has (opts.foldl applyOption (st0 e)).mask IS_REMOVEPARAM = Spec.isRemoveparam opts := by
  rw [option_mask_set_bits _ _ _ (by decide) (by decide)]
  have h0 : has (st0 e).mask IS_REMOVEPARAM = false := by
    show has (mask0 e) _ = false
    rw [has_mask0]; cases e <;> decide
  rw [h0, Bool.false_or]
  unfold Spec.isRemoveparam
  congr 1; funext o; cases o <;> first | rfl | (simp [setsB, setsBit, modifierBits] <;> decide)


/-! ### when the `ws://` arm fires -/

theorem ws_lit : "ws://".toList = ['w', 's', ':', '/', '/'] := by decide +kernel

theorem startsWith_ws_head (tail : Str) (c : Char) (h : tail.head? = some c) (hc : c ≠ 'w') :
    startsWith "ws://" tail = false := by
  unfold startsWith
  rw [ws_lit]
  cases tail with
  | nil => cases h
  | cons d ds =>
    simp only [List.head?_cons, Option.some.injEq] at h
    subst h
    simp [List.isPrefixOf, hc.symm]

theorem startsWith_ws_nil : startsWith "ws://" [] = false := by
  unfold startsWith; rw [ws_lit]; rfl

/-- the pattern is `ws://` or `ws://*` -/
def isWsText (p : Str) : Bool := p == ['w', 's', ':', '/', '/'] || p == ['w', 's', ':', '/', '/', '*']

/-- without a host part: the arm fires iff the rule is left-anchored and the pattern is `ws://` / `ws://*` -/
theorem wsFires_zero (m : Mask) (p : Str) : wsFires m p 0 = (has m IS_LEFT_ANCHOR && isWsText p) := by
  unfold wsFires trimStars wsCond isWsText startsWith
  rw [ws_lit]
  simp only [List.drop_zero, Nat.zero_add]
  by_cases hp : (['w', 's', ':', '/', '/'] : Str).isPrefixOf p = true
  · obtain ⟨rest, rfl⟩ := List.isPrefixOf_iff_prefix.1 hp
    match rest with
    | [] => simp
    | [c] =>
      by_cases hc : c = '*'
      · subst hc; simp
      · simp [hc]
    | c :: d :: r =>
      have hl : ('w' :: 's' :: ':' :: '/' :: '/' :: c :: d :: r).getLast? = (d :: r).getLast? := by
        simp [List.getLast?_cons_cons]
      simp only [List.cons_append, List.nil_append, List.length_cons, hl]
      split <;> simp <;> omega
  · have hp' : (['w', 's', ':', '/', '/'] : Str).isPrefixOf p = false := Bool.eq_false_iff.2 hp
    have hne1 : (p == ['w', 's', ':', '/', '/']) = false := by
      apply Bool.eq_false_iff.2; intro h
      have : p = ['w', 's', ':', '/', '/'] := by simpa using h
      subst this; simp at hp
    have hne2 : (p == ['w', 's', ':', '/', '/', '*']) = false := by
      apply Bool.eq_false_iff.2; intro h
      have : p = ['w', 's', ':', '/', '/', '*'] := by simpa using h
      subst this; simp at hp
    rw [hne1, hne2]
    simp only [Bool.or_self, Bool.and_false]
    repeat' split
    all_goals simp [hp', has_setBit]


theorem wsFires_of_head (m : Mask) (p : Str) (fs : Nat) (c : Char) (h : (p.drop fs).head? = some c) (hc : c ≠ 'w') :
    wsFires m p fs = false := by
  unfold wsFires trimStars wsCond
  simp only []
  repeat' split
  all_goals first
    | (rw [startsWith_ws_head _ c h hc]; simp; done)
    | (simp [has_setBit]; done)

theorem wsFires_at_end (m : Mask) (p : Str) : wsFires m p p.length = false := by
  unfold wsFires trimStars wsCond
  simp

theorem firstSeparator_head (p : Str) (i : Nat) (h : firstSeparator p = some i) :
    ∃ c, (p.drop i).head? = some c ∧ c ≠ 'w' := by
  unfold firstSeparator at h
  obtain ⟨hlt, hp, _⟩ := List.findIdx?_eq_some_iff_getElem.1 h
  refine ⟨p[i], ?_, ?_⟩
  · rw [List.head?_drop, List.getElem?_eq_getElem hlt]
  · intro e
    rw [e] at hp
    revert hp; decide

theorem slashIdx_head (p : Str) (i : Nat) (h : p.findIdx? (· == '/') = some i) :
    (p.drop i).head? = some '/' := by
  obtain ⟨hlt, hp, _⟩ := List.findIdx?_eq_some_iff_getElem.1 h
  rw [List.head?_drop, List.getElem?_eq_getElem hlt]
  have : p[i] = '/' := by simpa using hp
  rw [this]

/-- with a `||` host part the `ws://` arm never fires -/
theorem wsFires_double (m0 : Mask) (p : Str) (h19 : has m0 IS_LEFT_ANCHOR = false) :
    wsFires (splitHostPart (some .double) m0 p).1 p (splitHostPart (some .double) m0 p).2.2 = false := by
  unfold splitHostPart
  simp only []
  split
  · split
    · rename_i i hi
      obtain ⟨c, hc, hw⟩ := firstSeparator_head p i hi
      split
      · exact wsFires_at_end _ _
      · exact wsFires_of_head _ _ _ c hc hw
    · rw [wsFires_zero, h19]; rfl
  · split
    · rename_i i hi
      exact wsFires_of_head _ _ _ '/' (slashIdx_head p i hi) (by decide)
    · exact wsFires_at_end _ _



/-! ### the right anchor of `||host^`, for the implicit-all condition -/

/-- the pattern is a host followed by exactly one `^` -/
def caretOnly (p : Str) : Bool :=
  checkIsRegex p && (match firstSeparator p with
    | some i => p.length - i == 1 && (p.drop i).head? == some '^'
    | none => false)

theorem splitHost_right (la : Option LAnchor) (m : Mask) (p : Str) :
    has (splitHostPart la m p).1 IS_RIGHT_ANCHOR = (has m IS_RIGHT_ANCHOR || (la == some .double && caretOnly p)) := by
  have n1 : IS_RIGHT_ANCHOR ≠ IS_REGEX := by decide
  have n2 : IS_RIGHT_ANCHOR ≠ IS_LEFT_ANCHOR := by decide
  have n3 : IS_RIGHT_ANCHOR ≠ IS_HOSTNAME_REGEX := by decide
  unfold splitHostPart caretOnly
  simp only []
  split
  · -- `||`
    simp only [beq_self_eq_true, Bool.true_and]
    split
    · rename_i hr
      rw [hr, Bool.true_and]
      split
      · rename_i i hi
        simp only [hi]
        split
        · rename_i hc; rw [hc]; simp [has_setBit]
        · rename_i hc
          have : (p.length - i == 1 && (p.drop i).head? == some '^') = false := by simpa using hc
          rw [this, Bool.or_false, has_setBit_ne _ _ _ _ n1, has_setBit_ne _ _ _ _ n2]
          split
          · exact has_setBit_ne _ _ _ _ n3
          · rfl
      · rename_i hn; simp [hn]
    · rename_i hr
      have : checkIsRegex p = false := by simpa using hr
      rw [this, Bool.false_and, Bool.or_false]
      split
      · exact has_setBit_ne _ _ _ _ n2
      · rfl
  · rename_i hla
    have : (la == some LAnchor.double) = false := by
      cases la with
      | none => rfl
      | some x => cases x <;> simp_all
    rw [this, Bool.false_and, Bool.or_false]

theorem drop_eq_caret (p : Str) (i : Nat) :
    (p.drop i == ['^']) = (p.length - i == 1 && (p.drop i).head? == some '^') := by
  have hl : (p.drop i).length = p.length - i := List.length_drop
  rw [← hl]
  cases p.drop i with
  | nil => rfl
  | cons c r =>
    cases r with
    | nil => by_cases hc : c = '^' <;> simp [hc]
    | cons d r' => simp

theorem hostOnlyCaret_eq (a : Abstract) :
    hostOnlyCaret a = (a.la == some .double && !a.ra && caretOnly a.pattern) := by
  unfold hostOnlyCaret caretOnly
  congr 1
  cases firstSeparator a.pattern with
  | none => simp
  | some i => simp only [drop_eq_caret]; rw [Bool.and_comm]


theorem surgery_frame (mask : Mask) (p : Str) (fs : Nat) (b : Nat) (h19 : b ≠ IS_LEFT_ANCHOR) (h8 : b ≠ FROM_WEBSOCKET)
    (h11 : b ≠ FROM_HTTP) (h12 : b ≠ FROM_HTTPS) (h18 : b ≠ IS_REGEX) :
    has (filterSurgery mask p fs).1 b = has mask b := by
  unfold filterSurgery
  have h1 := trimStars_frame mask p fs b h19
  split
  rename_i mA sA eA hT
  rw [hT] at h1
  simp only at h1 ⊢
  have hB := schemeOnly_frame mA (p.drop sA) sA eA b h8 h11 h12 h19
  split
  · simp only [has_setBit_ne _ _ _ _ h18]; rw [hB, h1]
  · simp only []; rw [hB, h1]

/-! ### type options only name request types -/

theorem positives_sub (opts : List NOpt) (hok : ∀ o ∈ opts, optOK o) (b : Nat)
    (h : (positives opts).contains b = true) : b ∈ FROM_ALL_TYPES := by
  rw [positives_contains] at h
  obtain ⟨o, ho, hb⟩ := List.any_eq_true.1 h
  have hk := hok o ho
  cases o with
  | ctype bit e =>
    cases e with
    | true => simp only [posB, beq_iff_eq] at hb; subst hb; exact hk
    | false => simp [posB] at hb
  | document => simp only [posB, beq_iff_eq] at hb; subst hb; decide
  | _ => simp [posB] at hb

theorem negatives_sub (opts : List NOpt) (hok : ∀ o ∈ opts, optOK o) (b : Nat)
    (h : (negatives opts).contains b = true) : b ∈ FROM_ALL_TYPES := by
  rw [negatives_contains] at h
  obtain ⟨o, ho, hb⟩ := List.any_eq_true.1 h
  have hk := hok o ho
  cases o with
  | ctype bit e =>
    cases e with
    | false => simp only [negB, beq_iff_eq] at hb; subst hb; exact hk
    | true => simp [negB] at hb
  | _ => simp [negB] at hb

/-- the structural bits the option fold never produces -/
theorem fold_struct (opts : List NOpt) (hok : ∀ o ∈ opts, optOK o) (e : Bool) (b : Nat)
    (hb : b = IS_LEFT_ANCHOR ∨ b = IS_RIGHT_ANCHOR ∨ b = IS_HOSTNAME_ANCHOR) :
    has (opts.foldl applyOption (st0 e)).mask b = false ∧ has (opts.foldl applyOption (st0 e)).pos b = false := by
  have hnt : b ∉ FROM_ALL_TYPES := by rcases hb with rfl | rfl | rfl <;> decide
  constructor
  · rw [option_mask_set_bits _ _ _ (by rcases hb with rfl | rfl | rfl <;> decide)
        (by rcases hb with rfl | rfl | rfl <;> decide)]
    have h0 : has (st0 e).mask b = false := by
      show has (mask0 e) b = false
      rw [has_mask0]; rcases hb with rfl | rfl | rfl <;> cases e <;> decide
    rw [h0, Bool.false_or, List.any_eq_false]
    intro o _
    rcases hb with rfl | rfl | rfl <;> cases o <;>
      first
        | decide
        | (simp [setsB, setsBit, modifierBits]; done)
        | (simp [setsB, setsBit, modifierBits] <;> decide)
  · rw [fold_pos]
    cases h : (positives opts).contains b
    · rfl
    · exact absurd (positives_sub opts hok b h) hnt

theorem typeStage_struct (st : OptState) (b : Nat)
    (hb : b = IS_LEFT_ANCHOR ∨ b = IS_RIGHT_ANCHOR ∨ b = IS_HOSTNAME_ANCHOR)
    (hm : has st.mask b = false) (hp : has st.pos b = false) : has (typeStage st) b = false := by
  have hN : FROM_NETWORK_TYPES.contains b = false := by rcases hb with rfl | rfl | rfl <;> decide
  have hD : [FROM_DOCUMENT, FROM_SUBDOCUMENT, FROM_XMLHTTPREQUEST].contains b = false := by
    rcases hb with rfl | rfl | rfl <;> decide
  rw [typeStage_has]
  simp only [hm, hp, hN, hD, Bool.and_false, Bool.or_false, ite_self]


/-! ### assembly -/

/-- the request types of a parsed rule, from its abstract form (`ws` is the only place where the
    degenerate spelling `|ws://*` differs from `Spec.typeAllowed`) -/
def typeBits (a : Abstract) (opts : List NOpt) (t : Nat) : Bool :=
  let P := positives opts
  let N := negatives opts
  let rp := Spec.isRemoveparam opts
  ((isCspRule opts && t == FROM_DOCUMENT) || P.contains t
    || (!rp && N.any (fun b => FROM_NETWORK_TYPES.contains b) && FROM_NETWORK_TYPES.contains t)
    || (!P.any (fun b => FROM_ALL_TYPES.contains b) &&
          (if rp then [FROM_DOCUMENT, FROM_SUBDOCUMENT, FROM_XMLHTTPREQUEST].contains t else FROM_NETWORK_TYPES.contains t))
    || (t == FROM_WEBSOCKET && (a.la == some .single && isWsText a.pattern))
    || (!P.any (fun b => FROM_ALL_TYPES.contains b) && !N.any (fun b => FROM_ALL_TYPES.contains b)
          && (a.la == some .double && !a.ra && caretOnly a.pattern) && !rp))
  && !N.contains t

/-- what every successful parse went through, with the anchor bits of the intermediate masks -/
theorem parse_pipeline (line : Str) (r : Rule) (h : parseNetwork line = .ok r) :
    ∃ parsed opts st m0 m1 fStart m2 filter host,
      parseAbstract line = .ok parsed ∧ parsed.options.getD [] = opts ∧ (∀ o ∈ opts, optOK o) ∧
      st = opts.foldl applyOption (st0 parsed.exception) ∧
      (∀ b, b ≠ IS_COMPLETE_REGEX → has m0 b = has (maskBeforePattern parsed st) b) ∧
      has m0 IS_LEFT_ANCHOR = (parsed.la == some .single) ∧ has m0 IS_RIGHT_ANCHOR = parsed.ra ∧
      has m0 IS_HOSTNAME_ANCHOR = (parsed.la == some .double) ∧
      m1 = (splitHostPart parsed.la m0 parsed.pattern).1 ∧ fStart = (splitHostPart parsed.la m0 parsed.pattern).2.2 ∧
      m2 = (filterSurgery m1 parsed.pattern fStart).1 ∧
      markComplete (maskBeforePattern parsed st) parsed.pattern = .ok m0 ∧
      finishNetwork line parsed st m2 filter host = .ok r := by
  obtain ⟨parsed, st, m0, m1, host0, fStart, m2, filter, host, hpa, hst, hm0, hs, hf, _, hfin⟩ :=
    parse_stages line r h
  have hok0 := parseAbstract_options line parsed hpa
  have hok : ∀ o ∈ parsed.options.getD [], optOK o := by
    intro o ho
    cases hopt : parsed.options with
    | none => rw [hopt] at ho; cases ho
    | some os => rw [hopt] at ho; exact hok0 os hopt o ho
  -- the option state
  have hstEq : st = (parsed.options.getD []).foldl applyOption (st0 parsed.exception) := by
    unfold optionState at hst
    simp only at hst
    split at hst
    · rename_i opts ho
      split at hst
      · cases hst
      · injection hst with hst; subst hst; rw [ho]; rfl
    · rename_i ho
      injection hst with hst; subst hst; rw [ho]; rfl
  generalize hopts : parsed.options.getD [] = opts at hok hstEq ⊢
  -- structural bits of the masks
  have hstruct : ∀ b, (b = IS_LEFT_ANCHOR ∨ b = IS_RIGHT_ANCHOR ∨ b = IS_HOSTNAME_ANCHOR) → has (typeStage st) b = false := by
    intro b hb
    have := fold_struct opts hok parsed.exception b hb
    rw [← hstEq] at this
    exact typeStage_struct st b hb this.1 this.2
  have hm0b : ∀ b, b ≠ IS_COMPLETE_REGEX → has m0 b = has (maskBeforePattern parsed st) b :=
    fun b hb => markComplete_frame _ _ _ hm0 b hb
  have h19 : has m0 IS_LEFT_ANCHOR = (parsed.la == some .single) := by
    rw [hm0b _ (by decide)]
    unfold maskBeforePattern
    rw [anchorStage_has, if_neg (by decide), if_neg (fun h => absurd h.1 (by decide)),
      if_neg (fun h => absurd h.1 (by decide)), hstruct _ (Or.inl rfl)]
    cases parsed.la with
    | none => rfl
    | some x => cases x <;> simp
  have h20 : has m0 IS_RIGHT_ANCHOR = parsed.ra := by
    rw [hm0b _ (by decide)]
    unfold maskBeforePattern
    rw [anchorStage_has, if_neg (by decide), hstruct _ (Or.inr (Or.inl rfl))]
    have n1 : IS_RIGHT_ANCHOR ≠ IS_HOSTNAME_ANCHOR := by decide
    have n2 : IS_RIGHT_ANCHOR ≠ IS_LEFT_ANCHOR := by decide
    cases parsed.ra <;> simp [n1, n2]
  have h21 : has m0 IS_HOSTNAME_ANCHOR = (parsed.la == some .double) := by
    rw [hm0b _ (by decide)]
    unfold maskBeforePattern
    rw [anchorStage_has, if_neg (by decide), if_neg (fun h => absurd h.1 (by decide)),
      hstruct _ (Or.inr (Or.inr rfl))]
    have n1 : IS_HOSTNAME_ANCHOR ≠ IS_LEFT_ANCHOR := by decide
    have e1 : (LAnchor.single == LAnchor.double) = false := by decide
    cases parsed.la with
    | none => rfl
    | some x => cases x <;> simp [n1, e1]
  have hm1 : m1 = (splitHostPart parsed.la m0 parsed.pattern).1 := by rw [hs]
  have hfs : fStart = (splitHostPart parsed.la m0 parsed.pattern).2.2 := by rw [hs]
  have hm2 : m2 = (filterSurgery m1 parsed.pattern fStart).1 := by rw [hf]
  exact ⟨parsed, opts, st, m0, m1, fStart, m2, filter, host, hpa, hopts, hok, hstEq, hm0b, h19, h20, h21, hm1, hfs, hm2, hm0, hfin⟩

/-- **The request-type bits of a parsed rule**, for every rule line the parser accepts. -/
theorem parse_type_bits (line : Str) (r : Rule) (h : parseNetwork line = .ok r) :
    ∃ parsed, parseAbstract line = .ok parsed ∧
      ∀ t ∈ FROM_ALL_TYPES, has r.mask t = typeBits parsed (parsed.options.getD []) t := by
  obtain ⟨parsed, opts, st, m0, m1, fStart, m2, filter, host, hpa, hopts, hok, hstEq, hm0b, h19, h20, h21, hm1, hfs,
    hm2, hm0, hfin⟩ := parse_pipeline line r h
  refine ⟨parsed, hpa, ?_⟩
  rw [hopts]
  -- the ws arm
  have hws : wsFires m1 parsed.pattern fStart = (parsed.la == some .single && isWsText parsed.pattern) := by
    rw [hm1, hfs]
    cases hla : parsed.la with
    | none =>
      have : splitHostPart none m0 parsed.pattern = (m0, none, 0) := rfl
      rw [this, wsFires_zero, h19, hla]
    | some x =>
      cases x with
      | single =>
        have : splitHostPart (some .single) m0 parsed.pattern = (m0, none, 0) := rfl
        rw [this, wsFires_zero, h19, hla]
      | double =>
        rw [wsFires_double m0 parsed.pattern (by rw [h19, hla]; rfl)]; rfl
  -- the implicit-all condition
  have hall : allCond parsed st m2 =
      (!(positives opts).any (fun b => FROM_ALL_TYPES.contains b) && !(negatives opts).any (fun b => FROM_ALL_TYPES.contains b)
        && (parsed.la == some .double && !parsed.ra && caretOnly parsed.pattern) && !Spec.isRemoveparam opts) := by
    unfold allCond
    have e21 : has m2 IS_HOSTNAME_ANCHOR = (parsed.la == some .double) := by
      rw [hm2, surgery_frame _ _ _ _ (by decide) (by decide) (by decide) (by decide) (by decide), hm1,
        splitHost_frame _ _ _ _ (by decide) (by decide) (by decide) (by decide), h21]
    have e20 : has m2 IS_RIGHT_ANCHOR = (parsed.ra || (parsed.la == some .double && caretOnly parsed.pattern)) := by
      rw [hm2, surgery_frame _ _ _ _ (by decide) (by decide) (by decide) (by decide) (by decide), hm1,
        splitHost_right, h20]
    have e15 : has m2 IS_REMOVEPARAM = Spec.isRemoveparam opts := by
      have hfl : IS_REMOVEPARAM ∈ flagBits := by decide
      have hpn := fold_pos_neg_flag opts hok (st0 parsed.exception) rfl rfl _ hfl
      rw [hm2, surgery_flag _ _ _ _ hfl, hm1, splitHost_flag _ _ _ _ hfl, markComplete_flag _ _ _ hm0 _ hfl,
        maskBefore_flag _ _ _ hfl, hstEq, hpn.1, Bool.or_false, fold_mask_rp]
    rw [e21, e20, e15, hstEq, hasAny_pos, hasAny_neg]
    cases parsed.ra <;> cases (parsed.la == some LAnchor.double) <;> simp
  intro t ht
  obtain ⟨_, hn18, hn19, hn20, _, hn24, hn28, _⟩ := type_ne t ht
  rw [finish_type _ _ _ _ _ _ _ hfin t ht, hall, hm2, surgery_type _ _ _ _ ht, hws, hm1,
    splitHost_frame _ _ _ _ hn28 hn18 hn20 hn19, hm0b t hn24, maskBefore_type _ _ _ ht, typeStage_has]
  have hrp : (has st.mask IS_REMOVEPARAM || has st.pos IS_REMOVEPARAM) = Spec.isRemoveparam opts := by
    have hfl : IS_REMOVEPARAM ∈ flagBits := by decide
    have hpn := fold_pos_neg_flag opts hok (st0 parsed.exception) rfl rfl _ hfl
    rw [hstEq, hpn.1, Bool.or_false, fold_mask_rp]
  simp only [hrp]
  rw [hstEq, fold_mask_type _ _ _ ht, fold_pos, fold_neg, hasAny_pos, hasAny_neg]
  unfold typeBits
  simp only [Bool.and_assoc, Bool.or_assoc]


/-- outside the degenerate spelling `|ws://*`, `typeBits` is the reference's `typeAllowed` -/
theorem typeBits_eq_ref (a : Abstract) (opts : List NOpt) (t : Nat) (ht : t ∈ FROM_ALL_TYPES)
    (hdeg : ¬(a.la = some .single ∧ a.pattern = ['w', 's', ':', '/', '/', '*'])) :
    typeBits a opts t = typeAllowed a opts t := by
  have hall : FROM_ALL_TYPES.contains t = true := by simpa using ht
  have hws : (a.la == some LAnchor.single && isWsText a.pattern) = wsPattern a := by
    unfold wsPattern isWsText
    rw [ws_lit]
    by_cases h1 : a.la = some .single
    · by_cases h2 : a.pattern = ['w', 's', ':', '/', '/', '*']
      · exact absurd ⟨h1, h2⟩ hdeg
      · have : (a.pattern == ['w', 's', ':', '/', '/', '*']) = false := by simpa using h2
        rw [this, Bool.or_false]
    · have : (a.la == some LAnchor.single) = false := by simpa using h1
      rw [this]; rfl
  unfold typeBits typeAllowed
  simp only []
  rw [hws, hostOnlyCaret_eq, hall, Bool.and_true]
  congr 1
  generalize (positives opts).contains t = x1
  generalize (isCspRule opts && t == FROM_DOCUMENT) = x2
  generalize (!Spec.isRemoveparam opts && (negatives opts).any FROM_NETWORK_TYPES.contains && FROM_NETWORK_TYPES.contains t) = x3
  generalize (!(positives opts).any FROM_ALL_TYPES.contains &&
    (if Spec.isRemoveparam opts = true then [FROM_DOCUMENT, FROM_SUBDOCUMENT, FROM_XMLHTTPREQUEST].contains t
      else FROM_NETWORK_TYPES.contains t)) = x4
  generalize (wsPattern a) = x5
  generalize (t == FROM_WEBSOCKET) = x6
  generalize (!(positives opts).any FROM_ALL_TYPES.contains) = x7
  generalize (!(negatives opts).any FROM_ALL_TYPES.contains) = x8
  generalize (a.la == some LAnchor.double && !a.ra && caretOnly a.pattern) = x9
  generalize (!Spec.isRemoveparam opts) = x10
  cases x1 <;> cases x2 <;> cases x3 <;> cases x4 <;> cases x5 <;> cases x6 <;> cases x7 <;> cases x8 <;> cases x9 <;>
    cases x10 <;> rfl

end Adb.Props.ParseTypes
