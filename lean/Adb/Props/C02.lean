import Adb.Spec.Pattern
/-
  C02 — A rule's pattern matches a URL exactly when ABP pattern semantics say so.

  * `matchHere_sound` / `matchHere_complete`: the matcher that stands for the regex text emitted by
    `compile_regex` decides the declarative relation `MatchesAt` (every pattern, every input).
  * `plain_*`: on literal-only patterns it coincides with prefix / suffix / infix / equality — so the
    four "plain" fast paths of `check_pattern` are the regex semantics (`dispatch_plain_eq_regex`).
  * the weakening relations hold for all patterns, degenerate ones included.
-/
namespace Adb.Net
open Adb Adb.Spec

theorem starLoop_true_iff (k : Str → Bool) (s : Str) :
    starLoop k s = true ↔ ∃ t, t.IsSuffix s ∧ k t = true := by
  induction s with
  | nil =>
    simp only [starLoop]
    constructor
    · intro h; exact ⟨[], List.suffix_refl _, h⟩
    · rintro ⟨t, ht, hk⟩
      have : t = [] := by simpa using ht
      subst this; exact hk
  | cons c s ih =>
    simp only [starLoop, Bool.or_eq_true, ih]
    constructor
    · rintro (h | ⟨t, ht, hk⟩)
      · exact ⟨c :: s, List.suffix_refl _, h⟩
      · exact ⟨t, List.IsSuffix.trans ht (List.suffix_cons c s), hk⟩
    · rintro ⟨t, ht, hk⟩
      rcases List.suffix_cons_iff.1 ht with rfl | h
      · exact Or.inl hk
      · exact Or.inr ⟨t, h, hk⟩

/-- `*` may consume any prefix -/
private theorem matchesAt_star_suffix {ps : List PElem} {s t r : Str} (hsuf : t.IsSuffix s)
    (h : MatchesAt ps t r) : MatchesAt (.star :: ps) s r := by
  obtain ⟨pre, rfl⟩ := hsuf
  induction pre with
  | nil => exact .starSkip h
  | cons c cs ih => exact .starTake ih

/-- **sound**: whenever the matcher accepts, the declarative relation holds (and the whole input was
    consumed when an end anchor is present) -/
theorem matchHere_sound (toEnd : Bool) (ps : List PElem) (s : Str)
    (h : matchHere toEnd ps s = true) : ∃ r, MatchesAt ps s r ∧ (toEnd = true → r = []) := by
  induction ps generalizing s with
  | nil =>
    simp only [matchHere, Bool.or_eq_true, Bool.not_eq_true'] at h
    refine ⟨s, .nil s, ?_⟩
    intro ht; rcases h with h | h
    · rw [ht] at h; cases h
    · simpa using h
  | cons p ps ih =>
    cases p with
    | lit c =>
      cases s with
      | nil => simp [matchHere] at h
      | cons d s' =>
        simp only [matchHere, Bool.and_eq_true, beq_iff_eq] at h
        obtain ⟨r, hr, he⟩ := ih s' h.2
        exact ⟨r, h.1 ▸ .lit hr, he⟩
    | sep =>
      cases s with
      | nil =>
        simp only [matchHere] at h
        have : ps = [] := by simpa using h
        subst this
        exact ⟨[], .sepEnd, fun _ => rfl⟩
      | cons d s' =>
        simp only [matchHere, Bool.and_eq_true] at h
        obtain ⟨r, hr, he⟩ := ih s' h.2
        exact ⟨r, .sepChar h.1 hr, he⟩
    | never => simp [matchHere] at h
    | star =>
      simp only [matchHere] at h
      obtain ⟨t, ht, hk⟩ := (starLoop_true_iff _ s).1 h
      obtain ⟨r, hr, he⟩ := ih t hk
      exact ⟨r, matchesAt_star_suffix ht hr, he⟩

/-- **complete**: whenever the declarative relation holds, the matcher accepts -/
theorem matchHere_complete (ps : List PElem) (s r : Str) (h : MatchesAt ps s r) :
    matchHere false ps s = true ∧ (r = [] → matchHere true ps s = true) := by
  induction h with
  | nil s => constructor <;> simp [matchHere]
  | lit _ ih => simp [matchHere, ih.1]; intro hr; exact ih.2 hr
  | @starSkip ps s r _ ih =>
    constructor
    · simp only [matchHere]; exact (starLoop_true_iff _ s).2 ⟨s, List.suffix_refl _, ih.1⟩
    · intro hr; simp only [matchHere]; exact (starLoop_true_iff _ s).2 ⟨s, List.suffix_refl _, ih.2 hr⟩
  | @starTake ps c s r _ ih =>
    constructor
    · have := ih.1; simp only [matchHere] at this ⊢
      obtain ⟨t, ht, hk⟩ := (starLoop_true_iff _ s).1 this
      exact (starLoop_true_iff _ (c :: s)).2 ⟨t, List.IsSuffix.trans ht (List.suffix_cons c s), hk⟩
    · intro hr
      have := ih.2 hr; simp only [matchHere] at this ⊢
      obtain ⟨t, ht, hk⟩ := (starLoop_true_iff _ s).1 this
      exact (starLoop_true_iff _ (c :: s)).2 ⟨t, List.IsSuffix.trans ht (List.suffix_cons c s), hk⟩
  | sepChar hc _ ih => simp [matchHere, hc, ih.1]; intro hr; exact ih.2 hr
  | sepEnd => simp [matchHere]

/-- the matcher decides the relation -/
theorem matchHere_iff (ps : List PElem) (s : Str) :
    (matchHere false ps s = true ↔ ∃ r, MatchesAt ps s r) ∧
    (matchHere true ps s = true ↔ MatchesAt ps s []) := by
  refine ⟨⟨fun h => ?_, fun ⟨r, h⟩ => (matchHere_complete ps s r h).1⟩, ⟨fun h => ?_, fun h => (matchHere_complete ps s [] h).2 rfl⟩⟩
  · obtain ⟨r, hr, _⟩ := matchHere_sound false ps s h; exact ⟨r, hr⟩
  · obtain ⟨r, hr, he⟩ := matchHere_sound true ps s h; rw [he rfl] at hr; exact hr

/-! ### weakening relations (all patterns, degenerate ones included) -/

/-- `p|` ⇒ `p` : dropping the end anchor only adds matches -/
theorem weaken_right_anchor (ps : List PElem) (s : Str) (h : matchHere true ps s = true) :
    matchHere false ps s = true := by
  obtain ⟨r, hr, _⟩ := matchHere_sound true ps s h
  exact (matchHere_complete ps s r hr).1

private theorem matchAnywhere_of_suffix (toEnd : Bool) (ps : List PElem) (s t : Str) (hs : t.IsSuffix s)
    (h : matchHere toEnd ps t = true) : matchAnywhere toEnd ps s = true := by
  induction s with
  | nil =>
    have : t = [] := by simpa using hs
    subst this; simpa [matchAnywhere] using h
  | cons c cs ih =>
    rcases List.suffix_cons_iff.1 hs with rfl | h'
    · simp [matchAnywhere, h]
    · simp [matchAnywhere, ih h']

/-- `|p` ⇒ `p` : dropping the start anchor only adds matches -/
theorem weaken_left_anchor (toEnd : Bool) (ps : List PElem) (s : Str) (h : matchHere toEnd ps s = true) :
    matchAnywhere toEnd ps s = true :=
  matchAnywhere_of_suffix toEnd ps s s (List.suffix_refl _) h

/-- `a` ⇒ `a*` : appending a wildcard only adds matches — for element lists that do not end in
    `^` (a trailing `^` may match the end of the input, `^*` needs a separator character; at the rule
    level `NetworkFilter::parse` strips a trailing `*`, so `p^*` and `p^` are the same rule) -/
theorem weaken_trailing_star (ps : List PElem) (s : Str) (hlast : ps.getLast? ≠ some .sep)
    (h : matchHere false ps s = true) : matchHere false (ps ++ [.star]) s = true := by
  induction ps generalizing s with
  | nil => simp only [List.nil_append, matchHere]; exact (starLoop_true_iff _ s).2 ⟨s, List.suffix_refl _, by simp [matchHere]⟩
  | cons p ps ih =>
    have hlast' : ps ≠ [] → ps.getLast? ≠ some .sep := by
      intro hne
      rw [List.getLast?_cons_of_ne_nil hne] at hlast
      exact hlast
    cases p with
    | lit c =>
      cases s with
      | nil => simp [matchHere] at h
      | cons d s' =>
        simp only [matchHere, Bool.and_eq_true] at h
        simp only [List.cons_append, matchHere, Bool.and_eq_true]
        refine ⟨h.1, ?_⟩
        by_cases hne : ps = []
        · subst hne; exact ih s' (by simp) h.2
        · exact ih s' (hlast' hne) h.2
    | sep =>
      cases s with
      | nil =>
        simp only [matchHere] at h
        have : ps = [] := by simpa using h
        subst this
        simp at hlast
      | cons d s' =>
        simp only [matchHere, Bool.and_eq_true] at h
        simp only [List.cons_append, matchHere, Bool.and_eq_true]
        refine ⟨h.1, ?_⟩
        by_cases hne : ps = []
        · subst hne; exact ih s' (by simp) h.2
        · exact ih s' (hlast' hne) h.2
    | never => simp [matchHere] at h
    | star =>
      simp only [matchHere] at h
      simp only [List.cons_append, matchHere]
      obtain ⟨t, ht, hk⟩ := (starLoop_true_iff _ s).1 h
      by_cases hne : ps = []
      · subst hne; exact (starLoop_true_iff _ s).2 ⟨t, ht, ih t (by simp) hk⟩
      · exact (starLoop_true_iff _ s).2 ⟨t, ht, ih t (hlast' hne) hk⟩

/-! ### the plain fast paths are the regex semantics -/

/-- a pattern without `*` and `^` is a list of literals -/
def isPlain (f : Str) : Bool := !f.contains '*' && !f.contains '^'

theorem isPlain_cons {c : Char} {cs : Str} (h : isPlain (c :: cs) = true) :
    c ≠ '*' ∧ c ≠ '^' ∧ isPlain cs = true := by
  unfold isPlain at h ⊢
  simp only [List.contains_cons, Bool.not_or, Bool.and_eq_true, Bool.not_eq_true', beq_eq_false_iff_ne, ne_eq] at h
  simp only [Bool.and_eq_true, Bool.not_eq_true']
  exact ⟨fun e => h.1.1 e.symm, fun e => h.2.1 e.symm, h.1.2, h.2.2⟩

theorem elemOf_plain {c : Char} (h1 : c ≠ '*') (h2 : c ≠ '^') : elemOf c = .lit c := by
  simp [elemOf, h1, h2]

theorem elems_plain (f : Str) (h : isPlain f = true) : elems f = f.map PElem.lit := by
  fun_induction elems f with
  | case1 => rfl
  | case2 c => obtain ⟨h1, h2, _⟩ := isPlain_cons h; simp [elemOf_plain h1 h2]
  | case3 c d =>
    obtain ⟨h1, h2, h'⟩ := isPlain_cons h
    obtain ⟨h3, h4, _⟩ := isPlain_cons h'
    simp [elemOf_plain h1 h2, elemOf_plain h3 h4]
  | case4 c d e rest hcd ih =>
    obtain ⟨_, h2, _⟩ := isPlain_cons h
    simp only [Bool.and_eq_true, beq_iff_eq] at hcd
    exact absurd hcd.1 h2
  | case5 c d e rest hcd ih =>
    obtain ⟨h1, h2, h'⟩ := isPlain_cons h
    simp [elemOf_plain h1 h2, ih h']

theorem plain_prefix (f s : Str) : matchHere false (f.map PElem.lit) s = f.isPrefixOf s := by
  induction f generalizing s with
  | nil => simp [matchHere]
  | cons c cs ih =>
    cases s with
    | nil => simp [matchHere]
    | cons d s' => simp [matchHere, ih s', List.isPrefixOf]

theorem plain_exact (f s : Str) : matchHere true (f.map PElem.lit) s = (s == f) := by
  induction f generalizing s with
  | nil => cases s <;> simp [matchHere]
  | cons c cs ih =>
    cases s with
    | nil => simp [matchHere]
    | cons d s' =>
      simp only [List.map_cons, matchHere, ih s']
      rw [Bool.eq_iff_iff]
      simp only [Bool.and_eq_true, beq_iff_eq, List.cons.injEq]
      constructor
      · rintro ⟨h1, h2⟩; exact ⟨h1.symm, h2⟩
      · rintro ⟨h1, h2⟩; exact ⟨h1.symm, h2⟩

theorem plain_infix (f s : Str) : matchAnywhere false (f.map PElem.lit) s = (findSub f s).isSome := by
  induction s with
  | nil => cases f <;> simp [matchAnywhere, findSub, matchHere]
  | cons c cs ih =>
    simp only [matchAnywhere, findSub, plain_prefix, ih]
    cases hp : f.isPrefixOf (c :: cs) <;> simp

theorem plain_suffix (f s : Str) : matchAnywhere true (f.map PElem.lit) s = f.isSuffixOf s := by
  induction s with
  | nil =>
    cases f with
    | nil => simp [matchAnywhere, matchHere]
    | cons a as => simp [matchAnywhere, matchHere, List.isSuffixOf]
  | cons c cs ih =>
    simp only [matchAnywhere, plain_exact, ih]
    rw [Bool.eq_iff_iff]
    simp only [Bool.or_eq_true, beq_iff_eq, List.isSuffixOf_iff_suffix] -- f <:+ c :: cs
    rw [List.suffix_cons_iff]
    constructor
    · rintro (h | h); exact Or.inl h.symm; exact Or.inr h
    · rintro (h | h); exact Or.inl h.symm; exact Or.inr h

/-- **dispatch = regex semantics**: for a rule that is not hostname-anchored and not a complete
    regex, whose pattern is a single string and whose `IS_REGEX` flag says whether the pattern
    contains `*` / `^` (what the parser establishes), `check_pattern` — through whichever of its
    five non-hostname paths the mask selects — equals the regex semantics of the pattern with the
    rule's anchors. -/
theorem dispatch_plain_eq_regex (r : Rule) (q : Request) (f : Str)
    (hf : r.filter = .simple f) (hh : r.isHostnameAnchor = false) (hc : r.isCompleteRegex = false)
    (hne : f ≠ []) (hflag : r.isRegex = !isPlain f) :
    checkPattern r q = regexOne r.isLeftAnchor r.isRightAnchor f (reqUrl r q) := by
  unfold checkPattern
  simp only [hh, hc, hf, FilterPart.items, Bool.false_eq_true, if_false, Bool.or_false]
  cases hp : isPlain f with
  | false =>
    simp only [hflag, hp, Bool.not_false, if_true]
    unfold regexMatches
    have hfe : f.isEmpty = false := by cases f <;> simp_all
    simp [hflag, hp, hc, hf, FilterPart.items, hfe]
  | true =>
    simp only [hflag, hp, Bool.not_true, Bool.false_eq_true, if_false]
    unfold regexOne
    rw [elems_plain f hp]
    have hfe : f.isEmpty = false := by cases f <;> simp_all
    cases r.isLeftAnchor <;> cases r.isRightAnchor <;>
      simp only [Bool.and_self, Bool.and_true, Bool.and_false, Bool.false_eq_true, if_false, if_true,
        List.any_cons, List.any_nil, Bool.or_false, List.isEmpty_cons, Bool.false_or,
        plain_prefix, plain_exact, plain_infix, plain_suffix]

/-! ### non-vacuity / concrete semantics -/
example : matchAnywhere false (elems "ad^".toList) "https://x.com/ad".toList = true := by decide
example : matchAnywhere false (elems "ad^*x".toList) "https://x.com/ad".toList = false := by decide
example : matchHere false (elems "https://*.com^".toList) "https://x.com/ad".toList = true := by decide
example : refMatch ⟨false, some .double, "ads.net^".toList, false, none⟩ "https://xads.net.ads.net/x".toList "xads.net.ads.net".toList = true := by decide

end Adb.Net
