import Adb.Model.Removeparam
/-
  C14 — removeparam rewrites remove exactly the named parameters and nothing else.
  Property theorems only (helper lemmas are local to this file and marked `private`).
-/
namespace Adb.Removeparam
open Adb

private theorem splitOnce_some {c : Char} {s a b : Str} (h : splitOnce c s = some (a, b)) :
    s = a ++ c :: b := by
  induction s generalizing a b with
  | nil => simp [splitOnce] at h
  | cons x xs ih =>
    unfold splitOnce at h
    split at h
    · rename_i hx
      simp at h; obtain ⟨rfl, rfl⟩ := h
      simp at hx; simp [hx]
    · split at h
      · rename_i a' b' heq
        simp at h; obtain ⟨rfl, rfl⟩ := h
        simp [ih heq]
      · simp at h

/-- Untouched segments are reproduced byte for byte: printing a parsed segment gives it back. -/
theorem show_parse (seg : Str) : (QParam.parse seg).show = seg := by
  unfold QParam.parse
  split
  · rename_i k v h; simp [QParam.show, splitOnce_some h]
  · simp [QParam.show]

private theorem markAll_eq (names : List Str) (ps : List (QParam × Bool)) (rw0 : Bool) :
    names.foldl (fun (acc : List (QParam × Bool) × Bool) name =>
      let r := markOne name acc.1
      (r.1, acc.2 || r.2)) (ps, rw0)
    = (ps.map (fun (p : QParam × Bool) => (p.1, p.2 && !names.any (fun n => hit n p.1))),
       rw0 || names.any (fun n => ps.any (fun (p : QParam × Bool) => hit n p.1))) := by
  induction names generalizing ps rw0 with
  | nil => simp
  | cons n ns ih =>
    simp only [List.foldl_cons]
    rw [ih]
    simp only [markOne, List.map_map, Function.comp_def, List.any_map, List.any_cons, Bool.not_or,
      Bool.and_assoc, Bool.or_assoc]

private theorem removed_eq (names : List Str) (seg : Str) :
    removed names seg = names.any (fun n => hit n (QParam.parse seg)) := by
  unfold removed QParam.parse
  split
  · rename_i k v h
    simp only [hit]
    cases hv : v.isEmpty <;> simp
    rw [Bool.eq_iff_iff]; simp only [decide_eq_true_eq, List.any_eq_true, beq_iff_eq]
    constructor
    · intro hk; exact ⟨k, hk, rfl⟩
    · rintro ⟨n, hn, rfl⟩; exact hn
  · simp [hit]

/-- **C14 main theorem**: for every URL, every set of matching parameter names and either value of
    the `important` flag, the model of the code equals the reference semantics. -/
theorem rewrite_eq_spec (important : Bool) (url : Str) (names : List Str) :
    rewrittenUrl important url names = spec important url names := by
  unfold rewrittenUrl spec apply
  cases important <;> simp only [Bool.false_eq_true, if_false, if_true]
  split
  · rfl
  · rename_i pre q hq
    have hm : markAll names ((q.splitOn '&').map (fun pair => (QParam.parse pair, true)))
        = (((q.splitOn '&').map (fun pair => (QParam.parse pair, true))).map
            (fun (p : QParam × Bool) => (p.1, p.2 && !names.any (fun n => hit n p.1))),
           false || names.any (fun n => ((q.splitOn '&').map (fun pair => (QParam.parse pair, true))).any
            (fun (p : QParam × Bool) => hit n p.1))) := by
      unfold markAll; exact markAll_eq names _ false
    simp only [hm]
    have hany : (false || names.any (fun n => ((q.splitOn '&').map (fun pair => (QParam.parse pair, true))).any
            (fun (p : QParam × Bool) => hit n p.1))) = (q.splitOn '&').any (removed names) := by
      simp only [Bool.false_or, List.any_map, Function.comp_def]
      rw [Bool.eq_iff_iff]; simp only [List.any_eq_true, removed_eq]
      constructor
      · rintro ⟨n, hn, s, hs, h⟩; exact ⟨s, hs, n, hn, h⟩
      · rintro ⟨s, hs, n, hn, h⟩; exact ⟨n, hn, s, hs, h⟩
    rw [hany]
    have hkeep : ((((q.splitOn '&').map (fun pair => (QParam.parse pair, true))).map
            (fun (p : QParam × Bool) => (p.1, p.2 && !names.any (fun n => hit n p.1)))).filter (·.2)).map
            (·.1.show) = (q.splitOn '&').filter (fun s => !removed names s) := by
      simp only [List.map_map, List.filter_map, Function.comp_def, Bool.true_and, show_parse,
        ← removed_eq, List.map_id']
    rw [hkeep]

/-- No rewrite is reported when nothing was removed. -/
theorem none_when_nothing_removed (url : Str) (names : List Str)
    (h : ∀ seg, removed names seg = false) : rewrittenUrl false url names = none := by
  rw [rewrite_eq_spec]; unfold spec; simp only [Bool.false_eq_true, if_false]
  split
  · rfl
  · simp [h]

/-- No rewrite is reported when the request is blocked by an important rule. -/
theorem none_when_important (url : Str) (names : List Str) :
    rewrittenUrl true url names = none := by
  simp [rewrittenUrl]

/-- Scheme, host, path (everything before the first `?` that precedes any `#`) and the fragment
    (from the first `#`) are preserved byte for byte, and the query is a sub-sequence of the original
    segments in their original order and spelling. -/
theorem prefix_and_fragment_preserved (url : Str) (names : List Str) (out : Str)
    (h : rewrittenUrl false url names = some out) :
    ∃ pre q frag kept, url = pre ++ '?' :: q ++ frag ∧ (∀ c ∈ pre ++ '?' :: q, c ≠ '#') ∧
      (frag = [] ∨ frag.head? = some '#') ∧
      kept = (q.splitOn '&').filter (fun s => !removed names s) ∧
      out = pre ++ (if (joinAmp kept).isEmpty then [] else '?' :: joinAmp kept) ++ frag := by
  rw [rewrite_eq_spec] at h
  unfold spec at h
  simp only [Bool.false_eq_true, if_false] at h
  split at h
  · simp at h
  · rename_i pre q hq
    split at h
    · simp only [Option.some.injEq] at h
      have h1 := splitOnce_some hq
      refine ⟨pre, q, url.dropWhile (· != '#'), _, ?_, ?_, ?_, rfl, h.symm⟩
      · rw [← h1]; simp
      · intro c hc
        have hall := List.all_takeWhile (l := url) (p := (· != '#'))
        rw [h1, List.all_eq_true] at hall
        simpa using hall c hc
      · cases hd : url.dropWhile (· != '#') with
        | nil => simp
        | cons x xs =>
          right
          have := List.head_dropWhile_not (· != '#') (l := url) (by simp [hd])
          simp [hd] at this
          simp [this]
    · simp at h

/-! ### Non-vacuity and concrete behaviour -/

example : rewrittenUrl false "https://a.com/p?utm=1&x=2#f".toList ["utm".toList]
    = some "https://a.com/p?x=2#f".toList := by decide
example : rewrittenUrl false "https://a.com/p?utm=1".toList ["utm".toList]
    = some "https://a.com/p".toList := by decide
-- a `?` inside the fragment does not start a query (pre-fix behaviour rewrote the fragment)
example : rewrittenUrl false "https://a.com/p#f?utm=1&x=2".toList ["utm".toList] = none := by decide
-- empty values are kept, `&&` and spelling preserved
example : rewrittenUrl false "https://a.com/?a=&&b==&utm=1".toList ["utm".toList, "a".toList]
    = some "https://a.com/?a=&&b==".toList := by decide

end Adb.Removeparam
