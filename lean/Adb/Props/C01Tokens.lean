/-
  C01 — token soundness, proved instead of assumed, for rules with a plain pattern:
  whenever such a rule matches a request, every token the rule is indexed under is one of the tokens
  the request is probed with (so `index_complete` applies to it without a per-case hypothesis).
-/
import Adb.Props.C01
import Adb.Lemmas.Tokens
namespace Adb.Net
open Adb Adb.Gen

theorem findSub_decomp (f s : Str) (h : (findSub f s).isSome = true) : ∃ A B, s = A ++ f ++ B := by
  induction s with
  | nil =>
    unfold findSub at h
    split at h
    · rename_i he
      have : f = [] := by simpa using he
      subst this; exact ⟨[], [], rfl⟩
    · cases h
  | cons c cs ih =>
    unfold findSub at h
    split at h
    · rename_i hp
      have := List.prefix_iff_eq_append.1 (List.isPrefixOf_iff_prefix.1 hp)
      exact ⟨[], (c :: cs).drop f.length, (by rw [List.nil_append]; exact this.symm)⟩
    · have : (findSub f cs).isSome = true := by
        cases hf : findSub f cs with
        | none => rw [hf] at h; cases h
        | some _ => rfl
      obtain ⟨A, B, hAB⟩ := ih this
      exact ⟨c :: A, B, by rw [hAB]; simp⟩

/-- the shape of rule this file covers: one plain pattern, no host name, no `domain=` option, both
    schemes, not a removeparam rule -/
structure PlainRule (r : Rule) (f : Str) : Prop where
  filter : r.filter = .simple f
  notRegex : r.isRegex = false
  notComplete : r.isCompleteRegex = false
  noHostAnchor : r.isHostnameAnchor = false
  noHost : r.hostname = none
  noDomains : r.domains = none
  notRp : r.isRemoveparam = false
  schemes : r.forHttp = r.forHttps
  noCase : r.matchCase = false

theorem plain_getTokens (r : Rule) (f : Str) (h : PlainRule r f) :
    r.getTokens = [tokenizeFilter f (!r.isLeftAnchor) (!r.isRightAnchor)] := by
  unfold Rule.getTokens
  simp only [h.filter, h.noDomains, h.noHost, h.notComplete, h.notRp, Bool.not_false, if_true,
    Bool.and_false, Bool.false_eq_true, if_false, List.nil_append, List.append_nil, Option.isSome_none]
  have hs : (r.forHttp && !r.forHttps) = false ∧ (r.forHttps && !r.forHttp) = false := by
    rw [h.schemes]; cases r.forHttps <;> simp
  simp [hs.1, hs.2]

/-- how a matching plain rule embeds its pattern in the URL -/
theorem plain_checkPattern_embed (r : Rule) (f : Str) (q : Request) (h : PlainRule r f)
    (hm : checkPattern r q = true) :
    ∃ A B, q.urlLower = A ++ f ++ B ∧ (r.isLeftAnchor = true → A = []) ∧ (r.isRightAnchor = true → B = []) := by
  unfold checkPattern at hm
  simp only [h.noHostAnchor, Bool.false_eq_true, if_false, h.notRegex, h.notComplete, Bool.or_self, h.filter,
    FilterPart.items, List.isEmpty_cons, Bool.false_or, List.any_cons, List.any_nil, Bool.or_false] at hm
  have hurl : reqUrl r q = q.urlLower := by unfold reqUrl; simp [h.noCase]
  rw [hurl] at hm
  cases hla : r.isLeftAnchor <;> cases hra : r.isRightAnchor <;> simp only [hla, hra, Bool.and_self, Bool.and_false,
    Bool.false_and, Bool.false_eq_true, if_false, if_true, Bool.and_true] at hm
  · -- unanchored: the pattern occurs somewhere
    obtain ⟨A, B, hAB⟩ := findSub_decomp f q.urlLower hm
    exact ⟨A, B, hAB, (by intro h; cases h), (by intro h; cases h)⟩
  · -- right anchor: suffix
    obtain ⟨A, hA⟩ := List.isSuffixOf_iff_suffix.1 hm
    exact ⟨A, [], (by rw [← hA]; simp), (by intro h; cases h), fun _ => rfl⟩
  · -- left anchor: prefix
    obtain ⟨B, hB⟩ := List.isPrefixOf_iff_prefix.1 hm
    exact ⟨[], B, (by rw [← hB]; simp), fun _ => rfl, (by intro h; cases h)⟩
  · -- both anchors: equality
    have : q.urlLower = f := by simpa using hm
    exact ⟨[], [], (by rw [this]; simp), fun _ => rfl, fun _ => rfl⟩

/-- **Token soundness for plain rules.** If a rule with a plain pattern matches a request, all the
    tokens it is indexed under are among the request's probe tokens — for every pattern and URL on
    which the token buffers do not overflow. -/
theorem plain_groupProbed (r : Rule) (f : Str) (q : Request) (h : PlainRule r f)
    (hq : q.tokens = tokenizeUrl q.urlLower ++ [0])
    (hnf : NotTruncated (!r.isLeftAnchor) true f) (hnu : NotTruncated false false q.urlLower) :
    GroupProbed r q := by
  intro hm
  have hpat : checkPattern r q = true := by
    unfold Rule.matches at hm
    simp only [Bool.and_eq_true] at hm
    exact hm.2
  obtain ⟨A, B, hAB, hA, hB⟩ := plain_checkPattern_embed r f q h hpat
  rw [plain_getTokens r f h]
  refine ⟨_, List.mem_singleton.2 rfl, ?_⟩
  intro t ht
  unfold tokenizeFilter at ht
  have hs := tokenizeWith_sound (!r.isLeftAnchor) (!r.isRightAnchor) true f hnf t ht
  have he := tokenOf_embed (!r.isLeftAnchor) (!r.isRightAnchor) true A f B t hs
    (by intro hx; apply hA; simpa using hx) (by intro hx; apply hB; simpa using hx)
  rw [← hAB] at he
  have := tokenizeUrl_complete q.urlLower hnu t he
  unfold Request.probe
  rw [hq]
  simp only [List.mem_append]
  right; left; exact this

/-- requests built by the library have exactly these tokens -/
theorem mkRequest_tokens (rawType url schema hostname src : Str) (tp : Bool) (orig : Str) :
    (mkRequest rawType url schema hostname src tp orig).tokens =
      tokenizeUrl (mkRequest rawType url schema hostname src tp orig).urlLower ++ [0] := rfl

/-! ### host-name rules (`||host^`, the most common shape in real lists) -/

structure HostRule (r : Rule) (h : Str) : Prop where
  filter : r.filter = .empty
  host : r.hostname = some h
  hostNe : h ≠ []
  anchor : r.isHostnameAnchor = true
  notHostRegex : r.isHostnameRegex = false
  noDomains : r.domains = none
  notRp : r.isRemoveparam = false
  schemes : r.forHttp = r.forHttps

/-- the request's host name sits in its (lower-cased) URL between characters that are not token
    characters (`//` or `@` before it; `:`, `/`, `?`, `#` or nothing after it) -/
def HostIn (q : Request) : Prop :=
  ∃ P S, q.urlLower = P ++ q.hostname ++ S ∧ (∀ c, P.getLast? = some c → isTok c = false) ∧
    (∀ c, S.head? = some c → isTok c = false)

theorem host_getTokens (r : Rule) (h : Str) (hr : HostRule r h) : r.getTokens = [tokenize h] := by
  unfold Rule.getTokens
  simp only [hr.filter, hr.noDomains, hr.host, hr.notHostRegex, hr.notRp, Bool.not_false, if_true,
    Bool.and_false, Bool.false_eq_true, if_false, List.nil_append, List.append_nil, Option.isSome_none]
  have hs : (r.forHttp && !r.forHttps) = false ∧ (r.forHttps && !r.forHttp) = false := by
    rw [hr.schemes]; cases r.forHttps <;> simp
  simp [hs.1, hs.2]

theorem dot_not_tok : isTok '.' = false := by decide

/-- **Token soundness for host-name rules.** -/
theorem host_groupProbed (r : Rule) (h : Str) (q : Request) (hr : HostRule r h)
    (hq : q.tokens = tokenizeUrl q.urlLower ++ [0]) (hin : HostIn q)
    (hnf : NotTruncated false true h) (hnu : NotTruncated false false q.urlLower) :
    GroupProbed r q := by
  intro hm
  have hpat : checkPattern r q = true := by
    unfold Rule.matches at hm
    simp only [Bool.and_eq_true] at hm
    exact hm.2
  have hanch : isAnchoredByHostname h q.hostname false = true := by
    unfold checkPattern at hpat
    simp only [hr.anchor, if_true, hr.host, hr.notHostRegex] at hpat
    split at hpat
    · cases hpat
    · rename_i hn; simpa using hn
  obtain ⟨A, B, hAB, hAb, hBb⟩ := anchored_decomp h q.hostname hr.hostNe hanch
  obtain ⟨P, S, hPS, hPl, hSh⟩ := hin
  rw [host_getTokens r h hr]
  refine ⟨_, List.mem_singleton.2 rfl, ?_⟩
  intro t ht
  unfold tokenize at ht
  have hs := tokenizeWith_sound false false true h hnf t ht
  have he := tokenOf_embed_b false false true (P ++ A) h (B ++ S) t hs ?_ ?_
  · have hurl : q.urlLower = P ++ A ++ h ++ (B ++ S) := by rw [hPS, hAB]; simp
    rw [← hurl] at he
    have := tokenizeUrl_complete q.urlLower hnu t he
    unfold Request.probe
    rw [hq]
    simp only [List.mem_append]
    right; left; exact this
  · intro _ ⟨c0, hc0, hc0t⟩ c hc
    cases A with
    | nil => simp only [List.append_nil] at hc; exact hPl c hc
    | cons a as =>
      rw [getLast?_append_ne _ _ (by simp)] at hc
      rcases hAb with hA | hA | hA
      · cases hA
      · rw [hA] at hc; injection hc with hc; subst hc; exact dot_not_tok
      · rw [hA] at hc0; injection hc0 with hc0; subst hc0; rw [dot_not_tok] at hc0t; cases hc0t
  · intro _ ⟨c0, hc0, hc0t⟩ c hc
    cases B with
    | nil => simp only [List.nil_append] at hc; exact hSh c hc
    | cons b bs =>
      simp only [List.cons_append, List.head?_cons, Option.some.injEq] at hc
      rcases hBb with hB | hB | hB
      · cases hB
      · simp only [List.head?_cons, Option.some.injEq] at hB; subst hB; subst hc; exact dot_not_tok
      · rw [hB] at hc0; injection hc0 with hc0; subst hc0; rw [dot_not_tok] at hc0t; cases hc0t

/-! ### `||host/path` rules -/

structure HostPathRule (r : Rule) (h f : Str) : Prop where
  filter : r.filter = .simple f
  slash : f.head? = some '/'
  host : r.hostname = some h
  hostNe : h ≠ []
  anchor : r.isHostnameAnchor = true
  left : r.isLeftAnchor = true
  notRight : r.isRightAnchor = false
  notRegex : r.isRegex = false
  notComplete : r.isCompleteRegex = false
  notHostRegex : r.isHostnameRegex = false
  noDomains : r.domains = none
  notRp : r.isRemoveparam = false
  schemes : r.forHttp = r.forHttps
  noCase : r.matchCase = false

theorem hostpath_getTokens (r : Rule) (h f : Str) (hr : HostPathRule r h f) :
    r.getTokens = [tokenizeFilter f false true ++ tokenize h] := by
  unfold Rule.getTokens
  simp only [hr.filter, hr.noDomains, hr.host, hr.notHostRegex, hr.notRp, hr.notComplete, hr.left, hr.notRight,
    Bool.not_false, Bool.not_true, if_true, Bool.and_false, Bool.false_eq_true, if_false, List.nil_append,
    Option.isSome_none]
  have hs : (r.forHttp && !r.forHttps) = false ∧ (r.forHttps && !r.forHttp) = false := by
    rw [hr.schemes]; cases r.forHttps <;> simp
  simp [hs.1, hs.2]

theorem slash_not_tok : isTok '/' = false := by decide

/-- **Token soundness for `||host/path` rules.** -/
theorem hostpath_groupProbed (r : Rule) (h f : Str) (q : Request) (hr : HostPathRule r h f)
    (hq : q.tokens = tokenizeUrl q.urlLower ++ [0]) (hin : HostIn q)
    (hnh : NotTruncated false true h) (hnf : NotTruncated false true f)
    (hnu : NotTruncated false false q.urlLower) : GroupProbed r q := by
  intro hm
  have hpat : checkPattern r q = true := by
    unfold Rule.matches at hm
    simp only [Bool.and_eq_true] at hm
    exact hm.2
  have hurl : reqUrl r q = q.urlLower := by unfold reqUrl; simp [hr.noCase]
  unfold checkPattern at hpat
  simp only [hr.anchor, if_true, hr.host, hr.notHostRegex, hr.notRegex, hr.left, hr.notRight, Bool.false_and,
    Bool.and_true, Bool.false_eq_true, if_false, hr.filter, FilterPart.items, List.isEmpty_cons, Bool.false_or,
    List.any_cons, List.any_nil, Bool.or_false, hurl] at hpat
  split at hpat
  · cases hpat
  · rename_i hn
    have hanch : isAnchoredByHostname h q.hostname false = true := by simpa using hn
    -- the path part sits right after the first occurrence of the host text in the URL
    have hpre : f.isPrefixOf (urlAfterHostname q.urlLower h) = true := hpat
    obtain ⟨rest, hrest⟩ := List.isPrefixOf_iff_prefix.1 hpre
    have hfemb : ∃ X, q.urlLower = X ++ f ++ rest := by
      unfold urlAfterHostname at hrest
      simp only at hrest
      exact ⟨q.urlLower.take ((findSub h q.urlLower).getD (q.urlLower.length - h.length) + h.length), by
        rw [List.append_assoc, hrest, List.take_append_drop]⟩
    obtain ⟨X, hX⟩ := hfemb
    obtain ⟨A, B, hAB, hAb, hBb⟩ := anchored_decomp h q.hostname hr.hostNe hanch
    obtain ⟨P, S, hPS, hPl, hSh⟩ := hin
    rw [hostpath_getTokens r h f hr]
    refine ⟨_, List.mem_singleton.2 rfl, ?_⟩
    intro t ht
    have hfin : ∀ t, TokenOf false false false q.urlLower t → t ∈ q.probe := by
      intro t he
      have := tokenizeUrl_complete q.urlLower hnu t he
      unfold Request.probe
      rw [hq]
      simp only [List.mem_append]
      right; left; exact this
    rcases List.mem_append.1 ht with ht | ht
    · -- a token of the path part
      unfold tokenizeFilter at ht
      have hs := tokenizeWith_sound false true true f hnf t ht
      have he := tokenOf_embed_b false true true X f rest t hs ?_ (by intro hx; cases hx)
      · rw [← hX] at he; exact hfin t he
      · intro _ ⟨c0, hc0, hc0t⟩
        rw [hr.slash] at hc0; injection hc0 with hc0; subst hc0
        rw [slash_not_tok] at hc0t; cases hc0t
    · -- a token of the host name
      unfold tokenize at ht
      have hs := tokenizeWith_sound false false true h hnh t ht
      have he := tokenOf_embed_b false false true (P ++ A) h (B ++ S) t hs ?_ ?_
      · have hu : q.urlLower = P ++ A ++ h ++ (B ++ S) := by rw [hPS, hAB]; simp
        rw [← hu] at he; exact hfin t he
      · intro _ ⟨c0, hc0, hc0t⟩ c hc
        cases A with
        | nil => simp only [List.append_nil] at hc; exact hPl c hc
        | cons a as =>
          rw [getLast?_append_ne _ _ (by simp)] at hc
          rcases hAb with hA | hA | hA
          · cases hA
          · rw [hA] at hc; injection hc with hc; subst hc; exact dot_not_tok
          · rw [hA] at hc0; injection hc0 with hc0; subst hc0; rw [dot_not_tok] at hc0t; cases hc0t
      · intro _ ⟨c0, hc0, hc0t⟩ c hc
        cases B with
        | nil => simp only [List.nil_append] at hc; exact hSh c hc
        | cons b bs =>
          simp only [List.cons_append, List.head?_cons, Option.some.injEq] at hc
          rcases hBb with hB | hB | hB
          · cases hB
          · simp only [List.head?_cons, Option.some.injEq] at hB; subst hB; subst hc; exact dot_not_tok
          · rw [hB] at hc0; injection hc0 with hc0; subst hc0; rw [dot_not_tok] at hc0t; cases hc0t

/-- **The token buffer is as large as the property's domain says** ("requests whose URL has fewer than
    127 tokens"): the constant is re-extracted from the source on every run, so shrinking the buffer breaks
    this obligation. -/
theorem token_cap_as_stated : Adb.Gen.TOKENS_MAX ≥ 127 := by decide

end Adb.Net
