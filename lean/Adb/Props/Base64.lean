/-
  The base64 decoder of the resource model inverts the standard padded encoding of every byte string
  (the harness supplies `BASE64_STANDARD.encode(bytes)`; this is the statement that the model reads it back).
-/
import Adb.Model.Engine
namespace Adb.Props.Base64
open Adb Adb.Net

/-- the character of a 6-bit value in the standard alphabet -/
def b64Char (v : Nat) : Char :=
  if v < 26 then Char.ofNat (65 + v)
  else if v < 52 then Char.ofNat (97 + (v - 26))
  else if v < 62 then Char.ofNat (48 + (v - 52))
  else if v = 62 then '+' else '/'

/-- standard padded encoding -/
def b64Encode : List UInt8 → Str
  | [] => []
  | [a] => [b64Char (a.toNat / 4), b64Char ((a.toNat % 4) * 16), '=', '=']
  | [a, b] => [b64Char (a.toNat / 4), b64Char ((a.toNat % 4) * 16 + b.toNat / 16), b64Char ((b.toNat % 16) * 4), '=']
  | a :: b :: c :: rest =>
    b64Char (a.toNat / 4) :: b64Char ((a.toNat % 4) * 16 + b.toNat / 16) ::
      b64Char ((b.toNat % 16) * 4 + c.toNat / 64) :: b64Char (c.toNat % 64) :: b64Encode rest

theorem val_char : ∀ v : Fin 64, b64Val (b64Char v.val) = some v.val := by decide

theorem val_char' (v : Nat) (h : v < 64) : b64Val (b64Char v) = some v := val_char ⟨v, h⟩

theorem char_ne_pad : ∀ v : Fin 64, (b64Char v.val == '=') = false := by decide

theorem char_ne_pad' (v : Nat) (h : v < 64) : (b64Char v == '=') = false := char_ne_pad ⟨v, h⟩

theorem toUInt8_toNat (a : UInt8) : a.toNat.toUInt8 = a := by
  cases a; rename_i v; simp [UInt8.toNat, Nat.toUInt8]

theorem decode_encode (bs : List UInt8) : b64Decode (b64Encode bs) = some bs := by
  induction bs using b64Encode.induct with
  | case1 => rfl
  | case2 a =>
    have ha := a.toNat_lt
    unfold b64Encode b64Decode
    rw [val_char' _ (by omega), val_char' _ (by omega)]
    simp only [beq_self_eq_true, Bool.and_self, List.isEmpty_nil, if_true]
    have : (a.toNat / 4 * 4 + a.toNat % 4 * 16 / 16) % 256 = a.toNat := by omega
    rw [this, toUInt8_toNat]
  | case3 a b =>
    have ha := a.toNat_lt
    have hb := b.toNat_lt
    unfold b64Encode b64Decode
    rw [val_char' _ (by omega), val_char' _ (by omega)]
    simp only [char_ne_pad' (b.toNat % 16 * 4) (by omega), Bool.false_and, Bool.false_eq_true, if_false]
    rw [val_char' _ (by omega)]
    simp only [beq_self_eq_true, List.isEmpty_nil, if_true]
    have h0 : (a.toNat / 4 * 4 + (a.toNat % 4 * 16 + b.toNat / 16) / 16) % 256 = a.toNat := by omega
    have h1 : ((a.toNat % 4 * 16 + b.toNat / 16) % 16 * 16 + b.toNat % 16 * 4 / 4) % 256 = b.toNat := by omega
    rw [h0, h1, toUInt8_toNat, toUInt8_toNat]
  | case4 a b c rest ih =>
    have ha := a.toNat_lt
    have hb := b.toNat_lt
    have hc := c.toNat_lt
    unfold b64Encode b64Decode
    rw [val_char' _ (by omega), val_char' _ (by omega)]
    simp only [char_ne_pad' (b.toNat % 16 * 4 + c.toNat / 64) (by omega), Bool.false_and, Bool.false_eq_true, if_false]
    rw [val_char' _ (by omega)]
    simp only [char_ne_pad' (c.toNat % 64) (by omega), Bool.false_eq_true, if_false]
    rw [val_char' _ (by omega), ih]
    simp only []
    have h0 : (a.toNat / 4 * 4 + (a.toNat % 4 * 16 + b.toNat / 16) / 16) % 256 = a.toNat := by omega
    have h1 : ((a.toNat % 4 * 16 + b.toNat / 16) % 16 * 16 + (b.toNat % 16 * 4 + c.toNat / 64) / 4) % 256 = b.toNat := by omega
    have h2 : ((b.toNat % 16 * 4 + c.toNat / 64) % 4 * 64 + c.toNat % 64) % 256 = c.toNat := by omega
    simp only [Option.map_some, h0, h1, h2, toUInt8_toNat]
end Adb.Props.Base64
