/-
  C12 — request normalisation: the reported hostname is the host component of the normalised URL,
  party classification is "registrable domains differ", websocket schemes force the websocket type,
  only http/https/ws/wss are supported, and `preparsed` agrees with `new`.

  All statements hold for every IDNA function and every registrable-domain function (the two
  external parameters of the model).
-/
import Adb.Model.Url
namespace Adb.Props.C12
open Adb Adb.Net Adb.Url

variable (idna : Str → Option Str) (domainOf : Str → Str)

/-! ### projections of `from_detailed_parameters` -/

theorem mk_hostname (ty url sc h s : Str) (tp : Bool) (o : Str) :
    (mkRequest ty url sc h s tp o).hostname = h := rfl
theorem mk_url (ty url sc h s : Str) (tp : Bool) (o : Str) :
    (mkRequest ty url sc h s tp o).url = url := rfl
theorem mk_thirdParty (ty url sc h s : Str) (tp : Bool) (o : Str) :
    (mkRequest ty url sc h s tp o).thirdParty = tp := rfl
theorem mk_original (ty url sc h s : Str) (tp : Bool) (o : Str) :
    (mkRequest ty url sc h s tp o).originalUrl = o := rfl

/-- `Request::new` succeeds exactly when the request URL parses with a non-empty host. -/
theorem new_isSome_iff (url src ty : Str) :
    (requestNew idna domainOf url src ty).isSome = (parseUrl idna url).isSome := by
  unfold requestNew
  cases parseUrl idna url with
  | none => rfl
  | some p => cases parseUrl idna src <;> rfl

/-- The reported hostname is the host component of the normalised URL: the URL is
    `scheme : pre host rest` and the hostname is exactly that `host` (non-empty). -/
theorem hostname_is_host_component (url src ty : Str) (q : Request)
    (h : requestNew idna domainOf url src ty = some q) :
    ∃ p, parseUrl idna url = some p ∧ q.hostname = p.host ∧ p.host ≠ [] ∧
      q.url = p.scheme ++ [':'] ++ p.pre ++ p.host ++ p.rest ∧
      (q.url.drop (p.scheme.length + 1 + p.pre.length)).take p.host.length = p.host := by
  unfold requestNew at h
  cases hp : parseUrl idna url with
  | none => rw [hp] at h; cases h
  | some p =>
    rw [hp] at h
    have hne : p.host ≠ [] := by
      unfold parseUrl at hp
      split at hp
      · split at hp
        · cases hp
        · rename_i hh
          injection hp with hp
          subst hp
          intro he
          rw [he] at hh
          exact hh rfl
      · cases hp
    have hq : q.hostname = p.host ∧ q.url = p.url := by
      cases hs : parseUrl idna src with
      | none => rw [hs] at h; injection h with h; subst h; exact ⟨rfl, rfl⟩
      | some s => rw [hs] at h; injection h with h; subst h; exact ⟨rfl, rfl⟩
    refine ⟨p, rfl, hq.1, hne, hq.2, ?_⟩
    rw [hq.2]
    unfold Parsed.url
    have : (p.scheme ++ [':'] ++ p.pre ++ p.host ++ p.rest) =
        (p.scheme ++ [':'] ++ p.pre) ++ (p.host ++ p.rest) := by simp
    rw [this, List.drop_left' (by simp; omega)]
    simp

/-- Party classification: with a parseable source the request is third-party exactly when the
    registrable domains differ; without one it is third-party. -/
theorem third_party_iff (url src ty : Str) (q : Request)
    (h : requestNew idna domainOf url src ty = some q) :
    ∃ p, parseUrl idna url = some p ∧
      (match parseUrl idna src with
        | some s => q.thirdParty = (domainOf s.host != domainOf p.host)
        | none => q.thirdParty = true) := by
  unfold requestNew at h
  cases hp : parseUrl idna url with
  | none => rw [hp] at h; cases h
  | some p =>
    rw [hp] at h
    refine ⟨p, rfl, ?_⟩
    cases hs : parseUrl idna src with
    | none => rw [hs] at h; injection h with h; subst h; rfl
    | some s => rw [hs] at h; injection h with h; subst h; rfl

theorem third_party_same_domain (url src ty : Str) (q : Request) (p s : Parsed)
    (h : requestNew idna domainOf url src ty = some q)
    (hp : parseUrl idna url = some p) (hs : parseUrl idna src = some s) :
    q.thirdParty = false ↔ domainOf s.host = domainOf p.host := by
  unfold requestNew at h
  rw [hp, hs] at h
  injection h with h
  subst h
  rw [mk_thirdParty]
  simp

/-! ### scheme classification (`from_detailed_parameters`) -/

theorem websocket_forces_type (ty url sc h s : Str) (tp : Bool) (o : Str)
    (hw : sc = "ws".toList ∨ sc = "wss".toList) :
    (mkRequest ty url sc h s tp o).tyName = "Websocket" ∧
    (mkRequest ty url sc h s tp o).isSupported = true ∧
    (mkRequest ty url sc h s tp o).isHttp = false ∧ (mkRequest ty url sc h s tp o).isHttps = false := by
  rcases hw with rfl | rfl <;> (unfold mkRequest; simp)

/-- Only http, https, ws and wss requests are eligible for matching (for a non-empty scheme). -/
theorem supported_iff (ty url sc h s : Str) (tp : Bool) (o : Str) (hne : sc ≠ []) :
    (mkRequest ty url sc h s tp o).isSupported =
      (sc == "http".toList || sc == "https".toList || sc == "ws".toList || sc == "wss".toList) := by
  unfold mkRequest
  have : sc.isEmpty = false := by cases sc <;> simp_all
  simp only [this]
  generalize (sc == "http".toList) = a
  generalize (sc == "https".toList) = b
  generalize (sc == "ws".toList) = c
  generalize (sc == "wss".toList) = d
  cases a <;> cases b <;> cases c <;> cases d <;> rfl

theorem type_follows_hint_unless_websocket (ty url sc h s : Str) (tp : Bool) (o : Str)
    (hn : sc ≠ "ws".toList ∧ sc ≠ "wss".toList) :
    (mkRequest ty url sc h s tp o).tyName = cptMatchType ty := by
  unfold mkRequest
  have e1 : (sc == "ws".toList) = false := by simpa using hn.1
  have e2 : (sc == "wss".toList) = false := by simpa using hn.2
  simp only [e1, e2]
  generalize (sc == "http".toList) = a
  generalize (sc == "https".toList) = b
  generalize sc.isEmpty = e
  cases a <;> cases b <;> cases e <;> rfl

/-! ### the scheme of a parsed URL -/

theorem lower_ne_colon : ∀ k : Fin 26, Char.ofNat (65 + k.val + 32) ≠ ':' := by decide

theorem lower_ne_colon' (c : Char) (h : 'A' ≤ c ∧ c ≤ 'Z') : Char.ofNat (c.toNat + 32) ≠ ':' := by
  have hA : 65 ≤ c.toNat := h.1
  have hZ : c.toNat ≤ 90 := h.2
  have := lower_ne_colon ⟨c.toNat - 65, by omega⟩
  simp only at this
  rwa [show 65 + (c.toNat - 65) + 32 = c.toNat + 32 by omega] at this

theorem schemeLoop_spec (input acc : Str) (sc rest : Str) (h : schemeLoop input acc = some (sc, rest))
    (hacc : ':' ∉ acc) : ':' ∉ sc ∧ acc <+: sc := by
  induction input generalizing acc with
  | nil => simp [schemeLoop] at h
  | cons c r ih =>
    unfold schemeLoop at h
    split at h
    · rename_i hc
      have := ih _ h (by
        simp only [List.mem_append, List.mem_singleton, not_or]
        refine ⟨hacc, ?_⟩
        intro e; subst e; revert hc; decide)
      exact ⟨this.1, List.IsPrefix.trans (List.prefix_append _ _) this.2⟩
    · split at h
      · rename_i hc1 hc
        have hne : Char.ofNat (c.toNat + 32) ≠ ':' := lower_ne_colon' c (by simpa using hc)
        have := ih _ h (by
          simp only [List.mem_append, List.mem_singleton, not_or]
          exact ⟨hacc, fun e => hne e.symm⟩)
        exact ⟨this.1, List.IsPrefix.trans (List.prefix_append _ _) this.2⟩
      · split at h
        · rename_i hc1 hc2 hc
          have := ih _ h (by
            simp only [List.mem_append, List.mem_singleton, not_or]
            refine ⟨hacc, ?_⟩
            intro e; subst e; revert hc; decide)
          exact ⟨this.1, List.IsPrefix.trans (List.prefix_append _ _) this.2⟩
        · split at h
          · injection h with h
            injection h with h1 h2
            subst h1
            exact ⟨hacc, List.prefix_refl _⟩
          · cases h

/-- the scheme of a scanned URL contains no `:` and is not empty -/
theorem parseScheme_spec (input sc rest : Str) (h : parseScheme input = some (sc, rest)) :
    ':' ∉ sc ∧ sc ≠ [] := by
  unfold parseScheme at h
  cases input with
  | nil => cases h
  | cons c r =>
    simp only at h
    split at h
    · rename_i ha
      have h0 := schemeLoop_spec _ _ _ _ h (by simp)
      refine ⟨h0.1, ?_⟩
      -- the first character is a letter, so one character has been accumulated
      unfold schemeLoop at h
      unfold isAsciiAlpha at ha
      split at h
      · have := (schemeLoop_spec _ _ _ _ h (by
          simp only [List.nil_append, List.mem_singleton]
          intro e; subst e; rename_i hc; revert hc; decide)).2
        intro e; subst e; simp at this
      · split at h
        · have hp := (schemeLoop_spec _ _ _ _ h (by
            simp only [List.nil_append, List.mem_singleton]
            intro e
            rename_i hc1 hc
            exact lower_ne_colon' c (by simpa using hc) e.symm)).2
          intro e; subst e; simp at hp
        · rename_i hn1 hn2
          simp [hn1, hn2] at ha
    · cases h

theorem parseHostname_scheme (input : Str) (p : Parsed) (h : parseHostname idna input = .ok p) :
    ':' ∉ p.scheme ∧ p.scheme ≠ [] := by
  unfold parseHostname at h
  split at h
  · cases h
  · rename_i sc rest hs
    have hsp := parseScheme_spec _ _ _ hs
    have key : ∀ sp inp, afterDoubleSlash idna sc sp inp = .ok p → p.scheme = sc := by
      intro sp inp ha
      unfold afterDoubleSlash at ha
      split at ha
      · cases ha
      · split at ha
        · cases ha
        · injection ha with ha; rw [← ha]
    split at h
    · cases h
    · rw [key _ _ h]; exact hsp
    · split at h
      · rw [key _ _ h]; exact hsp
      · injection h with h; rw [← h]; exact hsp

/-! ### `preparsed` agrees with `new` -/

theorem findIdx_colon (sc r : Str) (h : ':' ∉ sc) :
    (sc ++ ':' :: r).findIdx? (· == ':') = some sc.length := by
  induction sc with
  | nil => simp [List.findIdx?_cons]
  | cons c t ih =>
    have hc : c ≠ ':' := by intro e; subst e; simp at h
    have ht : ':' ∉ t := by intro e; exact h (by simp [e])
    simp [List.findIdx?_cons, hc, ih ht]

/-- A request built from the pre-parsed parts of a request (its normalised URL, hostname, the
    source hostname and the party flag) is the request built from the URLs, except that the
    original-URL field holds the normalised URL. -/
theorem preparsed_eq_new (url src ty : Str) (q : Request) (p : Parsed)
    (h : requestNew idna domainOf url src ty = some q) (hp : parseUrl idna url = some p) :
    requestPreparsed q.url q.hostname
        (match parseUrl idna src with | some s => s.host | none => []) ty q.thirdParty
      = { q with originalUrl := q.url } := by
  have hsc : ':' ∉ p.scheme := by
    unfold parseUrl at hp
    split at hp
    · rename_i p' hh
      split at hp
      · cases hp
      · injection hp with hp; subst hp
        exact (parseHostname_scheme idna _ _ hh).1
    · cases hp
  unfold requestNew at h
  rw [hp] at h
  have hurl : p.url = p.scheme ++ ':' :: (p.pre ++ p.host ++ p.rest) := by
    unfold Parsed.url; simp
  cases hs : parseUrl idna src with
  | none =>
    rw [hs] at h; injection h with h; subst h
    unfold requestPreparsed
    rw [mk_url, mk_hostname, mk_thirdParty, hurl, findIdx_colon _ _ hsc]
    simp only [List.take_left']
    rfl
  | some s =>
    rw [hs] at h; injection h with h; subst h
    unfold requestPreparsed
    rw [mk_url, mk_hostname, mk_thirdParty, hurl, findIdx_colon _ _ hsc]
    simp only [List.take_left']
    rfl

/-- …and when the caller's URL already is the normalised one, the two constructors coincide. -/
theorem preparsed_eq_new_normalised (url src ty : Str) (q : Request) (p : Parsed)
    (h : requestNew idna domainOf url src ty = some q) (hp : parseUrl idna url = some p)
    (hn : p.url = url) :
    requestPreparsed q.url q.hostname
        (match parseUrl idna src with | some s => s.host | none => []) ty q.thirdParty = q := by
  rw [preparsed_eq_new idna domainOf url src ty q p h hp]
  have : q.originalUrl = q.url := by
    unfold requestNew at h
    rw [hp] at h
    cases hs : parseUrl idna src with
    | none => rw [hs] at h; injection h with h; subst h; rw [mk_original, mk_url, hn]
    | some s => rw [hs] at h; injection h with h; subst h; rw [mk_original, mk_url, hn]
  cases q
  simp only at this
  subst this
  rfl

/-- the host of an ASCII authority is lower-cased ASCII -/
theorem parseHost_ascii (special : Bool) (input host rest : Str)
    (h : parseHost idna special input = .ok (host, rest))
    (ha : isAscii (input.take (scanHost special input false {}).nonIgnored) = true) :
    host = asciiLower (input.take (scanHost special input false {}).nonIgnored) := by
  unfold parseHost at h
  simp only [ha, if_true] at h
  injection h with h
  injection h with h1 _
  exact h1.symm

/-- non-ASCII hosts are reported as the IDNA (punycode) form -/
theorem parseHost_idn (special : Bool) (input host rest : Str)
    (h : parseHost idna special input = .ok (host, rest))
    (ha : isAscii (input.take (scanHost special input false {}).nonIgnored) = false) :
    idna (input.take (scanHost special input false {}).nonIgnored) = some host := by
  unfold parseHost at h
  simp only [ha, Bool.false_eq_true, if_false] at h
  split at h
  · rename_i e he
    injection h with h
    injection h with h1 _
    rw [he, h1]
  · cases h

end Adb.Props.C12
