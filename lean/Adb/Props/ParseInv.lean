/-
  Invariants of every rule the network-rule parser produces (model: Adb.Model.Parse, in stages):
  the pattern part is never an alternative list, and a host name never contains `*`, `/` or `^`.
  These are the syntactic hypotheses other theorems carry (`WFPart` / `wfRules` in C01 and C05,
  the host-name hypothesis of C20's `urlFilter_in_subset`): for parsed rule lists they hold.
-/
import Adb.Model.Parse
namespace Adb.Props.ParseInv
open Adb Adb.Net Adb.Parse Adb.Gen

/-- the stages a successful parse went through -/
theorem parse_stages (line : Str) (r : Rule) (h : parseNetwork line = .ok r) :
    ∃ parsed st mask0 mask1 host0 fStart mask2 filter host,
      parseAbstract line = .ok parsed ∧ optionState parsed = .ok st ∧
      markComplete (maskBeforePattern parsed st) parsed.pattern = .ok mask0 ∧
      splitHostPart parsed.la mask0 parsed.pattern = (mask1, host0, fStart) ∧
      filterSurgery mask1 parsed.pattern fStart = (mask2, filter) ∧
      normHost mask2 host0 = .ok host ∧
      finishNetwork line parsed st mask2 filter host = .ok r := by
  unfold parseNetwork at h
  split at h
  · cases h
  · rename_i parsed hp
    split at h
    · cases h
    · rename_i st hst
      split at h
      · cases h
      · rename_i mask0 hm0
        split at h
        rename_i mask1 host0 fStart hs
        split at h
        rename_i mask2 filter hf
        split at h
        · cases h
        · rename_i host hh
          exact ⟨parsed, st, mask0, mask1, host0, fStart, mask2, filter, host, hp, hst, hm0, hs, hf, hh, h⟩

theorem finish_fields (line : Str) (parsed : Abstract) (st : OptState) (mask : Mask) (filter host : Option Str)
    (r : Rule) (h : finishNetwork line parsed st mask filter host = .ok r) :
    r.filter = (match filter with | some f => .simple f | none => .empty) ∧ r.hostname = host := by
  unfold finishNetwork at h
  split at h
  · cases h
  · split at h
    · cases h
    · injection h with h; subst h
      refine ⟨?_, rfl⟩
      cases filter <;> rfl

/-- **A parsed rule's pattern part is empty or a single pattern, never an alternative list** (only
    the optimiser builds those). -/
theorem parse_wf (line : Str) (r : Rule) (h : parseNetwork line = .ok r) : ∀ ss, r.filter ≠ .anyOf ss := by
  obtain ⟨parsed, st, _, _, _, _, mask2, filter, host, _, _, _, _, _, _, hfin⟩ := parse_stages line r h
  have := (finish_fields _ _ _ _ _ _ _ hfin).1
  intro ss
  rw [this]
  cases filter <;> simp

/-! ### the host name carries none of `* / ^` -/

def NoSep (s : Str) : Prop := ∀ c ∈ s, c ≠ '*' ∧ c ≠ '/' ∧ c ≠ '^'

theorem take_firstSeparator (p : Str) (i : Nat) (h : firstSeparator p = some i) : NoSep (p.take i) := by
  unfold firstSeparator at h
  intro c hc
  obtain ⟨k, hk, hget⟩ := List.mem_iff_getElem.1 hc
  have hki : k < i := by
    have : (p.take i).length ≤ i := List.length_take_le _ _
    omega
  have hnot := (List.findIdx?_eq_some_iff_getElem.1 h).2.2 k hki
  have hck : c = p[k]'(by
      have := (List.findIdx?_eq_some_iff_getElem.1 h).1; omega) := by
    rw [← hget, List.getElem_take]
  rw [← hck] at hnot
  simp only [Bool.or_eq_true, beq_iff_eq, not_or] at hnot
  exact ⟨hnot.2, hnot.1.1, hnot.1.2⟩

theorem noSep_of_not_regex_take (p : Str) (i : Nat) (hr : checkIsRegex p = false)
    (hs : p.findIdx? (· == '/') = some i) : NoSep (p.take i) := by
  unfold checkIsRegex at hr
  simp only [Bool.or_eq_false_iff, List.contains_eq_mem, decide_eq_false_iff_not] at hr
  intro c hc
  have hcp : c ∈ p := List.mem_of_mem_take hc
  refine ⟨fun e => hr.1 (e ▸ hcp), ?_, fun e => hr.2 (e ▸ hcp)⟩
  obtain ⟨k, hk, hget⟩ := List.mem_iff_getElem.1 hc
  have hki : k < i := by
    have : (p.take i).length ≤ i := List.length_take_le _ _
    omega
  have hnot := (List.findIdx?_eq_some_iff_getElem.1 hs).2.2 k hki
  have hck : c = p[k]'(by
      have := (List.findIdx?_eq_some_iff_getElem.1 hs).1; omega) := by
    rw [← hget, List.getElem_take]
  rw [← hck] at hnot
  simpa using hnot

theorem noSep_of_not_regex_whole (p : Str) (hr : checkIsRegex p = false)
    (hs : p.findIdx? (· == '/') = none) : NoSep p := by
  unfold checkIsRegex at hr
  simp only [Bool.or_eq_false_iff, List.contains_eq_mem, decide_eq_false_iff_not] at hr
  intro c hc
  refine ⟨fun e => hr.1 (e ▸ hc), ?_, fun e => hr.2 (e ▸ hc)⟩
  have := List.findIdx?_eq_none_iff.1 hs c hc
  simpa using this

theorem splitHost_noSep (la : Option LAnchor) (mask : Mask) (p : Str) (m : Mask) (h : Str) (fs : Nat)
    (hs : splitHostPart la mask p = (m, some h, fs)) : NoSep h := by
  unfold splitHostPart at hs
  split at hs
  · split at hs
    · split at hs
      · rename_i i hi
        simp only at hs
        split at hs <;> (injection hs with _ h2; injection h2 with h3 _; injection h3 with h4; rw [← h4]; exact take_firstSeparator p i hi)
      · cases hs
    · rename_i hr
      have hr' : checkIsRegex p = false := by simpa using hr
      split at hs
      · rename_i i hi
        injection hs with _ h2; injection h2 with h3 _; injection h3 with h4
        rw [← h4]; exact noSep_of_not_regex_take p i hr' hi
      · rename_i hi
        injection hs with _ h2; injection h2 with h3 _; injection h3 with h4
        rw [← h4]; exact noSep_of_not_regex_whole p hr' hi
  · cases hs

theorem noSep_drop (s : Str) (n : Nat) (h : NoSep s) : NoSep (s.drop n) :=
  fun c hc => h c (List.mem_of_mem_drop hc)

theorem stripWww_noSep (fuel : Nat) (s : Str) (h : NoSep s) : NoSep (stripWww fuel s) := by
  induction fuel generalizing s with
  | zero => exact h
  | succ f ih =>
    unfold stripWww
    split
    · exact ih _ (noSep_drop s 4 h)
    · exact h

theorem toLower_sep (c : Char) (x : Char) (hx : x = '*' ∨ x = '/' ∨ x = '^') (h : c.toLower = x) : c = x := by
  unfold Char.toLower at h
  split at h
  · rename_i hc
    exfalso
    have hv1 : 'A'.val.toNat = 65 := by decide
    have hv2 : 'Z'.val.toNat = 90 := by decide
    have hv3 : ('a'.val - 'A'.val).toNat = 32 := by decide
    have hval : x.val.toNat = (c.val + ('a'.val - 'A'.val)).toNat := by rw [← h]
    simp only [UInt32.le_iff_toNat_le] at hc
    rw [UInt32.toNat_add] at hval
    have hxv : x.val.toNat = 42 ∨ x.val.toNat = 47 ∨ x.val.toNat = 94 := by
      rcases hx with rfl | rfl | rfl
      · left; decide
      · right; left; decide
      · right; right; decide
    omega
  · exact h

theorem asciiLower_noSep (s : Str) (h : NoSep s) : NoSep (asciiLower s) := by
  intro c hc
  unfold asciiLower at hc
  obtain ⟨d, hd, rfl⟩ := List.mem_map.1 hc
  have hds := h d hd
  refine ⟨?_, ?_, ?_⟩
  · intro e; exact hds.1 (toLower_sep d '*' (Or.inl rfl) e)
  · intro e; exact hds.2.1 (toLower_sep d '/' (Or.inr (Or.inl rfl)) e)
  · intro e; exact hds.2.2 (toLower_sep d '^' (Or.inr (Or.inr rfl)) e)

/-- **The host name of a parsed rule contains none of `*`, `/`, `^`.** -/
theorem parse_host_noSep (line : Str) (r : Rule) (h : parseNetwork line = .ok r) (hn : Str)
    (hh : r.hostname = some hn) : NoSep hn := by
  obtain ⟨parsed, st, mask0, mask1, host0, fStart, mask2, filter, host, _, _, _, hs, _, hnorm, hfin⟩ :=
    parse_stages line r h
  have hhost := (finish_fields _ _ _ _ _ _ _ hfin).2
  rw [hhost] at hh
  subst hh
  unfold normHost at hnorm
  split at hnorm
  · cases hnorm
  · rename_i h0
    have hns := splitHost_noSep _ _ _ _ _ _ hs
    have hns' : NoSep (if has mask2 IS_HOSTNAME_ANCHOR then stripWww h0.length h0 else h0) := by
      split
      · exact stripWww_noSep _ _ hns
      · exact hns
    simp only at hnorm
    generalize (if has mask2 IS_HOSTNAME_ANCHOR then stripWww h0.length h0 else h0) = h' at hnorm hns'
    by_cases ha : (h'.all fun c => decide (c.val < 128)) = true
    · rw [if_pos ha] at hnorm
      injection hnorm with hnorm
      injection hnorm with hnorm
      rw [← hnorm]
      exact asciiLower_noSep _ hns'
    · rw [if_neg ha] at hnorm
      cases hnorm

end Adb.Props.ParseInv
