/-
  Every request built by `Request::new` carries its host name inside its (lower-cased) URL between
  characters that are not token characters — the hypothesis `HostIn` of `host_groupProbed`, proved
  from the URL scanner model.
-/
import Adb.Props.C01Tokens
import Adb.Model.Url
namespace Adb.Net
open Adb Adb.Url

def stopChars : List Char := [':', '/', '?', '#', '\\']

theorem stop_not_tok (c : Char) (h : c ∈ stopChars) : isTok (Char.toLower c) = false := by
  simp only [stopChars, List.mem_cons, List.mem_nil_iff, or_false] at h
  rcases h with rfl | rfl | rfl | rfl | rfl <;> decide

/-- where the host scan stops: at the end of the input or in front of a stop character -/
theorem scanHost_stop (special : Bool) (input : Str) (inBr : Bool) (h : HScan) :
    h.consumed ≤ (scanHost special input inBr h).consumed ∧
    ∀ c, (input.drop ((scanHost special input inBr h).consumed - h.consumed)).head? = some c → c ∈ stopChars := by
  induction input generalizing inBr h with
  | nil => simp [scanHost]
  | cons x xs ih =>
    unfold scanHost
    split
    · rename_i hstop
      refine ⟨Nat.le_refl _, ?_⟩
      intro c hc
      simp only [Nat.sub_self, List.drop_zero, List.head?_cons, Option.some.injEq] at hc
      subst hc
      simp only [Bool.or_eq_true, Bool.and_eq_true, beq_iff_eq] at hstop
      simp only [stopChars, List.mem_cons, List.mem_nil_iff, or_false]
      rcases hstop with (((⟨h1, _⟩ | ⟨h1, _⟩) | h1) | h1) | h1 <;> simp [h1]
    · have step : ∀ (b : Bool) (h' : HScan), h'.consumed = h.consumed + 1 →
          h.consumed ≤ (scanHost special xs b h').consumed ∧
          ∀ c, ((x :: xs).drop ((scanHost special xs b h').consumed - h.consumed)).head? = some c → c ∈ stopChars := by
        intro b h' hc
        obtain ⟨h1, h2⟩ := ih b h'
        refine ⟨by omega, ?_⟩
        intro c hcc
        apply h2 c
        have : (scanHost special xs b h').consumed - h.consumed = ((scanHost special xs b h').consumed - h'.consumed) + 1 := by
          omega
        rw [this, List.drop_succ_cons] at hcc
        exact hcc
      split
      · exact step _ _ rfl
      · split
        · exact step _ _ rfl
        · split
          · exact step _ _ rfl
          · exact step _ _ rfl

theorem encodeUserinfo_shape (n : Nat) (input : Str) (st st' : UState) (h : encodeUserinfo n input st = .ok st')
    (hinv : st.ser = [] ∨ st.hasUn = true ∨ st.hasPw = true) :
    st'.ser = [] ∨ st'.hasUn = true ∨ st'.hasPw = true := by
  induction n generalizing input st with
  | zero => simp only [encodeUserinfo] at h; injection h with h; subst h; exact hinv
  | succ n ih =>
    simp only [encodeUserinfo] at h
    split at h
    · cases h
    · split at h
      · split at h
        · exact ih _ _ h (Or.inr (Or.inr rfl))
        · exact ih _ _ h hinv
      · apply ih _ _ h
        by_cases hp : st.hasPw = true
        · exact Or.inr (Or.inr hp)
        · right; left
          have : st.hasPw = false := by simpa using hp
          simp [this]

theorem parseUserinfo_shape (special : Bool) (input ui rem : Str) (h : parseUserinfo special input = .ok (ui, rem)) :
    ui = [] ∨ ui.getLast? = some '@' := by
  unfold parseUserinfo at h
  split at h
  · injection h with h; injection h with h1 _; exact Or.inl h1.symm
  · injection h with h; injection h with h1 _; exact Or.inl h1.symm
  · split at h
    · cases h
    · rename_i st hst
      injection h with h; injection h with h1 _
      have := encodeUserinfo_shape _ _ _ _ hst (Or.inl rfl)
      split at h1
      · right; rw [← h1]; simp
      · rename_i hn
        simp only [Bool.or_eq_true, not_or, Bool.not_eq_true] at hn
        rcases this with h2 | h2 | h2
        · left; rw [← h1]; exact h2
        · rw [hn.1] at h2; cases h2
        · rw [hn.2] at h2; cases h2

theorem afterDoubleSlash_shape (idna : Str → Option Str) (scheme : Str) (special : Bool) (input : Str) (p : Parsed)
    (h : afterDoubleSlash idna scheme special input = .ok p) :
    (∃ ui, p.pre = '/' :: '/' :: ui ∧ (ui = [] ∨ ui.getLast? = some '@')) ∧
    (∀ c, p.rest.head? = some c → c ∈ stopChars) := by
  unfold afterDoubleSlash at h
  split at h
  · cases h
  · rename_i ui remaining hu
    split at h
    · cases h
    · rename_i host rest hh
      injection h with h
      subst h
      refine ⟨⟨ui, rfl, parseUserinfo_shape special input ui remaining hu⟩, ?_⟩
      simp only
      unfold parseHost at hh
      simp only at hh
      have hstop := (scanHost_stop special remaining false {}).2
      simp only [Nat.sub_zero] at hstop
      split at hh
      · injection hh with hh; injection hh with _ h2; rw [← h2]; exact hstop
      · split at hh
        · injection hh with hh; injection hh with _ h2; rw [← h2]; exact hstop
        · cases hh

theorem parseUrl_shape (idna : Str → Option Str) (input : Str) (p : Parsed) (h : parseUrl idna input = some p) :
    (∃ ui, p.pre = '/' :: '/' :: ui ∧ (ui = [] ∨ ui.getLast? = some '@')) ∧
    (∀ c, p.rest.head? = some c → c ∈ stopChars) := by
  unfold parseUrl at h
  split at h
  · rename_i p' hp
    split at h
    · cases h
    · rename_i hne
      injection h with h
      subst h
      unfold parseHostname at hp
      split at hp
      · cases hp
      · split at hp
        · cases hp
        · exact afterDoubleSlash_shape idna _ _ _ _ hp
        · split at hp
          · exact afterDoubleSlash_shape idna _ _ _ _ hp
          · injection hp with hp
            subst hp
            simp at hne
  · cases h

theorem asciiLower_append (a b : Str) : asciiLower (a ++ b) = asciiLower a ++ asciiLower b := by
  simp [asciiLower]

/-- **Requests built by `Request::new` satisfy `HostIn`** (host names that are already lower case:
    always for ASCII hosts, and for IDN hosts when the IDNA function returns lower-case text). -/
theorem hostIn_requestNew (idna : Str → Option Str) (domainOf : Str → Str) (url src ty : Str) (q : Request)
    (h : requestNew idna domainOf url src ty = some q) (hlow : asciiLower q.hostname = q.hostname) :
    HostIn q := by
  unfold requestNew at h
  cases hp : parseUrl idna url with
  | none => rw [hp] at h; cases h
  | some p =>
    rw [hp] at h
    obtain ⟨⟨ui, hpre, hui⟩, hrest⟩ := parseUrl_shape idna url p hp
    have hq : q.urlLower = asciiLower p.url ∧ q.hostname = p.host := by
      cases hs : parseUrl idna src with
      | none => rw [hs] at h; injection h with h; subst h; exact ⟨rfl, rfl⟩
      | some s => rw [hs] at h; injection h with h; subst h; exact ⟨rfl, rfl⟩
    refine ⟨asciiLower (p.scheme ++ [':'] ++ p.pre), asciiLower p.rest, ?_, ?_, ?_⟩
    · rw [hq.1, Parsed.url, asciiLower_append, asciiLower_append, ← hq.2, hlow]
    · intro c hc
      rw [hpre] at hc
      simp only [asciiLower, List.map_append, List.map_cons] at hc
      rcases hui with rfl | hu
      · simp at hc; subst hc; decide
      · have hne : ui ≠ [] := by intro e; subst e; simp at hu
        have : (List.map Char.toLower (p.scheme ++ [':']) ++ Char.toLower '/' :: Char.toLower '/' :: List.map Char.toLower ui).getLast?
            = (List.map Char.toLower ui).getLast? := by
          rw [show (List.map Char.toLower (p.scheme ++ [':']) ++ Char.toLower '/' :: Char.toLower '/' :: List.map Char.toLower ui)
              = (List.map Char.toLower (p.scheme ++ [':']) ++ [Char.toLower '/', Char.toLower '/']) ++ List.map Char.toLower ui by simp]
          exact getLast?_append_ne _ _ (by simpa using hne)
        simp only [List.map_append, List.map_cons, List.map_nil, List.append_assoc, List.cons_append,
          List.nil_append] at hc this
        rw [this, List.getLast?_map, hu] at hc
        simp at hc; subst hc; decide
    · intro c hc
      simp only [asciiLower, List.head?_map] at hc
      cases hr : p.rest.head? with
      | none => rw [hr] at hc; cases hc
      | some x =>
        rw [hr] at hc
        simp only [Option.map_some, Option.some.injEq] at hc
        subst hc
        exact stop_not_tok x (hrest x hr)

theorem asciiLower_idem (s : Str) : asciiLower (asciiLower s) = asciiLower s := by
  simp only [asciiLower, List.map_map]
  apply List.map_congr_left
  intro c _
  simp only [Function.comp]
  unfold Char.toLower
  split
  · rename_i h
    split
    · rename_i h2
      exfalso
      simp only [UInt32.le_iff_toNat_le] at h h2
      simp only [UInt32.toNat_add] at h2
      have h1 := h.1; have h3 := h.2
      have hv1 : 'A'.val.toNat = 65 := by decide
      have hv2 : 'Z'.val.toNat = 90 := by decide
      have hv3 : ('a'.val - 'A'.val).toNat = 32 := by decide
      omega
    · rfl
  · rename_i h
    simp [h]

theorem requestNew_tokens (idna : Str → Option Str) (domainOf : Str → Str) (url src ty : Str) (q : Request)
    (h : requestNew idna domainOf url src ty = some q) : q.tokens = tokenizeUrl q.urlLower ++ [0] := by
  unfold requestNew at h
  cases hp : parseUrl idna url with
  | none => rw [hp] at h; cases h
  | some p =>
    rw [hp] at h
    cases hs : parseUrl idna src with
    | none => rw [hs] at h; injection h with h; subst h; rfl
    | some s => rw [hs] at h; injection h with h; subst h; rfl

/-- **For every request the library builds and every host-name rule, token soundness holds**: no
    per-case hypothesis is left except that the token buffers do not overflow and that the host name
    is lower case (always true for ASCII hosts, see `asciiLower_idem` / `parseHost_ascii`). -/
theorem host_rule_probed (idna : Str → Option Str) (domainOf : Str → Str) (url src ty : Str) (q : Request)
    (r : Rule) (h : Str) (hq : requestNew idna domainOf url src ty = some q) (hr : HostRule r h)
    (hlow : asciiLower q.hostname = q.hostname)
    (hnf : NotTruncated false true h) (hnu : NotTruncated false false q.urlLower) : GroupProbed r q :=
  host_groupProbed r h q hr (requestNew_tokens idna domainOf url src ty q hq)
    (hostIn_requestNew idna domainOf url src ty q hq hlow) hnf hnu

/-- … and likewise for plain-pattern rules -/
theorem plain_rule_probed (idna : Str → Option Str) (domainOf : Str → Str) (url src ty : Str) (q : Request)
    (r : Rule) (f : Str) (hq : requestNew idna domainOf url src ty = some q) (hr : PlainRule r f)
    (hnf : NotTruncated (!r.isLeftAnchor) true f) (hnu : NotTruncated false false q.urlLower) : GroupProbed r q :=
  plain_groupProbed r f q hr (requestNew_tokens idna domainOf url src ty q hq) hnf hnu

end Adb.Net
