import Adb.Model.Cosmetic
/-
  C16 — Per-site cosmetic resources contain exactly the rules scoped to that host.
  `hostnameResources` given the host's label hashes: every returned set is characterised as a set
  comprehension over the per-hash bins (populate-then-prune), for every cache and every host.
-/
namespace Adb.Cosmetic
open Adb

/-- the hashes a page host is looked up under -/
def pageHashes (hostname domain : Str) : List Hash := entityHashes hostname domain ++ hostnameHashes hostname domain

private theorem mem_setInsert (l : List Str) (x y : Str) : y ∈ setInsert l x ↔ y ∈ l ∨ y = x := by
  unfold setInsert
  split
  · rename_i h
    have hx : x ∈ l := by simpa using h
    constructor
    · intro hy; exact Or.inl hy
    · rintro (hy | rfl); exact hy; exact hx
  · simp

private theorem mem_foldl_setInsert (src dst : List Str) (y : Str) :
    y ∈ src.foldl setInsert dst ↔ y ∈ dst ∨ y ∈ src := by
  induction src generalizing dst with
  | nil => simp
  | cons x xs ih =>
    simp only [List.foldl_cons, ih, mem_setInsert, List.mem_cons]
    constructor
    · rintro ((h | h) | h); exact Or.inl h; exact Or.inr (Or.inl h); exact Or.inr (Or.inr h)
    · rintro (h | h | h); exact Or.inl (Or.inl h); exact Or.inl (Or.inr h); exact Or.inr h

private theorem mem_populate (bin : Bin Str) (hashes : List Hash) (acc : List Str) (y : Str) :
    y ∈ hashes.foldl (fun acc h => (bin.get h).foldl setInsert acc) acc ↔
      y ∈ acc ∨ ∃ h ∈ hashes, y ∈ bin.get h := by
  induction hashes generalizing acc with
  | nil => simp
  | cons h hs ih =>
    simp only [List.foldl_cons, ih, mem_foldl_setInsert, List.mem_cons]
    constructor
    · rintro ((h1 | h1) | ⟨h', hh', hy⟩)
      · exact Or.inl h1
      · exact Or.inr ⟨h, Or.inl rfl, h1⟩
      · exact Or.inr ⟨h', Or.inr hh', hy⟩
    · rintro (h1 | ⟨h', hh' | hh', hy⟩)
      · exact Or.inl (Or.inl h1)
      · subst hh'; exact Or.inl (Or.inr hy)
      · exact Or.inr ⟨h', hh', hy⟩

/-- the selectors unhidden for the host -/
def unhidden (c : Cache) (hashes : List Hash) : List Str := hashes.flatMap (fun h => c.unhide.get h)

/-- **the returned exceptions list every selector unhidden for the host** (and nothing else) -/
theorem exceptions_listed (c : Cache) (hostname domain : Str) (gh : Bool) (s : Str) :
    s ∈ (c.hostnameResources hostname domain gh).exceptions ↔
      ∃ h ∈ pageHashes hostname domain, s ∈ c.unhide.get h := by
  unfold Cache.hostnameResources pageHashes
  simp only [mem_foldl_setInsert, List.not_mem_nil, false_or, List.mem_flatMap]

/-- **hide selectors**: exactly the selectors of hide rules scoped to one of the host's names, plus —
    unless a generichide exception applies — the unscoped generic selectors that cannot be looked up by
    class or id, minus everything unhidden for the host. -/
theorem hide_spec (c : Cache) (hostname domain : Str) (gh : Bool) (s : Str) :
    s ∈ (c.hostnameResources hostname domain gh).hide ↔
      s ∉ unhidden c (pageHashes hostname domain) ∧
        ((∃ h ∈ pageHashes hostname domain, s ∈ c.hide.get h) ∨ (gh = false ∧ s ∈ c.misc)) := by
  unfold Cache.hostnameResources pageHashes unhidden
  simp only
  have hpop := mem_populate c.hide (entityHashes hostname domain ++ hostnameHashes hostname domain) [] s
  simp only [List.not_mem_nil, false_or] at hpop
  cases gh with
  | true =>
    simp only [if_true, List.mem_filter, hpop, Bool.not_eq_true', List.contains_eq_mem, decide_eq_false_iff_not,
      Bool.true_eq_false, false_and, or_false]
    constructor
    · rintro ⟨h1, h2⟩; exact ⟨h2, h1⟩
    · rintro ⟨h1, h2⟩; exact ⟨h2, h1⟩
  | false =>
    simp only [Bool.false_eq_true, if_false, mem_foldl_setInsert, List.not_mem_nil, false_or, List.mem_filter, hpop,
      Bool.not_eq_true', List.contains_eq_mem, decide_eq_false_iff_not, true_and, List.mem_flatMap]
    constructor
    · rintro ((⟨h1, h2⟩) | ⟨h1, h2⟩)
      · exact ⟨fun hx => h2 hx, Or.inr h1⟩
      · exact ⟨h2, Or.inl h1⟩
    · rintro ⟨h1, h2 | h2⟩
      · exact Or.inr ⟨h2, h1⟩
      · exact Or.inl ⟨h2, fun hx => h1 hx⟩

/-- **when a generichide exception matches the page no generic selector is returned** -/
theorem generichide_drops_generic (c : Cache) (hostname domain : Str) (s : Str)
    (hs : s ∈ (c.hostnameResources hostname domain true).hide) :
    ∃ h ∈ pageHashes hostname domain, s ∈ c.hide.get h := by
  have := (hide_spec c hostname domain true s).1 hs
  rcases this.2 with h | ⟨h, _⟩
  · exact h
  · cases h

/-- **procedural / action filters**: scoped ones minus excepted ones -/
theorem procedural_spec (c : Cache) (hostname domain : Str) (gh : Bool) (s : Str) :
    s ∈ (c.hostnameResources hostname domain gh).procedural ↔
      (∃ h ∈ pageHashes hostname domain, s ∈ c.procAction.get h) ∧
      ¬ ∃ h ∈ pageHashes hostname domain, s ∈ c.procActionExc.get h := by
  unfold Cache.hostnameResources pageHashes
  simp only
  have hpop := mem_populate c.procAction (entityHashes hostname domain ++ hostnameHashes hostname domain) [] s
  simp only [List.not_mem_nil, false_or] at hpop
  simp only [List.mem_filter, hpop, Bool.not_eq_true', List.contains_eq_mem, decide_eq_false_iff_not, List.mem_flatMap]

/-- **a blanket `+js()` exception removes all injections** -/
theorem blanket_removes_all (c : Cache) (hostname domain : Str) (gh : Bool)
    (h : ∃ hh ∈ pageHashes hostname domain, ([] : Str) ∈ c.uninject.get hh) :
    (c.hostnameResources hostname domain gh).injections = [] := by
  unfold Cache.hostnameResources pageHashes at *
  simp only
  have : (List.flatMap (fun h => c.uninject.get h) (entityHashes hostname domain ++ hostnameHashes hostname domain)).any (·.isEmpty) = true := by
    simp only [List.any_eq_true, List.mem_flatMap]
    obtain ⟨hh, h1, h2⟩ := h
    exact ⟨[], ⟨hh, h1, h2⟩, rfl⟩
  rw [if_pos this]

/-- **a scriptlet exception removes exactly the identical injection**: an injection survives only if
    no exception for the host carries exactly its text -/
theorem exception_removes_identical (c : Cache) (hostname domain : Str) (gh : Bool) (p : Str × List Nat)
    (hp : p ∈ (c.hostnameResources hostname domain gh).injections) :
    ¬ ∃ hh ∈ pageHashes hostname domain, p.1 ∈ c.uninject.get hh := by
  unfold Cache.hostnameResources pageHashes at *
  simp only at hp
  split at hp
  · cases hp
  · simp only [List.mem_filter, Bool.not_eq_true', List.contains_eq_mem, decide_eq_false_iff_not, List.mem_flatMap] at hp
    exact hp.2

/-! ### label hashing: concrete checks of the off-by-one-prone loops (deep host, multi-label suffix,
    single label); the universal statement is validated by the correspondence run -/
example : hostnameHashes "x.sub.a.co.uk".toList "a.co.uk".toList =
    ["a.co.uk", "sub.a.co.uk", "x.sub.a.co.uk"].map (fun s => fastHash s.toList) := by decide
example : entityHashes "x.sub.a.co.uk".toList "a.co.uk".toList =
    ["a", "sub.a", "x.sub.a", "co.uk"].map (fun s => fastHash s.toList) := by decide
example : hostnameHashes "localhost".toList "localhost".toList = [fastHash "localhost".toList] ∧
    entityHashes "localhost".toList "localhost".toList = [] := by decide

end Adb.Cosmetic
