import Adb.Spec.Verdict
/-
  C13 — Redirect result is the best permitted matching redirect resource.
  `chooseRedirect` is the loop of `check_parameterised` over the matching redirect rules;
  `Spec.redirectChoices` is the relational reference: the resources named by *a* maximum-priority
  matching redirect option that no matching redirect exception names.
-/
namespace Adb.Net
open Adb Adb.Net.Spec

private def pickStep (acc : Option (Str × Int)) (c : Str × Int) : Option (Str × Int) :=
  match acc with
  | some (_, p1) => if c.2 > p1 then some c else acc
  | none => some c

private theorem pick_inv (cs : List (Str × Int)) (acc : Option (Str × Int)) :
    (cs.foldl pickStep acc = none ↔ (acc = none ∧ cs = [])) ∧
    (∀ r, cs.foldl pickStep acc = some r →
      (acc = some r ∨ r ∈ cs) ∧ (∀ c ∈ cs, c.2 ≤ r.2) ∧ (∀ a, acc = some a → a.2 ≤ r.2)) := by
  induction cs generalizing acc with
  | nil =>
    refine ⟨by simp, ?_⟩
    intro r h
    simp only [List.foldl_nil] at h
    refine ⟨Or.inl h, by simp, ?_⟩
    intro a ha; rw [h] at ha; cases ha; exact Int.le_refl _
  | cons c cs ih =>
    simp only [List.foldl_cons]
    obtain ⟨ih1, ih2⟩ := ih (pickStep acc c)
    constructor
    · rw [ih1]
      constructor
      · rintro ⟨h, _⟩
        unfold pickStep at h
        cases acc with
        | none => simp at h
        | some a => obtain ⟨r0, p1⟩ := a; simp only at h; split at h <;> simp at h
      · rintro ⟨_, h⟩; simp at h
    · intro r h
      obtain ⟨hmem, hmax, hacc⟩ := ih2 r h
      cases acc with
      | none =>
        simp only [pickStep] at hmem hacc
        refine ⟨?_, ?_, by simp⟩
        · rcases hmem with h1 | h1
          · right; simp only [Option.some.injEq] at h1; subst h1; exact List.mem_cons_self ..
          · right; exact List.mem_cons_of_mem _ h1
        · intro x hx
          rcases List.mem_cons.1 hx with rfl | hx
          · exact hacc _ rfl
          · exact hmax x hx
      | some a =>
        obtain ⟨r0, p1⟩ := a
        simp only [pickStep] at hmem hacc
        by_cases hc : c.2 > p1
        · simp only [hc, if_true] at hmem hacc
          refine ⟨?_, ?_, ?_⟩
          · rcases hmem with h1 | h1
            · right; simp only [Option.some.injEq] at h1; subst h1; exact List.mem_cons_self ..
            · right; exact List.mem_cons_of_mem _ h1
          · intro x hx
            rcases List.mem_cons.1 hx with rfl | hx
            · exact hacc _ rfl
            · exact hmax x hx
          · intro a' ha'
            simp only [Option.some.injEq] at ha'; subst ha'
            have := hacc c rfl
            simp only at this ⊢
            omega
        · simp only [hc, if_false] at hmem hacc
          refine ⟨?_, ?_, ?_⟩
          · rcases hmem with h1 | h1
            · left; exact h1
            · right; exact List.mem_cons_of_mem _ h1
          · intro x hx
            rcases List.mem_cons.1 hx with rfl | hx
            · have := hacc (r0, p1) rfl; simp only at this; omega
            · exact hmax x hx
          · intro a' ha'; exact hacc a' ha'

theorem chooseRedirect_eq (matched : List Rule) :
    chooseRedirect matched = ((redirectCands matched).foldl pickStep none).map (·.1) := by
  unfold chooseRedirect redirectCands
  simp only [List.filter_map, List.foldl_map]
  congr 1

/-- **sound**: the chosen resource is named by a matching, unexcepted redirect option whose
    priority is maximal among all matching unexcepted redirect options. -/
theorem redirect_sound (matched : List Rule) (res : Str) (h : chooseRedirect matched = some res) :
    res ∈ Spec.redirectChoices matched := by
  rw [chooseRedirect_eq] at h
  cases hf : (redirectCands matched).foldl pickStep none with
  | none => simp [hf] at h
  | some r =>
    simp only [hf, Option.map_some, Option.some.injEq] at h
    obtain ⟨hmem, hmax, _⟩ := (pick_inv (redirectCands matched) none).2 r hf
    have hr : r ∈ redirectCands matched := by rcases hmem with h1 | h1; simp at h1; exact h1
    unfold Spec.redirectChoices
    simp only [List.mem_filterMap]
    refine ⟨r, hr, ?_⟩
    have : ((redirectCands matched).all fun x => decide (x.2 ≤ r.2)) = true := by
      simp only [List.all_eq_true, decide_eq_true_eq]; exact hmax
    simp only [this, if_true, h]

/-- **complete**: there is no redirect only when no matching unexcepted redirect option exists. -/
theorem redirect_none_iff (matched : List Rule) :
    chooseRedirect matched = none ↔ Spec.redirectChoices matched = [] := by
  rw [chooseRedirect_eq]
  simp only [Option.map_eq_none_iff]
  rw [(pick_inv (redirectCands matched) none).1]
  simp only [true_and]
  unfold Spec.redirectChoices
  constructor
  · intro h; simp only [h, List.filterMap_nil]
  · intro h
    -- a maximal element exists in any non-empty candidate list
    cases hc : redirectCands matched with
    | nil => rfl
    | cons c cs =>
      exfalso
      have hne : (redirectCands matched).foldl pickStep none ≠ none := by
        rw [Ne, (pick_inv (redirectCands matched) none).1]; simp [hc]
      cases hf : (redirectCands matched).foldl pickStep none with
      | none => exact hne hf
      | some r =>
        have hs : chooseRedirect matched = some r.1 := by rw [chooseRedirect_eq, hf]; rfl
        have := redirect_sound matched r.1 hs
        unfold Spec.redirectChoices at this
        rw [h] at this; simp at this

/-- a resource that requires any permission, or is of a non-redirectable kind, is never served -/
theorem permissioned_never_redirected (st : Store) (ident url : Str) (h : st.redirect ident = some url) :
    ∃ r, st.find ident = some r ∧ r.permission = 0 ∧ ¬ (Gen.noRedirectKinds.contains r.kind = true) ∧
      url = "data:".toList ++ r.mime ++ ";base64,".toList ++ r.content := by
  unfold Store.redirect at h
  cases hf : st.find ident with
  | none => simp [hf] at h
  | some r =>
    simp only [hf] at h
    split at h
    · simp at h
    · rename_i hp
      split at h
      · simp at h
      · rename_i hk
        split at h
        · simp at h
        · simp only [Option.some.injEq] at h
          refine ⟨r, rfl, ?_, hk, h.symm⟩
          simpa using hp

/-- a missing resource gives no redirect -/
theorem missing_resource_no_redirect (st : Store) (ident : Str) (h : st.find ident = none) :
    st.redirect ident = none := by
  unfold Store.redirect; simp [h]

/-- **`redirect-rule` alone never blocks**: such a rule is in none of the blocking categories
    (it is only consulted for the redirect field), whatever else the list contains. -/
theorem redirect_rule_never_blocks (f : Rule) (hr : f.isRedirect = true) (hb : f.alsoBlockRedirect = false)
    (hi : f.isImportant = false) :
    cat f ≠ .important ∧ cat f ≠ .tagged ∧ cat f ≠ .normal := by
  unfold cat
  simp only [hr, hb, hi]
  split
  · simp
  · split
    · simp
    · split
      · simp
      · split <;> simp

/-- **`redirect` also blocks** (when it carries no other category-changing option) -/
theorem redirect_blocks (f : Rule) (hr : f.isRedirect = true) (hb : f.alsoBlockRedirect = true)
    (h1 : f.isCsp = false) (h2 : f.isRemoveparam = false) (h3 : f.isGenericHide = false)
    (h4 : f.isException = false) (h5 : f.isImportant = false) : cat f = .normal := by
  unfold cat; simp [hr, hb, h1, h2, h3, h4, h5]

/-- **the redirect is independent of whether the request ends up blocked**: every admissible verdict's
    redirect field is computed from the matching redirect rules alone. -/
theorem redirect_independent_of_block (rules : List Rule) (tags : List Str) (st : Store) (q : Request)
    (hs : q.isSupported = true) (v : Verdict) (hv : v ∈ Spec.verdicts rules tags st q) :
    let choices := Spec.redirectChoices (Spec.hits ((Spec.live rules).filter Rule.isRedirect) q [])
    (choices = [] ∧ v.redirect = none) ∨ (∃ res ∈ choices, v.redirect = st.redirect res) := by
  unfold Spec.verdicts at hv
  simp only [hs, Bool.not_true, Bool.false_eq_true, if_false] at hv
  simp only [List.mem_map] at hv
  obtain ⟨rd, hrd, rfl⟩ := hv
  simp only
  split at hrd
  · rename_i he
    left
    simp only [List.mem_singleton] at hrd
    exact ⟨by simpa using he, hrd⟩
  · right
    simp only [List.mem_map] at hrd
    obtain ⟨res, hres, rfl⟩ := hrd
    exact ⟨res, hres, rfl⟩

/-! ### priority parsing: concrete behaviour of the spellings the property lists -/
example : parseRedirect "noop.js:10".toList = ("noop.js".toList, 10) := by decide
example : parseRedirect "noop.js:-5".toList = ("noop.js".toList, -5) := by decide
example : parseRedirect "noop.js:+5".toList = ("noop.js".toList, 5) := by decide
example : parseRedirect "noop.js:x".toList = ("noop.js:x".toList, 0) := by decide
example : parseRedirect "noop.js:".toList = ("noop.js:".toList, 0) := by decide
example : parseRedirect "noop.js".toList = ("noop.js".toList, 0) := by decide
example : parseRedirect "a:99999999999".toList = ("a:99999999999".toList, 0) := by decide

end Adb.Net
