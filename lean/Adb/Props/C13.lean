import Adb.Spec.Verdict
/- C13 — theorems follow. -/
namespace Adb.Net
theorem placeholder_C13 : True := trivial
end Adb.Net
