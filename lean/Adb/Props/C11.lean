/-
  C11 — list parsing is line-independent, the hosts format is the standard rule `||host^`, and the
  rule-type options load nothing of the other kind; the metadata cut-off loop ends on a character
  boundary and equals the character-level prefix.

  All statements are for every cosmetic parser `cosm` and every IDNA function `idna` (the two
  external parameters of the model).
-/
import Adb.Model.Lists
import Adb.Lemmas.Utf8
namespace Adb.Props.C11
open Adb Adb.Net Adb.Parse Adb.Lists

variable {C : Type} (cosm : Str → Except String C) (idna : Str → Option Str)

/-! ### line independence -/

theorem parseList_append (o : Opts) (a b : List Str) :
    parseList cosm idna o (a ++ b) = parseList cosm idna o a ++ parseList cosm idna o b := by
  simp [parseList]

theorem parseList_cons (o : Opts) (l : Str) (r : List Str) :
    parseList cosm idna o (l :: r) =
      (match parseLine cosm idna o l with
        | .ok p => p :: parseList cosm idna o r
        | .error _ => parseList cosm idna o r) := by
  unfold parseList
  rw [List.filterMap_cons]
  cases parseLine cosm idna o l <;> rfl

theorem parseList_cons_rejected (o : Opts) (l : Str) (r : List Str)
    (h : accepted cosm idna o l = false) :
    parseList cosm idna o (l :: r) = parseList cosm idna o r := by
  rw [parseList_cons]
  unfold accepted at h
  cases hp : parseLine cosm idna o l with
  | ok p => rw [hp] at h; cases h
  | error e => rfl

theorem parseList_rejected (o : Opts) (bad : List Str)
    (h : ∀ b ∈ bad, accepted cosm idna o b = false) : parseList cosm idna o bad = [] := by
  induction bad with
  | nil => rfl
  | cons b r ih =>
    rw [parseList_cons_rejected cosm idna o b r (h b (by simp))]
    exact ih (fun x hx => h x (by simp [hx]))

/-- A block of rejected lines anywhere in a list does not influence how the other lines are
    interpreted: the parsed rule sequence is the one of the list without that block. -/
theorem rejected_lines_skipped (o : Opts) (l₁ bad l₂ : List Str)
    (h : ∀ b ∈ bad, accepted cosm idna o b = false) :
    parseList cosm idna o (l₁ ++ bad ++ l₂) = parseList cosm idna o (l₁ ++ l₂) := by
  rw [parseList_append, parseList_append, parseList_rejected cosm idna o bad h, parseList_append]
  simp

/-- Deleting any set of rejected lines (wherever they are) leaves the parsed rules unchanged. -/
theorem delete_rejected (o : Opts) (keep : Str → Bool) (ls : List Str)
    (h : ∀ l ∈ ls, keep l = false → accepted cosm idna o l = false) :
    parseList cosm idna o (ls.filter keep) = parseList cosm idna o ls := by
  induction ls with
  | nil => rfl
  | cons l r ih =>
    have ihr := ih (fun x hx => h x (by simp [hx]))
    cases hk : keep l with
    | true =>
      rw [List.filter_cons_of_pos (by simp [hk]), parseList_cons, parseList_cons, ihr]
    | false =>
      rw [List.filter_cons_of_neg (by simp [hk]),
        parseList_cons_rejected cosm idna o l r (h l (by simp) hk), ihr]

/-- The parsed rules are those of the accepted lines alone. -/
theorem parseList_eq_accepted_only (o : Opts) (ls : List Str) :
    parseList cosm idna o (ls.filter (accepted cosm idna o)) = parseList cosm idna o ls :=
  delete_rejected cosm idna o _ ls (fun _ _ h => h)

/-- Each accepted line contributes exactly its own rule, whatever surrounds it. -/
theorem parseList_singleton_context (o : Opts) (l₁ l₂ : List Str) (l : Str) :
    parseList cosm idna o (l₁ ++ [l] ++ l₂) =
      parseList cosm idna o l₁ ++ parseList cosm idna o [l] ++ parseList cosm idna o l₂ := by
  rw [parseList_append, parseList_append]

/-! ### the hosts format -/

theorem trim_bar_caret (x : Str) : trim ('|' :: '|' :: (x ++ ['^'])) = '|' :: '|' :: (x ++ ['^']) := by
  have h1 : isWs '|' = false := by decide
  have h2 : isWs '^' = false := by decide
  simp [trim, trimStart, trimEnd, h1, h2]

theorem detect_bar (x : Str) : detectFilterType ('|' :: '|' :: x) = .network := by
  have hb : (blen ('|' :: '|' :: x) == 1) = false := by
    simp [blen, utf8, utf8Char]
  unfold detectFilterType
  rw [hb]
  simp [startsWith]

theorem hostsRuleText_shape (h text : Str) (ht : hostsRuleText idna h = .ok text) :
    ∃ x, text = '|' :: '|' :: (x ++ ['^']) := by
  unfold hostsRuleText at ht
  split at ht
  · cases ht
  · split at ht
    · injection ht with ht
      exact ⟨_, by rw [← ht]; rfl⟩
    · split at ht
      · injection ht with ht
        exact ⟨_, by rw [← ht]; rfl⟩
      · cases ht

/-- Standard-format parsing of a `||host^` text is `parseNetwork` of that text. -/
theorem standard_bar_caret (x : Str) (rt : RuleTypes) (hrt : rt.loadsNetwork = true) :
    parseLine cosm idna { format := .standard, ruleTypes := rt } ('|' :: '|' :: (x ++ ['^'])) =
      liftNet (parseNetwork ('|' :: '|' :: (x ++ ['^']))) := by
  unfold parseLine
  rw [trim_bar_caret]
  simp only [List.isEmpty_cons, Bool.false_eq_true, if_false]
  unfold parseStandard
  rw [detect_bar]
  simp only [hrt, if_true]

/-- A hosts-format entry behaves exactly like a standard rule `||host^`: whenever a hosts line is
    accepted, the rule it loads is the rule the standard format loads for the text `||h'^`, where
    `h'` is the normalised host field of the line. -/
theorem hosts_entry_is_standard_rule (rt : RuleTypes) (line : Str) (r : Rule)
    (h : parseLine cosm idna { format := .hosts, ruleTypes := rt } line = .ok (.network r)) :
    ∃ host text, hostsField (trim line) = some host ∧ hostsRuleText idna host = .ok text ∧
      (∃ x, text = '|' :: '|' :: (x ++ ['^'])) ∧
      parseLine cosm idna { format := .standard, ruleTypes := .all } text = .ok (.network r) := by
  unfold parseLine at h
  simp only at h
  split at h
  · cases h
  · unfold parseHosts at h
    split at h
    · cases h
    · split at h
      · cases h
      · rename_i host hf
        split at h
        · cases h
        · rename_i text ht
          obtain ⟨x, hx⟩ := hostsRuleText_shape idna host text ht
          refine ⟨host, text, hf, ht, ⟨x, hx⟩, ?_⟩
          subst hx
          rw [standard_bar_caret cosm idna x .all rfl]
          exact h

/-- For a line whose host field is well formed, the hosts format answers (accepts or rejects)
    exactly as the standard format answers for the `||host^` text. -/
theorem hosts_entry_eq_standard (rt : RuleTypes) (hrt : rt.loadsNetwork = true) (line host text : Str)
    (hne : (trim line).isEmpty = false)
    (hf : hostsField (trim line) = some host) (ht : hostsRuleText idna host = .ok text) :
    parseLine cosm idna { format := .hosts, ruleTypes := rt } line =
      parseLine cosm idna { format := .standard, ruleTypes := .all } text := by
  obtain ⟨x, hx⟩ := hostsRuleText_shape idna host text ht
  subst hx
  rw [standard_bar_caret cosm idna x .all rfl]
  unfold parseLine
  simp only [hne, Bool.false_eq_true, if_false]
  unfold parseHosts
  simp only [hrt, Bool.not_true, Bool.false_eq_true, if_false, hf, ht]

/-! ### rule-type options -/

theorem liftNet_not_cosmetic (x : Except String Rule) (c : C) :
    (liftNet x : Except String (Parsed C)) ≠ .ok (.cosmetic c) := by
  cases x <;> simp [liftNet]

theorem liftCosm_not_network (x : Except String C) (r : Rule) :
    liftCosm x ≠ .ok (.network r) := by
  cases x <;> simp [liftCosm]

theorem parseHosts_not_cosmetic (rt : RuleTypes) (f : Str) (c : C) :
    (parseHosts idna rt f : Except String (Parsed C)) ≠ .ok (.cosmetic c) := by
  unfold parseHosts
  split
  · simp
  · split
    · simp
    · split
      · simp
      · exact liftNet_not_cosmetic _ c

theorem parseLine_hosts_not_cosmetic (rt : RuleTypes) (line : Str) (c : C) :
    parseLine cosm idna { format := .hosts, ruleTypes := rt } line ≠ .ok (.cosmetic c) := by
  unfold parseLine
  simp only
  split
  · simp
  · exact parseHosts_not_cosmetic idna rt _ c

theorem parseLine_networkOnly_not_cosmetic (f : Format) (line : Str) (c : C) :
    parseLine cosm idna { format := f, ruleTypes := .networkOnly } line ≠ .ok (.cosmetic c) := by
  cases f with
  | hosts => exact parseLine_hosts_not_cosmetic cosm idna _ line c
  | standard =>
    unfold parseLine
    simp only
    split
    · simp
    · unfold parseStandard
      cases detectFilterType (trim line) with
      | network => simp only [RuleTypes.loadsNetwork, if_true]; exact liftNet_not_cosmetic _ c
      | cosmetic => simp [RuleTypes.loadsCosmetic]
      | notSupported => simp

theorem parseLine_cosmeticOnly_not_network (f : Format) (line : Str) (r : Rule) :
    parseLine cosm idna { format := f, ruleTypes := .cosmeticOnly } line ≠ .ok (.network r) := by
  unfold parseLine
  simp only
  split
  · simp
  · cases f with
    | hosts => simp [parseHosts, RuleTypes.loadsNetwork]
    | standard =>
      simp only
      unfold parseStandard
      cases detectFilterType (trim line) with
      | network => simp [RuleTypes.loadsNetwork]
      | cosmetic => simp only [RuleTypes.loadsCosmetic, if_true]; exact liftCosm_not_network _ r
      | notSupported => simp

/-- `NetworkOnly` loads no cosmetic rule, for every list and both formats. -/
theorem network_only_loads_no_cosmetic (f : Format) (ls : List Str) :
    cosmeticOf (parseList cosm idna { format := f, ruleTypes := .networkOnly } ls) = [] := by
  induction ls with
  | nil => rfl
  | cons l r ih =>
    rw [parseList_cons]
    cases hp : parseLine cosm idna { format := f, ruleTypes := .networkOnly } l with
    | error e => exact ih
    | ok p =>
      cases p with
      | network r' => simp only [cosmeticOf, List.filterMap_cons] at ih ⊢; exact ih
      | cosmetic c => exact absurd hp (parseLine_networkOnly_not_cosmetic cosm idna f l c)

/-- `CosmeticOnly` loads no network rule, for every list and both formats. -/
theorem cosmetic_only_loads_no_network (f : Format) (ls : List Str) :
    networkOf (parseList cosm idna { format := f, ruleTypes := .cosmeticOnly } ls) = [] := by
  induction ls with
  | nil => rfl
  | cons l r ih =>
    rw [parseList_cons]
    cases hp : parseLine cosm idna { format := f, ruleTypes := .cosmeticOnly } l with
    | error e => exact ih
    | ok p =>
      cases p with
      | cosmetic c => simp only [networkOf, List.filterMap_cons] at ih ⊢; exact ih
      | network r' => exact absurd hp (parseLine_cosmeticOnly_not_network cosm idna f l r')

/-- A hosts list never loads a cosmetic rule, whatever the rule-type option. -/
theorem hosts_loads_no_cosmetic (rt : RuleTypes) (ls : List Str) :
    cosmeticOf (parseList cosm idna { format := .hosts, ruleTypes := rt } ls) = [] := by
  induction ls with
  | nil => rfl
  | cons l r ih =>
    rw [parseList_cons]
    cases hp : parseLine cosm idna { format := .hosts, ruleTypes := rt } l with
    | error e => exact ih
    | ok p =>
      cases p with
      | network r' => simp only [cosmeticOf, List.filterMap_cons] at ih ⊢; exact ih
      | cosmetic c => exact absurd hp (parseLine_hosts_not_cosmetic cosm idna rt l c)

/-- In the standard format `All` loads exactly the network rules of `NetworkOnly` … -/
theorem all_network_eq_network_only (line : Str) (r : Rule) :
    parseLine cosm idna { format := .standard, ruleTypes := .all } line = .ok (.network r) ↔
    parseLine cosm idna { format := .standard, ruleTypes := .networkOnly } line = .ok (.network r) := by
  unfold parseLine
  simp only
  split
  · simp
  · unfold parseStandard
    cases detectFilterType (trim line) with
    | network => simp [RuleTypes.loadsNetwork]
    | cosmetic =>
      simp only [RuleTypes.loadsCosmetic, if_true, Bool.false_eq_true, if_false]
      constructor
      · intro h; exact absurd h (liftCosm_not_network _ r)
      · intro h; cases h
    | notSupported => simp

/-- … and exactly the cosmetic rules of `CosmeticOnly`. -/
theorem all_cosmetic_eq_cosmetic_only (line : Str) (c : C) :
    parseLine cosm idna { format := .standard, ruleTypes := .all } line = .ok (.cosmetic c) ↔
    parseLine cosm idna { format := .standard, ruleTypes := .cosmeticOnly } line = .ok (.cosmetic c) := by
  unfold parseLine
  simp only
  split
  · simp
  · unfold parseStandard
    cases detectFilterType (trim line) with
    | cosmetic => simp [RuleTypes.loadsCosmetic]
    | network =>
      simp only [RuleTypes.loadsNetwork, if_true, Bool.false_eq_true, if_false]
      constructor
      · intro h; exact absurd h (liftNet_not_cosmetic _ c)
      · intro h; cases h
    | notSupported => simp

/-! ### metadata -/

/-- Metadata fields are never overwritten (`try_add`: first value wins). -/
theorem tryAdd_keeps (m : Meta) (line : Str) :
    (m.title.isSome → (m.tryAdd line).title = m.title) ∧
    (m.homepage.isSome → (m.tryAdd line).homepage = m.homepage) ∧
    (m.expires.isSome → (m.tryAdd line).expires = m.expires) ∧
    (m.redirect.isSome → (m.tryAdd line).redirect = m.redirect) := by
  unfold Meta.tryAdd
  split
  · split
    · refine ⟨?_, ?_, ?_, ?_⟩ <;> intro hs <;> (repeat' split) <;> simp_all
    · simp
  · simp

/-- The cut-off loop of `read_list_metadata` terminates (structural recursion) at a character
    boundary not beyond 1024 bytes … -/
theorem metadata_cutoff_boundary (s : Str) :
    metaCutoff (utf8 s) ≤ 1024 ∧ metaCutoff (utf8 s) ≤ blen s ∧
      isCharBoundaryB (utf8 s) (metaCutoff (utf8 s)) = true := by
  unfold metaCutoff
  have h1 := Utf8.cutoffLoop_le (utf8 s) (min (utf8 s).length 1024)
  have h2 := Utf8.cutoffLoop_boundary (utf8 s) (min (utf8 s).length 1024)
  refine ⟨by omega, ?_, h2⟩
  show _ ≤ (utf8 s).length
  omega

/-- … and the slice `list[0..cutoff]` is the longest character prefix of at most 1024 bytes,
    which is what `readListMetadata` scans. -/
theorem metadata_slice_eq (s : Str) :
    (utf8 s).take (metaCutoff (utf8 s)) = utf8 (takeBytes s 1024) := Utf8.slice_cutoff_eq s

end Adb.Props.C11
