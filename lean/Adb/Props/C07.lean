import Adb.Model.History
import Adb.Props.C15
/-
  C07 — Tagged rules are active exactly when their tag is enabled.
-/
namespace Adb.Net
open Adb Adb.Net.Spec

/-! ### the tag mutators are set assignment, union and difference -/

theorem tagsWithSet_tags (b : Blocker) (T : List Str) : (b.tagsWithSet T).tagsEnabled = T := rfl

/-- **use = assignment** -/
theorem use_is_assign (b : Blocker) (t : List Str) (x : Str) : x ∈ (b.useTags t).tagsEnabled ↔ x ∈ t := by
  unfold Blocker.useTags; rw [tagsWithSet_tags, mem_dedupS]

/-- **enable = union** -/
theorem enable_is_union (b : Blocker) (t : List Str) (x : Str) :
    x ∈ (b.enableTags t).tagsEnabled ↔ x ∈ t ∨ x ∈ b.tagsEnabled := by
  unfold Blocker.enableTags; rw [tagsWithSet_tags, mem_dedupS, List.mem_append]

/-- **disable = difference** -/
theorem disable_is_diff (b : Blocker) (t : List Str) (x : Str) :
    x ∈ (b.disableTags t).tagsEnabled ↔ x ∈ b.tagsEnabled ∧ x ∉ t := by
  unfold Blocker.disableTags; rw [tagsWithSet_tags]
  simp [List.mem_filter]

/-- **the tag query reports membership** -/
theorem tag_exists_iff_mem (s : HState) (t : Str) : s.tagExists t = true ↔ t ∈ s.b.tagsEnabled := by
  unfold HState.tagExists; simp

/-- **loading a serialized engine keeps the caller's enabled set**, whichever engine (with whichever
    tag set) produced the bytes -/
theorem load_keeps_tags (b producer : Blocker) (x : Str) :
    x ∈ (b.loadFrom producer).tagsEnabled ↔ x ∈ b.tagsEnabled := by
  unfold Blocker.loadFrom; simp only; rw [use_is_assign]

theorem reload_keeps_tags (b : Blocker) (x : Str) : x ∈ b.reload.tagsEnabled ↔ x ∈ b.tagsEnabled :=
  load_keeps_tags b b x

/-- optimisation and incremental addition leave the enabled set alone -/
theorem optimize_keeps_tags (b : Blocker) : b.optimizeNow.tagsEnabled = b.tagsEnabled := rfl

theorem add_keeps_tags (b : Blocker) (r : Rule) : (b.addFilter r).1.tagsEnabled = b.tagsEnabled := by
  unfold Blocker.addFilter
  simp only
  split <;> (try rfl)
  all_goals (repeat (first | rfl | split))

/-- the abstract meaning of a history for the enabled set -/
def tagSem (T : List Str) : HOp → List Str
  | .useTags t => t
  | .enableTags t => t ++ T
  | .disableTags t => T.filter (fun x => !t.contains x)
  | _ => T

/-- **any sequence** of use / enable / disable / optimise / add / reload: the enabled set is the fold
    of assignment, union and difference over the history -/
theorem tags_after_history (s : HState) (ops : List HOp) (x : Str) :
    x ∈ (hrun s ops).b.tagsEnabled ↔ x ∈ ops.foldl tagSem s.b.tagsEnabled := by
  unfold hrun
  suffices h : ∀ (s : HState) (T : List Str), (∀ x, x ∈ s.b.tagsEnabled ↔ x ∈ T) →
      ∀ x, x ∈ (ops.foldl hstep s).b.tagsEnabled ↔ x ∈ ops.foldl tagSem T from h s _ (fun _ => Iff.rfl) x
  induction ops with
  | nil => intro s T h x; simpa using h x
  | cons op ops ih =>
    intro s T h x
    simp only [List.foldl_cons]
    apply ih
    intro y
    cases op with
    | useTags t => simp only [hstep, tagSem]; exact use_is_assign _ _ _
    | enableTags t =>
      simp only [hstep, tagSem]; rw [enable_is_union, List.mem_append, h y]
    | disableTags t =>
      simp only [hstep, tagSem]; rw [disable_is_diff, h y]; simp [List.mem_filter]
    | optimize => simp only [hstep, tagSem]; rw [optimize_keeps_tags]; exact h y
    | add r =>
      simp only [hstep, tagSem]
      have := add_keeps_tags s.b r
      cases hh : s.b.addFilter r with
      | mk b' ok => rw [hh] at this; simp only at this ⊢; rw [this]; exact h y
    | reload => simp only [hstep, tagSem]; rw [reload_keeps_tags]; exact h y
    | loadFresh t => simp only [hstep, tagSem]; rw [load_keeps_tags]; exact h y

/-! ### a tagged rule takes part in matching iff its tag is enabled -/

/-- **rule-by-rule semantics**: in every category a tag can be combined with (blocking = `tagged`,
    exception, important, csp), a rule carrying `tag=t` is among the hits for a request iff it
    matches the request and `t` is in the current set. -/
theorem active_iff_tag_enabled (rules : List Rule) (c : Cat) (q : Request) (T : List Str) (ρ : Rule) (t : Str)
    (hρ : ρ ∈ (live rules).filter (fun f => cat f == c)) (ht : ρ.tag = some t) :
    ρ ∈ hits ((live rules).filter (fun f => cat f == c)) q T ↔ ρ.matches q = true ∧ t ∈ T := by
  have h1 := (List.mem_filter.1 hρ).1
  have h2 : cat ρ = c := by simpa using (List.mem_filter.1 hρ).2
  unfold hits tagOk
  simp [List.mem_filter, ht, h1, h2]

/-- the engine queries the blocking, exception, important and csp lists with the enabled set
    (the engine-level statement is `check_of_repr` / `csp_engine_eq_spec`: the model's lookups return
    exactly these hits).  Untagged rules are always active: -/
theorem untagged_always_active (ρ : Rule) (T : List Str) (h : ρ.tag = none) : tagOk ρ T = true := by
  simp [tagOk, h]

/-- outside the property's category list: `redirect` + `tag` rules are stored in the untagged
    blocking list, which is queried with the empty tag set, so they stay inert (mirrors the code) -/
theorem redirect_tag_inert (ρ : Rule) (t : Str) (h : ρ.tag = some t) : tagOk ρ [] = false := by
  simp [tagOk, h]

/-! ### non-vacuity -/
example : (([] : List Str) |> fun T => [HOp.useTags ["a".toList], .enableTags ["b".toList], .disableTags ["a".toList]].foldl tagSem T)
    = ["b".toList] := by decide

end Adb.Net
