/-
  The arms of `parse_filter_options`.
  The table is re-extracted from the source on every run; its independent statement is in `Adb.Spec.Tables`.
-/
import Adb.Generated.Tables
import Adb.Spec.Tables
namespace Adb.Props.TblOptions
open Adb

/-- `parse_filter_options`: an arm that accepts an option builds what the option's name means -/
theorem option_arms_as_specified :
    ∀ a ∈ Gen.optionArms, a.2.2.1 = "ok" → Spec.optionMeaning a.1 = some a.2.2.2.1 := by decide

/-- every option name has an accepting arm -/
theorem option_names_covered :
    ∀ n ∈ Spec.optionNames, Gen.optionArms.any (fun a => a.1 == n && a.2.2.1 == "ok") = true := by decide

/-- the rejecting arms are exactly the negations of the options that cannot be negated -/
theorem option_errors_as_specified :
    ∀ a ∈ Gen.optionArms, a.2.2.1 = "err" → (a.1 ∈ Spec.notNegatable ∧ a.2.1 = "true") := by decide

theorem not_negatable_rejected :
    ∀ n ∈ Spec.notNegatable, Gen.optionArms.any (fun a => a.1 == n && a.2.1 == "true" && a.2.2.1 == "err") = true := by decide

/-- an option that can be negated carries its negation flag through (`neg`), every other arm ignores it -/
theorem negatable_carry_negation :
    ∀ a ∈ Gen.optionArms, a.2.1 = "negated" → a.2.2.2.2 = "neg" := by decide

end Adb.Props.TblOptions
