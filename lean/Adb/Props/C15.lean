import Adb.Spec.Verdict
/- C15 — theorems follow. -/
namespace Adb.Net
theorem placeholder_C15 : True := trivial
end Adb.Net
