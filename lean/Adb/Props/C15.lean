import Adb.Spec.Verdict
/-
  C15 — Injected CSP is the union of matching csp rules minus excepted directives.
  `cspMerge` is the merge the engine (`Blocker.csp?`) and the reference (`Spec.csp?`) both apply to the
  matching csp rules; which rules match is C01's business (`index_complete`).
-/
namespace Adb.Net
open Adb

/-- the directives of a CSP answer, as a list standing for a set (`none` = no policy) -/
def directives (o : Option (List Str)) : List Str := o.getD []

private theorem mem_dedupS_go (l : List Str) (acc : List Str) (d : Str) :
    d ∈ l.foldl (fun acc x => if acc.contains x then acc else acc ++ [x]) acc ↔ d ∈ acc ∨ d ∈ l := by
  induction l generalizing acc with
  | nil => simp
  | cons x xs ih =>
    simp only [List.foldl_cons, ih, List.mem_cons]
    split
    · rename_i h
      have hx : x ∈ acc := by simpa using h
      constructor
      · rintro (h | h); exact Or.inl h; exact Or.inr (Or.inr h)
      · rintro (h | rfl | h); exact Or.inl h; exact Or.inl hx; exact Or.inr h
    · simp only [List.mem_append, List.mem_singleton]
      constructor
      · rintro ((h | rfl) | h); exact Or.inl h; exact Or.inr (Or.inl rfl); exact Or.inr (Or.inr h)
      · rintro (h | rfl | h); exact Or.inl (Or.inl h); exact Or.inl (Or.inr rfl); exact Or.inr h

theorem mem_dedupS (l : List Str) (d : Str) : d ∈ dedupS l ↔ d ∈ l := by
  unfold dedupS; rw [mem_dedupS_go]; simp

/-- a matching csp exception that names no directive -/
def blanket (fs : List Rule) : Prop := ∃ f ∈ fs, f.isException = true ∧ f.isCsp = true ∧ f.modifier = none

/-- **C15, set equality**: a directive is in the returned policy iff some matching (non-exception)
    csp rule carries it, no matching csp exception names it, and no matching csp exception is blanket.
    Holds for every list of matching rules (any length, any order, duplicates allowed). -/
theorem csp_set_eq_spec (fs : List Rule) (d : Str) :
    d ∈ directives (cspMerge fs) ↔
      (∃ f ∈ fs, f.isException = false ∧ f.isCsp = true ∧ f.modifier = some d) ∧
      (¬ ∃ f ∈ fs, f.isException = true ∧ f.isCsp = true ∧ f.modifier = some d) ∧ ¬ blanket fs := by
  unfold cspMerge directives blanket
  split
  · rename_i hb
    simp only [Option.getD_none, List.not_mem_nil, false_iff]
    simp only [List.any_eq_true, Bool.and_eq_true, Option.isNone_iff_eq_none] at hb
    obtain ⟨f, hf, ⟨he, hc⟩, hm⟩ := hb
    intro h; exact h.2.2 ⟨f, hf, he, hc, hm⟩
  · rename_i hb
    have hnb : ¬ ∃ f ∈ fs, f.isException = true ∧ f.isCsp = true ∧ f.modifier = none := by
      rintro ⟨f, hf, he, hc, hm⟩
      apply hb
      simp only [List.any_eq_true, Bool.and_eq_true, Option.isNone_iff_eq_none]
      exact ⟨f, hf, ⟨he, hc⟩, hm⟩
    have key : ∀ l : List Str, d ∈ (if (dedupS l).isEmpty then none else some (dedupS l)).getD [] ↔ d ∈ l := by
      intro l
      split
      · rename_i h
        have : dedupS l = [] := by simpa using h
        simp only [Option.getD_none, List.not_mem_nil, false_iff]
        intro hd; have := (mem_dedupS l d).2 hd; simp_all
      · simp [mem_dedupS]
    rw [key]
    simp only [List.mem_filter, List.mem_filterMap, Bool.and_eq_true,
      List.contains_eq_mem, decide_eq_false_iff_not, Bool.not_eq_eq_eq_not, Bool.not_true]
    constructor
    · rintro ⟨⟨f, ⟨hf, he, hc⟩, hm⟩, hnd⟩
      refine ⟨⟨f, hf, he, hc, hm⟩, ?_, hnb⟩
      rintro ⟨g, hg, hge, hgc, hgm⟩
      exact hnd ⟨g, ⟨hg, hge, hgc⟩, hgm⟩
    · rintro ⟨⟨f, hf, he, hc, hm⟩, hnd, _⟩
      refine ⟨⟨f, ⟨hf, he, hc⟩, hm⟩, ?_⟩
      rintro ⟨g, ⟨hg, hge, hgc⟩, hgm⟩
      exact hnd ⟨g, hg, hge, hgc, hgm⟩

theorem dedupS_nodup (l : List Str) : (dedupS l).Nodup := by
    unfold dedupS
    suffices h : ∀ acc : List Str, acc.Nodup →
        (l.foldl (fun acc x => if acc.contains x then acc else acc ++ [x]) acc).Nodup from h [] (by simp)
    induction l with
    | nil => intro acc h; simpa
    | cons x xs ih =>
      intro acc h
      simp only [List.foldl_cons]
      apply ih
      split
      · exact h
      · rename_i hx
        rw [List.nodup_append]
        refine ⟨h, by simp, ?_⟩
        intro a ha b hb
        simp only [List.mem_singleton] at hb
        subst hb
        intro hab; subst hab
        apply hx; simpa using ha

private theorem dedupS_go_nodup (l : List Str) : ∀ acc : List Str, (acc ++ l).Nodup →
    l.foldl (fun acc x => if acc.contains x then acc else acc ++ [x]) acc = acc ++ l := by
  induction l with
  | nil => intro acc _; simp
  | cons x xs ih =>
    intro acc hn
    simp only [List.foldl_cons]
    have hx : acc.contains x = false := by
      rw [List.nodup_append] at hn
      have := hn.2.2
      cases hc : acc.contains x with
      | false => rfl
      | true =>
        exfalso
        have hm : x ∈ acc := by simpa using hc
        exact this x hm x (List.mem_cons_self ..) rfl
    simp only [hx, Bool.false_eq_true, if_false]
    have := ih (acc ++ [x]) (by simpa using hn)
    simpa using this

/-- a duplicate-free list is a fixed point of `dedupS` -/
theorem dedupS_of_nodup (l : List Str) (h : l.Nodup) : dedupS l = l := by
  unfold dedupS
  simpa using dedupS_go_nodup l [] (by simpa using h)

/-- the returned list has no duplicate directive (it stands for a set) -/
theorem csp_nodup (fs : List Rule) : (directives (cspMerge fs)).Nodup := by
  have hd := dedupS_nodup
  unfold cspMerge directives
  split
  · simp
  · dsimp only
    split
    · simp
    · simpa using hd _

/-- **rule and bucket order are irrelevant**: permuting the matching rules (and adding duplicates of
    them, as a rule stored in several buckets produces) leaves the policy unchanged as a set. -/
theorem csp_perm_invariant (fs gs : List Rule) (h : ∀ f, f ∈ fs ↔ f ∈ gs) (d : Str) :
    d ∈ directives (cspMerge fs) ↔ d ∈ directives (cspMerge gs) := by
  rw [csp_set_eq_spec, csp_set_eq_spec]
  unfold blanket
  simp only [h]

/-- a policy is returned iff at least one directive remains -/
theorem csp_some_iff (fs : List Rule) : (cspMerge fs).isSome ↔ directives (cspMerge fs) ≠ [] := by
  unfold cspMerge directives
  split
  · simp
  · dsimp only
    split
    · simp
    · rename_i h; simp; simpa using h

/-- **a blanket exception kills everything** -/
theorem blanket_exception_kills_all (fs : List Rule) (h : blanket fs) : cspMerge fs = none := by
  have : directives (cspMerge fs) = [] := by
    apply List.eq_nil_iff_forall_not_mem.2
    intro d hd
    exact ((csp_set_eq_spec fs d).1 hd).2.2 h
  cases hc : cspMerge fs with
  | none => rfl
  | some l =>
    have := (csp_some_iff fs).1 (by simp [hc])
    contradiction

/-- **other request types never get a policy** (engine model and reference alike) -/
theorem csp_none_for_other_types (b : Blocker) (q : Request)
    (h : q.tyName ≠ "Document" ∧ q.tyName ≠ "Subdocument") : b.csp? q = none := by
  unfold Blocker.csp?
  simp [h.1, h.2]

theorem spec_csp_none_for_other_types (rules : List Rule) (tags : List Str) (q : Request)
    (h : q.tyName ≠ "Document" ∧ q.tyName ≠ "Subdocument") : Spec.csp? rules tags q = none := by
  unfold Spec.csp?
  simp [h.1, h.2]

/-- **engine = reference** for the CSP query whenever the index returns exactly the matching csp rules
    (that hypothesis is `index_complete`, C01), for every rule list, tag set and request. -/
theorem csp_engine_eq_spec (b : Blocker) (rules : List Rule) (tags : List Str) (q : Request)
    (hidx : ∀ f, f ∈ b.csp.checkAll q b.tagsEnabled ↔
      f ∈ Spec.hits ((Spec.live rules).filter (fun f => cat f == .csp)) q tags) (d : Str) :
    d ∈ directives (b.csp? q) ↔ d ∈ directives (Spec.csp? rules tags q) := by
  unfold Blocker.csp? Spec.csp?
  split
  · simp
  · exact csp_perm_invariant _ _ hidx d

/-! ### non-vacuity -/
private def mk (exc : Bool) (m : Option String) : Rule :=
  { mask := (if exc then 2 ^ Gen.IS_EXCEPTION else 0) ||| 2 ^ Gen.IS_CSP, filter := .empty, hostname := none,
    domains := none, notDomains := none, domainsUnion := none, notDomainsUnion := none,
    modifier := m.map String.toList, tag := none, id := 0 }

example : cspMerge [mk false (some "a"), mk false (some "b"), mk true (some "a"), mk false (some "b")]
    = some ["b".toList] := by decide
example : cspMerge [mk false (some "a"), mk true none] = none := by decide
example : blanket [mk false (some "a"), mk true none] :=
  ⟨mk true none, List.mem_cons_of_mem _ (List.mem_cons_self ..), by decide, by decide, rfl⟩

end Adb.Net
