/-
  C02, hostname-anchored rules (`||host…`): every path `check_pattern` can take for such a rule equals the
  reference reading "the host text occurs in the request host at label boundaries and the remainder
  matches directly after that occurrence", when the host text occurs at most once in the request host
  (the excluded case is known finding F2).
-/
import Adb.Props.C02
namespace Adb.Net
open Adb Adb.Spec

/-! ### first occurrence of a string -/

/-- `findSub` returns the first position at which the needle is a prefix -/
theorem findSub_some_iff (f s : Str) (i : Nat) :
    findSub f s = some i ↔ i ≤ s.length ∧ f.isPrefixOf (s.drop i) = true ∧ ∀ j < i, f.isPrefixOf (s.drop j) = false := by
  induction s generalizing i with
  | nil =>
    unfold findSub
    constructor
    · intro h
      split at h
      · rename_i he
        injection h with h; subst h
        have : f = [] := by simpa using he
        subst this
        exact ⟨Nat.le_refl _, rfl, fun j hj => absurd hj (Nat.not_lt_zero _)⟩
      · cases h
    · rintro ⟨hi, hp, _⟩
      have : i = 0 := by simpa using hi
      subst this
      have : f = [] := by
        cases f with
        | nil => rfl
        | cons a as => simp [List.isPrefixOf] at hp
      subst this; rfl
  | cons c cs ih =>
    unfold findSub
    split
    · rename_i hp
      constructor
      · intro h; injection h with h; subst h
        exact ⟨Nat.zero_le _, hp, fun j hj => absurd hj (Nat.not_lt_zero _)⟩
      · rintro ⟨_, _, hmin⟩
        cases i with
        | zero => rfl
        | succ k => have := hmin 0 (Nat.succ_pos _); rw [List.drop_zero, hp] at this; cases this
    · rename_i hp
      have hp' : f.isPrefixOf (c :: cs) = false := Bool.eq_false_iff.2 hp
      constructor
      · intro h
        cases hq : findSub f cs with
        | none => rw [hq] at h; cases h
        | some k =>
          rw [hq] at h
          simp only [Option.map_some, Option.some.injEq] at h
          subst h
          obtain ⟨h1, h2, h3⟩ := (ih k).1 hq
          refine ⟨by simp; omega, by simpa using h2, ?_⟩
          intro j hj
          cases j with
          | zero => simpa using hp'
          | succ j' => simpa using h3 j' (by omega)
      · rintro ⟨hi, hpi, hmin⟩
        cases i with
        | zero => rw [List.drop_zero, hp'] at hpi; cases hpi
        | succ k =>
          have : findSub f cs = some k := (ih k).2 ⟨by simpa using hi, by simpa using hpi,
            fun j hj => by simpa using hmin (j + 1) (by omega)⟩
          rw [this]; rfl

theorem findSub_none_iff (f s : Str) : findSub f s = none ↔ ∀ j ≤ s.length, f.isPrefixOf (s.drop j) = false := by
  induction s with
  | nil =>
    unfold findSub
    constructor
    · intro h j hj
      have : j = 0 := by simpa using hj
      subst this
      split at h
      · cases h
      · rename_i he
        cases f with
        | nil => simp at he
        | cons a as => rfl
    · intro h
      have := h 0 (Nat.le_refl _)
      cases f with
      | nil => simp at this
      | cons a as => rfl
  | cons c cs ih =>
    unfold findSub
    constructor
    · intro h
      split at h
      · cases h
      · rename_i hp
        have hq : findSub f cs = none := by
          cases hq : findSub f cs with
          | none => rfl
          | some k => rw [hq] at h; cases h
        intro j hj
        cases j with
        | zero => exact Bool.eq_false_iff.2 hp
        | succ j' => simpa using (ih.1 hq) j' (by simpa using hj)
    · intro h
      have h0 := h 0 (Nat.zero_le _)
      rw [List.drop_zero] at h0
      rw [if_neg (by simp [h0])]
      have : findSub f cs = none := ih.2 (fun j hj => by simpa using h (j + 1) (by simpa using hj))
      rw [this]; rfl


/-! ### anchoring = label boundaries at the first occurrence -/

/-- occurrence `i` of `H` in `host` sits at label boundaries (the right one waived when `wild`) -/
def boundaryW (H host : Str) (wild : Bool) (i : Nat) : Bool :=
  H.isPrefixOf (host.drop i) &&
  (i == 0 || (host.drop (i - 1)).head? == some '.' || H.head? == some '.') &&
  (i + H.length == host.length || (host.drop (i + H.length)).head? == some '.' || H.getLast? == some '.' || wild)

theorem boundaryOk_eq (H host rest : Str) (i : Nat) :
    boundaryOk H host rest i = boundaryW H host (rest.head? == some '*') i := rfl

theorem isPrefixOf_length {f s : Str} (h : f.isPrefixOf s = true) : f.length ≤ s.length := by
  obtain ⟨t, rfl⟩ := List.isPrefixOf_iff_prefix.1 h
  simp

theorem anchored_eq_first (H host : Str) (wild : Bool) (hne : H ≠ []) :
    isAnchoredByHostname H host wild =
      (match findSub H host with
       | none => false
       | some i => boundaryW H host wild i) := by
  have hl0 : (H.length == 0) = false := by
    cases H with
    | nil => exact absurd rfl hne
    | cons _ _ => simp
  unfold isAnchoredByHostname
  simp only [hl0, Bool.false_eq_true, if_false]
  by_cases hgt : H.length > host.length
  · rw [if_pos (by simpa using hgt)]
    have : findSub H host = none := by
      rw [findSub_none_iff]
      intro j _
      apply Bool.eq_false_iff.2
      intro hp
      have := isPrefixOf_length hp
      simp at this; omega
    rw [this]
  · rw [if_neg (by simpa using hgt)]
    by_cases heq : H.length = host.length
    · rw [if_pos (by simpa using heq)]
      by_cases hh : H = host
      · subst hh
        have : findSub H H = some 0 := by
          rw [findSub_some_iff]
          exact ⟨Nat.zero_le _, by simp, fun j hj => absurd hj (Nat.not_lt_zero _)⟩
        rw [this]
        simp [boundaryW]
      · have hb : (H == host) = false := by simpa using hh
        rw [hb]
        have : findSub H host = none := by
          rw [findSub_none_iff]
          intro j _
          apply Bool.eq_false_iff.2
          intro hp
          have hlen := isPrefixOf_length hp
          simp at hlen
          have hj0 : j = 0 := by omega
          subst hj0
          obtain ⟨t, ht⟩ := List.isPrefixOf_iff_prefix.1 hp
          rw [List.drop_zero] at ht
          have : t = [] := by
            have := congrArg List.length ht
            simp at this
            exact List.eq_nil_of_length_eq_zero (by omega)
          subst this
          simp at ht
          exact hh ht
        rw [this]
    · rw [if_neg (by simpa using heq)]
      have hlt : H.length < host.length := by omega
      cases hf : findSub H host with
      | none => rfl
      | some mi =>
        obtain ⟨hmi, hpre, _⟩ := (findSub_some_iff H host mi).1 hf
        have hroom : mi + H.length ≤ host.length := by
          have := isPrefixOf_length hpre; simp at this; omega
        simp only []
        unfold boundaryW startsWithDot endsWithDot
        rw [hpre, Bool.true_and]
        by_cases h0 : mi = 0
        · subst h0
          have e1 : (H.length == host.length) = false := by simp; omega
          simp [e1, Bool.or_comm, Bool.or_assoc, Bool.or_left_comm]
        · have e0 : (mi == 0) = false := by simpa using h0
          rw [if_neg (by simpa using h0)]
          by_cases hend : mi = host.length - H.length
          · rw [if_pos (by simpa using hend)]
            have e2 : (mi + H.length == host.length) = true := by simp; omega
            simp [e0, e2, Bool.or_comm]
          · rw [if_neg (by simpa using hend)]
            have e2 : (mi + H.length == host.length) = false := by simp; omega
            simp [e0, e2, Bool.or_comm, Bool.or_assoc, Bool.or_left_comm, Bool.and_comm]

/-- `H` occurs at most once in `host` -/
def UniqueOcc (H host : Str) : Prop :=
  ∀ i j, H.isPrefixOf (host.drop i) = true → H.isPrefixOf (host.drop j) = true → i ≤ host.length → j ≤ host.length → i = j

theorem any_boundary_unique (H host : Str) (wild : Bool) (K : Nat → Bool) (hu : UniqueOcc H host) :
    (List.range (host.length + 1)).any (fun i => boundaryW H host wild i && K i) =
      (match findSub H host with
       | none => false
       | some i => boundaryW H host wild i && K i) := by
  cases hf : findSub H host with
  | none =>
    rw [List.any_eq_false]
    intro i hi
    have hi' : i ≤ host.length := by have := List.mem_range.1 hi; omega
    have := (findSub_none_iff H host).1 hf i hi'
    simp [boundaryW, this]
  | some i0 =>
    obtain ⟨h0, hp0, _⟩ := (findSub_some_iff H host i0).1 hf
    simp only []
    rw [Bool.eq_iff_iff]
    simp only [List.any_eq_true, List.mem_range]
    constructor
    · rintro ⟨i, hi, hb⟩
      have hpi : H.isPrefixOf (host.drop i) = true := by
        simp only [boundaryW, Bool.and_eq_true] at hb
        exact hb.1.1.1
      have := hu i i0 hpi hp0 (by omega) h0
      subst this; exact hb
    · intro hb
      exact ⟨i0, by omega, hb⟩


/-! ### where the host text sits in the URL -/

/-- the request URL around its host name, as far as a rule with host text `H` is concerned -/
structure UrlShape (url host : Str) (hs : Nat) (H : Str) : Prop where
  split : ∃ pre post, url = pre ++ host ++ post ∧ pre.length = hs ∧
    (post = [] ∨ ∃ c t, post = c :: t ∧ isSepChar c = true)
  /-- the host text does not start inside `scheme://` -/
  noEarly : ∀ j < hs, H.isPrefixOf (url.drop j) = false
  /-- host names consist of letters, digits, `-`, `.`, `_`, `%` -/
  hostChars : ∀ c ∈ host, isSepChar c = false

theorem isPrefixOf_append_left {f a b : Str} (h : f.isPrefixOf (a ++ b) = true) (hl : f.length ≤ a.length) :
    f.isPrefixOf a = true := by
  induction f generalizing a with
  | nil => simp
  | cons x xs ih =>
    cases a with
    | nil => simp at hl
    | cons y ys =>
      simp only [List.cons_append, List.isPrefixOf, Bool.and_eq_true, beq_iff_eq] at h ⊢
      exact ⟨h.1, ih h.2 (by simpa using hl)⟩

theorem isPrefixOf_append_right {f a : Str} (b : Str) (h : f.isPrefixOf a = true) : f.isPrefixOf (a ++ b) = true := by
  obtain ⟨t, rfl⟩ := List.isPrefixOf_iff_prefix.1 h
  rw [List.append_assoc]
  exact List.isPrefixOf_iff_prefix.2 ⟨t ++ b, rfl⟩

theorem url_position (url host : Str) (hs : Nat) (H : Str) (sh : UrlShape url host hs H) (i0 : Nat)
    (hf : findSub H host = some i0) :
    findSub H url = some (hs + i0) ∧
      ∃ post, (post = [] ∨ ∃ c t, post = c :: t ∧ isSepChar c = true) ∧
        url.drop (hs + i0 + H.length) = host.drop (i0 + H.length) ++ post ∧ i0 + H.length ≤ host.length := by
  obtain ⟨pre, post, hurl, hpre, hpost⟩ := sh.split
  obtain ⟨hi0, hp0, hmin⟩ := (findSub_some_iff H host i0).1 hf
  have hroom : i0 + H.length ≤ host.length := by
    have := isPrefixOf_length hp0; simp at this; omega
  have hdrop : ∀ j, j ≤ host.length → url.drop (hs + j) = host.drop j ++ post := by
    intro j hj
    rw [hurl, List.append_assoc, ← hpre, List.drop_append]
    have e1 : pre.drop (pre.length + j) = [] := List.drop_eq_nil_of_le (by omega)
    have e2 : pre.length + j - pre.length = j := by omega
    rw [e1, e2, List.nil_append, List.drop_append_of_le_length hj]
  refine ⟨?_, post, hpost, ?_, hroom⟩
  · rw [findSub_some_iff]
    refine ⟨?_, ?_, ?_⟩
    · rw [hurl]; simp; omega
    · rw [hdrop i0 hi0]; exact isPrefixOf_append_right post hp0
    · intro j hj
      by_cases hjs : j < hs
      · exact sh.noEarly j hjs
      · have hj' : j = hs + (j - hs) := by omega
        have hlt : j - hs < i0 := by omega
        rw [hj', hdrop (j - hs) (by omega)]
        apply Bool.eq_false_iff.2
        intro hp
        have := isPrefixOf_append_left hp (by simp; omega)
        rw [hmin (j - hs) hlt] at this; cases this
  · rw [Nat.add_assoc, hdrop (i0 + H.length) hroom]


/-! ### the reference for a hostname-anchored rule, and the reduction to the first occurrence -/

/-- the reference reading of `||H rest`: some occurrence of `H` in the request host at label
    boundaries, with the remainder `ps` matching directly after it (`Spec.refMatch`, `||` branch) -/
def hostRefE (H host : Str) (wild ra : Bool) (ps : List PElem) (url : Str) (hs : Nat) : Bool :=
  (List.range (host.length + 1)).any (fun i =>
    boundaryW H host wild i && matchHere ra ps (url.drop (hs + i + H.length)))

theorem host_reduce (r : Rule) (q : Request) (H : Str) (hs : Nat) (wild ra : Bool) (ps : List PElem) (body : Bool)
    (hcp : checkPattern r q = (if !isAnchoredByHostname H q.hostname wild then false else body))
    (hne : H ≠ []) (hu : UniqueOcc H q.hostname)
    (hbody : ∀ i0, findSub H q.hostname = some i0 → boundaryW H q.hostname wild i0 = true →
      body = matchHere ra ps ((reqUrl r q).drop (hs + i0 + H.length))) :
    checkPattern r q = hostRefE H q.hostname wild ra ps (reqUrl r q) hs := by
  unfold hostRefE
  rw [hcp, any_boundary_unique H q.hostname wild _ hu, anchored_eq_first H q.hostname wild hne]
  cases hf : findSub H q.hostname with
  | none => rfl
  | some i0 =>
    simp only []
    by_cases hb : boundaryW H q.hostname wild i0 = true
    · simp only [hb, Bool.not_true, Bool.false_eq_true, if_false, Bool.true_and]; exact hbody i0 hf hb
    · have hb' : boundaryW H q.hostname wild i0 = false := Bool.eq_false_iff.2 hb
      simp only [hb', Bool.not_false, if_true, Bool.false_and]


theorem starLoop_eq_anywhere (toEnd : Bool) (ps : List PElem) (s : Str) :
    starLoop (matchHere toEnd ps) s = matchAnywhere toEnd ps s := by
  induction s with
  | nil => rfl
  | cons c cs ih => simp only [starLoop, matchAnywhere, ih]

/-! ### the seven shapes the parser produces for `||host…` (trailing-`|` on a bare host and `||host*…|`
    are outside the property's domain) -/

/-- what every hostname-anchored shape shares -/
structure HostRule (r : Rule) (H : Str) : Prop where
  anchor : r.isHostnameAnchor = true
  host : r.hostname = some H
  ne : H ≠ []
  notComplete : r.isCompleteRegex = false

section shapes
variable (r : Rule) (q : Request) (H : Str) (hs : Nat)
variable (hr : HostRule r H) (sh : UrlShape (reqUrl r q) q.hostname hs H) (hu : UniqueOcc H q.hostname)
include hr sh hu

/-- `||H` -/
theorem host_only (hreg : r.isRegex = false) (hla : r.isLeftAnchor = false) (hra : r.isRightAnchor = false)
    (hf : r.filter = .empty) (hw : r.isHostnameRegex = false) :
    checkPattern r q = hostRefE H q.hostname false false [] (reqUrl r q) hs := by
  apply host_reduce r q H hs false false [] true _ hr.ne hu
  · intro i0 _ _; simp [matchHere]
  · unfold checkPattern
    simp [hr.anchor, hr.host, hreg, hla, hra, hf, hw, FilterPart.items]

/-- `||H^` -/
theorem host_caret (hreg : r.isRegex = false) (hla : r.isLeftAnchor = false) (hra : r.isRightAnchor = true)
    (hf : r.filter = .empty) (hw : r.isHostnameRegex = false) :
    checkPattern r q = hostRefE H q.hostname false false [.sep] (reqUrl r q) hs := by
  apply host_reduce r q H hs false false [.sep] (q.hostname.length == H.length || H.isSuffixOf q.hostname) _ hr.ne hu
  · intro i0 hf0 _
    obtain ⟨_, post, hpost, htail, hroom⟩ := url_position _ _ _ _ sh i0 hf0
    obtain ⟨_, hp0, _⟩ := (findSub_some_iff H q.hostname i0).1 hf0
    rw [htail]
    by_cases hend : i0 + H.length = q.hostname.length
    · -- the occurrence ends the host: the next character is a separator or the URL ends
      have hd : q.hostname.drop (i0 + H.length) = [] := List.drop_eq_nil_of_le (by omega)
      rw [hd, List.nil_append]
      have hsuf : H.isSuffixOf q.hostname = true := by
        obtain ⟨t, ht⟩ := List.isPrefixOf_iff_prefix.1 hp0
        have htl : t = [] := by
          have := congrArg List.length ht; simp at this
          exact List.eq_nil_of_length_eq_zero (by omega)
        subst htl
        rw [List.append_nil] at ht
        rw [List.isSuffixOf_iff_suffix]
        exact ⟨q.hostname.take i0, by rw [ht]; exact List.take_append_drop _ _⟩
      rw [hsuf, Bool.or_true]
      rcases hpost with rfl | ⟨c, t, rfl, hc⟩
      · rfl
      · simp [matchHere, hc]
    · -- host characters follow: not a separator; and `H` is not a suffix of the host (it occurs once)
      have hlt : i0 + H.length < q.hostname.length := by omega
      have hmem : q.hostname[i0 + H.length] ∈ q.hostname := List.getElem_mem _
      have hns := sh.hostChars _ hmem
      have hd : q.hostname.drop (i0 + H.length) = q.hostname[i0 + H.length] :: q.hostname.drop (i0 + H.length + 1) :=
        (List.drop_eq_getElem_cons hlt)
      rw [hd]
      have e1 : (q.hostname.length == H.length) = false := by simp; omega
      have e2 : H.isSuffixOf q.hostname = false := by
        apply Bool.eq_false_iff.2
        intro hsuf
        obtain ⟨t, ht⟩ := List.isSuffixOf_iff_suffix.1 hsuf
        have hj : H.isPrefixOf (q.hostname.drop t.length) = true := by
          rw [← ht, List.drop_left]; simp
        have htl : t.length + H.length = q.hostname.length := by rw [← ht]; simp
        have := hu t.length i0 hj hp0 (by omega) (by omega)
        omega
      rw [e1, e2]
      simp only [List.cons_append, matchHere, hns, Bool.false_and, Bool.or_self]
  · unfold checkPattern
    simp [hr.anchor, hr.host, hreg, hla, hra, hf, hw, FilterPart.items]

/-- where `get_url_after_hostname` and the regex path cut the URL -/
theorem after_host (i0 : Nat) (hf0 : findSub H q.hostname = some i0) :
    urlAfterHostname (reqUrl r q) H = (reqUrl r q).drop (hs + i0 + H.length) ∧
    (reqUrl r q).drop ((findSub H (reqUrl r q)).getD 0 + H.length) = (reqUrl r q).drop (hs + i0 + H.length) := by
  obtain ⟨hpos, _⟩ := url_position _ _ _ _ sh i0 hf0
  unfold urlAfterHostname
  simp only [hpos, Option.getD_some]
  exact ⟨trivial, trivial⟩

/-- `||H/path` (literal path, no end anchor) -/
theorem host_path (f : Str) (hreg : r.isRegex = false) (hla : r.isLeftAnchor = true) (hra : r.isRightAnchor = false)
    (hf : r.filter = .simple f) (hpl : isPlain f = true) (hw : r.isHostnameRegex = false) :
    checkPattern r q = hostRefE H q.hostname false false (elems f) (reqUrl r q) hs := by
  apply host_reduce r q H hs false false (elems f) (f.isPrefixOf (urlAfterHostname (reqUrl r q) H)) _ hr.ne hu
  · intro i0 hf0 _
    rw [(after_host r q H hs hr sh hu i0 hf0).1, elems_plain f hpl, plain_prefix]
  · unfold checkPattern
    simp [hr.anchor, hr.host, hreg, hla, hra, hf, hw, FilterPart.items]

/-- `||H/path|` (literal path, end anchor) -/
theorem host_path_end (f : Str) (hreg : r.isRegex = false) (hla : r.isLeftAnchor = true) (hra : r.isRightAnchor = true)
    (hf : r.filter = .simple f) (hpl : isPlain f = true) (hw : r.isHostnameRegex = false) :
    checkPattern r q = hostRefE H q.hostname false true (elems f) (reqUrl r q) hs := by
  apply host_reduce r q H hs false true (elems f) (urlAfterHostname (reqUrl r q) H == f) _ hr.ne hu
  · intro i0 hf0 _
    rw [(after_host r q H hs hr sh hu i0 hf0).1, elems_plain f hpl, plain_exact]
  · unfold checkPattern
    simp [hr.anchor, hr.host, hreg, hla, hra, hf, hw, FilterPart.items]

/-- `||H` followed by a remainder with `^` / `*` that does not start with `*` -/
theorem host_regex (f : Str) (ra : Bool) (hreg : r.isRegex = true) (hla : r.isLeftAnchor = true) (hra : r.isRightAnchor = ra)
    (hf : r.filter = .simple f) (hfe : f ≠ []) (hw : r.isHostnameRegex = false) :
    checkPattern r q = hostRefE H q.hostname false ra (elems f) (reqUrl r q) hs := by
  have hfe' : f.isEmpty = false := by cases f <;> simp_all
  apply host_reduce r q H hs false ra (elems f)
    (regexMatches r ((reqUrl r q).drop ((findSub H (reqUrl r q)).getD 0 + H.length))) _ hr.ne hu
  · intro i0 hf0 _
    rw [(after_host r q H hs hr sh hu i0 hf0).2]
    unfold regexMatches regexOne
    simp [hreg, hr.notComplete, hf, FilterPart.items, hfe', hla, hra]
  · unfold checkPattern
    simp [hr.anchor, hr.host, hreg, hw]

/-- `||H*rest` where the remainder after the `*` has `^` / `*` -/
theorem host_wild_regex (f : Str) (ra : Bool) (hreg : r.isRegex = true) (hla : r.isLeftAnchor = false)
    (hra : r.isRightAnchor = ra) (hf : r.filter = .simple f) (hfe : f ≠ []) (hw : r.isHostnameRegex = true) :
    checkPattern r q = hostRefE H q.hostname true ra (.star :: elems f) (reqUrl r q) hs := by
  have hfe' : f.isEmpty = false := by cases f <;> simp_all
  apply host_reduce r q H hs true ra (.star :: elems f)
    (regexMatches r ((reqUrl r q).drop ((findSub H (reqUrl r q)).getD 0 + H.length))) _ hr.ne hu
  · intro i0 hf0 _
    rw [(after_host r q H hs hr sh hu i0 hf0).2]
    unfold regexMatches regexOne
    simp [hreg, hr.notComplete, hf, FilterPart.items, hfe', hla, hra, matchHere, starLoop_eq_anywhere]
  · unfold checkPattern
    simp [hr.anchor, hr.host, hreg, hw]

/-- `||H*text` (literal text after the `*`, no end anchor) -/
theorem host_wild_plain (f : Str) (hreg : r.isRegex = false) (hla : r.isLeftAnchor = false) (hra : r.isRightAnchor = false)
    (hf : r.filter = .simple f) (hpl : isPlain f = true) (hw : r.isHostnameRegex = true) :
    checkPattern r q = hostRefE H q.hostname true false (.star :: elems f) (reqUrl r q) hs := by
  apply host_reduce r q H hs true false (.star :: elems f)
    ((findSub f (urlAfterHostname (reqUrl r q) H)).isSome) _ hr.ne hu
  · intro i0 hf0 _
    rw [(after_host r q H hs hr sh hu i0 hf0).1, elems_plain f hpl]
    simp only [matchHere, starLoop_eq_anywhere, plain_infix]
  · unfold checkPattern
    simp [hr.anchor, hr.host, hreg, hla, hra, hf, hw, FilterPart.items]

end shapes

open Adb.Parse in
/-- the reference semantics of `||H rest` *is* `hostRefE` (for a non-empty host text) -/
theorem refMatch_double (p : Parse.Abstract) (url host : Str) (hla : p.la = some Parse.LAnchor.double)
    (hne : (stripWwwAll (splitHost (asciiLower p.pattern)).1.length (splitHost (asciiLower p.pattern)).1).isEmpty = false) :
    refMatch p url host =
      hostRefE (stripWwwAll (splitHost (asciiLower p.pattern)).1.length (splitHost (asciiLower p.pattern)).1) host
        ((splitHost (asciiLower p.pattern)).2.head? == some '*') p.ra (elems (splitHost (asciiLower p.pattern)).2)
        (asciiLower url) (hostStart (asciiLower url)) := by
  unfold refMatch hostRefE
  simp only [hla, hne, Bool.false_eq_true, if_false]
  rfl

end Adb.Net
