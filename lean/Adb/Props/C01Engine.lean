import Adb.Props.C01
import Adb.Props.C13
import Adb.Props.C14
import Adb.Lemmas.Live
/-
  C01, engine level: the verdict of the (unoptimised) engine model is one of the verdicts the
  rule-by-rule reference admits — for every rule list, tag set, resource store and request.
  (Optimisation is C05: `optimize` preserves every lookup.)
-/
namespace Adb.Net
open Adb Adb.Net.Spec

/-- the per-case hypotheses (evaluated by the driver on every generated case: flag `D`) -/
structure CaseOK (rules : List Rule) (q : Request) : Prop where
  ids : IdsIdentify rules
  sep : idsSeparate rules = true
  zero : (0 : Hash) ∈ q.probe
  probed : ∀ r ∈ rules, r.isRemoveparam = false → GroupProbed r q
  probedRp : ∀ r ∈ rules, r.isRemoveparam = true → paramPresent r q = true → GroupProbed r q
  /-- redirect rules are never removeparam rules at parse time (one modifier per rule); for arbitrary
      rule values we ask the group condition of them directly -/
  probedRd : ∀ r ∈ rules, r.isRedirect = true → GroupProbed r q

theorem ids_sub {rules S : List Rule} (h : IdsIdentify rules) (hs : ∀ f ∈ S, f ∈ rules) :
    IdsIdentify S := fun f hf g hg e => h f (hs f hf) g (hs g hg) e

theorem live_sub (rules : List Rule) : ∀ f ∈ live rules, f ∈ rules := by
  intro f hf; unfold live at hf; exact (List.mem_filter.1 hf).1

def pickC (rules : List Rule) (c : Cat) : List Rule := (live rules).filter (fun f => cat f == c)

theorem pick_sub (rules : List Rule) (c : Cat) : ∀ f ∈ pickC rules c, f ∈ rules := by
  intro f hf; unfold pickC at hf; exact live_sub rules f (List.mem_filter.1 hf).1

theorem cat_of_pick {rules : List Rule} {c : Cat} {f : Rule} (hf : f ∈ pickC rules c) : cat f = c := by
  unfold pickC at hf; simpa using (List.mem_filter.1 hf).2

theorem cat_not_rp {f : Rule} {c : Cat} (h : cat f = c) (hc : c ≠ .removeparam) (hcsp : c ≠ .csp) :
    f.isRemoveparam = false := by
  cases hr : f.isRemoveparam with
  | false => rfl
  | true =>
    exfalso
    unfold cat at h
    cases hcs : f.isCsp with
    | true => simp [hcs] at h; exact hcsp h.symm
    | false => simp [hcs, hr] at h; exact hc h.symm

theorem cat_important_flag {f : Rule} (h : cat f = .important) : f.isImportant = true := by
  unfold cat at h
  split at h; · cases h
  split at h; · cases h
  split at h; · cases h
  split at h; · cases h
  split at h
  · assumption
  · split at h; · cases h
    split at h <;> cases h

theorem cat_blocking_not_important {f : Rule} (h : cat f = .tagged ∨ cat f = .normal) :
    f.isImportant = false := by
  cases hi : f.isImportant with
  | false => rfl
  | true =>
    exfalso
    unfold cat at h
    split at h; · rcases h with h | h <;> cases h
    split at h; · rcases h with h | h <;> cases h
    split at h; · rcases h with h | h <;> cases h
    split at h; · rcases h with h | h <;> cases h
    simp [hi] at h

/-- lookups in a category list built without optimisation -/
theorem cat_lookup (rules S : List Rule) (q : Request) (tg : List Str) (ok : CaseOK rules q)
    (hs : ∀ f ∈ S, f ∈ rules) (hnrp : ∀ f ∈ S, f.isRemoveparam = false) :
    (∀ f, f ∈ (Index.build S false).checkAll q tg ↔ f ∈ hits S q tg) ∧
    (((Index.build S false).check q tg).isSome = !(hits S q tg).isEmpty) ∧
    (∀ f, (Index.build S false).check q tg = some f → f ∈ hits S q tg) := by
  have hids := ids_sub ok.ids hs
  have hgp : ∀ r ∈ S, GroupProbed r q := fun r hr => ok.probed r (hs r hr) (hnrp r hr)
  refine ⟨index_eq_scan S q tg hids ok.zero hgp, index_check_isSome S q tg hids ok.zero hgp, ?_⟩
  intro f hf
  apply index_sound
  unfold Index.check at hf
  exact List.mem_of_mem_head? (by rw [hf]; rfl)

theorem hits_tagged_prefilter (S : List Rule) (q : Request) (T : List Str)
    (hcat : ∀ f ∈ S, f.tag.isSome = true) :
    hits (S.filter (tagEnabled T)) q T = hits S q T := by
  unfold hits
  rw [List.filter_filter]
  apply List.filter_congr
  intro f hf
  have := hcat f hf
  cases ht : f.tag with
  | none => rw [ht] at this; cases this
  | some t => simp [tagOk, tagEnabled, ht]

theorem cat_tagged_tag {f : Rule} (h : cat f = .tagged) : f.tag.isSome = true := by
  unfold cat at h
  split at h; · cases h
  split at h; · cases h
  split at h; · cases h
  split at h; · cases h
  split at h; · cases h
  split at h
  · rename_i hh; simp only [Bool.and_eq_true] at hh; exact hh.1
  · split at h <;> cases h

/-- the reference rewrite only evaluates `removed` on the segments of this URL's query -/
theorem spec_congr (url : Str) (n1 n2 : List Str)
    (h : ∀ pre qs, Removeparam.splitOnce '?' (url.takeWhile (· != '#')) = some (pre, qs) →
      ∀ seg ∈ qs.splitOn '&', Removeparam.removed n1 seg = Removeparam.removed n2 seg) :
    Removeparam.spec false url n1 = Removeparam.spec false url n2 := by
  unfold Removeparam.spec
  simp only [Bool.false_eq_true, if_false]
  split
  · rfl
  · rename_i pre qs hq
    have hseg := h pre qs hq
    have hany : (qs.splitOn '&').any (Removeparam.removed n1) = (qs.splitOn '&').any (Removeparam.removed n2) := by
      rw [Bool.eq_iff_iff]; simp only [List.any_eq_true]
      constructor
      · rintro ⟨x, hx, hr⟩; exact ⟨x, hx, by rw [← hseg x hx]; exact hr⟩
      · rintro ⟨x, hx, hr⟩; exact ⟨x, hx, by rw [hseg x hx]; exact hr⟩
    have hfil : (qs.splitOn '&').filter (fun s => !Removeparam.removed n1 s)
        = (qs.splitOn '&').filter (fun s => !Removeparam.removed n2 s) := by
      apply List.filter_congr; intro x hx; rw [hseg x hx]
    rw [hany, hfil]

theorem removed_iff (names : List Str) (seg : Str) :
    Removeparam.removed names seg = true ↔ ∃ n ∈ names, Removeparam.removed [n] seg = true := by
  unfold Removeparam.removed
  split
  · rename_i k v _
    simp only [Bool.and_eq_true, Bool.not_eq_true', List.contains_eq_mem, decide_eq_true_eq,
      List.mem_singleton]
    constructor
    · rintro ⟨hv, hk⟩; exact ⟨k, hk, hv, rfl⟩
    · rintro ⟨n, hn, hv, rfl⟩; exact ⟨hv, hn⟩
  · simp

theorem present_of_removed (url name pre qs seg : Str)
    (hq : Removeparam.splitOnce '?' (url.takeWhile (· != '#')) = some (pre, qs))
    (hseg : seg ∈ qs.splitOn '&') (hr : Removeparam.removed [name] seg = true) :
    Removeparam.apply url [name] ≠ none := by
  have hs := Removeparam.rewrite_eq_spec false url [name]
  unfold Removeparam.rewrittenUrl at hs
  simp only [Bool.false_eq_true, if_false] at hs
  rw [hs]
  unfold Removeparam.spec
  simp only [Bool.false_eq_true, if_false, hq]
  have : (qs.splitOn '&').any (Removeparam.removed [name]) = true := by
    simp only [List.any_eq_true]; exact ⟨seg, hseg, hr⟩
  simp [this]

theorem mem_redirectCands (m : List Rule) (c : Str × Int) :
    c ∈ redirectCands m ↔ (∃ mo, (∃ f ∈ m, f.isException = false ∧ f.modifier = some mo) ∧ parseRedirect mo = c) ∧
      ¬ (∃ g ∈ m, ∃ mg, g.isException = true ∧ g.modifier = some mg ∧ (parseRedirect mg).1 = c.1) := by
  unfold redirectCands
  simp only [List.mem_map, List.mem_filter, List.mem_filterMap, Bool.not_eq_true', List.contains_eq_mem,
    decide_eq_false_iff_not, Bool.not_eq_eq_eq_not, Bool.not_true]
  constructor
  · rintro ⟨⟨mo, ⟨f, ⟨hf, he⟩, hm⟩, rfl⟩, hne⟩
    refine ⟨⟨mo, ⟨f, hf, he, hm⟩, rfl⟩, ?_⟩
    rintro ⟨g, hg, mg, hge, hgm, heq⟩
    exact hne ⟨mg, ⟨g, ⟨hg, hge⟩, hgm⟩, heq⟩
  · rintro ⟨⟨mo, ⟨f, hf, he, hm⟩, rfl⟩, hne⟩
    refine ⟨⟨mo, ⟨f, ⟨hf, he⟩, hm⟩, rfl⟩, ?_⟩
    rintro ⟨mg, ⟨g, ⟨hg, hge⟩, hgm⟩, heq⟩
    exact hne ⟨g, hg, mg, hge, hgm, heq⟩

theorem mem_redirectChoices (m : List Rule) (res : Str) :
    res ∈ redirectChoices m ↔ ∃ c ∈ redirectCands m, c.1 = res ∧ ∀ c' ∈ redirectCands m, c'.2 ≤ c.2 := by
  unfold redirectChoices
  simp only [List.mem_filterMap]
  constructor
  · rintro ⟨c, hc, h⟩
    split at h
    · rename_i hall
      simp only [Option.some.injEq] at h
      refine ⟨c, hc, h, ?_⟩
      intro c' hc'
      simpa using List.all_eq_true.1 hall c' hc'
    · cases h
  · rintro ⟨c, hc, rfl, hmax⟩
    refine ⟨c, hc, ?_⟩
    have : ((redirectCands m).all fun x => decide (x.2 ≤ c.2)) = true := by
      simp only [List.all_eq_true, decide_eq_true_eq]; exact hmax
    simp only [this, if_true]

theorem redirectChoices_congr (A B : List Rule) (h : ∀ f, f ∈ A ↔ f ∈ B) (res : Str) :
    res ∈ redirectChoices A ↔ res ∈ redirectChoices B := by
  have hc : ∀ c, c ∈ redirectCands A ↔ c ∈ redirectCands B := by
    intro c; rw [mem_redirectCands, mem_redirectCands]; simp only [h]
  rw [mem_redirectChoices, mem_redirectChoices]
  simp only [hc]

/-- the combination step in terms of which lookups succeeded -/
theorem assemble_eq (oi ot on oe : Option Rule) (rd rw : Option Str)
    (hIm : ∀ f, oi = some f → f.isImportant = true)
    (hGm : ∀ f, ot = some f → f.isImportant = false)
    (hNm : ∀ f, on = some f → f.isImportant = false) :
    ({ matched := (oi.isSome || ot.isSome || on.isSome) &&
          !(!oi.isSome && (oi.isSome || ot.isSome || on.isSome) && oe.isSome),
       important := oi.isSome,
       exception := !oi.isSome && (oi.isSome || ot.isSome || on.isSome) && oe.isSome,
       redirect := rd,
       rewritten := if oi.isSome = true then none else rw } : Verdict) = assemble oi ot on oe rd rw := by
  unfold assemble
  cases oi with
  | some f => simp [hIm f rfl]
  | none =>
    cases ot with
    | some f => cases oe <;> simp [hGm f rfl]
    | none =>
      cases on with
      | some f => cases oe <;> simp [hNm f rfl]
      | none => simp

/-- the removeparam list (never optimised): the names collected through the index give the same
    rewrite as the names of the rule-by-rule scan -/
theorem removeparam_lookup (rules : List Rule) (q : Request) (ok : CaseOK rules q) :
    Removeparam.apply q.originalUrl
        (((Index.build (pickC rules .removeparam) false).checkAll q []).filterMap (·.modifier)) =
      Removeparam.spec false q.originalUrl
        ((hits (pickC rules .removeparam) q []).filterMap (·.modifier)) := by
  have h1 := Removeparam.rewrite_eq_spec false q.originalUrl
    (((Index.build (pickC rules .removeparam) false).checkAll q []).filterMap (·.modifier))
  unfold Removeparam.rewrittenUrl at h1
  simp only [Bool.false_eq_true, if_false] at h1
  rw [h1]
  apply spec_congr
  intro pre qs hq seg hseg
  rw [Bool.eq_iff_iff, removed_iff, removed_iff]
  simp only [List.mem_filterMap]
  constructor
  · rintro ⟨n, ⟨f, hf, hfm⟩, hr⟩
    exact ⟨n, ⟨f, index_sound _ q [] f hf, hfm⟩, hr⟩
  · rintro ⟨n, ⟨f, hf, hfm⟩, hr⟩
    refine ⟨n, ⟨f, ?_, hfm⟩, hr⟩
    have hfp : f ∈ pickC rules .removeparam := by unfold hits at hf; exact (List.mem_filter.1 hf).1
    have hfr : f ∈ rules := pick_sub rules .removeparam f hfp
    have hrp : f.isRemoveparam = true := by
      have hc := cat_of_pick hfp
      unfold cat at hc
      split at hc; · cases hc
      split at hc
      · assumption
      · split at hc; · cases hc
        split at hc; · cases hc
        split at hc; · cases hc
        split at hc; · cases hc
        split at hc <;> cases hc
    have hpp : paramPresent f q = true := by
      unfold paramPresent
      simp only [hfm]
      have := present_of_removed q.originalUrl n pre qs seg hq hseg hr
      simpa using this
    exact index_complete _ q [] f (ids_sub ok.ids (pick_sub rules .removeparam)) ok.zero
      (ok.probedRp f hfr hrp hpp) hf

/-- what `Blocker.new` + tag operations establish (without optimisation): every category index is
    built from the corresponding category of the loaded rules -/
structure Blocker.Repr (b : Blocker) (rules : List Rule) (T : List Str) : Prop where
  importants : b.importants = Index.build (pickC rules .important) false
  exceptions : b.exceptions = Index.build (pickC rules .exception) false
  filters : b.filters = Index.build (pickC rules .normal) false
  tagged : b.filtersTagged = Index.build ((pickC rules .tagged).filter
    (tagEnabled T)) false
  redirects : b.redirects = Index.build ((live rules).filter Rule.isRedirect) false
  removeparam : b.removeparam = Index.build (pickC rules .removeparam) false
  csp : b.csp = Index.build (pickC rules .csp) false
  genericHide : b.genericHide = Index.build (pickC rules .genericHide) false
  taggedAll : b.taggedAll = pickC rules .tagged
  optimize : b.optimize = false
  tags : b.tagsEnabled = T

theorem new_useTags_repr (rules : List Rule) (tags : List Str) (hsep : idsSeparate rules = true) :
    ((Blocker.new rules false).useTags tags).Repr rules (dedupS tags) := by
  have hl := liveIds_eq_live rules hsep
  constructor
  all_goals (try simp [Blocker.useTags, Blocker.tagsWithSet, Blocker.new, hl, pickC])
  all_goals (try rfl)

theorem check_of_repr (b : Blocker) (rules : List Rule) (T : List Str) (st : Store) (q : Request)
    (hb : b.Repr rules T) (ok : CaseOK rules q) : b.check st q ∈ verdicts rules T st q := by
  unfold Blocker.check verdicts
  cases hs : q.isSupported with
  | false => simp
  | true =>
  simp only [Bool.not_true, Bool.false_eq_true, if_false]
  rw [hb.importants, hb.exceptions, hb.filters, hb.tagged, hb.redirects, hb.removeparam, hb.tags]
  -- the category lists
  have nrpI : ∀ f ∈ pickC rules .important, f.isRemoveparam = false :=
    fun f hf => cat_not_rp (cat_of_pick hf) (by simp) (by simp)
  have nrpE : ∀ f ∈ pickC rules .exception, f.isRemoveparam = false :=
    fun f hf => cat_not_rp (cat_of_pick hf) (by simp) (by simp)
  have nrpN : ∀ f ∈ pickC rules .normal, f.isRemoveparam = false :=
    fun f hf => cat_not_rp (cat_of_pick hf) (by simp) (by simp)
  have nrpG : ∀ f ∈ (pickC rules .tagged).filter
      (tagEnabled T), f.isRemoveparam = false :=
    fun f hf => cat_not_rp (cat_of_pick (List.mem_filter.1 hf).1) (by simp) (by simp)
  obtain ⟨_, hI, hIm⟩ := cat_lookup rules _ q T ok (pick_sub rules .important) nrpI
  obtain ⟨_, hE, _⟩ := cat_lookup rules _ q T ok (pick_sub rules .exception) nrpE
  obtain ⟨_, hN, hNm⟩ := cat_lookup rules _ q [] ok (pick_sub rules .normal) nrpN
  obtain ⟨_, hG, hGm⟩ := cat_lookup rules _ q T ok
    (fun f hf => pick_sub rules .tagged f (List.mem_filter.1 hf).1) nrpG
  rw [hits_tagged_prefilter _ q T (fun f hf => cat_tagged_tag (cat_of_pick hf))] at hG hGm
  -- redirects: rules of the redirect list that are not removeparam rules are looked up exactly;
  -- removeparam+redirect cannot be combined (one modifier per rule), so we only need membership
  -- equivalence under the per-rule hypothesis
  have hRmem : ∀ f, f ∈ (Index.build ((live rules).filter Rule.isRedirect) false).checkAll q [] ↔
      f ∈ hits ((live rules).filter Rule.isRedirect) q [] := by
    intro f
    constructor
    · exact index_sound _ q [] f
    · intro h
      have hf : f ∈ (live rules).filter Rule.isRedirect := by unfold hits at h; exact (List.mem_filter.1 h).1
      have hfr : f ∈ rules := live_sub rules f (List.mem_filter.1 hf).1
      have hm : f.matches q = true := by
        unfold hits at h; have := (List.mem_filter.1 h).2; simp only [Bool.and_eq_true] at this; exact this.1
      have hgp : GroupProbed f q := by
        cases hr : f.isRemoveparam with
        | false => exact ok.probed f hfr hr
        | true =>
          cases hp : paramPresent f q with
          | true => exact ok.probedRp f hfr hr hp
          | false =>
            -- a removeparam rule whose parameter is absent: it is still found if its group is probed;
            -- otherwise it is not a redirect candidate that matters — but to keep the statement exact we
            -- require the group to be probed for redirect rules (redirect+removeparam is rejected at parse time)
            exact ok.probedRd f hfr (List.mem_filter.1 hf).2
      exact index_complete _ q [] f
        (ids_sub ok.ids (fun g hg => live_sub rules g (List.mem_filter.1 hg).1)) ok.zero hgp h
  -- the redirect field is one of the admissible ones
  have hRd : (chooseRedirect ((Index.build ((live rules).filter Rule.isRedirect) false).checkAll q [])).bind st.redirect ∈
      (if (redirectChoices (hits ((live rules).filter Rule.isRedirect) q [])).isEmpty then [none]
       else (redirectChoices (hits ((live rules).filter Rule.isRedirect) q [])).map st.redirect) := by
    cases hc : chooseRedirect ((Index.build ((live rules).filter Rule.isRedirect) false).checkAll q []) with
    | none =>
      have h1 := (redirect_none_iff _).1 hc
      have h2 : redirectChoices (hits ((live rules).filter Rule.isRedirect) q []) = [] := by
        apply List.eq_nil_iff_forall_not_mem.2
        intro res hres
        have := (redirectChoices_congr _ _ hRmem res).2 hres
        rw [h1] at this; cases this
      simp [h2]
    | some res =>
      have h1 := redirect_sound _ res hc
      have h2 := (redirectChoices_congr _ _ hRmem res).1 h1
      have hne : (redirectChoices (hits ((live rules).filter Rule.isRedirect) q [])).isEmpty = false := by
        cases hh : redirectChoices (hits ((live rules).filter Rule.isRedirect) q []) with
        | nil => rw [hh] at h2; cases h2
        | cons _ _ => rfl
      simp only [hne, Bool.false_eq_true, if_false, Option.bind_some, List.mem_map]
      exact ⟨res, h2, rfl⟩
  -- the rewritten URL
  have hRw := removeparam_lookup rules q ok
  -- combine
  rw [hRw]
  simp only [List.mem_map]
  refine ⟨_, hRd, ?_⟩
  simp only [pickC] at hI hIm hE hN hNm hG hGm ⊢
  rw [← hI, ← hE, ← hN, ← hG]
  apply assemble_eq
  · intro f hf
    have := hIm f hf
    unfold hits at this
    have hc : cat f = .important := by simpa using (List.mem_filter.1 (List.mem_filter.1 this).1).2
    exact cat_important_flag hc
  · intro f hf
    have := hGm f hf
    unfold hits at this
    have hc : cat f = .tagged := by simpa using (List.mem_filter.1 (List.mem_filter.1 this).1).2
    exact cat_blocking_not_important (Or.inl hc)
  · intro f hf
    have := hNm f hf
    unfold hits at this
    have hc : cat f = .normal := by simpa using (List.mem_filter.1 (List.mem_filter.1 this).1).2
    exact cat_blocking_not_important (Or.inr hc)

theorem engine_eq_scan_unoptimized (rules : List Rule) (tags : List Str) (st : Store) (q : Request)
    (ok : CaseOK rules q) :
    ((Blocker.new rules false).useTags tags).check st q ∈ verdicts rules (dedupS tags) st q :=
  check_of_repr _ rules _ st q (new_useTags_repr rules tags ok.sep) ok

/-- the driver's per-case check establishes the hypotheses of the theorem -/
theorem caseOK_sound (rules : List Rule) (q : Request) (h : caseOK rules q = true) : CaseOK rules q := by
  unfold caseOK at h
  simp only [Bool.and_eq_true, List.all_eq_true, Bool.or_eq_true, bne_iff_ne, ne_eq, beq_iff_eq,
    List.contains_eq_mem, decide_eq_true_eq, Bool.not_eq_true', Bool.and_eq_false_iff] at h
  obtain ⟨⟨⟨⟨hid, hsep⟩, h0⟩, hts⟩, hrd⟩ := h
  refine ⟨?_, hsep, h0, ?_, ?_, ?_⟩
  · intro f hf g hg e
    rcases hid f hf g hg with h1 | h1
    · exact absurd e h1
    · exact h1
  · intro r hr hrp; exact tokenSound_groupProbed r q (hts r hr) (Or.inl hrp)
  · intro r hr _ hpp; exact tokenSound_groupProbed r q (hts r hr) (Or.inr hpp)
  · intro r hr hred
    rcases hrd r hr with h1 | h1
    · rw [hred] at h1; cases h1
    · exact tokenSound_groupProbed r q (hts r hr) (Or.inl h1)

/-- **C01 (unoptimised engine), in the form the correspondence check uses**: on every case on which
    the driver reports `D = 1`, the engine model's verdict is one of the reference verdicts. -/
theorem engine_eq_scan_of_caseOK (rules : List Rule) (tags : List Str) (st : Store) (q : Request)
    (h : caseOK rules q = true) :
    ((Blocker.new rules false).useTags tags).check st q ∈ verdicts rules (dedupS tags) st q :=
  engine_eq_scan_unoptimized rules tags st q (caseOK_sound rules q h)

end Adb.Net
