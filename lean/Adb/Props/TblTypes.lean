/-
  Request type -> rule option, and the composite type masks.
  The table is re-extracted from the source on every run; its independent statement is in `Adb.Spec.Tables`.
-/
import Adb.Generated.Tables
import Adb.Spec.Tables
namespace Adb.Props.TblTypes
open Adb

/-- position of a mask flag, by name -/
def flagPos (name : String) : Option Nat := Gen.maskFlags.lookup name

/-- `From<&RequestType> for NetworkFilterMask`: every request type is matched against the option its name says -/
theorem requestTypeBit_as_specified :
    ∀ p ∈ Gen.requestTypeBit, flagPos (Spec.flagOfRequestType p.1) = some p.2 := by decide

/-- every request type has an entry -/
theorem requestTypeBit_total : ∀ t ∈ Gen.requestTypes, (Gen.requestTypeBit.lookup t).isSome = true := by decide

/-- the composite masks: the eleven network types; those plus documents; the default of a rule without options
    (the network types, over both http and https, from first and third parties alike) -/
theorem network_types_as_specified :
    Gen.FROM_NETWORK_TYPES.map some = Spec.networkTypeFlags.map flagPos := by decide

theorem all_types_as_specified :
    Gen.FROM_ALL_TYPES.map some = (Spec.networkTypeFlags ++ ["FROM_DOCUMENT"]).map flagPos := by decide

theorem default_options_as_specified :
    Gen.DEFAULT_OPTIONS.map some = (Spec.networkTypeFlags ++ ["FROM_HTTP", "FROM_HTTPS", "THIRD_PARTY", "FIRST_PARTY"]).map flagPos := by decide

end Adb.Props.TblTypes
