import Adb.Model.Scriptlet
/-
  C18 — Scriptlet injection respects permissions and encodes arguments safely.
-/
namespace Adb.Scriptlet
open Adb

/-- **permission check = bit-wise subset**, for all 256 × 256 (resource, list) pairs at once:
    a resource is injectable iff every permission bit it requires was granted. -/
theorem injectable_iff_subset (required granted : BitVec 8) :
    isInjectableBy required granted = true ↔
      ∀ i : Nat, i < 8 → required.getLsbD i = true → granted.getLsbD i = true := by
  unfold isInjectableBy
  simp only [beq_iff_eq]
  constructor
  · intro h i hi ha
    have := congrArg (fun v => v.getLsbD i) h
    simp [ha] at this
    exact this hi
  · intro h
    apply BitVec.eq_of_getLsbD_eq
    intro i hi
    simp
    intro _ hg
    cases hr : required.getLsbD i with
    | false => rfl
    | true => have := h i hi hr; rw [this] at hg; cases hg

/-- a resource that requires nothing is injectable by every list; one that requires a bit is not
    injectable by a list without permissions -/
theorem injectable_zero (g : BitVec 8) : isInjectableBy 0 g = true := by
  simp [isInjectableBy]
theorem not_injectable_by_default (r : BitVec 8) (h : r ≠ 0) : isInjectableBy r 0 = false := by
  have h255 : ∀ j : Fin 8, (255#8).getLsbD j.val = true := by decide
  have hand : 255#8 &&& r = r := by
    apply BitVec.eq_of_getLsbD_eq
    intro i hi
    simp
    intro _; exact h255 ⟨i, hi⟩
  simp only [isInjectableBy, BitVec.not_zero, beq_eq_false_iff_ne, ne_eq]
  rw [show (~~~(0 : BitVec 8)) = 255#8 from rfl, hand]; exact h

/-! ### the argument encoding round-trips and cannot escape its literal -/

/-- classification of the 256 table entries, checked against the table extracted from the source -/
private theorem escape_table (b : Nat) (hb : b < 256) :
    (escapeOf b = 0 ∧ 32 ≤ b ∧ b ≠ 34 ∧ b ≠ 92) ∨
    (escapeOf b = 117 ∧ b < 32 ∧ b ≠ 8 ∧ b ≠ 9 ∧ b ≠ 10 ∧ b ≠ 12 ∧ b ≠ 13) ∨
    (b = 8 ∧ escapeOf b = 98) ∨ (b = 9 ∧ escapeOf b = 116) ∨ (b = 10 ∧ escapeOf b = 110) ∨
    (b = 12 ∧ escapeOf b = 102) ∨ (b = 13 ∧ escapeOf b = 114) ∨
    (b = 34 ∧ escapeOf b = 34) ∨ (b = 92 ∧ escapeOf b = 92) := by
  have : ∀ b : Fin 256,
    (escapeOf b.val = 0 ∧ 32 ≤ b.val ∧ b.val ≠ 34 ∧ b.val ≠ 92) ∨
    (escapeOf b.val = 117 ∧ b.val < 32 ∧ b.val ≠ 8 ∧ b.val ≠ 9 ∧ b.val ≠ 10 ∧ b.val ≠ 12 ∧ b.val ≠ 13) ∨
    (b.val = 8 ∧ escapeOf b.val = 98) ∨ (b.val = 9 ∧ escapeOf b.val = 116) ∨ (b.val = 10 ∧ escapeOf b.val = 110) ∨
    (b.val = 12 ∧ escapeOf b.val = 102) ∨ (b.val = 13 ∧ escapeOf b.val = 114) ∨
    (b.val = 34 ∧ escapeOf b.val = 34) ∨ (b.val = 92 ∧ escapeOf b.val = 92) := by decide +kernel
  exact this ⟨b, hb⟩

private theorem unhex_hex (n : Nat) (h : n < 16) : unhexDigit (hexDigitLower n) = some n := by
  have : ∀ n : Fin 16, unhexDigit (hexDigitLower n.val) = some n.val := by decide
  exact this ⟨n, h⟩

/-- reading the escape of one byte gives the byte back and continues with the rest -/
private theorem readBody_escByte (b : Nat) (hb : b < 256) (t : List Nat) :
    readBody (escByte b ++ t) = (readBody t).map (fun p => (b :: p.1, p.2)) := by
  rcases escape_table b hb with h | h | h | h | h | h | h | h | h
  · obtain ⟨he, h32, h34, h92⟩ := h
    have h32' : ¬ b < 32 := by omega
    rw [show escByte b = [b] by simp [escByte, he]]
    simp only [List.singleton_append]
    rw [readBody.eq_def]
    simp [h34, h92, h32']
  · obtain ⟨he, h32, _⟩ := h
    have hq : b / 16 < 16 := by omega
    have hr : b % 16 < 16 := by omega
    have h1 := unhex_hex (b / 16) hq
    have h2 := unhex_hex (b % 16) hr
    have h0 : unhexDigit 48 = some 0 := by decide
    have hcp : b / 16 * 16 + b % 16 = b := by omega
    have hlt : b < 128 := by omega
    rw [show escByte b = [92, 117, 48, 48, hexDigitLower (b / 16), hexDigitLower (b % 16)] by simp [escByte, he, hex4]]
    simp only [List.cons_append, List.nil_append]
    rw [readBody.eq_def]
    simp [h0, h1, h2, hcp, hlt]
  all_goals (obtain ⟨rfl, he⟩ := h; simp only [escByte, he]; rw [readBody.eq_def]; simp [decodeSimpleEscape])

private theorem readBody_body (s t : List Nat) (hs : ∀ b ∈ s, b < 256) :
    readBody (s.flatMap escByte ++ t) = (readBody t).map (fun p => (s ++ p.1, p.2)) := by
  induction s with
  | nil => simp
  | cons b bs ih =>
    simp only [List.flatMap_cons, List.append_assoc]
    rw [readBody_escByte b (hs b (List.mem_cons_self ..)), ih (fun x hx => hs x (List.mem_cons_of_mem _ hx))]
    cases readBody t <;> simp

/-- **round trip**: every argument (any byte string, any length — quotes, backslashes, control
    characters, U+2028/9, `$` sequences, non-ASCII all included) is emitted as a string literal that
    parses back to exactly the original argument, with nothing left over. -/
theorem unquote_stringify (s : List Nat) (hs : ∀ b ∈ s, b < 256) : unquote (stringify true s) = some s := by
  have h1 := readBody_body s [34] hs
  have h2 : readBody [34] = some ([], []) := by rw [readBody.eq_def]; simp
  rw [h2] at h1
  simp only [Option.map_some, List.append_nil] at h1
  unfold unquote stringify
  simp only [if_true, List.cons_append]
  rw [h1]

/-- **no argument text can escape its literal**: the emitted body contains no raw quote, no raw
    control character, and every backslash starts an escape the reader accepts (this is what
    `readBody` returning the *whole* input with the closing quote as the only terminator means):
    reading the emitted literal consumes exactly up to the final quote, whatever follows it. -/
theorem stringify_closed (s rest : List Nat) (hs : ∀ b ∈ s, b < 256) :
    readBody (s.flatMap escByte ++ 34 :: rest) = some (s, rest) := by
  rw [readBody_body s (34 :: rest) hs]
  rw [readBody.eq_def]; simp

/-- raw `"` (34), `\` (92) and control bytes never appear unescaped in the emitted body -/
theorem body_has_no_raw_specials (b : Nat) (hb : b < 256) :
    ∀ x ∈ escByte b, (x = 34 ∨ x = 92 ∨ x < 32) → (escByte b).head? = some 92 := by
  rcases escape_table b hb with h | h | h | h | h | h | h | h | h
  · obtain ⟨he, h32, h34, h92⟩ := h
    intro x hx hsp
    simp [escByte, he] at hx
    subst hx; omega
  · obtain ⟨he, _⟩ := h; intro x _ _; simp [escByte, he]
  all_goals (obtain ⟨rfl, he⟩ := h; intro x _ _; simp [escByte, he])

/-! ### concrete spellings -/
example : stringify true [97, 34, 92, 10, 1] = [34, 97, 92, 34, 92, 92, 92, 110, 92, 117, 48, 48, 48, 49, 34] := by decide
example : unquote (stringify true [226, 128, 168, 36, 49]) = some [226, 128, 168, 36, 49] := by decide
example : isInjectableBy 0b11#8 0b01#8 = false ∧ isInjectableBy 0b01#8 0b11#8 = true := by decide

end Adb.Scriptlet
