/-
  Resource kinds and MIME strings.
  The table is re-extracted from the source on every run; its independent statement is in `Adb.Spec.Tables`.
-/
import Adb.Generated.Tables
import Adb.Spec.Tables
namespace Adb.Props.TblResources
open Adb

/-- resource kinds: what is never a redirect, what can be injected -/
theorem redirect_kinds_as_specified : Gen.noRedirectKinds = Spec.notRedirectable := by decide
theorem injectable_kinds_as_specified : Gen.injectableKinds = Spec.injectable := by decide

/-- the MIME strings -/
theorem mime_strings_as_specified : ∀ p ∈ Gen.mimeStrings, Spec.mimeOf p.1 = p.2 := by decide

end Adb.Props.TblResources
