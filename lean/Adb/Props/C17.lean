import Adb.Model.Cosmetic
/-
  C17 — Generic class/id lookup returns exactly the unexcepted generic selectors.
-/
namespace Adb.Cosmetic
open Adb

/-- where `add_generic_filter` files a generic selector -/
inductive Place where
  | simpleClass (cls : Str) | complexClass (cls : Str)
  | simpleId (id : Str) | complexId (id : Str)
  | misc | nowhere
deriving DecidableEq, Repr

/-- the five-way partition (plus "no key") decided by the selector alone -/
def place (sel : Str) : Place :=
  if sel.head? == some '.' then
    match keyFromSelector sel with
    | some key => if key == sel then .simpleClass (key.drop 1) else .complexClass (key.drop 1)
    | none => .nowhere
  else if sel.head? == some '#' then
    match keyFromSelector sel with
    | some key => if key == sel then .simpleId (key.drop 1) else .complexId (key.drop 1)
    | none => .nowhere
  else .misc

/-- **the partition is exclusive**: `add_generic_filter` changes exactly the store `place` names and
    nothing else (and nothing at all for a selector without extractable key). -/
theorem addGeneric_place (c : Cache) (r : CRule) (sel : Str) (h : r.plain = some sel) :
    c.addGeneric r =
      match place sel with
      | .simpleClass cls => { c with simpleClass := setInsert c.simpleClass cls }
      | .complexClass cls => { c with complexClass := bucketPush c.complexClass cls sel }
      | .simpleId id => { c with simpleId := setInsert c.simpleId id }
      | .complexId id => { c with complexId := bucketPush c.complexId id sel }
      | .misc => { c with misc := setInsert c.misc sel }
      | .nowhere => c := by
  unfold Cache.addGeneric place
  simp only [h]
  by_cases h1 : sel.head? == some '.'
  · simp only [h1, if_true]
    cases hk : keyFromSelector sel with
    | none => rfl
    | some key => by_cases he : (key == sel) = true <;> simp [he]
  · simp only [h1, Bool.false_eq_true, if_false]
    by_cases h2 : sel.head? == some '#'
    · simp only [h2, if_true]
      cases hk : keyFromSelector sel with
      | none => rfl
      | some key => by_cases he : (key == sel) = true <;> simp [he]
    · simp only [h2, Bool.false_eq_true, if_false]

/-- a class / id selector never goes to the per-site (misc) store and vice versa -/
theorem place_misc_iff (sel : Str) : place sel = .misc ↔ (sel.head? ≠ some '.' ∧ sel.head? ≠ some '#') := by
  unfold place
  by_cases h1 : sel.head? == some '.'
  · have h1' : sel.head? = some '.' := by simpa using h1
    simp only [h1, if_true, h1', ne_eq, not_true_eq_false, false_and, iff_false]
    cases keyFromSelector sel with
    | none => simp
    | some key => by_cases he : (key == sel) = true <;> simp [he]
  · have h1' : sel.head? ≠ some '.' := by simpa using h1
    simp only [h1, Bool.false_eq_true, if_false]
    by_cases h2 : sel.head? == some '#'
    · have h2' : sel.head? = some '#' := by simpa using h2
      simp only [h2, if_true, h2', ne_eq, not_true_eq_false, and_false, iff_false]
      cases keyFromSelector sel with
      | none => simp
      | some key => by_cases he : (key == sel) = true <;> simp [he]
    · have h2' : sel.head? ≠ some '#' := by simpa using h2
      simp [h2, h1', h2']

/-- **no returned selector is in the page's exception set** -/
theorem lookup_respects_exceptions (c : Cache) (classes ids exc : List Str) (s : Str)
    (h : s ∈ c.hiddenClassId classes ids exc) : s ∉ exc := by
  unfold Cache.hiddenClassId at h
  simp only [List.mem_append, List.mem_flatMap, List.mem_filter, Bool.not_eq_true', List.contains_eq_mem,
    decide_eq_false_iff_not] at h
  rcases h with ⟨cl, _, h⟩ | ⟨id, _, h⟩
  · rcases h with h | h
    · split at h
      · rename_i hc
        simp only [Bool.and_eq_true, Bool.not_eq_true', List.contains_eq_mem, decide_eq_false_iff_not] at hc
        simp only [List.mem_singleton] at h; subst h; exact hc.2
      · cases h
    · exact h.2
  · rcases h with h | h
    · split at h
      · rename_i hc
        simp only [Bool.and_eq_true, Bool.not_eq_true', List.contains_eq_mem, decide_eq_false_iff_not] at hc
        simp only [List.mem_singleton] at h; subst h; exact hc.2
      · cases h
    · exact h.2

/-- **lookup = spec** on the stores: a selector is returned iff it is not excepted and it is filed
    under one of the given class names or ids (simple: the selector is the name with its lead; complex:
    it sits in that name's bucket). -/
theorem lookup_eq_spec (c : Cache) (classes ids exc : List Str) (s : Str) :
    s ∈ c.hiddenClassId classes ids exc ↔ s ∉ exc ∧
      ((∃ cl ∈ classes, (s = '.' :: cl ∧ cl ∈ c.simpleClass) ∨ s ∈ bucketGet c.complexClass cl) ∨
       (∃ id ∈ ids, (s = '#' :: id ∧ id ∈ c.simpleId) ∨ s ∈ bucketGet c.complexId id)) := by
  constructor
  · intro h
    refine ⟨lookup_respects_exceptions c classes ids exc s h, ?_⟩
    unfold Cache.hiddenClassId at h
    simp only [List.mem_append, List.mem_flatMap, List.mem_filter] at h
    rcases h with ⟨cl, hcl, h⟩ | ⟨id, hid, h⟩
    · left; refine ⟨cl, hcl, ?_⟩
      rcases h with h | h
      · split at h
        · rename_i hc
          simp only [Bool.and_eq_true, List.contains_eq_mem, decide_eq_true_eq] at hc
          simp only [List.mem_singleton] at h
          exact Or.inl ⟨h, hc.1⟩
        · cases h
      · exact Or.inr h.1
    · right; refine ⟨id, hid, ?_⟩
      rcases h with h | h
      · split at h
        · rename_i hc
          simp only [Bool.and_eq_true, List.contains_eq_mem, decide_eq_true_eq] at hc
          simp only [List.mem_singleton] at h
          exact Or.inl ⟨h, hc.1⟩
        · cases h
      · exact Or.inr h.1
  · rintro ⟨hexc, h⟩
    unfold Cache.hiddenClassId
    simp only [List.mem_append, List.mem_flatMap, List.mem_filter, Bool.not_eq_true', List.contains_eq_mem,
      decide_eq_false_iff_not]
    rcases h with ⟨cl, hcl, h⟩ | ⟨id, hid, h⟩
    · left; refine ⟨cl, hcl, ?_⟩
      rcases h with ⟨rfl, hs⟩ | h
      · left
        simp [hs, hexc]
      · exact Or.inr ⟨h, hexc⟩
    · right; refine ⟨id, hid, ?_⟩
      rcases h with ⟨rfl, hs⟩ | h
      · left
        simp [hs, hexc]
      · exact Or.inr ⟨h, hexc⟩

/-! ### key extraction: the escape cases the property lists (CSS unescaping, hex escapes, overflow) -/
example : keyFromSelector ".ad-banner > div".toList = some ".ad-banner".toList := by decide
example : keyFromSelector ".a\\:b".toList = some ".a:b".toList := by decide
example : keyFromSelector "#\\41 d".toList = some "#Ad".toList := by decide
example : keyFromSelector ".\\ffffffffff x".toList = none := by decide   -- hex overflow (known finding F15)
example : keyFromSelector ".[a]".toList = none := by decide
example : place ".ad".toList = .simpleClass "ad".toList ∧ place ".ad.sticky".toList = .complexClass "ad".toList
    ∧ place "div > .x".toList = .misc ∧ place ".".toList = .nowhere := by decide

end Adb.Cosmetic
