import Adb.Model.Parse
/-
  C02 — reference semantics of ABP / uBO patterns.

  `MatchesAt ps s r`: the element list `ps` (literals, `*`, `^`) matches a prefix of `s`, leaving `r`.
  `refMatch`: a rule's pattern part against a request URL, straight from the rule text:
  literal text case-insensitively, `*` any run, `^` one separator (or the end when last), `|` pins
  start / end, `||host` pins to an occurrence of the host text in the request hostname at label
  boundaries with the remainder matching directly after that occurrence.
-/
namespace Adb.Spec
open Adb Adb.Net Adb.Parse

/-- declarative pattern semantics -/
inductive MatchesAt : List PElem → Str → Str → Prop where
  | nil (s) : MatchesAt [] s s
  | lit {c ps s r} : MatchesAt ps s r → MatchesAt (.lit c :: ps) (c :: s) r
  | starSkip {ps s r} : MatchesAt ps s r → MatchesAt (.star :: ps) s r
  | starTake {ps c s r} : MatchesAt (.star :: ps) s r → MatchesAt (.star :: ps) (c :: s) r
  | sepChar {c ps s r} : isSepChar c = true → MatchesAt ps s r → MatchesAt (.sep :: ps) (c :: s) r
  | sepEnd : MatchesAt [.sep] [] []

/-- where the authority starts: after `scheme://` (the property's URL universe has no userinfo) -/
def hostStart (url : Str) : Nat := (findSub "://".toList url).map (· + 3) |>.getD 0

def stripWwwAll : Nat → Str → Str
  | 0, h => h
  | fuel + 1, h => if startsWith "www." h then stripWwwAll fuel (h.drop 4) else h

/-- the host text of a `||` pattern and what follows it -/
def splitHost (pat : Str) : Str × Str :=
  let hlen := (firstSeparator pat).getD pat.length
  (pat.take hlen, pat.drop hlen)

/-- occurrence `i` of `H` in `host` sits at label boundaries (right boundary waived when the
    remainder starts with `*`) -/
def boundaryOk (H host rest : Str) (i : Nat) : Bool :=
  H.isPrefixOf (host.drop i) &&
  (i == 0 || (host.drop (i - 1)).head? == some '.' || H.head? == some '.') &&
  (i + H.length == host.length || (host.drop (i + H.length)).head? == some '.' || H.getLast? == some '.'
    || rest.head? == some '*')

/-- the reference: does the pattern part of the rule match the request? -/
def refMatch (p : Abstract) (url host : Str) : Bool :=
  let u := asciiLower url
  match p.la with
  | some .double =>
    let (H0, rest) := splitHost (asciiLower p.pattern)
    let H := stripWwwAll H0.length H0
    if H.isEmpty then
      -- `||` with an empty host text pins nothing: the remainder matches right after the request host
      matchHere p.ra (elems rest) (u.drop (hostStart u + host.length)) ||
        (List.range (host.length + 1)).any (fun i => matchHere p.ra (elems rest) (u.drop (hostStart u + i)))
    else
      (List.range (host.length + 1)).any (fun i =>
        boundaryOk H host rest i && matchHere p.ra (elems rest) (u.drop (hostStart u + i + H.length)))
  | some .single => matchHere p.ra (elems (asciiLower p.pattern)) u
  | none => matchAnywhere p.ra (elems (asciiLower p.pattern)) u

/-- the part of the property's domain on which the model is proved / expected to agree:
    no degenerate spelling, host text occurring at most once in the request host and not in the
    scheme, `||host|` excluded (known findings F2, F20) -/
def occurrences (H host : Str) : Nat :=
  ((List.range (host.length + 1)).filter (fun i => !H.isEmpty && H.isPrefixOf (host.drop i))).length

def inDomain (p : Abstract) (url host : Str) : Bool :=
  let pat := asciiLower p.pattern
  let degenerate := pat.head? == some '*' || pat.getLast? == some '*' || (findSub "**".toList pat).isSome
    || (findSub "^^".toList pat).isSome || (pat.head? == some '/' && pat.getLast? == some '/' && pat.length > 1)
    || pat.contains '\\' || pat.isEmpty
  match p.la with
  | some .double =>
    let (H0, rest) := splitHost pat
    let H := stripWwwAll H0.length H0
    !degenerate && !H.isEmpty && occurrences H host ≤ 1
      && (findSub H ((asciiLower url).take (hostStart url))).isNone
      && !(p.ra && rest.isEmpty) && !(p.ra && rest == ['^']) && !(p.ra && rest.head? == some '*')
      && !startsWith "www." H0
  | _ => !degenerate

end Adb.Spec
