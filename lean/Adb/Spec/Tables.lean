/-
  Independent statements of the finite tables that carry meaning of their own.

  `Adb.Generated.Tables` is re-extracted from the source on every run, so a table that changes in the source changes
  in the model with it, and every model/code correspondence keeps agreeing. What the entries are *supposed* to be is
  written down here by hand (from the ABP / uBO filter documentation, the WebExtensions and Safari content-blocker
  vocabularies and the property texts); `Adb.Props.TableSpecs` proves the extracted tables equal to these.
-/
namespace Adb.Spec

/-- the rule option (mask flag, by name) that a request of the given type must carry to be matched -/
def flagOfRequestType : String → String
  | "Document" => "FROM_DOCUMENT"
  | "Subdocument" => "FROM_SUBDOCUMENT"
  | "Script" => "FROM_SCRIPT"
  | "Stylesheet" => "FROM_STYLESHEET"
  | "Image" => "FROM_IMAGE"
  | "Font" => "FROM_FONT"
  | "Media" => "FROM_MEDIA"
  | "Object" => "FROM_OBJECT"
  | "Xmlhttprequest" => "FROM_XMLHTTPREQUEST"
  | "Websocket" => "FROM_WEBSOCKET"
  | "Ping" => "FROM_PING"
  | "Beacon" => "FROM_PING"
  | "Csp" => "UNMATCHED"
  | _ => "FROM_OTHER"       -- Other, Dtd, Fetch, Xlst

/-- the eleven request types a rule without type options applies to (documents are opt-in) -/
def networkTypeFlags : List String :=
  ["FROM_FONT", "FROM_IMAGE", "FROM_MEDIA", "FROM_OBJECT", "FROM_OTHER", "FROM_PING", "FROM_SCRIPT", "FROM_STYLESHEET",
   "FROM_SUBDOCUMENT", "FROM_WEBSOCKET", "FROM_XMLHTTPREQUEST"]

/-- what an option name means (uBO aliases included); `none` for names that are no options -/
def optionMeaning : String → Option String
  | "domain" | "from" => some "Domain"
  | "badfilter" => some "Badfilter"
  | "important" => some "Important"
  | "match-case" => some "MatchCase"
  | "third-party" | "3p" => some "ThirdParty"
  | "first-party" | "1p" => some "FirstParty"
  | "tag" => some "Tag"
  | "redirect" => some "Redirect"
  | "redirect-rule" => some "RedirectRule"
  | "csp" => some "Csp"
  | "removeparam" => some "Removeparam"
  | "generichide" | "ghide" => some "Generichide"
  | "document" | "doc" => some "Document"
  | "image" => some "Image"
  | "media" => some "Media"
  | "object" | "object-subrequest" => some "Object"
  | "other" => some "Other"
  | "ping" | "beacon" => some "Ping"
  | "script" => some "Script"
  | "stylesheet" | "css" => some "Stylesheet"
  | "subdocument" | "frame" => some "Subdocument"
  | "xmlhttprequest" | "xhr" => some "XmlHttpRequest"
  | "websocket" => some "Websocket"
  | "font" => some "Font"
  | _ => none

def optionNames : List String :=
  ["domain", "from", "badfilter", "important", "match-case", "third-party", "3p", "first-party", "1p", "tag", "redirect",
   "redirect-rule", "csp", "removeparam", "generichide", "ghide", "document", "doc", "image", "media", "object",
   "object-subrequest", "other", "ping", "beacon", "script", "stylesheet", "css", "subdocument", "frame", "xmlhttprequest",
   "xhr", "websocket", "font"]

/-- options whose negation (`~name`) is an error -/
def notNegatable : List String :=
  ["badfilter", "important", "match-case", "tag", "redirect", "redirect-rule", "removeparam", "generichide", "ghide", "document", "doc"]

/-- resource kinds that are never served as a redirect (a template is not a resource body; `fn/javascript` is a function
    library for other scriptlets) -/
def notRedirectable : List String := ["Template", "Mime(MimeType::FnJavascript)"]

/-- resource kinds that can be injected as a scriptlet -/
def injectable : List String := ["Template", "Mime(MimeType::ApplicationJavascript)"]

/-- the MIME string of each kind (the text that appears in a redirect's data-URL) -/
def mimeOf : String → String
  | "TextCss" => "text/css"
  | "ImageGif" => "image/gif"
  | "TextHtml" => "text/html"
  | "ApplicationJavascript" => "application/javascript"
  | "ApplicationJson" => "application/json"
  | "AudioMp3" => "audio/mp3"
  | "VideoMp4" => "video/mp4"
  | "ImagePng" => "image/png"
  | "TextPlain" => "text/plain"
  | "TextXml" => "text/xml"
  | "FnJavascript" => "fn/javascript"
  | _ => "application/octet-stream"

/-- Safari content-blocker `resource-type` of a request-type option (by flag name); "" = the option cannot be expressed -/
def safariTypeOf : String → String
  | "FROM_IMAGE" => "Image"
  | "FROM_MEDIA" => "Media"
  | "FROM_SCRIPT" => "Script"
  | "FROM_STYLESHEET" => "StyleSheet"
  | "FROM_SUBDOCUMENT" => "Document"
  | "FROM_XMLHTTPREQUEST" => "Raw"
  | "FROM_FONT" => "Font"
  | _ => ""

/-- the request-type options in the order the converter visits them -/
def networkTypeFlags_cb : List String :=
  ["FROM_IMAGE", "FROM_MEDIA", "FROM_OBJECT", "FROM_OTHER", "FROM_PING", "FROM_SCRIPT", "FROM_STYLESHEET", "FROM_SUBDOCUMENT",
   "FROM_WEBSOCKET", "FROM_XMLHTTPREQUEST", "FROM_FONT"]

end Adb.Spec
