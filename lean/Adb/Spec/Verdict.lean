import Adb.Model.Engine
/-
  Reference semantics for C01/C04/C05/C13/C15: the verdict obtained by testing every rule of the
  list individually (`Rule.matches`) and combining the hits with the documented precedence.  No
  token index, no optimisation, no cache.
-/
namespace Adb.Net.Spec
open Adb Adb.Net Adb.Gen

/-- what a `$badfilter` rule is compared on: the pattern and every matching option (C04) -/
structure Key where
  modifier : Option Str
  mask : Mask
  filter : Option Str
  hostname : Option Str
  domains : Option (List Hash)
  notDomains : Option (List Hash)
deriving DecidableEq, Repr

def key (r : Rule) : Key :=
  ⟨r.modifier, setBit r.mask BAD_FILTER false, r.filter.stringView, r.hostname, r.domains, r.notDomains⟩

def Key.id (k : Key) : Hash := computeId k.modifier k.mask k.filter k.hostname k.domains k.notDomains

/-- `z$badfilter` cancels `y` iff they have the same pattern and the same matching options -/
def cancels (z y : Rule) : Bool := z.isBadfilter && !y.isBadfilter && key z == key y

/-- rules cancelled by a `$badfilter` twin, and the badfilter rules themselves, are not loaded -/
def live (rules : List Rule) : List Rule :=
  rules.filter (fun y => !y.isBadfilter && !rules.any (fun z => cancels z y))

/-- the 64-bit rule id separates the keys of this case (assumption of C04, checked per case) -/
def idsSeparate (rules : List Rule) : Bool :=
  rules.all (fun a => rules.all (fun b => (key a).id != (key b).id || key a == key b))

/-- rule-by-rule evaluation -/
def hits (rs : List Rule) (q : Request) (tags : List Str) : List Rule :=
  rs.filter (fun r => r.matches q && tagOk r tags)

/-- candidates after the exception filter, with parsed priorities -/
def redirectCands (matched : List Rule) : List (Str × Int) :=
  let exceptions := ((matched.filter Rule.isException).filterMap (·.modifier)).map (fun m => (parseRedirect m).1)
  (((matched.filter (fun r => !r.isException)).filterMap (·.modifier)).map parseRedirect).filter
    (fun c => !exceptions.contains c.1)

/-- C13: the admissible redirect resources — those named by *a* maximum-priority matching redirect
    option that no matching redirect exception names (ties leave a choice to the implementation) -/
def redirectChoices (matched : List Rule) : List Str :=
  (redirectCands matched).filterMap
    (fun c => if (redirectCands matched).all (fun c' => decide (c'.2 ≤ c.2)) then some c.1 else none)

/-- all verdicts the contract admits (they differ only in the redirect when priorities tie) -/
def verdicts (rules : List Rule) (tags : List Str) (st : Store) (q : Request) : List Verdict :=
  if !q.isSupported then [⟨false, false, false, none, none⟩] else
  let l := live rules
  let of (c : Cat) := l.filter (fun f => cat f == c)
  let important := !(hits (of .important) q tags).isEmpty
  let blocking := important || !(hits (of .tagged) q tags).isEmpty || !(hits (of .normal) q []).isEmpty
  let exception := !important && blocking && !(hits (of .exception) q tags).isEmpty
  let rewritten := if important then none else
    Removeparam.spec false q.originalUrl ((hits (of .removeparam) q []).filterMap (·.modifier))
  let choices := redirectChoices (hits (l.filter Rule.isRedirect) q [])
  let redirects : List (Option Str) := if choices.isEmpty then [none] else choices.map st.redirect
  redirects.map fun redirect =>
    { matched := blocking && !exception, important, exception, redirect, rewritten }

/-- the CSP answer as a set (duplicate-free list): directives of matching csp rules minus the
    directives named by matching csp exceptions; nothing if a matching exception names none -/
def csp? (rules : List Rule) (tags : List Str) (q : Request) : Option (List Str) :=
  if q.tyName != "Document" && q.tyName != "Subdocument" then none else
  cspMerge (hits ((live rules).filter (fun f => cat f == .csp)) q tags)

/-- does the rule's parameter occur in the query as `name=<non-empty>`?  (only then can finding a
    removeparam rule make a difference) -/
def paramPresent (r : Rule) (q : Request) : Bool :=
  match r.modifier with
  | none => false
  | some name => Removeparam.apply q.originalUrl [name] != none

/-- hypothesis of `index_complete`: a rule that matches `q` (and, for a removeparam rule, whose
    parameter is present) has a token group all of whose tokens the request probes (the empty group
    is stored under, and probed by, token 0) -/
def tokenSound (r : Rule) (q : Request) : Bool :=
  !r.matches q || (r.isRemoveparam && !paramPresent r q) || r.getTokens.any (fun g =>
    if g.isEmpty then q.probe.contains 0 else g.all (fun t => q.probe.contains t))

/-- the hypotheses of `engine_eq_scan_unoptimized`, as the executable check the driver evaluates on
    every generated case (flag `D`) -/
def caseOK (rules : List Rule) (q : Request) : Bool :=
  rules.all (fun a => rules.all (fun b => a.id != b.id || a == b)) &&
  idsSeparate rules && q.probe.contains 0 && rules.all (fun r => tokenSound r q) &&
  rules.all (fun r => !(r.isRedirect && r.isRemoveparam))

/-- a loaded rule never carries an empty alternative list (only fusion builds alternative lists, and
    never an empty one); hypothesis of the optimised-engine theorem, evaluated per case -/
def wfRules (rules : List Rule) : Bool := rules.all fun f => f.filter != .anyOf []

end Adb.Net.Spec
