import Adb.Model.Parse
/-
  C03 — reference semantics of rule options, straight from the option AST:
  a rule applies to a request only if every option on it is satisfied.
-/
namespace Adb.Spec
open Adb Adb.Net Adb.Parse Adb.Gen

/-- the request as the option semantics sees it -/
structure OReq where
  tyBit : Nat          -- the type's mask bit (`FROM_DOCUMENT` for documents, `UNMATCHED` for csp reports)
  isHttp : Bool
  isHttps : Bool
  thirdParty : Bool
  srcHost : Str        -- empty = no source

def positives (opts : List NOpt) : List Nat :=
  opts.filterMap (fun o => match o with | .document => some FROM_DOCUMENT | .ctype b true => some b | _ => none)
def negatives (opts : List NOpt) : List Nat :=
  opts.filterMap (fun o => match o with | .ctype b false => some b | _ => none)

def isRemoveparam (opts : List NOpt) : Bool := opts.any (fun o => match o with | .removeparam _ => true | _ => false)
def isCspRule (opts : List NOpt) : Bool := opts.any (fun o => match o with | .csp _ => true | _ => false)

/-- `||host^` with nothing else: the implicit-all shape -/
def hostOnlyCaret (a : Abstract) : Bool :=
  a.la == some .double && !a.ra &&
    (match firstSeparator a.pattern with
     | some i => a.pattern.drop i == ['^'] && checkIsRegex a.pattern
     | none => false)

/-- `|ws://` adds the websocket type -/
def wsPattern (a : Abstract) : Bool := a.la == some .single && a.pattern == "ws://".toList

/-- the set of request types (as mask bits) the rule applies to -/
def typeAllowed (a : Abstract) (opts : List NOpt) (t : Nat) : Bool :=
  let P := positives opts
  let N := negatives opts
  let net : List Nat := FROM_NETWORK_TYPES
  let all : List Nat := FROM_ALL_TYPES
  let rp := isRemoveparam opts
  let base :=
    P.contains t
    || (isCspRule opts && t == FROM_DOCUMENT)
    || (!rp && N.any net.contains && net.contains t)
    || (!P.any all.contains &&
          (if rp then [FROM_DOCUMENT, FROM_SUBDOCUMENT, FROM_XMLHTTPREQUEST].contains t else net.contains t))
    || (wsPattern a && t == FROM_WEBSOCKET)
    || (!P.any all.contains && !N.any all.contains && hostOnlyCaret a && !rp && all.contains t)
  base && !N.contains t

/-- a listed domain covers the initiator host and its subdomains -/
def covers (d host : Str) : Bool := host == d || ('.' :: d).isSuffixOf host

/-- the last non-empty list of each polarity wins when the option is repeated -/
def incStep (acc : Option (List Str)) : NOpt → Option (List Str)
  | .domain ds => let inc := (ds.filter (·.1)).map (·.2); if inc.isEmpty then acc else some inc
  | _ => acc
def excStep (acc : Option (List Str)) : NOpt → Option (List Str)
  | .domain ds => let exc := (ds.filter (fun p => !p.1)).map (·.2); if exc.isEmpty then acc else some exc
  | _ => acc
def includedDomains (opts : List NOpt) : Option (List Str) := opts.foldl incStep none
def excludedDomains (opts : List NOpt) : Option (List Str) := opts.foldl excStep none

/-- scheme restriction carried by a scheme-only pattern (`|http://`, `|https://`, `|ws://`, `|http*://`) -/
def schemeOk (a : Abstract) (q : OReq) : Bool :=
  if a.la == some .single then
    if a.pattern == "http://".toList then q.isHttp
    else if a.pattern == "https://".toList then q.isHttps
    else if a.pattern == "ws://".toList then !q.isHttp && !q.isHttps
    else true
  else true

/-- request types: a document request is also accepted by any exception -/
def refTypeOk (a : Abstract) (opts : List NOpt) (tyBit : Nat) : Bool :=
  if tyBit == FROM_DOCUMENT then typeAllowed a opts FROM_DOCUMENT || a.exception else typeAllowed a opts tyBit

/-- party options -/
def refPartyOk (opts : List NOpt) (thirdParty : Bool) : Bool :=
  let only3p := opts.any (fun o => o == .thirdParty true || o == .firstParty false)
  let only1p := opts.any (fun o => o == .thirdParty false || o == .firstParty true)
  (thirdParty || !only3p) && (!thirdParty || !only1p)

/-- `domain=`: some included domain covers the initiator, no excluded one does -/
def refIncOk (opts : List NOpt) (srcHost : Str) : Bool :=
  match includedDomains opts with
  | none => true
  | some ds => !srcHost.isEmpty && ds.any (fun d => covers d srcHost)
def refExcOk (opts : List NOpt) (srcHost : Str) : Bool :=
  match excludedDomains opts with
  | none => true
  | some ds => srcHost.isEmpty || !ds.any (fun d => covers d srcHost)

def refOptions (a : Abstract) (q : OReq) : Bool :=
  let opts := a.options.getD []
  let badfilter := opts.any (· == .badfilter)
  !badfilter && refTypeOk a opts q.tyBit && refPartyOk opts q.thirdParty && schemeOk a q
    && refIncOk opts q.srcHost && refExcOk opts q.srcHost

end Adb.Spec
