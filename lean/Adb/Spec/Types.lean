/-
  What each request-type string denotes, written down independently of the crate's `cpt_match_type`
  (the WebExtensions `webRequest.ResourceType` vocabulary plus the Chromium / ABP spellings the crate documents):
  a sub-frame is a sub-document, the main frame is the document, `xhr` is XMLHttpRequest, a beacon is a ping, …
  The table re-extracted from the source on every run (`Adb.Gen.cptMatch`) must be this function.
-/
namespace Adb.Spec

/-- the request type a type string stands for; every other string is `Other` -/
def typeOf : String → String
  | "document" => "Document"
  | "main_frame" => "Document"
  | "sub_frame" => "Subdocument"
  | "subdocument" => "Subdocument"
  | "script" => "Script"
  | "stylesheet" => "Stylesheet"
  | "image" => "Image"
  | "imageset" => "Image"
  | "font" => "Font"
  | "media" => "Media"
  | "object" => "Object"
  | "object_subrequest" => "Object"
  | "xhr" => "Xmlhttprequest"
  | "xmlhttprequest" => "Xmlhttprequest"
  | "websocket" => "Websocket"
  | "ping" => "Ping"
  | "beacon" => "Ping"
  | "csp_report" => "Csp"
  | _ => "Other"

/-- the strings that do not denote `Other` -/
def namedTypes : List String :=
  ["document", "main_frame", "sub_frame", "subdocument", "script", "stylesheet", "image", "imageset", "font", "media",
   "object", "object_subrequest", "xhr", "xmlhttprequest", "websocket", "ping", "beacon", "csp_report"]

end Adb.Spec
