/-
  Model of `src/lists.rs`: line splitting, rule-kind detection, `parse_filter` for both list
  formats and all rule-type options, the hosts branch (`NetworkFilter::parse_hosts_style`), list
  parsing as a per-line map, and list metadata (`read_list_metadata`, `FilterListMetadata::try_add`,
  `ExpiresInterval`).

  External (parameters of the model): the cosmetic rule parser (`cosm`), and Unicode lower-casing +
  IDNA for non-ASCII hosts entries (`idna`).
-/
import Adb.Model.Parse
namespace Adb.Lists
open Adb Adb.Net Adb.Parse

/-- Unicode `White_Space` (Rust `char::is_whitespace`, the regex crate's `\s`). -/
def isWs (c : Char) : Bool :=
  let n := c.toNat
  (9 ≤ n && n ≤ 13) || n == 0x20 || n == 0x85 || n == 0xA0 || n == 0x1680 ||
  (0x2000 ≤ n && n ≤ 0x200A) || n == 0x2028 || n == 0x2029 || n == 0x202F || n == 0x205F || n == 0x3000

def trimStart (s : Str) : Str := s.dropWhile isWs
def trimEnd (s : Str) : Str := (s.reverse.dropWhile isWs).reverse
/-- `str::trim` -/
def trim (s : Str) : Str := trimEnd (trimStart s)

/-- `str::split_whitespace`: the maximal runs of non-whitespace characters -/
def splitWs (s : Str) : List Str :=
  (s.splitBy fun a b => isWs a == isWs b).filter fun w => match w.head? with
    | some c => !isWs c
    | none => false

/-- `str::lines`: split after every `\n`; a piece that ended in `\n` loses it and then one `\r` -/
def linesAux : Str → Str → List Str
  | [], [] => []
  | [], cur => [cur.reverse]
  | '\n' :: r, cur =>
    let l := match cur with
      | '\r' :: c => c.reverse
      | c => c.reverse
    l :: linesAux r []
  | c :: r, cur => linesAux r (c :: cur)

def lines (s : Str) : List Str := linesAux s []

/-- does `needle` occur in `s` -/
def containsSub (needle : Str) : Str → Bool
  | [] => needle.isEmpty
  | c :: r => needle.isPrefixOf (c :: r) || containsSub needle r

inductive Format where
  | standard | hosts
  deriving DecidableEq, Repr

inductive RuleTypes where
  | all | networkOnly | cosmeticOnly
  deriving DecidableEq, Repr

def RuleTypes.loadsNetwork : RuleTypes → Bool
  | .all | .networkOnly => true
  | .cosmeticOnly => false

def RuleTypes.loadsCosmetic : RuleTypes → Bool
  | .all | .cosmeticOnly => true
  | .networkOnly => false

inductive FType where
  | network | cosmetic | notSupported
  deriving DecidableEq, Repr

/-- `detect_filter_type` (on the trimmed, non-empty line). The second-`#` window is four *bytes*. -/
def detectFilterType (f : Str) : FType :=
  if blen f == 1 || f.head? == some '!'
     || (f.head? == some '#' && (match f.tail.head? with | some c => isWs c | none => false))
     || startsWith "[Adblock" f then .notSupported
  else if f.head? == some '|' || startsWith "@@|" f then .network
  else
    let bs := utf8 f
    let cosmetic := match bs.findIdx? (· == 35) with
      | some i => ((bs.drop (i + 1)).take 4).contains 35
      | none => false
    if cosmetic then .cosmetic
    else if containsSub ['$', '$'] f then .notSupported
    else .network

/-- the characters `parse_hosts_style` refuses in a host name -/
def invalidHostChar (c : Char) : Bool :=
  "/^*!?$&(){}[]+=~`|@,'\"><:;".toList.contains c || isWs c

def stripWwwAll : Nat → Str → Str
  | 0, h => h
  | fuel + 1, h => if startsWith "www." h then stripWwwAll fuel (h.drop 4) else h

/-- checks of `parse_hosts_style` before normalisation -/
def hostShapeOk (h : Str) : Bool :=
  !h.any invalidHostChar && h.contains '.'
    && !(h.head? == some '.' && !h.tail.contains '.') && h.getLast? != some '.'

/-- `parse_hosts_style`; `idna` stands for `to_lowercase` + `www.` stripping + `domain_to_ascii`
    on non-ASCII hosts -/
def hostsRuleText (idna : Str → Option Str) (h : Str) : Except String Str :=
  if !hostShapeOk h then .error "FilterParseError"
  else if h.all (fun c => c.val < 128) then
    let n := asciiLower h
    .ok ("||".toList ++ stripWwwAll n.length n ++ ['^'])
  else match idna h with
    | some a => .ok ("||".toList ++ a ++ ['^'])
    | none => .error "PunycodeError"

/-- The hosts-format field selection of `parse_filter` (after trimming): comment handling and the
    last of at most two whitespace separated fields. -/
def hostsField (f : Str) : Option Str :=
  if f.head? == some '!' then none else
  let f' := match f.findIdx? (· == '#') with
    | some i => let g := trim (f.take i); if g.isEmpty then none else some g
    | none => some f
  match f' with
  | none => none
  | some g => match splitWs g with
    | [h] => if h == "localhost".toList then none else some h
    | [_, h] => if h == "localhost".toList then none else some h
    | _ => none

inductive Parsed (C : Type) where
  | network (r : Rule)
  | cosmetic (c : C)

structure Opts where
  format : Format := .standard
  ruleTypes : RuleTypes := .all

section
variable {C : Type} (cosm : Str → Except String C) (idna : Str → Option Str)

def liftNet : Except String Rule → Except String (Parsed C)
  | .ok r => .ok (.network r)
  | .error e => .error ("Network:" ++ e)

def liftCosm : Except String C → Except String (Parsed C)
  | .ok c => .ok (.cosmetic c)
  | .error e => .error ("Cosmetic:" ++ e)

/-- the `FilterFormat::Standard` arm of `parse_filter` -/
def parseStandard (rt : RuleTypes) (f : Str) : Except String (Parsed C) :=
  match detectFilterType f with
  | .network => if rt.loadsNetwork then liftNet (parseNetwork f) else .error "Unsupported"
  | .cosmetic => if rt.loadsCosmetic then liftCosm (cosm f) else .error "Unsupported"
  | .notSupported => .error "Unsupported"

/-- the `FilterFormat::Hosts` arm of `parse_filter` -/
def parseHosts (rt : RuleTypes) (f : Str) : Except String (Parsed C) :=
  if !rt.loadsNetwork then .error "Unsupported" else
  match hostsField f with
  | none => .error "Unsupported"
  | some h => match hostsRuleText idna h with
    | .error e => .error ("Network:" ++ e)
    | .ok text => liftNet (parseNetwork text)

/-- `parse_filter` -/
def parseLine (o : Opts) (line : Str) : Except String (Parsed C) :=
  let f := trim line
  if f.isEmpty then .error "Empty" else
  match o.format with
  | .standard => parseStandard cosm o.ruleTypes f
  | .hosts => parseHosts idna o.ruleTypes f

def accepted (o : Opts) (line : Str) : Bool :=
  match parseLine cosm idna o line with
  | .ok _ => true
  | .error _ => false

/-- `parse_filters_with_metadata`, rule part: each line on its own, failures dropped, order kept -/
def parseList (o : Opts) (ls : List Str) : List (Parsed C) :=
  ls.filterMap fun l => match parseLine cosm idna o l with
    | .ok p => some p
    | .error _ => none

def networkOf (ps : List (Parsed C)) : List Rule :=
  ps.filterMap fun p => match p with | .network r => some r | .cosmetic _ => none

def cosmeticOf (ps : List (Parsed C)) : List C :=
  ps.filterMap fun p => match p with | .cosmetic c => some c | .network _ => none

end

/-! ### list metadata -/

inductive Expires where
  | hours (n : Nat) | days (n : Nat)
  deriving DecidableEq, Repr

/-- `str::parse::<uN>` for an unsigned type with maximum `max` (a leading `+` is excluded by the
    caller): non-empty, ASCII digits only, no overflow -/
def parseUnsigned (max : Nat) (s : Str) : Option Nat :=
  if s.isEmpty || !s.all (fun c => '0' ≤ c && c ≤ '9') then none else
  let v := s.foldl (fun a c => a * 10 + (c.toNat - 48)) 0
  if v ≤ max then some v else none

/-- `ExpiresInterval::try_from` -/
def parseExpires (v : Str) : Option Expires :=
  match v.splitOn ' ' with
  | amount :: unit :: _ =>
    if amount.head? == some '+' then none
    else if unit == "hour".toList || unit == "hours".toList then
      match parseUnsigned 65535 amount with
      | some n => if 1 ≤ n && n ≤ 336 then some (.hours n) else none
      | none => none
    else if unit == "day".toList || unit == "days".toList then
      match parseUnsigned 255 amount with
      | some n => if 1 ≤ n && n ≤ 14 then some (.days n) else none
      | none => none
    else none
  | _ => none

structure Meta where
  homepage : Option Str := none
  title : Option Str := none
  expires : Option Expires := none
  redirect : Option Str := none
  deriving DecidableEq, Repr

/-- first occurrence of `": "` -/
def splitColonSpace : Str → Option (Str × Str)
  | [] => none
  | ':' :: ' ' :: r => some ([], r)
  | c :: r => match splitColonSpace r with
    | some (a, b) => some (c :: a, b)
    | none => none

/-- `FilterListMetadata::try_add` -/
def Meta.tryAdd (m : Meta) (line : Str) : Meta :=
  match line with
  | '!' :: ' ' :: kv =>
    match splitColonSpace kv with
    | some (key, value) =>
      if key == "Homepage".toList && m.homepage.isNone then { m with homepage := some value }
      else if key == "Title".toList && m.title.isNone then { m with title := some value }
      else if key == "Expires".toList && m.expires.isNone then
        match parseExpires value with
        | some e => { m with expires := some e }
        | none => m
      else if key == "Redirect".toList && m.redirect.isNone then { m with redirect := some value }
      else m
    | none => m
  | _ => m

/-- metadata collected by `parse_filters_with_metadata`: every line is offered -/
def listMeta (ls : List Str) : Meta := ls.foldl Meta.tryAdd {}

/-- the longest character prefix of at most `budget` bytes -/
def takeBytes : Str → Nat → Str
  | [], _ => []
  | c :: r, budget =>
    let k := (utf8Char c).length
    if k ≤ budget then c :: takeBytes r (budget - k) else []

/-- header scan of `read_list_metadata`: `!` lines are offered, `[` lines skipped, anything else ends it -/
def headerScan (m : Meta) : List Str → Meta
  | [] => m
  | l :: r =>
    if l.head? == some '!' then headerScan (m.tryAdd l) r
    else if l.head? == some '[' then headerScan m r
    else m

/-- `read_list_metadata` -/
def readListMetadata (list : Str) : Meta := headerScan {} (lines (takeBytes list 1024))

/-! ### the byte-level cut-off loop of `read_list_metadata` -/

/-- UTF-8 continuation byte (`(b as i8) < -0x40`) -/
def isCont (b : UInt8) : Bool := 0x80 ≤ b.toNat && b.toNat < 0xC0

/-- `str::is_char_boundary` on the byte representation -/
def isCharBoundaryB (bs : List UInt8) (i : Nat) : Bool :=
  i == 0 || (if i < bs.length then (match bs[i]? with | some b => !isCont b | none => false) else i == bs.length)

/-- `while !list.is_char_boundary(cutoff) { cutoff -= 1 }` -/
def cutoffLoop (bs : List UInt8) : Nat → Nat
  | 0 => 0
  | i + 1 => if isCharBoundaryB bs (i + 1) then i + 1 else cutoffLoop bs i

def metaCutoff (bs : List UInt8) : Nat := cutoffLoop bs (min bs.length 1024)

end Adb.Lists
