import Adb.Model.Net
/-
  `RegexManager` (src/regex_manager.rs): the cache of compiled regexes keyed by the *address* of the
  filter they were compiled for, with time-based discarding.  Addresses are abstract: the allocator
  may hand out any address that is not live (DESIGN.md 3.4).
-/
namespace Adb.Cache
open Adb Adb.Net

abbrev Addr := Nat

/-- what `make_regexp(mask, filters)` compiles from -/
structure Key where
  patterns : List Str
  la : Bool
  ra : Bool
  complete : Bool
deriving DecidableEq, Repr

def keyOf (r : Rule) : Key := ⟨r.filter.items, r.isLeftAnchor, r.isRightAnchor, r.isCompleteRegex⟩

/-- `CompiledRegex::is_match` of the regex compiled from `k` (`rx` = external answer for `/re/`) -/
def evalKey (k : Key) (rx : Bool) (text : Str) : Bool :=
  if k.patterns.any (·.isEmpty) then true
  else if k.patterns.isEmpty then true
  else if k.complete then rx
  else k.patterns.any (fun f => regexOne k.la k.ra f text)

/-- the cache-free answer: the regex compiled from the filter at hand -/
def fresh (r : Rule) (text : Str) : Bool :=
  (!r.isRegex && !r.isCompleteRegex) || evalKey (keyOf r) r.rx text

structure Entry where
  regex : Option Key      -- `None` = discarded
  lastUsed : Nat
deriving Repr

structure RM where
  map : List (Addr × Entry) := []
  now : Nat := 0
  lastCleanup : Nat := 0
  cleanupInterval : Nat := 30000000000   -- DEFAULT_CLEAN_UP_INTERVAL, in ns
  discardUnused : Nat := 180000000000   -- DEFAULT_DISCARD_UNUSED_TIME, in ns
deriving Repr, Inhabited

def RM.find (m : RM) (a : Addr) : Option Entry := (m.map.find? (·.1 == a)).map (·.2)

def RM.put (m : RM) (a : Addr) (e : Entry) : RM :=
  if m.map.any (·.1 == a) then { m with map := m.map.map (fun p => if p.1 == a then (a, e) else p) }
  else { m with map := m.map ++ [(a, e)] }

/-- `RegexManager::matches` -/
def RM.matches (m : RM) (a : Addr) (r : Rule) (text : Str) : RM × Bool :=
  if !r.isRegex && !r.isCompleteRegex then (m, true) else
  match m.find a with
  | some e =>
    let k := match e.regex with
      | some k => k
      | none => keyOf r          -- a discarded entry is recreated from the filter at hand
    (m.put a ⟨some k, m.now⟩, evalKey k r.rx text)
  | none => (m.put a ⟨some (keyOf r), m.now⟩, evalKey (keyOf r) r.rx text)

/-- `cleanup` -/
def RM.cleanup (m : RM) : RM :=
  { m with map := m.map.map (fun (a, e) =>
      if m.now - e.lastUsed ≥ m.discardUnused then (a, { e with regex := none }) else (a, e)) }

/-- `update_time` with the clock reading `t` -/
def RM.updateTime (m : RM) (t : Nat) : RM :=
  let m := { m with now := t }
  if m.cleanupInterval != 0 && m.now - m.lastCleanup ≥ m.cleanupInterval then
    ({ m with lastCleanup := m.now }).cleanup
  else m

def RM.setPolicy (m : RM) (interval unused : Nat) : RM := { m with cleanupInterval := interval, discardUnused := unused }
def RM.discard (m : RM) (a : Addr) : RM :=
  { m with map := m.map.map (fun (a', e) => if a' == a then (a', { e with regex := none }) else (a', e)) }
/-- `clear` (added by the fix for C06): called whenever filters are freed -/
def RM.clear (m : RM) : RM := { m with map := [] }

/-! ### the heap of live filters and the operations of a history -/

abbrev Heap := List (Addr × Rule)
def Heap.get (h : Heap) (a : Addr) : Option Rule := (h.find? (·.1 == a)).map (·.2)

structure St where
  heap : Heap := []
  rm : RM := {}
deriving Inhabited

inductive Op where
  /-- a query evaluates the filter stored at `a` against `text` -/
  | query (a : Addr) (text : Str)
  /-- a new filter is allocated (`Arc::new`); the allocator contract: `a` is not live -/
  | alloc (a : Addr) (r : Rule)
  /-- filters are freed (re-tagging, optimisation, deserialize) -/
  | free (as : List Addr)
  | tick (t : Nat)
  | setPolicy (interval unused : Nat)
  | discard (a : Addr)

/-- one step; `clearOnFree = true` is the repaired code, `false` the pinned one -/
def step (clearOnFree : Bool) (s : St) : Op → St × Option Bool
  | .query a text =>
    match s.heap.get a with
    | some r => let (rm', b) := s.rm.matches a r text; ({ s with rm := rm' }, some b)
    | none => (s, none)
  | .alloc a r => if (s.heap.get a).isSome then (s, none) else ({ s with heap := s.heap ++ [(a, r)] }, none)
  | .free as =>
    ({ heap := s.heap.filter (fun p => !as.contains p.1),
       rm := if clearOnFree then s.rm.clear else s.rm }, none)
  | .tick t => ({ s with rm := s.rm.updateTime t }, none)
  | .setPolicy i u => ({ s with rm := s.rm.setPolicy i u }, none)
  | .discard a => ({ s with rm := s.rm.discard a }, none)

def run (clearOnFree : Bool) (s : St) : List Op → St × List (Option Bool)
  | [] => (s, [])
  | op :: ops =>
    let (s', o) := step clearOnFree s op
    let (s'', os) := run clearOnFree s' ops
    (s'', o :: os)

end Adb.Cache
