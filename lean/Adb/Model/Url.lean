/-
  Model of the URL scanner (`src/url_parser/parser.rs`), `parse_url` (`src/url_parser/mod.rs`) and
  the two `Request` constructors (`src/request.rs`).

  External parameters: `idna` (`idna::domain_to_ascii`, only reached for non-ASCII hosts) and
  `domainOf` (the registrable-domain slice of a host: the public-suffix lookup).
-/
import Adb.Model.Net
namespace Adb.Url
open Adb Adb.Net

/-- `c0_control_or_space` -/
def isC0OrSpace (c : Char) : Bool := c.toNat ≤ 0x20

/-- `Input::new`: `trim_matches(c0_control_or_space)` -/
def trimC0 (s : Str) : Str := ((s.dropWhile isC0OrSpace).reverse.dropWhile isC0OrSpace).reverse

def isAsciiAlpha (c : Char) : Bool := ('a' ≤ c && c ≤ 'z') || ('A' ≤ c && c ≤ 'Z')

/-- the loop of `parse_scheme`: accumulated (lower-cased) scheme and the input after `:` -/
def schemeLoop : Str → Str → Option (Str × Str)
  | [], _ => none
  | c :: r, acc =>
    if 'a' ≤ c && c ≤ 'z' then schemeLoop r (acc ++ [c])
    else if 'A' ≤ c && c ≤ 'Z' then schemeLoop r (acc ++ [Char.ofNat (c.toNat + 32)])
    else if ('0' ≤ c && c ≤ '9') || c == '+' || c == '-' || c == '.' then schemeLoop r (acc ++ [c])
    else if c == ':' then some (acc, r)
    else none

/-- `parse_scheme` -/
def parseScheme (input : Str) : Option (Str × Str) :=
  match input with
  | [] => none
  | c :: _ => if isAsciiAlpha c then schemeLoop input [] else none

inductive SchemeType where
  | file | special | notSpecial
  deriving DecidableEq, Repr

def schemeType (s : Str) : SchemeType :=
  if s == "file".toList then .file
  else if ["http", "https", "ws", "wss", "ftp", "gopher"].any (fun x => s == x.toList) then .special
  else .notSpecial

def isIgnored (c : Char) : Bool := c == '\t' || c == '\n' || c == '\r'

/-- bytes of the USERINFO percent-encode set (controls, non-ASCII, and the listed punctuation) -/
def inUserinfoSet (b : UInt8) : Bool :=
  b.toNat < 0x20 || b.toNat ≥ 0x7F ||
  " \"<>`#?{}/:;=@[\\]^|".toList.any (fun c => c.toNat == b.toNat)

def hexUpper (n : Nat) : Char := if n < 10 then Char.ofNat (48 + n) else Char.ofNat (55 + n)

/-- `utf8_percent_encode(c, USERINFO)` -/
def pctEncode (c : Char) : Str :=
  (utf8Char c).flatMap fun b =>
    if inUserinfoSet b then ['%', hexUpper (b.toNat / 16), hexUpper (b.toNat % 16)] else [Char.ofNat b.toNat]

/-- first loop of `parse_userinfo`: position (in characters) of the last `@` before the end of the
    authority, and the input after it -/
def scanAt (special : Bool) : Str → Nat → Option (Nat × Str) → Option (Nat × Str)
  | [], _, last => last
  | c :: r, n, last =>
    if c == '@' then scanAt special r (n + 1) (some (n, r))
    else if c == '/' || c == '?' || c == '#' || (c == '\\' && special) then last
    else scanAt special r (n + 1) last

/-- `Input::next_utf8`: the next character that is not tab / LF / CR -/
def nextUtf8 : Str → Option (Char × Str)
  | [] => none
  | c :: r => if isIgnored c then nextUtf8 r else some (c, r)

structure UState where
  ser : Str
  unameEnd : Bool := false
  hasPw : Bool := false
  hasUn : Bool := false

/-- second loop of `parse_userinfo` -/
def encodeUserinfo : Nat → Str → UState → Except String UState
  | 0, _, st => .ok st
  | n + 1, input, st =>
    match nextUtf8 input with
    | none => .error "ExpectedMoreChars"
    | some (c, rest) =>
      if c == ':' && !st.unameEnd then
        if n > 0 then encodeUserinfo n rest { st with unameEnd := true, ser := st.ser ++ [':'], hasPw := true }
        else encodeUserinfo n rest { st with unameEnd := true }
      else
        encodeUserinfo n rest { st with hasUn := st.hasUn || !st.hasPw, ser := st.ser ++ pctEncode c }

/-- `parse_userinfo`: the serialised userinfo (with its `@`) and the input that follows it -/
def parseUserinfo (special : Bool) (input : Str) : Except String (Str × Str) :=
  match scanAt special input 0 none with
  | none => .ok ([], input)
  | some (0, remaining) => .ok ([], remaining)
  | some (count, remaining) =>
    match encodeUserinfo count input { ser := [] } with
    | .error e => .error e
    | .ok st => .ok (if st.hasUn || st.hasPw then st.ser ++ ['@'] else st.ser, remaining)

structure HScan where
  nonIgnored : Nat := 0
  hasIgnored : Bool := false
  consumed : Nat := 0

/-- the scanning loop of `parse_host` -/
def scanHost (special : Bool) : Str → Bool → HScan → HScan
  | [], _, h => h
  | c :: r, inBr, h =>
    if (c == ':' && !inBr) || (c == '\\' && special) || c == '/' || c == '?' || c == '#' then h
    else if isIgnored c then scanHost special r inBr { h with hasIgnored := true, consumed := h.consumed + 1 }
    else if c == '[' then scanHost special r true { h with nonIgnored := h.nonIgnored + 1, consumed := h.consumed + 1 }
    else if c == ']' then scanHost special r false { h with nonIgnored := h.nonIgnored + 1, consumed := h.consumed + 1 }
    else scanHost special r inBr { h with nonIgnored := h.nonIgnored + 1, consumed := h.consumed + 1 }

def isAscii (s : Str) : Bool := s.all (fun c => c.val < 128)

/-- `parse_host`: the serialised host and the remaining input. The host text is the first
    `nonIgnored` characters of the input (tabs and newlines included when there are any). -/
def parseHost (idna : Str → Option Str) (special : Bool) (input : Str) : Except String (Str × Str) :=
  let h := scanHost special input false {}
  let hostStr := input.take h.nonIgnored
  let remaining := input.drop h.consumed
  if isAscii hostStr then .ok (asciiLower hostStr, remaining)
  else match idna hostStr with
    | some e => .ok (e, remaining)
    | none => .error "IdnaError"

/-- A scanned URL: the serialisation is `scheme ++ ":" ++ pre ++ host ++ rest`. -/
structure Parsed where
  scheme : Str
  pre : Str
  host : Str
  rest : Str
  deriving Repr, DecidableEq

def Parsed.url (p : Parsed) : Str := p.scheme ++ [':'] ++ p.pre ++ p.host ++ p.rest

def afterDoubleSlash (idna : Str → Option Str) (scheme : Str) (special : Bool) (input : Str) :
    Except String Parsed :=
  match parseUserinfo special input with
  | .error e => .error e
  | .ok (ui, remaining) =>
    match parseHost idna special remaining with
    | .error e => .error e
    | .ok (host, rest) => .ok { scheme, pre := "//".toList ++ ui, host, rest }

/-- `Hostname::parse` -/
def parseHostname (idna : Str → Option Str) (input : Str) : Except String Parsed :=
  match parseScheme (trimC0 input) with
  | none => .error "RelativeUrlWithoutBase"
  | some (scheme, rest) =>
    match schemeType scheme with
    | .file => .error "FileUrlNotSupported"
    | .special => afterDoubleSlash idna scheme true (rest.dropWhile fun c => c == '/' || c == '\\')
    | .notSpecial =>
      match rest with
      | '/' :: '/' :: r => afterDoubleSlash idna scheme false r
      | _ => .ok { scheme, pre := [], host := [], rest := asciiLower rest }

/-- `parse_url`: only URLs with a non-empty host -/
def parseUrl (idna : Str → Option Str) (input : Str) : Option Parsed :=
  match parseHostname idna input with
  | .ok p => if p.host.isEmpty then none else some p
  | .error _ => none

/-- `Request::new` -/
def requestNew (idna : Str → Option Str) (domainOf : Str → Str) (url src ty : Str) : Option Request :=
  match parseUrl idna url with
  | none => none
  | some p =>
    match parseUrl idna src with
    | some s => some (mkRequest ty p.url p.scheme p.host s.host (domainOf s.host != domainOf p.host) url)
    | none => some (mkRequest ty p.url p.scheme p.host [] true url)

/-- `Request::preparsed` -/
def requestPreparsed (url hostname srcHostname ty : Str) (thirdParty : Bool) : Request :=
  let schema := match url.findIdx? (· == ':') with
    | some i => url.take i
    | none => []
  mkRequest ty url schema hostname srcHostname thirdParty url

end Adb.Url
