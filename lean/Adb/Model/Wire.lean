import Adb.Model.History
import Adb.Model.Cosmetic
/-
  The wire layer (`data_format/`): header dispatch, atomic replacement of the engine state by
  `Engine::deserialize`, what the v0 format keeps of the cosmetic cache, and the ordered view under
  which hash containers are written (`stabilize_hash*_serialization`: BTreeMap / BTreeSet).
-/
namespace Adb.Wire
open Adb Adb.Net

/-- outcome of `DeserializeFormat::deserialize`'s header dispatch (before any msgpack decoding) -/
inductive Header where
  | v0                        -- magic + version 0: hand the rest to the decoder
  | unsupportedVersion (v : Nat)
  | noHeader
  | legacyGzip
deriving DecidableEq, Repr

def magic : List Nat := [0xd1, 0xd9, 0x3a, 0xaf]
def gzHeader : List Nat := [31, 139, 8, 0, 0, 0, 0, 0, 0, 255]

def dispatch (bytes : List Nat) : Header :=
  if magic.isPrefixOf bytes then
    match bytes.drop magic.length with
    | [] => .noHeader
    | v :: _ => if v == 0 then .v0 else .unsupportedVersion v
  else if gzHeader.isPrefixOf bytes then .legacyGzip
  else .noHeader

/-- the engine state `Engine::deserialize` touches -/
structure EngineSt where
  blocker : Blocker
  cosmetic : Cosmetic.Cache
deriving Inhabited

/-- `Engine::deserialize`: `decoded` is the decoder's result (external: rmp-serde) — `none` for any
    error.  The state is replaced only after a complete, successful decode; the caller's tags are
    re-applied. -/
def deserialize (e : EngineSt) (bytes : List Nat) (decoded : Option (Blocker × Cosmetic.Cache)) : EngineSt × Bool :=
  match dispatch bytes with
  | .v0 =>
    match decoded with
    | some (b, c) => ({ blocker := e.blocker.loadFrom b, cosmetic := c }, true)
    | none => (e, false)
  | _ => (e, false)

/-- what the v0 format keeps of the per-host cosmetic bins: everything except the permission mask of
    script injections (`ScriptInject(String)`; loaded back with `Default::default()`) -/
def cosmeticWire (c : Cosmetic.Cache) : Cosmetic.Cache :=
  { c with inject := c.inject.map (fun (h, l) => (h, l.map (fun (s, _) => (s, 0)))) }

/-! #### ordered views -/

/-- `BTreeMap<&K, &V>` collected from a hash map: the entries in key order -/
def sortedView {α} (l : List (Nat × α)) : List (Nat × α) := l.mergeSort (fun a b => a.1 ≤ b.1)

end Adb.Wire
