import Adb.Model.Basic
/-
  Cosmetic side (`cosmetic_filter_cache.rs`, label hashing of `filters/cosmetic.rs`):
  the generic class/id stores and `key_from_selector` (C17), the per-hostname bins and
  `hostname_cosmetic_resources` (C16).  `HashSet` / `HashMap` values are lists standing for sets.
-/
namespace Adb.Cosmetic
open Adb

/-- a parsed cosmetic rule, as far as the cache looks at it -/
structure CRule where
  entities : Option (List Hash)
  hostnames : Option (List Hash)
  notEntities : Option (List Hash)
  notHostnames : Option (List Hash)
  unhide : Bool
  scriptInject : Bool
  /-- `plain_css_selector()` -/
  plain : Option Str
  hasAction : Bool
  /-- `serde_json::to_string(&ProceduralOrActionFilter { .. })` — external (serde_json) -/
  procJson : Str
  permission : Nat
deriving Repr, Inhabited

/-! ### `key_from_selector` -/

/-- non-ASCII letters of the scripts the correspondence run uses (Latin-1 letters and Latin Extended,
    Greek, Cyrillic, kana, CJK ideographs): the part of the regex crate's Unicode `\w` class the model
    carries. Other non-ASCII characters (symbols, emoji) are not word characters; the class itself is
    the regex crate's (external). -/
def nonAsciiWord (c : Char) : Bool :=
  let v := c.toNat
  (0xC0 ≤ v && v ≤ 0x24F && v != 0xD7 && v != 0xF7) || (0x370 ≤ v && v ≤ 0x373) || (0x376 ≤ v && v ≤ 0x377)
    || (0x37B ≤ v && v ≤ 0x37D) || (0x388 ≤ v && v ≤ 0x3FF && v != 0x38B && v != 0x38D && v != 0x3A2 && v != 0x3F6)
    || (0x400 ≤ v && v ≤ 0x481) || (0x48A ≤ v && v ≤ 0x52F)
    || (0x3041 ≤ v && v ≤ 0x3096) || (0x30A1 ≤ v && v ≤ 0x30FA) || (0x4E00 ≤ v && v ≤ 0x9FFF)

/-- `\w` (ASCII exactly; non-ASCII as far as `nonAsciiWord` goes) -/
def isWord (c : Char) : Bool := c.isAlphanum || c == '_' || nonAsciiWord c
def isHex (c : Char) : Bool := c.isDigit || ('a' ≤ c && c ≤ 'f') || ('A' ≤ c && c ≤ 'F')

/-- `^[#.][\w\\-]+` : the text matched after the lead character -/
def plainRun (s : Str) : Str := s.takeWhile (fun c => isWord c || c == '\\' || c == '-')

/-- one step of `(?:\\[0-9A-Fa-f]+ |\\.|\w|-)`: how many characters it consumes at the head of `s` -/
def escStepLen (s : Str) : Nat :=
  match s with
  | [] => 0
  | '\\' :: rest =>
    let hexes := rest.takeWhile isHex
    if !hexes.isEmpty && (rest.drop hexes.length).head? == some ' ' then 1 + hexes.length + 1
    else match rest with
      | c :: _ => if c == '\n' then 0 else 2
      | [] => 0
  | c :: _ => if isWord c || c == '-' then 1 else 0

/-- `(?: … )+` greedy, as a prefix length -/
def escRunLen : Nat → Str → Nat
  | 0, _ => 0
  | fuel + 1, s =>
    let n := escStepLen s
    if n == 0 then 0 else n + escRunLen fuel (s.drop n)

def hexVal (c : Char) : Nat :=
  if c.isDigit then c.toNat - '0'.toNat else if 'a' ≤ c && c ≤ 'f' then c.toNat - 'a'.toNat + 10 else c.toNat - 'A'.toNat + 10

/-- `u32::from_str_radix(.., 16).ok()` then `char::from_u32` -/
def hexChar (hexes : Str) : Option Char :=
  let v := hexes.foldl (fun a c => a * 16 + hexVal c) 0
  if v ≥ 2 ^ 32 then none
  else if v < 0xD800 || (0xE000 ≤ v && v < 0x110000) then some (Char.ofNat v) else none

/-- the `RE_ESCAPE_SEQUENCE` loop: un-escape the matched run -/
def unescape : Nat → Str → Option Str
  | 0, _ => some []
  | _ + 1, [] => some []
  | fuel + 1, '\\' :: rest =>
    let hexes := rest.takeWhile isHex
    if !hexes.isEmpty && (rest.drop hexes.length).head? == some ' ' then
      match hexChar hexes, unescape fuel (rest.drop (hexes.length + 1)) with
      | some c, some t => some (c :: t)
      | _, _ => none
    else match rest with
      | c :: rest' => if c == '\n' then (unescape fuel rest).map ('\\' :: ·) else (unescape fuel rest').map (c :: ·)
      | [] => some ['\\']
  | fuel + 1, c :: rest => (unescape fuel rest).map (c :: ·)

def keyFromSelector (sel : Str) : Option Str :=
  match sel with
  | lead :: rest =>
    if lead != '#' && lead != '.' then none else
    let run := plainRun rest
    if run.isEmpty then none
    else if !run.contains '\\' then some (lead :: run)
    else
      let n := escRunLen (rest.length + 1) rest
      if n == 0 then none
      else (unescape (n + 1) (rest.take n)).map (lead :: ·)
  | [] => none

/-! ### the cache -/

abbrev Bin (α : Type) := List (Hash × List α)

def Bin.get {α} (b : Bin α) (h : Hash) : List α :=
  match b with
  | [] => []
  | (k, v) :: rest => if k == h then v else Bin.get rest h

def Bin.insert {α} (b : Bin α) (h : Hash) (x : α) : Bin α :=
  match b with
  | [] => [(h, [x])]
  | (k, v) :: rest => if k == h then (k, v ++ [x]) :: rest else (k, v) :: Bin.insert rest h x

structure Cache where
  simpleClass : List Str := []
  simpleId : List Str := []
  complexClass : List (Str × List Str) := []
  complexId : List (Str × List Str) := []
  hide : Bin Str := []
  unhide : Bin Str := []
  inject : Bin (Str × Nat) := []
  uninject : Bin Str := []
  procAction : Bin Str := []
  procActionExc : Bin Str := []
  misc : List Str := []
deriving Inhabited

def setInsert (l : List Str) (x : Str) : List Str := if l.contains x then l else l ++ [x]

def bucketPush (m : List (Str × List Str)) (k sel : Str) : List (Str × List Str) :=
  match m with
  | [] => [(k, [sel])]
  | (k', v) :: rest => if k' == k then (k', v ++ [sel]) :: rest else (k', v) :: bucketPush rest k sel

def bucketGet (m : List (Str × List Str)) (k : Str) : List Str :=
  match m with
  | [] => []
  | (k', v) :: rest => if k' == k then v else bucketGet rest k

/-- `add_generic_filter` -/
def Cache.addGeneric (c : Cache) (r : CRule) : Cache :=
  match r.plain with
  | none => c
  | some sel =>
    if sel.head? == some '.' then
      match keyFromSelector sel with
      | some key =>
        let cls := key.drop 1
        if key == sel then { c with simpleClass := setInsert c.simpleClass cls }
        else { c with complexClass := bucketPush c.complexClass cls sel }
      | none => c
    else if sel.head? == some '#' then
      match keyFromSelector sel with
      | some key =>
        let id := key.drop 1
        if key == sel then { c with simpleId := setInsert c.simpleId id }
        else { c with complexId := bucketPush c.complexId id sel }
      | none => c
    else { c with misc := setInsert c.misc sel }

inductive Kind where
  | hide (s : Str) | unhide (s : Str)
  | inject (s : Str) (perm : Nat) | uninject (s : Str) (perm : Nat)
  | proc (s : Str) | procExc (s : Str)

def Kind.negated : Kind → Kind
  | .hide s => .unhide s | .unhide s => .hide s
  | .inject s p => .uninject s p | .uninject s p => .inject s p
  | .proc s => .procExc s | .procExc s => .proc s

def Cache.store (c : Cache) (h : Hash) : Kind → Cache
  | .hide s => { c with hide := c.hide.insert h s }
  | .unhide s => { c with unhide := c.unhide.insert h s }
  | .inject s p => { c with inject := c.inject.insert h (s, p) }
  | .uninject s _ => { c with uninject := c.uninject.insert h s }
  | .proc s => { c with procAction := c.procAction.insert h s }
  | .procExc s => { c with procActionExc := c.procActionExc.insert h s }

/-- `HostnameRuleDb::store_rule` -/
def Cache.storeRule (c : Cache) (r : CRule) : Cache :=
  let kind? : Option Kind :=
    match r.scriptInject, r.plain, r.hasAction with
    | false, some sel, false => some (.hide sel)
    | true, some sel, false => some (.inject sel r.permission)
    | false, _, _ => some (.proc r.procJson)
    | true, _, _ => none
  match kind? with
  | none => c
  | some k0 =>
    let k := if r.unhide then k0.negated else k0
    let pos := (r.hostnames.getD []) ++ (r.entities.getD [])
    let neg := (r.notHostnames.getD []) ++ (r.notEntities.getD [])
    let c := pos.foldl (fun c t => c.store t k) c
    neg.foldl (fun c t => c.store t k.negated) c

def CRule.hasHostnameConstraint (r : CRule) : Bool :=
  r.hostnames.isSome || r.entities.isSome || r.notEntities.isSome || r.notHostnames.isSome

/-- `hidden_generic_rule` -/
def CRule.hiddenGeneric (r : CRule) : Option CRule :=
  if r.hostnames.isSome || r.entities.isSome then none
  else if (r.notHostnames.isSome || r.notEntities.isSome) && (!r.hasAction && !r.scriptInject) then
    some { r with notHostnames := none, notEntities := none }
  else none

/-- `CosmeticFilterCache::add_filter` -/
def Cache.addFilter (c : Cache) (r : CRule) : Cache :=
  if r.hasHostnameConstraint then
    let c := match r.hiddenGeneric with
      | some g => c.addGeneric g
      | none => c
    c.storeRule r
  else c.addGeneric r

def Cache.fromRules (rs : List CRule) : Cache := rs.foldl Cache.addFilter {}

/-- `hidden_class_id_selectors` (the result is a `Vec`; compared as a multiset) -/
def Cache.hiddenClassId (c : Cache) (classes ids exceptions : List Str) : List Str :=
  let cls := classes.flatMap (fun cl =>
    (if c.simpleClass.contains cl && !exceptions.contains ('.' :: cl) then ['.' :: cl] else []) ++
      (bucketGet c.complexClass cl).filter (fun sel => !exceptions.contains sel))
  let idl := ids.flatMap (fun id =>
    (if c.simpleId.contains id && !exceptions.contains ('#' :: id) then ['#' :: id] else []) ++
      (bucketGet c.complexId id).filter (fun sel => !exceptions.contains sel))
  cls ++ idl

/-! ### label hashing -/

/-- index of the last `.` (`memrchr`) -/
def rfindDot (s : Str) : Option Nat :=
  let i := s.reverse.findIdx? (· == '.')
  i.map (fun k => s.length - 1 - k)

/-- `get_hashes_from_labels` -/
def hashesFromLabels (hostname : Str) (stop startOfDomain : Nat) : List Hash :=
  if stop == 0 then [] else
  let rec go (fuel : Nat) (dotPtr : Nat) (acc : List Hash) : List Hash :=
    match fuel with
    | 0 => acc
    | fuel + 1 =>
      match rfindDot (hostname.take dotPtr) with
      | some i => go fuel i (acc ++ [fastHash ((hostname.take stop).drop (i + 1))])
      | none => acc
  go (hostname.length + 1) startOfDomain [] ++ [fastHash (hostname.take stop)]

/-- `get_hostname_hashes_from_labels` -/
def hostnameHashes (hostname domain : Str) : List Hash :=
  hashesFromLabels hostname hostname.length (hostname.length - domain.length)

/-- `get_entity_hashes_from_labels` -/
def entityHashes (hostname domain : Str) : List Hash :=
  match domain.findIdx? (· == '.') with
  | some dot =>
    let ps := domain.drop (dot + 1)
    let hwps := hostname.take (hostname.length - ps.length - 1)
    let psOfHost := hostname.drop (hostname.length - domain.length + dot + 1)
    hashesFromLabels hwps hwps.length hwps.length ++ [fastHash psOfHost]
  | none => []

structure Resources where
  hide : List Str
  procedural : List Str
  exceptions : List Str
  /-- surviving script injections (argument text, masks of the requesting lists) -/
  injections : List (Str × List Nat)
  generichide : Bool

/-- `hostname_cosmetic_resources` (script assembly is `Adb.Model.ScriptAssembly`) -/
def Cache.hostnameResources (c : Cache) (hostname domain : Str) (generichide : Bool) : Resources :=
  let hashes := entityHashes hostname domain ++ hostnameHashes hostname domain
  let addAll (dst : List Str) (src : List Str) : List Str := src.foldl setInsert dst
  -- populate
  let hide := hashes.foldl (fun acc h => addAll acc (c.hide.get h)) []
  let proc := hashes.foldl (fun acc h => addAll acc (c.procAction.get h)) []
  let inj : List (Str × List Nat) := hashes.foldl (fun acc h =>
    (c.inject.get h).foldl (fun acc (s, m) =>
      if acc.any (·.1 == s) then acc.map (fun p => if p.1 == s then (p.1, p.2 ++ [m]) else p)
      else acc ++ [(s, [m])]) acc) []
  -- prune
  let unhidden := hashes.flatMap (fun h => c.unhide.get h)
  let hide := hide.filter (fun s => !unhidden.contains s)
  let exceptions := unhidden.foldl setInsert []
  let procExc := hashes.flatMap (fun h => c.procActionExc.get h)
  let proc := proc.filter (fun s => !procExc.contains s)
  let uninj := hashes.flatMap (fun h => c.uninject.get h)
  let inj := if uninj.any (·.isEmpty) then [] else inj.filter (fun p => !uninj.contains p.1)
  let hideSel := if generichide then hide
    else (c.misc.filter (fun s => !exceptions.contains s)).foldl setInsert [] |> (fun g => hide.foldl setInsert g)
  { hide := hideSel, procedural := proc, exceptions, injections := inj, generichide }

end Adb.Cosmetic
