/-
  Model of `CosmeticFilter::parse` (src/filters/cosmetic.rs, default build: CSS validation off) and of
  `parse_scriptlet_args` / `index_next_unescaped_separator` / `normalize_arg`
  (src/resources/resource_storage.rs).

  External: `idna::domain_to_ascii` for non-ASCII locations (the model then answers `needsIdna`).
-/
import Adb.Model.Lists
namespace Adb.CosmeticParse
open Adb Adb.Lists

/-! ### scriptlet arguments -/

/-- number of consecutive backslashes at the end of `s` -/
def trailingBackslashes (s : Str) : Nat := (s.reverse.takeWhile (· == '\\')).length

/-- `index_next_unescaped_separator`: (index of the separator, needs_transform). The scan starts at
    `pos` (characters already accepted as part of the argument). -/
def indexNext (s : Str) (sep : Char) : Nat → Nat → Bool → Option Nat × Bool
  | 0, _, nt => (none, nt)
  | fuel + 1, pos, nt =>
    if pos < s.length then
      match (s.drop pos).findIdx? (· == sep) with
      | some i =>
        if trailingBackslashes ((s.drop pos).take i) % 2 == 0 then
          (if pos + i ≥ s.length then none else some (pos + i), nt)
        else indexNext s sep fuel (pos + i + 1) true
      | none => (none, nt)
    else (none, nt)

def indexNextUnescaped (s : Str) (sep : Char) : Option Nat × Bool := indexNext s sep (s.length + 1) 0 false

/-- `normalize_arg` -/
def normalizeArgAux (sep : Char) : Str → Bool → Str
  | [], _ => []
  | c :: r, escaped =>
    if c == '\\' then
      if escaped then '\\' :: '\\' :: normalizeArgAux sep r false
      else normalizeArgAux sep r true
    else if escaped then
      (if c != sep then ['\\', c] else [c]) ++ normalizeArgAux sep r false
    else c :: normalizeArgAux sep r false

def normalizeArg (arg : Str) (sep : Char) : Str := normalizeArgAux sep arg false

def isQuote (c : Char) : Bool := c == '"' || c == '\'' || c == '`'

/-- the loop of `parse_scriptlet_args` -/
def parseArgsLoop : Nat → Str → List Str → Option (List Str)
  | 0, _, acc => some acc
  | fuel + 1, args, acc =>
    let args := match args.findIdx? (fun c => !isWs c) with
      | some i => args.drop i
      | none => args
    match args with
    | [] => some acc
    | qc :: rest =>
      if isQuote qc then
        match indexNextUnescaped rest qc with
        | (some i, nt) =>
          let arg := rest.take i
          let after := rest.drop (i + 1)
          let after := match after.findIdx? (fun c => !isWs c) with
            | some j => after.drop j
            | none => after
          let arg' := if nt then normalizeArg arg ',' else arg
          match after with
          | ',' :: more => parseArgsLoop fuel more (acc ++ [arg'])
          | [] => parseArgsLoop fuel [] (acc ++ [arg'])
          | _ => none
        | (none, _) => none
      else
        let (i, nt) := indexNextUnescaped args ','
        let arg := trimEnd (args.take (i.getD args.length))
        let more := args.drop (match i with | some k => k + 1 | none => args.length)
        let arg' := if nt then normalizeArg arg ',' else arg
        parseArgsLoop fuel more (acc ++ [arg'])

/-- `parse_scriptlet_args` -/
def parseScriptletArgs (args : Str) : Option (List Str) :=
  if (trim args).isEmpty then some [] else parseArgsLoop (args.length + 2) args []

/-! ### cosmetic rules -/

/-- `locations_before_sharp`: kind (0 entity, 1 not-entity, 2 hostname, 3 not-hostname, 4 unsupported)
    and the location text -/
def locationsBeforeSharp (line : Str) (sharp : Nat) : List (Nat × Str) :=
  ((line.take sharp).splitOn ',').filterMap fun part =>
    if part.isEmpty then none else
    let negation := part.head? == some '~'
    let entity := Parse.endsWith ".*" part
    let start := if negation then 1 else 0
    let stop := if entity then part.length - 2 else part.length
    let location := (part.take stop).drop start
    if location.head? == some '/' then some (4, part)
    else some ((match negation, entity with
      | true, true => 1
      | true, false => 3
      | false, true => 0
      | false, false => 2), location)

structure Locations where
  entities : Option (List Hash) := none
  notEntities : Option (List Hash) := none
  hostnames : Option (List Hash) := none
  notHostnames : Option (List Hash) := none
  deriving Repr, DecidableEq

def sortedOrNone (l : List Hash) : Option (List Hash) := if l.isEmpty then none else some (Parse.sortHashes l)

/-- `parse_before_sharp` (ASCII locations; non-ASCII ones need IDNA) -/
def parseBeforeSharp (line : Str) (sharp : Nat) : Except String Locations :=
  if line.head? == some '[' then .error "LocationModifiersUnsupported" else
  let locs := locationsBeforeSharp line sharp
  if locs.any (fun p => !(p.2.all (fun c => c.val < 128))) then .error "needsIdna" else
  let pick (k : Nat) := (locs.filter (·.1 == k)).map (fun p => fastHash p.2)
  let anyUnsupported := locs.any (·.1 == 4)
  if anyUnsupported && (pick 2).isEmpty && (pick 0).isEmpty && (pick 3).isEmpty && (pick 1).isEmpty then
    .error "UnsupportedSyntax"
  else .ok { entities := sortedOrNone (pick 0), notEntities := sortedOrNone (pick 1),
             hostnames := sortedOrNone (pick 2), notHostnames := sortedOrNone (pick 3) }

inductive Action where
  | remove | style (s : Str) | removeAttr (s : Str) | removeClass (s : Str)
  deriving Repr, DecidableEq

def forbidRegexOrQuoted (arg : Str) : Bool :=
  arg.head? == some '/' || arg.head? == some '"' || arg.head? == some '\''

/-- `memmem::find` -/
def findStr (needle : Str) (s : Str) : Option Nat := Net.findSub needle s

/-- `parse_after_sharp_nonscript`: (selector text, action) -/
def parseAfterSharpNonscript (after : Str) : Except String (Str × Option Action) :=
  if after.head? == some '^' then .error "HtmlFilteringUnsupported" else
  let tryTok (tok : String) (mk : Str → Except String Action) : Option (Except String (Str × Option Action)) :=
    match findStr tok.toList after with
    | some i =>
      if after.getLast? == some ')' then
        let arg := (after.take (after.length - 1)).drop (i + tok.length)
        some (match mk arg with
          | .ok a => .ok (after.take i, some a)
          | .error e => .error e)
      else some (.error "InvalidActionSpecifier")
    | none => none
  match tryTok ":style(" (fun a => .ok (.style a)) with
  | some r => r
  | none =>
  match tryTok ":remove-attr(" (fun a => if forbidRegexOrQuoted a then .error "UnsupportedSyntax" else .ok (.removeAttr a)) with
  | some r => r
  | none =>
  match tryTok ":remove-class(" (fun a => if forbidRegexOrQuoted a then .error "UnsupportedSyntax" else .ok (.removeClass a)) with
  | some r => r
  | none =>
    if Parse.endsWith ":remove()" after then .ok (after.take (after.length - 9), some .remove)
    else .ok (after, none)

structure PRule where
  locs : Locations
  unhide : Bool
  scriptInject : Bool
  selector : Str
  action : Option Action
  deriving Repr, DecidableEq

/-- the `#…#` marker of a cosmetic rule: (index of the first `#`, index after the second `#`, unhide) -/
def markers (line : Str) : Except String (Nat × Nat × Bool) :=
  match line.findIdx? (· == '#') with
  | none => .error "MissingSharp"
  | some sharp =>
    let afterSharp := sharp + 1
    match (line.drop afterSharp).findIdx? (· == '#') with
    | none => .error "UnsupportedSyntax"
    | some k =>
      let second := k + afterSharp
      let between := (line.take second).drop afterSharp
      if between.head? == some '@' && sharp == 0 then .error "GenericUnhide" else
      let unhide := between.head? == some '@'
      let between := if unhide then between.drop 1 else between
      if between.head? == some '%' then .error "UnsupportedSyntax"
      else if between.head? == some '$' then .error "UnsupportedSyntax"
      else
      let between := if between.head? == some '?' then between.drop 1 else between
      if !between.isEmpty then .error "UnsupportedSyntax" else .ok (sharp, second + 1, unhide)

def Locations.isGeneric (l : Locations) : Bool :=
  l.entities.isNone && l.hostnames.isNone && l.notEntities.isNone && l.notHostnames.isNone

/-- the rule body: a scriptlet injection, or a selector with an optional action -/
def parseBody (line : Str) (suffixStart : Nat) (generic : Bool) : Except String (Str × Option Action × Bool) :=
  let afterS := trim (line.drop suffixStart)
  let isScript := decide (blen line - blen (line.take suffixStart) > 4)
    && Parse.startsWith "+js(" (line.drop suffixStart) && line.getLast? == some ')'
  if isScript then
    if generic then .error "GenericScriptInject" else
    let args := (line.take (line.length - 1)).drop (suffixStart + 4)
    if (parseScriptletArgs args).isNone then .error "InvalidScriptletArgs"
    else .ok (args, none, true)
  else
    match parseAfterSharpNonscript afterS with
    | .error e => .error e
    | .ok (sel, act) =>
      if generic && act.isSome then .error "GenericAction" else .ok (sel, act, false)

/-- everything after the locations are known -/
def finishCosmetic (line : Str) (suffixStart : Nat) (locs : Locations) (unhide : Bool) : Except String PRule :=
  -- a location list that is present but empty is as generic as none
  if locs.isGeneric && unhide then .error "GenericUnhide" else
  if (trim (line.drop suffixStart)).isEmpty then .error "EmptyRule" else
  match parseBody line suffixStart locs.isGeneric with
  | .error e => .error e
  | .ok (sel, act, script) =>
    if (locs.notEntities.isSome || locs.notHostnames.isSome) && unhide then .error "DoubleNegation" else
    -- `plain_css_selector()` is always `Some` in the default build (one CssSelector operator)
    .ok { locs, unhide, scriptInject := script, selector := sel, action := act }

/-- `CosmeticFilter::parse` (without `raw_line` and the permission, which is copied through) -/
def parseCosmetic (line : Str) : Except String PRule :=
  match markers line with
  | .error e => .error e
  | .ok (sharp, suffixStart, unhide) =>
    match (if sharp > 0 then parseBeforeSharp line sharp else .ok {}) with
    | .error e => .error e
    | .ok locs => finishCosmetic line suffixStart locs unhide

end Adb.CosmeticParse
