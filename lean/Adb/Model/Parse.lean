import Adb.Model.Net
/-
  Parsing of a network rule from its text: `AbstractNetworkFilter::parse`, `parse_filter_options`
  (driven by the option table extracted from the source), `validate_options` and
  `NetworkFilter::parse` (mask construction and the pattern surgery).

  External functions: `idna::domain_to_ascii` (only reached for non-ASCII hostnames — the model then
  answers `needsIdna`), nothing else.
-/
namespace Adb.Parse
open Adb Adb.Net Adb.Gen

inductive LAnchor where
  | double | single
deriving DecidableEq, Repr

/-- `NetworkFilterOption` -/
inductive NOpt where
  | domain (ds : List (Bool × Str))
  | badfilter | important | matchCase
  | thirdParty (b : Bool) | firstParty (b : Bool)
  | tag (s : Str) | redirect (s : Str) | redirectRule (s : Str)
  | csp (o : Option Str) | removeparam (s : Str)
  | generichide | document
  /-- a content-type option: the mask bit and whether it stands alone (`true`) or is negated -/
  | ctype (bit : Nat) (enabled : Bool)
deriving Repr, DecidableEq

structure Abstract where
  exception : Bool
  la : Option LAnchor
  pattern : Str
  ra : Bool
  options : Option (List NOpt)
deriving Repr

abbrev PResult (α : Type) := Except String α

def splitOnce (c : Char) : Str → Option (Str × Str)
  | [] => none
  | x :: xs => if x == c then some ([], xs) else
      match splitOnce c xs with
      | some (a, b) => some (x :: a, b)
      | none => none

/-- content-type constructors of the option table and their mask bits -/
def ctypeBit (ctor : String) : Option Nat :=
  match ctor with
  | "Image" => some FROM_IMAGE | "Media" => some FROM_MEDIA | "Object" => some FROM_OBJECT
  | "Other" => some FROM_OTHER | "Ping" => some FROM_PING | "Script" => some FROM_SCRIPT
  | "Stylesheet" => some FROM_STYLESHEET | "Subdocument" => some FROM_SUBDOCUMENT
  | "XmlHttpRequest" => some FROM_XMLHTTPREQUEST | "Websocket" => some FROM_WEBSOCKET
  | "Font" => some FROM_FONT
  | _ => none

def startsWith (p : String) (s : Str) : Bool := p.toList.isPrefixOf s
def endsWith (p : String) (s : Str) : Bool := p.toList.isSuffixOf s

/-- one option of `parse_filter_options` -/
def parseOption (raw : Str) : PResult NOpt :=
  let negation := raw.head? == some '~'
  let body := raw.dropWhile (· == '~')
  let (option, value) := match splitOnce '=' body with
    | some (o, v) => (o, v)
    | none => (body, [])
  let name := String.ofList option
  -- the arm of the `match (option, negation)` that applies: arms are tried in source order
  let arm := optionArms.find? (fun (n, pat, _, _, _) =>
    n == name && (pat == "_" || pat == "negated" || pat == (if negation then "true" else "false")))
  match arm with
  | none => .error "UnrecognisedOption"
  | some (_, _, kind, ctor, _) =>
    if kind == "err" then .error ctor else
    match ctor with
    | "Domain" =>
      let domains := ((value.splitOn '|').map (fun d =>
        match d with
        | '~' :: rest => (false, rest)
        | _ => (true, d))).filter (fun (p : Bool × Str) => !(p.2.head? == some '/' && p.2.getLast? == some '/'))
      if domains.isEmpty then .error "NoSupportedDomains" else .ok (.domain domains)
    | "Badfilter" => .ok .badfilter
    | "Important" => .ok .important
    | "MatchCase" => .ok .matchCase
    | "ThirdParty" => .ok (.thirdParty (!negation))
    | "FirstParty" => .ok (.firstParty (!negation))
    | "Tag" => .ok (.tag value)
    | "Redirect" => if value.isEmpty then .error "EmptyRedirection" else .ok (.redirect value)
    | "RedirectRule" => if value.isEmpty then .error "EmptyRedirection" else .ok (.redirectRule value)
    | "Csp" => .ok (.csp (if value.isEmpty then none else some value))
    | "Removeparam" =>
      if value.isEmpty then .error "EmptyRemoveparam"
      else if !validParam value then .error "RemoveparamRegexUnsupported"
      else .ok (.removeparam value)
    | "Generichide" => .ok .generichide
    | "Document" => .ok .document
    | c => match ctypeBit c with
      | some bit => .ok (.ctype bit (!negation))
      | none => .error "UnrecognisedOption"

def parseOptions (raw : Str) : PResult (List NOpt) := (raw.splitOn ',').mapM parseOption

/-- position of the last `$` (`memrchr`) -/
def splitLastDollar (line : Str) : Option (Str × Str) :=
  match splitOnce '$' line.reverse with
  | some (revAfter, revBefore) => some (revBefore.reverse, revAfter.reverse)
  | none => none

/-- everything before the last `$` is the pattern side; the rest is the option list -/
def splitOptions (line : Str) : PResult (Str × Option (List NOpt)) :=
  match splitLastDollar line with
  | some (before, after) =>
    match parseOptions after with
    | .ok o => .ok (before, some o)
    | .error e => .error e
  | none => .ok (line, none)

/-- anchors and the pattern text, once the options are split off -/
def abstractOf (line patSide : Str) (options : Option (List NOpt)) : Abstract :=
  let exception := startsWith "@@" line
  let start0 := if exception then 2 else 0
  let filterEnd0 := patSide.length
  let rest := line.drop start0
  let (la, start1) :=
    if startsWith "||" rest then (some LAnchor.double, start0 + 2)
    else if startsWith "|" rest then (some LAnchor.single, start0 + 1)
    else (none, start0)
  let ra := filterEnd0 > 0 && filterEnd0 > start1 && patSide.getLast? == some '|'
  let filterEnd := if ra then filterEnd0 - 1 else filterEnd0
  { exception, la, pattern := (line.take filterEnd).drop start1, ra, options }

/-- `AbstractNetworkFilter::parse` -/
def parseAbstract (line : Str) : PResult Abstract :=
  match splitOptions line with
  | .error e => .error e
  | .ok (patSide, options) => .ok (abstractOf line patSide options)

/-- `validate_options` -/
def validateOptions (opts : List NOpt) : PResult Unit :=
  let isCsp (o : NOpt) := match o with | .csp _ => true | _ => false
  let isCtype (o : NOpt) := match o with | .document => true | .ctype _ _ => true | _ => false
  let isMod (o : NOpt) := match o with
    | .csp _ => true | .redirect _ => true | .redirectRule _ => true | .removeparam _ => true | _ => false
  if opts.any isCsp && opts.any isCtype then .error "CspWithContentType"
  else if (opts.filter isMod).length > 1 then .error "MultipleModifierOptions"
  else .ok ()

def checkIsRegex (s : Str) : Bool := s.contains '*' || s.contains '^'

/-- index of the first of `/ ^ *` (`SEPARATOR.find`) -/
def firstSeparator (s : Str) : Option Nat := s.findIdx? (fun c => c == '/' || c == '^' || c == '*')

def lePair (a b : Bool × Str) : Bool :=
  if a.1 != b.1 then !a.1 else decide (String.ofList a.2 ≤ String.ofList b.2)

def dedupPairs (l : List (Bool × Str)) : List (Bool × Str) :=
  l.foldl (fun acc x => if acc.contains x then acc else acc ++ [x]) []

def sortHashes (l : List Hash) : List Hash := l.mergeSort (fun a b => a ≤ b)

structure OptState where
  mask : Mask
  pos : Mask := 0
  neg : Mask := 0
  domains : Option (List Hash) := none
  notDomains : Option (List Hash) := none
  domainsUnion : Option Hash := none
  notDomainsUnion : Option Hash := none
  modifier : Option Str := none
  tag : Option Str := none

def applyOption (s : OptState) : NOpt → OptState
  | .domain ds =>
    let ds := dedupPairs ds
    let inc := sortHashes ((ds.filter (·.1)).map (fun p => fastHash p.2))
    let exc := sortHashes ((ds.filter (fun p => !p.1)).map (fun p => fastHash p.2))
    let s := if inc.isEmpty then s else
      { s with domains := some inc, domainsUnion := some (inc.foldl (· ||| ·) 0) }
    if exc.isEmpty then s else
      { s with notDomains := some exc, notDomainsUnion := some (exc.foldl (· ||| ·) 0) }
  | .badfilter => { s with mask := setBit s.mask BAD_FILTER true }
  | .important => { s with mask := setBit s.mask IS_IMPORTANT true }
  | .matchCase => { s with mask := setBit s.mask MATCH_CASE true }
  | .thirdParty b => if b then { s with mask := setBit s.mask FIRST_PARTY false }
                     else { s with mask := setBit s.mask THIRD_PARTY false }
  | .firstParty b => if b then { s with mask := setBit s.mask THIRD_PARTY false }
                     else { s with mask := setBit s.mask FIRST_PARTY false }
  | .tag v => { s with tag := some v }
  | .redirect v => { s with mask := setBit (setBit s.mask IS_REDIRECT true) ALSO_BLOCK_REDIRECT true, modifier := some v }
  | .redirectRule v => { s with mask := setBit s.mask IS_REDIRECT true, modifier := some v }
  | .removeparam v => { s with mask := setBit s.mask IS_REMOVEPARAM true, modifier := some v }
  | .csp v => { s with mask := setBit (setBit s.mask IS_CSP true) FROM_DOCUMENT true, modifier := v }
  | .generichide => { s with mask := setBit s.mask GENERIC_HIDE true }
  | .document => { s with pos := setBit s.pos FROM_DOCUMENT true }
  | .ctype bit enabled => if enabled then { s with pos := setBit s.pos bit true }
                          else { s with neg := setBit s.neg bit true }

def maskOf (bits : List Nat) : Mask := bits.foldl (fun m b => setBit m b true) 0
def hasAny (m : Mask) (bits : List Nat) : Bool := bits.any (has m)
def clearBits (m : Mask) (bits : List Nat) : Mask := bits.foldl (fun m b => setBit m b false) m

/-! `NetworkFilter::parse` in stages (each stage is a plain function; the parser is their chain) -/

/-- the option fold: validated options applied to the initial mask -/
def optionState (parsed : Abstract) : PResult OptState :=
  let mask0 := maskOf [THIRD_PARTY, FIRST_PARTY, FROM_HTTPS, FROM_HTTP]
  let mask0 := if parsed.exception then setBit mask0 IS_EXCEPTION true else mask0
  match parsed.options with
  | some opts =>
    match validateOptions opts with
    | .error e => .error e
    | .ok () => .ok (opts.foldl applyOption { mask := mask0 })
  | none => .ok { mask := mask0 }

/-- request-type defaults: the option mask with the positive types, the network types when a network
    type is negated, and the defaults when no type is named -/
def typeStage (st : OptState) : Mask :=
  let pos := st.pos
  let neg := st.neg
  let allTypes : List Nat := FROM_ALL_TYPES
  let netTypes : List Nat := FROM_NETWORK_TYPES
  let mask := st.mask ||| pos
  let mask := if !has mask IS_REMOVEPARAM && hasAny neg netTypes then mask ||| maskOf netTypes else mask
  if !hasAny pos allTypes then
    (if has mask IS_REMOVEPARAM then mask ||| maskOf [FROM_DOCUMENT, FROM_SUBDOCUMENT, FROM_XMLHTTPREQUEST]
     else mask ||| maskOf netTypes)
  else mask

/-- anchors and the regex flag -/
def anchorStage (parsed : Abstract) (mask : Mask) : Mask :=
  let mask := match parsed.la with
    | some .double => setBit mask IS_HOSTNAME_ANCHOR true
    | some .single => setBit mask IS_LEFT_ANCHOR true
    | none => mask
  let mask := if parsed.ra then setBit mask IS_RIGHT_ANCHOR true else mask
  setBit mask IS_REGEX (checkIsRegex parsed.pattern)

/-- request-type defaults, anchors and the regex flag, before the pattern is taken apart -/
def maskBeforePattern (parsed : Abstract) (st : OptState) : Mask := anchorStage parsed (typeStage st)

/-- `/re/` spellings become complete regexes; `match-case` is only allowed on those -/
def markComplete (mask : Mask) (pattern : Str) : PResult Mask :=
  let isFull := pattern.head? == some '/' && pattern.getLast? == some '/' && pattern.length > 1
  if isFull then .ok (setBit mask IS_COMPLETE_REGEX true)
  else if has mask MATCH_CASE then .error "MatchCaseWithoutFullRegex" else .ok mask

/-- hostname / pattern split for `||`: (mask, host text, start of the filter part) -/
def splitHostPart (la : Option LAnchor) (mask : Mask) (pattern : Str) : Mask × Option Str × Nat :=
  let plen := pattern.length
  match la with
  | some .double =>
    if checkIsRegex pattern then
      match firstSeparator pattern with
      | some i =>
        let mask := if (pattern.drop i).head? == some '*' then setBit mask IS_HOSTNAME_REGEX true else mask
        let host := pattern.take i
        if plen - i == 1 && (pattern.drop i).head? == some '^' then
          (setBit (setBit mask IS_REGEX false) IS_RIGHT_ANCHOR true, some host, plen)
        else
          (setBit (setBit mask IS_LEFT_ANCHOR true) IS_REGEX (checkIsRegex (pattern.drop i)), some host, i)
      | none => (mask, none, 0)
    else
      match pattern.findIdx? (· == '/') with
      | some i => (setBit mask IS_LEFT_ANCHOR true, some (pattern.take i), i)
      | none => (mask, some pattern, plen)
  | _ => (mask, none, 0)

/-- a trailing `*` and a leading `*` are dropped: (mask, start, end) of what is left -/
def trimStars (mask : Mask) (pattern : Str) (fStart : Nat) : Mask × Nat × Nat :=
  let fEnd := pattern.length
  let fEnd := if fEnd > fStart && pattern.getLast? == some '*' then fEnd - 1 else fEnd
  if fEnd > fStart && (pattern.drop fStart).head? == some '*'
    then (setBit mask IS_LEFT_ANCHOR false, fStart + 1, fEnd) else (mask, fStart, fEnd)

/-- a left-anchored pattern that is only a scheme becomes a scheme restriction: (mask, start) -/
def schemeOnly (mask : Mask) (tail : Str) (fStart fEnd : Nat) : Mask × Nat :=
  if has mask IS_LEFT_ANCHOR then
    if fEnd == fStart + 5 && startsWith "ws://" tail then
      (clearBits (setBit mask FROM_WEBSOCKET true) [FROM_HTTP, FROM_HTTPS, IS_LEFT_ANCHOR], fEnd)
    else if fEnd == fStart + 7 && startsWith "http://" tail then
      (clearBits (setBit mask FROM_HTTP true) [FROM_HTTPS, IS_LEFT_ANCHOR], fEnd)
    else if fEnd == fStart + 8 && startsWith "https://" tail then
      (clearBits (setBit mask FROM_HTTPS true) [FROM_HTTP, IS_LEFT_ANCHOR], fEnd)
    else if fEnd == fStart + 8 && startsWith "http*://" tail then
      (clearBits (setBit (setBit mask FROM_HTTPS true) FROM_HTTP true) [IS_LEFT_ANCHOR], fEnd)
    else (mask, fStart)
  else (mask, fStart)

/-- trailing / leading `*`, scheme-only patterns, and the filter text that is left -/
def filterSurgery (mask : Mask) (pattern : Str) (fStart : Nat) : Mask × Option Str :=
  match trimStars mask pattern fStart with
  | (mask, fStart, fEnd) =>
  match schemeOnly mask (pattern.drop fStart) fStart fEnd with
  | (mask, fStart) =>
  if fEnd > fStart then
    let fs := (pattern.take fEnd).drop fStart
    let mask := setBit mask IS_REGEX (checkIsRegex fs)
    (mask, some (if has mask MATCH_CASE then fs else asciiLower fs))
  else (mask, none)

def stripWww : Nat → Str → Str
  | 0, h => h
  | fuel + 1, h => if startsWith "www." h then stripWww fuel (h.drop 4) else h

/-- hostname normalisation (`www.` stripping for `||`, lower-casing; IDNA is external) -/
def normHost (mask : Mask) (hostname : Option Str) : PResult (Option Str) :=
  match hostname with
  | none => .ok none
  | some h =>
    let h := if has mask IS_HOSTNAME_ANCHOR then stripWww h.length h else h
    if h.all (fun c => c.val < 128) then .ok (some (asciiLower h)) else .error "needsIdna"

/-- the last checks and the rule value -/
def finishNetwork (line : Str) (parsed : Abstract) (st : OptState) (mask : Mask) (filter hostname : Option Str) :
    PResult Rule :=
  if has mask GENERIC_HIDE && !parsed.exception then .error "GenericHideWithoutException"
  else if has mask IS_REMOVEPARAM && parsed.exception then .error "RemoveparamWithException"
  else
  let allTypes : List Nat := FROM_ALL_TYPES
  let mask := if !hasAny st.pos allTypes && !hasAny st.neg allTypes && has mask IS_HOSTNAME_ANCHOR
      && has mask IS_RIGHT_ANCHOR && !parsed.ra && !has mask IS_REMOVEPARAM
    then mask ||| maskOf allTypes else mask
  -- explicitly negated request types
  let mask := (List.range 32).foldl (fun m b => if has st.neg b then setBit m b false else m) mask
  .ok { mask, filter := match filter with | some f => .simple f | none => .empty,
        hostname, domains := st.domains, notDomains := st.notDomains,
        domainsUnion := st.domainsUnion, notDomainsUnion := st.notDomainsUnion,
        modifier := st.modifier, tag := st.tag, id := fastHash line }

/-- `NetworkFilter::parse` (without `raw_line`) -/
def parseNetwork (line : Str) : PResult Rule :=
  match parseAbstract line with
  | .error e => .error e
  | .ok parsed =>
  match optionState parsed with
  | .error e => .error e
  | .ok st =>
  match markComplete (maskBeforePattern parsed st) parsed.pattern with
  | .error e => .error e
  | .ok mask =>
  match splitHostPart parsed.la mask parsed.pattern with
  | (mask, hostname, fStart) =>
  match filterSurgery mask parsed.pattern fStart with
  | (mask, filter) =>
  match normHost mask hostname with
  | .error e => .error e
  | .ok hostname => finishNetwork line parsed st mask filter hostname

end Adb.Parse
