/-
  C19: N threads sharing one engine.  A query takes the regex-manager lock, reads the clock, runs
  its rule evaluations against the cache and releases the lock (`Blocker::check_parameterised`,
  `check_generic_hide`, `get_csp_directives`: "lock held for the whole query").  Mutations
  (`use_tags`, `enable_tags`, `optimize`, … — `&mut self`) are exclusive steps.

  The scheduler is adversarial: a schedule is any list of (thread, clock reading) pairs; a step of a
  thread that cannot run (lock held by somebody else, nothing left to do) leaves the state unchanged.
-/
import Adb.Model.RegexCache
namespace Adb.Conc
open Adb Adb.Net Adb.Cache

/-- the rule evaluations one engine query performs under the lock -/
abbrev Query := List (Addr × Str)

structure Thread where
  /-- completed queries, oldest first -/
  done : List Query := []
  /-- their answers -/
  answers : List (List (Option Bool)) := []
  /-- evaluations of the query in progress already performed / still to perform (lock held) -/
  curDone : Query := []
  curAns : List (Option Bool) := []
  cur : Query := []
  holding : Bool := false
  todo : List Query := []
  /-- ghost: the heap of live filters when each completed query took the lock / the current one did -/
  heaps : List Heap := []
  curHeap : Heap := []
deriving Inhabited

structure Sys where
  st : St := {}
  lock : Option Nat := none
  threads : List Thread := []
  /-- pending exclusive mutations of the engine (`&mut self`), executed by the owner when no query runs -/
  muts : List Op := []
deriving Inhabited

def Thread.finished (t : Thread) : Bool := !t.holding && t.todo.isEmpty

/-- one step of thread `i` with clock reading `now` -/
def stepThread (s : Sys) (i : Nat) (now : Nat) : Sys :=
  match s.threads[i]? with
  | none => s
  | some t =>
    if t.holding then
      match t.cur with
      | (a, text) :: rest =>
        -- one rule evaluation inside the critical section
        let (st', o) := step true s.st (.query a text)
        { s with st := st',
                 threads := s.threads.set i { t with cur := rest, curDone := t.curDone ++ [(a, text)], curAns := t.curAns ++ [o] } }
      | [] =>
        -- end of the query: the guard is dropped
        { s with lock := none,
                 threads := s.threads.set i { t with holding := false, done := t.done ++ [t.curDone], answers := t.answers ++ [t.curAns],
                                                      heaps := t.heaps ++ [t.curHeap], curDone := [], curAns := [] } }
    else
      match s.lock, t.todo with
      | none, q :: rest =>
        -- `borrow_regex_manager`: lock, then `update_time`
        { s with lock := some i, st := (step true s.st (.tick now)).1,
                 threads := s.threads.set i { t with holding := true, cur := q, curDone := [], curAns := [], todo := rest, curHeap := s.st.heap } }
      | _, _ => s

/-- an exclusive mutation (only when no query holds the lock) -/
def stepMut (s : Sys) : Sys :=
  match s.lock, s.muts with
  | none, op :: rest =>
    match op with
    | .query _ _ => { s with muts := rest }      -- mutations never evaluate rules
    | op => { s with st := (step true s.st op).1, muts := rest }
  | _, _ => s

inductive Ev where
  | thread (i : Nat) (now : Nat)
  | mutate

def stepEv (s : Sys) : Ev → Sys
  | .thread i now => stepThread s i now
  | .mutate => stepMut s

def runSched (s : Sys) (sched : List Ev) : Sys := sched.foldl stepEv s

/-- the answers a single thread gets for a query on a cache-free engine with heap `h` -/
def expected (h : Heap) (q : Query) : List (Option Bool) := q.map (fun p => (h.get p.1).map (fun r => fresh r p.2))

/-- remaining work (for the progress argument): evaluations and lock operations still to perform -/
def Thread.work (t : Thread) : Nat :=
  (if t.holding then t.cur.length + 1 else 0) + (t.todo.map (fun q => q.length + 2)).sum

def Sys.work (s : Sys) : Nat := (s.threads.map Thread.work).sum + s.muts.length

end Adb.Conc
