import Adb.Model.Engine
/-
  The engine as a state machine over its public mutators (C06, C07): tag operations, explicit
  optimisation, incremental `add_filter`, serialize + deserialize into the same engine.
  The regex cache does not appear here: `Adb.Model.RegexCache` shows it is transparent.
-/
namespace Adb.Net
open Adb

/-- what survives the v0 wire format of a rule: the modifier only through the `redirect` / `csp` slots -/
def wireRule (r : Rule) : Rule :=
  { r with modifier := (if r.isRedirect then r.modifier else none).or (if r.isCsp then r.modifier else none) }

def Index.mapRules (idx : Index) (f : Rule → Rule) : Index := idx.map (fun (k, b) => (k, b.map f))

/-- `Engine::deserialize` of the bytes another engine (`producer`) serialized: the seven serialized lists
    and `tagged_filters_all` come back rule by rule, the removeparam list is not part of the format,
    the enabled tags are re-applied (`use_tags(current_tags)`) -/
def Blocker.loadFrom (b : Blocker) (producer : Blocker) : Blocker :=
  let b0 := producer
  let b' : Blocker :=
    { csp := b0.csp.mapRules wireRule, exceptions := b0.exceptions.mapRules wireRule,
      importants := b0.importants.mapRules wireRule, redirects := b0.redirects.mapRules wireRule,
      removeparam := [], filtersTagged := b0.filtersTagged.mapRules wireRule,
      filters := b0.filters.mapRules wireRule, genericHide := b0.genericHide.mapRules wireRule,
      tagsEnabled := [], taggedAll := b0.taggedAll.map wireRule, optimize := b0.optimize }
  b'.useTags b.tagsEnabled

/-- `serialize_raw` + `deserialize` on the same engine -/
def Blocker.reload (b : Blocker) : Blocker := b.loadFrom b

inductive HOp where
  | useTags (t : List Str)
  | enableTags (t : List Str)
  | disableTags (t : List Str)
  | optimize
  | add (r : Rule)
  | reload
  /-- load the serialization of an engine built freshly from the same rules with the tag set `t` -/
  | loadFresh (t : List Str)
deriving Repr

structure HState where
  b : Blocker
  /-- the rules the engine has accepted so far (the batch, then each accepted `add_filter`) -/
  rules : List Rule
deriving Inhabited

def HState.init (rules : List Rule) (optimize : Bool) : HState := ⟨Blocker.new rules optimize, rules⟩

def hstep (s : HState) : HOp → HState
  | .useTags t => { s with b := s.b.useTags t }
  | .enableTags t => { s with b := s.b.enableTags t }
  | .disableTags t => { s with b := s.b.disableTags t }
  | .optimize => { s with b := s.b.optimizeNow }
  | .add r =>
    let (b', ok) := s.b.addFilter r
    { b := b', rules := if ok then s.rules ++ [r] else s.rules }
  | .reload => { s with b := s.b.reload }
  | .loadFresh t => { s with b := s.b.loadFrom ((Blocker.new s.rules s.b.optimize).useTags t) }

def hrun (s : HState) (ops : List HOp) : HState := ops.foldl hstep s

/-- `Engine::tag_exists` -/
def HState.tagExists (s : HState) (t : Str) : Bool := s.b.tagsEnabled.contains t

end Adb.Net
