import Adb.Model.Basic
/-
  C14 — model of `Blocker::apply_removeparam` (src/blocker.rs) on `List Char`.

  The Rust code works on byte offsets returned by `memchr` for the ASCII bytes `#`, `?`; on valid
  UTF-8 those are character boundaries, so slicing at them is `List.span` / `splitOnce` here.
  Inputs: the request's original URL and the `modifier_option`s (parameter names) of the
  removeparam rules that matched the request (`check_all` on the removeparam list).
-/
namespace Adb.Removeparam
open Adb

/-- Rust `str::split_once(c)`. -/
def splitOnce (c : Char) : Str → Option (Str × Str)
  | [] => none
  | x :: xs => if x == c then some ([], xs) else
      match splitOnce c xs with
      | some (a, b) => some (x :: a, b)
      | none => none

/-- `QParam` of the Rust code. -/
inductive QParam where
  | keyOnly (k : Str)
  | keyValue (k v : Str)
deriving Repr, DecidableEq

def QParam.parse (pair : Str) : QParam :=
  match splitOnce '=' pair with
  | some (k, v) => .keyValue k v
  | none => .keyOnly pair

/-- `impl Display for QParam` -/
def QParam.show : QParam → Str
  | .keyOnly k => k
  | .keyValue k v => k ++ '=' :: v

/-- `if let QParam::KeyValue(k, v) = param { if !v.is_empty() && k == removeparam {..} }` -/
def hit (name : Str) : QParam → Bool
  | .keyValue k v => !v.isEmpty && k == name
  | .keyOnly _ => false

/-- one iteration of `for removeparam_filter in filters`: `params.iter_mut().for_each(..)` clears
    `include` on every hit and raises `rewrite` if there was one -/
def markOne (name : Str) (ps : List (QParam × Bool)) : List (QParam × Bool) × Bool :=
  (ps.map (fun (p, inc) => (p, inc && !hit name p)), ps.any (fun (p, _) => hit name p))

def markAll (names : List Str) (ps : List (QParam × Bool)) : List (QParam × Bool) × Bool :=
  names.foldl (fun (ps, rw) name =>
    let (ps', rw') := markOne name ps
    (ps', rw || rw')) (ps, false)

/-- `[T]::join("&")` / `itertools::join` -/
def joinAmp (xs : List Str) : Str := List.intercalate ['&'] xs

/-- The rewritten URL, or `none` when nothing is rewritten. -/
def apply (url : Str) (names : List Str) : Option Str :=
  -- let hash_index = find_char(b'#', url).unwrap_or(url.len());
  let beforeHash := url.takeWhile (· != '#')
  let frag := url.dropWhile (· != '#')
  -- if let Some(i) = find_char(b'?', url[..hash_index])
  match splitOnce '?' beforeHash with
  | none => none
  | some (pre, qparams) =>
    let params := (qparams.splitOn '&').map (fun pair => (QParam.parse pair, true))
    let (marked, rewrite) := markAll names params
    if rewrite then
      let p := joinAmp ((marked.filter (·.2)).map (·.1.show))
      let newParamStr := if p.isEmpty then [] else '?' :: p
      some (pre ++ newParamStr ++ frag)
    else none

/-- `check_parameterised`: no rewrite is computed when an important rule matched. -/
def rewrittenUrl (important : Bool) (url : Str) (names : List Str) : Option Str :=
  if important then none else apply url names

/-! ### Reference semantics (what C14 states) -/

/-- A query segment is removed iff it has the form `k=v` with non-empty `v` and `k` one of the
    matching rules' parameter names. -/
def removed (names : List Str) (seg : Str) : Bool :=
  match splitOnce '=' seg with
  | some (k, v) => !v.isEmpty && names.contains k
  | none => false

def spec (important : Bool) (url : Str) (names : List Str) : Option Str :=
  if important then none else
  let beforeHash := url.takeWhile (· != '#')
  let frag := url.dropWhile (· != '#')
  match splitOnce '?' beforeHash with
  | none => none
  | some (pre, q) =>
    let segs := q.splitOn '&'
    if segs.any (removed names) then
      let q' := joinAmp (segs.filter (fun s => !removed names s))
      some (pre ++ (if q'.isEmpty then [] else '?' :: q') ++ frag)
    else none

end Adb.Removeparam
