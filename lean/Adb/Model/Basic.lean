/-
  Basic text / byte / hash utilities shared by every model.
  Imports nothing outside core so that the driver links as a `lean_exe`.
-/
namespace Adb

abbrev Str := List Char

/-- UTF-8 encoding of one character (mirrors Rust's `char::encode_utf8`). -/
def utf8Char (c : Char) : List UInt8 :=
  let n := c.val.toNat
  if n < 0x80 then [n.toUInt8]
  else if n < 0x800 then [(0xC0 + n / 64).toUInt8, (0x80 + n % 64).toUInt8]
  else if n < 0x10000 then
    [(0xE0 + n / 4096).toUInt8, (0x80 + (n / 64) % 64).toUInt8, (0x80 + n % 64).toUInt8]
  else
    [(0xF0 + n / 262144).toUInt8, (0x80 + (n / 4096) % 64).toUInt8,
     (0x80 + (n / 64) % 64).toUInt8, (0x80 + n % 64).toUInt8]

def utf8 (s : Str) : List UInt8 := s.flatMap utf8Char

/-- Byte length of a string, as Rust's `str::len`. -/
def blen (s : Str) : Nat := (utf8 s).length

/-! ### seahash 4.1 (the crate's `fast_hash`) -/

def diffuse (x : UInt64) : UInt64 :=
  let x := x * 0x6eed0e9da4d94a4f
  let a := x >>> 32
  let b := x >>> 60
  let x := x ^^^ (a >>> b)
  x * 0x6eed0e9da4d94a4f

/-- little-endian read of at most 8 bytes -/
def readLE : List UInt8 → UInt64
  | [] => 0
  | b :: bs => b.toUInt64 ||| (readLE bs <<< 8)

structure Lanes where
  a : UInt64
  b : UInt64
  c : UInt64
  d : UInt64

/-- absorb the 8-byte words in order into lanes a, b, c, d, a, … -/
def absorb : Nat → Lanes → List UInt8 → Nat → Lanes
  | 0, l, _, _ => l
  | fuel + 1, l, bs, i =>
    if bs.isEmpty then l else
    let w := readLE (bs.take 8)
    let l' := match i % 4 with
      | 0 => { l with a := diffuse (l.a ^^^ w) }
      | 1 => { l with b := diffuse (l.b ^^^ w) }
      | 2 => { l with c := diffuse (l.c ^^^ w) }
      | _ => { l with d := diffuse (l.d ^^^ w) }
    absorb fuel l' (bs.drop 8) (i + 1)

def seahashBytes (bs : List UInt8) : UInt64 :=
  let l := absorb (bs.length + 1)
    ⟨0x16f11fe89b0d677c, 0xb480a793d8e6c86c, 0x6fe2e5aaf078ebc9, 0x14f994a4c5259381⟩ bs 0
  diffuse (l.a ^^^ l.b ^^^ l.c ^^^ l.d ^^^ bs.length.toUInt64)

abbrev Hash := UInt64

def fastHash (s : Str) : Hash := seahashBytes (utf8 s)

/-! ### hex transport encoding used by the line protocol -/

def hexDigit (c : Char) : Option Nat :=
  if '0' ≤ c ∧ c ≤ '9' then some (c.toNat - '0'.toNat)
  else if 'a' ≤ c ∧ c ≤ 'f' then some (c.toNat - 'a'.toNat + 10)
  else none

def hexToBytes : List Char → Option (List UInt8)
  | [] => some []
  | [_] => none
  | a :: b :: r => do
    let x ← hexDigit a
    let y ← hexDigit b
    let t ← hexToBytes r
    pure ((x * 16 + y).toUInt8 :: t)

def hexNib (n : Nat) : Char := if n < 10 then Char.ofNat (48 + n) else Char.ofNat (87 + n)

def bytesToHex (bs : List UInt8) : String :=
  String.ofList (bs.flatMap fun b => [hexNib (b.toNat / 16), hexNib (b.toNat % 16)])

/-- decode a hex field into text; `-`-prefixed fields are handled by callers. -/
def unhex (s : String) : Option Str := do
  let bs ← hexToBytes s.toList
  let str ← String.fromUTF8? (ByteArray.mk bs.toArray)
  pure str.toList

def hex (s : Str) : String := bytesToHex (utf8 s)

def optHex : Option Str → String
  | none => "-"
  | some s => "+" ++ hex s

def unoptHex (s : String) : Option (Option Str) :=
  match s.toList with
  | ['-'] => some none
  | '+' :: r => (unhex (String.ofList r)).map some
  | _ => none

end Adb
