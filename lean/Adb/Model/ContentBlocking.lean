/-
  Model of the Safari content-blocking export: `TryFrom<NetworkFilter> for CbRuleEquivalent`,
  `TryFrom<CosmeticFilter> for CbRule` (src/content_blocking.rs) and
  `FilterSet::into_content_blocking` (src/lists.rs).

  External: the cosmetic rule parser (its outputs — action / script flags, the plain selector, the
  typed locations with their IDNA encodings — are inputs of the cosmetic conversion), and IDNA +
  Unicode lower-casing of non-ASCII `domain=` values (the model covers ASCII rule text).
-/
import Adb.Model.Net
import Adb.Generated.Tables
namespace Adb.CB
open Adb Adb.Net Adb.Gen

inductive CbType where
  | block | cssDisplayNone | ignorePrevious
  deriving DecidableEq, Repr

inductive LoadType where
  | firstParty | thirdParty
  deriving DecidableEq, Repr

structure CbRule where
  typ : CbType
  selector : Option Str := none
  urlFilter : Str
  caseSensitive : Bool := false
  ifDomain : Option (List Str) := none
  unlessDomain : Option (List Str) := none
  /-- `None` = all types; names in the order of the source's `push_if_flag!` table -/
  resourceTypes : Option (List String) := none
  loadType : List LoadType := []
  deriving DecidableEq, Repr

def isAsciiS (s : Str) : Bool := s.all (fun c => c.val < 128)

/-- `CbRule::is_ascii` -/
def CbRule.isAscii (r : CbRule) : Bool :=
  (match r.selector with | some s => isAsciiS s | none => true) && isAsciiS r.urlFilter
  && (match r.ifDomain with | some l => l.all isAsciiS | none => true)
  && (match r.unlessDomain with | some l => l.all isAsciiS | none => true)

/-- `ignore_previous_fp_documents` -/
def fpDocuments : CbRule :=
  { typ := .ignorePrevious, urlFilter := ".*".toList, resourceTypes := some ["Document"], loadType := [.firstParty] }

/-! ### url-filter construction -/

def isSpecial (c : Char) : Bool := cbSpecialCharList.contains c

/-- `SPECIAL_CHARS.replace_all(s, r"\$1")` -/
def escapeSpecial (s : Str) : Str := s.flatMap fun c => if isSpecial c then ['\\', c] else [c]

/-- `TRAILING_SEPARATOR.replace_all(part, "")`: one trailing `^` is dropped -/
def stripTrailingSep (s : Str) : Str := if s.getLast? == some '^' then s.dropLast else s

/-- `REPLACE_WILDCARDS.replace_all(s, ".*")` -/
def replaceWild (s : Str) : Str := s.flatMap fun c => if c == '*' then ['.', '*'] else [c]

/-- the pattern body of a url-filter -/
def bodyOf (part : Str) : Str := replaceWild (escapeSpecial (stripTrailingSep part))

def hostPrefix : Str :=
  ['^','[','^',':',']','+',':','(','/','/',')','?','(','[','^','/',']','+','\\','.',')','?']

/-- scheme prefix for rules without pattern anchors; `none` = no scheme flag at all (unsatisfiable rule) -/
def schemePart (m : Mask) (both one : String) : Option Str :=
  if has m FROM_HTTP && has m FROM_HTTPS then some both.toList
  else if has m FROM_HTTP then some ("^http://" ++ one).toList
  else if has m FROM_HTTPS then some ("^https://" ++ one).toList
  else if has m FROM_WEBSOCKET then some ("^wss?://" ++ one).toList
  else none

def urlFilter (r : Rule) : Except String Str :=
  let ra : Str := if has r.mask IS_RIGHT_ANCHOR then ['$'] else []
  match r.filter, r.hostname with
  | .anyOf _, _ => .error "OptimizedRulesUnsupported"
  | .simple part, some h =>
    .ok (hostPrefix ++ escapeSpecial h ++ (if has r.mask IS_HOSTNAME_REGEX then ".*".toList else []) ++ bodyOf part ++ ra)
  | .simple part, none =>
    if has r.mask IS_LEFT_ANCHOR then .ok (['^'] ++ bodyOf part ++ ra)
    else match schemePart r.mask "" ".*" with
      | some sp => .ok (sp ++ bodyOf part ++ ra)
      | none => .error "NoSupportedNetworkOptions"
  | .empty, some h => .ok (hostPrefix ++ escapeSpecial h)
  | .empty, none =>
    match schemePart r.mask "^https?://" "" with
    | some sp => .ok sp
    | none => .error "NoSupportedNetworkOptions"

/-! ### `domain=` re-parse of the raw rule text -/

/-- first occurrence of `needle`: the text after it -/
def afterFirst (needle : Str) : Str → Option Str
  | [] => if needle.isEmpty then some [] else none
  | c :: r => if needle.isPrefixOf (c :: r) then some ((c :: r).drop needle.length) else afterFirst needle r

/-- the `if-domain` / `unless-domain` lists read back from the rule text (ASCII rule text) -/
def domainsFromRaw (raw : Str) : Except String (List Str × List Str) :=
  match afterFirst ['$'] raw with
  | none => .error "PANIC:no-dollar"
  | some opts =>
    match afterFirst "domain=".toList opts with
    | none => .error "FromNotSupported"
    | some ds =>
      let ds := ds.takeWhile (· != ',')
      let pieces := ds.splitOn '|'
      let ifs := pieces.filterMap fun d => if d.head? == some '~' then none else some (['*'] ++ asciiLower d)
      let uns := pieces.filterMap fun d => if d.head? == some '~' then some (['*'] ++ asciiLower d.tail) else none
      .ok (ifs, uns)

def nonEmpty (l : List Str) : Option (List Str) := if l.isEmpty then none else some l

/-- resource types: `None` when every network type is allowed -/
def resourceTypesOf (m : Mask) : Except String (Option (List String)) :=
  if FROM_NETWORK_TYPES.all (has m) then .ok none else
  let types := (cbTypeFlags.filter fun p => p.2 != "" && has m p.1).map (·.2)
  let unsupported := cbTypeFlags.any fun p => p.2 == "" && has m p.1
  if unsupported && types.isEmpty then .error "NoSupportedNetworkOptions" else .ok (some types)

def loadTypeOf (m : Mask) : List LoadType :=
  if has m THIRD_PARTY && has m FIRST_PARTY then []
  else if has m THIRD_PARTY then [.thirdParty]
  else if has m FIRST_PARTY then [.firstParty]
  else []

/-- the unsupported-option gates at the top of the conversion -/
def gate (r : Rule) : Except String Unit :=
  if r.isRedirect then .error "NetworkRedirectUnsupported"
  else if r.isGenericHide then .error "NetworkGenerichideUnsupported"
  else if r.isBadfilter then .error "NetworkBadFilterUnsupported"
  else if r.isCsp then .error "NetworkCspUnsupported"
  else if r.isCompleteRegex then .error "FullRegexUnsupported"
  else if r.isRemoveparam then .error "NetworkRemoveparamUnsupported"
  else .ok ()

def domainsOf (r : Rule) (raw : Str) : Except String (Option (List Str) × Option (List Str)) :=
  if r.domains.isSome || r.notDomains.isSome then
    match domainsFromRaw raw with
    | .error e => .error e
    | .ok (i, u) => .ok (nonEmpty i, nonEmpty u)
  else .ok (none, none)

def mkSingle (r : Rule) (uf : Str) (ifD unD : Option (List Str)) (rts : Option (List String)) : CbRule :=
  { typ := if r.isException then .ignorePrevious else .block, urlFilter := uf,
    caseSensitive := r.matchCase, ifDomain := ifD, unlessDomain := unD, resourceTypes := rts,
    loadType := loadTypeOf r.mask }

/-- the `SplitDocument` case: several types incl. Document and no load type -/
def splitDoc (single : CbRule) : List CbRule :=
  match single.resourceTypes with
  | some ts =>
    if ts.length > 1 && ts.contains "Document" && single.loadType.isEmpty then
      [ { single with resourceTypes := some (ts.filter (· != "Document")) },
        { single with resourceTypes := some ["Document"], loadType := [.thirdParty] } ]
    else [single]
  | none => [single]

/-- `TryFrom<NetworkFilter> for CbRuleEquivalent` (debug-mode rule with its raw text) -/
def convNet (r : Rule) (raw : Str) : Except String (List CbRule) :=
  match gate r with
  | .error e => .error e
  | .ok () =>
  match urlFilter r with
  | .error e => .error e
  | .ok uf =>
  match domainsOf r raw with
  | .error e => .error e
  | .ok (ifD, unD) =>
  if ifD.isSome && unD.isSome then .error "UnlessAndIfDomainTogetherUnsupported" else
  match resourceTypesOf r.mask with
  | .error e => .error e
  | .ok rts =>
  if !(mkSingle r uf ifD unD rts).isAscii then .error "RuleContainsNonASCII"
  else .ok (splitDoc (mkSingle r uf ifD unD rts))

/-! ### cosmetic rules -/

/-- what the cosmetic parser hands to the conversion; locations are (kind, IDNA encoding if any):
    kind 0 entity, 1 not-entity, 2 hostname, 3 not-hostname, 4 unsupported -/
structure CosIn where
  raw : Str
  hasAction : Bool
  scriptInject : Bool
  unhide : Bool
  plain : Option Str
  locs : List (Nat × Option Str)

def cosHosts (c : CosIn) : Option (List Str) := nonEmpty (c.locs.filterMap fun p => if p.1 == 2 then p.2 else none)
def cosNotHosts (c : CosIn) : Option (List Str) := nonEmpty (c.locs.filterMap fun p => if p.1 == 3 then p.2 else none)

def cosRule (c : CosIn) (sel : Str) : CbRule :=
  { typ := .cssDisplayNone, selector := some sel, urlFilter := ".*".toList,
    ifDomain := if c.unhide then cosNotHosts c else cosHosts c,
    unlessDomain := if c.unhide then cosHosts c else cosNotHosts c }

/-- `TryFrom<CosmeticFilter> for CbRule` -/
def convCos (c : CosIn) : Except String CbRule :=
  if c.hasAction then .error "CosmeticActionRulesNotSupported"
  else if c.scriptInject then .error "ScriptletInjectionsNotSupported"
  else if (c.locs.any fun p => p.1 != 2 && p.1 != 3) && (cosHosts c).isNone && (cosNotHosts c).isNone then
    .error "CosmeticEntitiesUnsupported"
  else if (cosHosts c).isSome && (cosNotHosts c).isSome then .error "UnlessAndIfDomainTogetherUnsupported"
  else match c.plain with
    | none => .error "ProceduralCosmeticFiltersUnsupported"
    | some sel => if !(cosRule c sel).isAscii then .error "RuleContainsNonASCII" else .ok (cosRule c sel)

/-! ### `FilterSet::into_content_blocking` -/

def okRules {ε α : Type} (x : Except ε (List α)) : List α := match x with | .ok l => l | .error _ => []
def isOk {ε α : Type} (x : Except ε α) : Bool := match x with | .ok _ => true | .error _ => false

/-- (rules in emission order, the raw text of every rule that was converted) -/
def intoContentBlocking (net : List (Rule × Str)) (cos : List CosIn) : List CbRule × List Str :=
  let netOut := net.flatMap fun p => okRules (convNet p.1 p.2)
  let cosOut := cos.flatMap fun c => okRules ((convCos c).map fun r => [r])
  let all := netOut ++ cosOut
  let others := all.filter fun r => r.typ != .ignorePrevious
  let ignores := all.filter fun r => r.typ == .ignorePrevious
  let usedNet := (net.filter fun p => isOk (convNet p.1 p.2)).map (·.2)
  let usedCos := (cos.filter fun c => isOk (convCos c)).map (·.raw)
  (others ++ ignores ++ (if usedNet.isEmpty then [] else [fpDocuments]), usedNet ++ usedCos)

/-! ### the regex subset Safari accepts -/

structure RState where
  depth : Nat := 0
  inClass : Bool := false
  canQuant : Bool := false
  atStart : Bool := true
  ended : Bool := false
  /-- the previous character was a backslash -/
  esc : Bool := false
  deriving DecidableEq, Repr

/-- One character of a url-filter: literals, `\x` for a special `x`, `.`, classes `[...]`, groups,
    `* + ?` after an atom, `^` only first, `$` only last; `|`, `{`, `}` and non-ASCII are refused. -/
def stepR (st : RState) (c : Char) : Option RState :=
  if st.ended || c.val ≥ 128 then none
  else if st.esc then
    if st.inClass then some { st with esc := false }
    else if isSpecial c || c == '*' || c == '/' then some { st with esc := false, canQuant := true } else none
  else if st.inClass then
    if c == ']' then some { st with inClass := false, canQuant := true }
    else if c == '\\' then some { st with esc := true }
    else some st
  else if c == '\\' then some { st with esc := true, atStart := false }
  else if c == '^' then (if st.atStart then some { st with atStart := false, canQuant := false } else none)
  else if c == '$' then some { st with ended := true, atStart := false }
  else if c == '*' || c == '+' || c == '?' then
    (if st.canQuant then some { st with canQuant := false, atStart := false } else none)
  else if c == '(' then some { st with depth := st.depth + 1, canQuant := false, atStart := false }
  else if c == ')' then (if st.depth > 0 then some { st with depth := st.depth - 1, canQuant := true, atStart := false } else none)
  else if c == '[' then some { st with inClass := true, canQuant := false, atStart := false }
  else if c == '|' || c == '{' || c == '}' then none
  else some { st with canQuant := true, atStart := false }

def scan (st : RState) (s : Str) : Option RState := s.foldlM stepR st

/-- the whole url-filter is within the subset -/
def safariOk (s : Str) : Bool :=
  match scan {} s with
  | some st => st.depth == 0 && !st.inClass && !st.esc
  | none => false

/-! ### reading a pattern body back (semantics of the emitted literal / wildcard regex) -/

/-- `\x` is the character `x`, `.*` is the wildcard, anything else is itself -/
def readBody : Str → Option (List PElem)
  | [] => some []
  | '\\' :: c :: rest => (readBody rest).map (PElem.lit c :: ·)
  | ['\\'] => none
  | '.' :: '*' :: rest => (readBody rest).map (PElem.star :: ·)
  | c :: rest => (readBody rest).map (PElem.lit c :: ·)

/-- pattern elements of a `^`-free filter text: `*` is the wildcard, every other character itself -/
def elemsNoSep (s : Str) : List PElem := s.map fun c => if c == '*' then PElem.star else PElem.lit c

end Adb.CB
