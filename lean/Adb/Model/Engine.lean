import Adb.Model.Net
import Adb.Model.Removeparam
/-
  `NetworkFilterList` (token index), `optimizer.rs` (rule fusion), `Blocker` (category split,
  precedence, redirect choice, CSP merge, tags, incremental add) and the redirect side of
  `ResourceStorage`.

  A `HashMap<Hash, Vec<Arc<NetworkFilter>>>` is an association list; nothing observable depends on
  the order of its keys (lookups go through the request's probe list).
-/
namespace Adb.Net
open Adb Adb.Gen

abbrev Bucket := List Rule
abbrev Index := List (Hash × Bucket)

/-- `HashMap::get` -/
def Index.get : Index → Hash → Bucket
  | [], _ => []
  | (k', b) :: rest, k => if k' == k then b else Index.get rest k

/-- `insert_dup`'s sorted insertion: before the first larger id; nothing if an equal id is present -/
def insertSorted (r : Rule) : Bucket → Bucket
  | [] => [r]
  | x :: xs =>
    if x.id == r.id then x :: xs
    else if r.id < x.id then r :: x :: xs
    else x :: insertSorted r xs

/-- `insert_dup`: `map.entry(k).or_insert_with(Vec::new)` followed by the sorted insertion -/
def Index.insert : Index → Hash → Rule → Index
  | [], k, r => [(k, [r])]
  | (k', b) :: rest, k, r =>
    if k' == k then (k', insertSorted r b) :: rest else (k', b) :: Index.insert rest k r

/-- number of rules stored under a key (`filter_map.get(&token).map(|f| f.len())`) -/
def Index.count? : Index → Hash → Option Nat
  | [], _ => none
  | (k', b) :: rest, k => if k' == k then some b.length else Index.count? rest k

/-! #### token histogram and bucket choice (`NetworkFilterList::new`) -/

abbrev Hist := List (Hash × Nat)

def Hist.get? (h : Hist) (t : Hash) : Option Nat := (h.find? (·.1 == t)).map (·.2)
def Hist.bump (h : Hist) (t : Hash) : Hist :=
  if h.any (·.1 == t) then h.map (fun (k, n) => if k == t then (k, n + 1) else (k, n)) else h ++ [(t, 1)]
def Hist.set (h : Hist) (t : Hash) (v : Nat) : Hist :=
  if h.any (·.1 == t) then h.map (fun (k, n) => if k == t then (k, v) else (k, n)) else h ++ [(t, v)]

/-- `token_histogram` -/
def tokenHistogram (groups : List (List (List Hash))) : Nat × Hist :=
  let all := groups.flatten.flatten
  let hist := all.foldl Hist.bump []
  let total := all.length
  (total, badTokens.foldl (fun h b => h.set (fastHash b.toList) total) hist)

/-- the inner `for token in tokens` loop: first token with the strictly smallest count -/
def bestToken (count : Hash → Option Nat) (init : Nat) (g : List Hash) : Hash :=
  (g.foldl (fun (acc : Hash × Nat) t =>
    match count t with
    | none => (t, 0)
    | some c => if c < acc.2 then (t, c) else acc) (0, init)).1

/-! #### optimizer -/

def selectOpt (r : Rule) : Bool :=
  r.domains.isNone && r.notDomains.isNone && !r.isHostnameAnchor && !r.isRedirect && !r.isCsp

/-- `group_by_criteria`: the formatted mask, the complete-regex flag (a bit of the mask) and the tag -/
def sameGroup (a b : Rule) : Bool := a.mask == b.mask && a.tag == b.tag

/-- `SimplePatternGroup::fusion` (the debug text `raw_line` is not modelled) -/
def fuse (base : Rule) (g : List Rule) : Rule :=
  let filter :=
    if g.any (fun f => f.filter == .empty) then FilterPart.empty
    else
      let flat := g.flatMap (fun f => f.filter.items)
      match flat with
      | [] => .empty
      | [s] => .simple s
      | _ => .anyOf flat
  let mask := setBit base.mask IS_REGEX (g.any Rule.isRegex)
  let mask := setBit mask IS_COMPLETE_REGEX (g.any Rule.isCompleteRegex)
  { base with filter := filter, mask := mask, rx := g.any (·.rx) }

/-- is `g` the group whose key (`group_by_criteria`) is `r`'s? -/
def isHome (r : Rule) (g : List Rule) : Bool :=
  match g.head? with
  | some h => sameGroup h r
  | none => false

/-- `insert_dup(&mut to_fuse, group_by_criteria(&f), f)`: groups in order of first appearance -/
def addToGroups (gs : List (List Rule)) (r : Rule) : List (List Rule) :=
  if gs.any (isHome r) then gs.map (fun g => if isHome r g then g ++ [r] else g) else gs ++ [[r]]

def groupRules (rs : List Rule) : List (List Rule) := rs.foldl addToGroups []

def sortById (l : List Rule) : List Rule := l.mergeSort (fun a b => a.id ≤ b.id)

/-- `optimizer::optimize` -/
def optimizeRules (rs : List Rule) : List Rule :=
  let pos := rs.filter selectOpt
  let neg := rs.filter (fun r => !selectOpt r)
  let groups := groupRules pos
  let fused := (groups.filter (·.length > 1)).filterMap (fun g => g.head?.map (fun b => fuse b g))
  let single := (groups.filter (·.length ≤ 1)).flatten
  sortById (fused ++ neg ++ single)

/-- `NetworkFilterList::optimize`: rules held by several buckets (`Arc` shared) are not fusable -/
def Index.optimize (idx : Index) : Index :=
  let count (id : Hash) : Nat := (idx.map (fun (_, b) => (b.filter (·.id == id)).length)).sum
  idx.map fun (k, b) =>
    let own := b.filter (fun r => count r.id ≤ 1)
    let shared := b.filter (fun r => count r.id > 1)
    (k, (if own.length > 1 then optimizeRules own else own) ++ shared)

/-- `NetworkFilterList::new` -/
def Index.build (rules : List Rule) (optimize : Bool) : Index :=
  let toks := rules.map (fun r => (r, r.getTokens))
  let (total, hist) := tokenHistogram (toks.map (·.2))
  let idx := toks.foldl (fun (idx : Index) (r, groups) =>
    groups.foldl (fun idx g => idx.insert (bestToken hist.get? (total + 1) g) r) idx) []
  if optimize then idx.optimize else idx

def Index.size (idx : Index) : Nat := (idx.map (·.2.length)).sum

/-- `NetworkFilterList::add_filter` -/
def Index.addFilter (idx : Index) (r : Rule) : Index :=
  let total := idx.size
  r.getTokens.foldl (fun idx g =>
    idx.insert (bestToken idx.count? (total + 1) g) r) idx

/-- `filter_exists` -/
def Index.filterExists (idx : Index) (r : Rule) : Bool :=
  let toks := r.getTokens.flatten
  let toks := if toks.isEmpty then [0] else toks
  toks.any (fun t => (idx.get t).any (·.id == r.id))

/-- `NetworkFilterList::check_all` -/
def Index.checkAll (idx : Index) (q : Request) (tags : List Str) : List Rule :=
  if idx.isEmpty then [] else
  q.probe.flatMap (fun t => (idx.get t).filter (fun r => r.matches q && tagOk r tags))

/-- `NetworkFilterList::check` -/
def Index.check (idx : Index) (q : Request) (tags : List Str) : Option Rule :=
  (idx.checkAll q tags).head?

/-! #### resources (redirect side) -/

structure Resource where
  name : Str
  aliases : List Str
  /-- `Template` or `Mime(MimeType::X)`, spelled as in `Adb.Gen.noRedirectKinds` -/
  kind : String
  mime : Str
  content : Str
  permission : Nat
  deps : List Str := []
deriving Repr, Inhabited

abbrev Store := List Resource

/-- `get_internal_resource` (names take precedence over aliases) -/
def Store.find (st : Store) (ident : Str) : Option Resource :=
  match st.find? (·.name == ident) with
  | some r => some r
  | none => match st.find? (·.aliases.contains ident) with
    | some a => st.find? (·.name == a.name)
    | none => none

/-- value of one character of the standard base64 alphabet -/
def b64Val (c : Char) : Option Nat :=
  if 'A' ≤ c && c ≤ 'Z' then some (c.toNat - 65)
  else if 'a' ≤ c && c ≤ 'z' then some (c.toNat - 97 + 26)
  else if '0' ≤ c && c ≤ '9' then some (c.toNat - 48 + 52)
  else if c == '+' then some 62
  else if c == '/' then some 63
  else none

/-- canonical padded base64 (`BASE64_STANDARD.decode`; the strictness about non-zero trailing bits is not
    modelled: the harness supplies encodings of byte strings) -/
def b64Decode : Str → Option (List UInt8)
  | [] => some []
  | a :: b :: c :: d :: rest =>
    match b64Val a, b64Val b with
    | some x, some y =>
      let b0 := ((x * 4 + y / 16) % 256).toUInt8
      if c == '=' && d == '=' then (if rest.isEmpty then some [b0] else none)
      else match b64Val c with
        | none => none
        | some z =>
          let b1 := (((y % 16) * 16 + z / 4) % 256).toUInt8
          if d == '=' then (if rest.isEmpty then some [b0, b1] else none)
          else match b64Val d with
            | none => none
            | some w =>
              let b2 := (((z % 4) * 64 + w) % 256).toUInt8
              (b64Decode rest).map (fun t => b0 :: b1 :: b2 :: t)
    | _, _ => none
  | _ => none

/-- `MimeType::is_textual` -/
def textualKinds : List String :=
  ["Mime(MimeType::ApplicationJavascript)", "Mime(MimeType::FnJavascript)", "Mime(MimeType::ApplicationJson)",
   "Mime(MimeType::TextCss)", "Mime(MimeType::TextPlain)", "Mime(MimeType::TextHtml)", "Mime(MimeType::TextXml)"]

/-- the content check of `add_resource`: a MIME resource carries base64, and text when its kind is textual -/
def contentOk (r : Resource) : Bool :=
  if r.kind == "Template" then true else
  match b64Decode r.content with
  | none => false
  | some bs => !textualKinds.contains r.kind || (String.fromUTF8? (ByteArray.mk bs.toArray)).isSome

/-- `add_resource`: rejected when the name or an alias is already a name or an alias (nothing is
    registered then), when dependencies are declared for a kind that does not support them, or when the
    content is not base64 (of UTF-8 text, for textual kinds). -/
def Store.add (st : Store) (r : Resource) : Store :=
  let taken (ident : Str) : Bool := st.any (fun x => x.name == ident || x.aliases.contains ident)
  let depsOk := r.deps.isEmpty || r.kind == "Template" ||
    r.kind == "Mime(MimeType::ApplicationJavascript)" || r.kind == "Mime(MimeType::FnJavascript)"
  if !depsOk then st
  else if !contentOk r then st
  else if (r.name :: r.aliases).any taken then st
  else st ++ [r]

def Store.ofAttempts (rs : List Resource) : Store := rs.foldl Store.add []

/-- `get_redirect_resource` -/
def Store.redirect (st : Store) (ident : Str) : Option Str :=
  match st.find ident with
  | none => none
  | some r =>
    if r.permission != 0 then none
    else if noRedirectKinds.contains r.kind then none
    else if r.kind == "Template" then none
    else some ("data:".toList ++ r.mime ++ ";base64,".toList ++ r.content)

/-! #### blocker -/

structure Blocker where
  csp : Index := []
  exceptions : Index := []
  importants : Index := []
  redirects : Index := []
  removeparam : Index := []
  filtersTagged : Index := []
  filters : Index := []
  genericHide : Index := []
  tagsEnabled : List Str := []
  taggedAll : List Rule := []
  optimize : Bool := false
deriving Inhabited

/-- the category `Blocker::new` / `add_filter` sort a rule into (the `if … else if …` chain) -/
inductive Cat where
  | csp | removeparam | genericHide | exception | important | tagged | normal | redirectOnly
deriving DecidableEq, Repr

def cat (f : Rule) : Cat :=
  if f.isCsp then .csp else if f.isRemoveparam then .removeparam else if f.isGenericHide then .genericHide
  else if f.isException then .exception else if f.isImportant then .important
  else if f.tag.isSome && !f.isRedirect then .tagged
  else if (f.isRedirect && f.alsoBlockRedirect) || !f.isRedirect then .normal else .redirectOnly

/-- the rules `Blocker::new` keeps: neither badfilter rules nor rules whose id equals a badfilter
    rule's id-without-badfilter -/
def liveIds (rules : List Rule) : List Rule :=
  let badIds := (rules.filter Rule.isBadfilter).map Rule.getIdWithoutBadfilter
  rules.filter (fun f => !(badIds.contains f.getId || f.isBadfilter))

/-- `Blocker::new` -/
def Blocker.new (rules : List Rule) (optimize : Bool) : Blocker :=
  let live := liveIds rules
  let pick (c : Cat) := live.filter (fun f => cat f == c)
  { csp := Index.build (pick .csp) optimize
    exceptions := Index.build (pick .exception) optimize
    importants := Index.build (pick .important) optimize
    redirects := Index.build (live.filter Rule.isRedirect) optimize
    removeparam := Index.build (pick .removeparam) false
    filtersTagged := Index.build [] optimize
    filters := Index.build (pick .normal) optimize
    genericHide := Index.build (pick .genericHide) optimize
    tagsEnabled := []
    taggedAll := pick .tagged
    optimize := optimize }

/-- `n.tag.is_some() && self.tags_enabled.contains(n.tag.as_ref().unwrap())` -/
def tagEnabled (tags : List Str) (n : Rule) : Bool :=
  match n.tag with
  | some t => tags.contains t
  | none => false

/-- `tags_with_set` -/
def Blocker.tagsWithSet (b : Blocker) (tags : List Str) : Blocker :=
  let fs := b.taggedAll.filter (tagEnabled tags)
  { b with tagsEnabled := tags, filtersTagged := Index.build fs b.optimize }

def dedupS (l : List Str) : List Str := l.foldl (fun acc x => if acc.contains x then acc else acc ++ [x]) []

def Blocker.useTags (b : Blocker) (tags : List Str) : Blocker := b.tagsWithSet (dedupS tags)
def Blocker.enableTags (b : Blocker) (tags : List Str) : Blocker := b.tagsWithSet (dedupS (tags ++ b.tagsEnabled))
def Blocker.disableTags (b : Blocker) (tags : List Str) : Blocker :=
  b.tagsWithSet (b.tagsEnabled.filter (fun t => !tags.contains t))

/-- `Blocker::optimize` -/
def Blocker.optimizeNow (b : Blocker) : Blocker :=
  { b with csp := b.csp.optimize, exceptions := b.exceptions.optimize, importants := b.importants.optimize,
           redirects := b.redirects.optimize, filtersTagged := b.filtersTagged.optimize,
           filters := b.filters.optimize, genericHide := b.genericHide.optimize }

def Blocker.filterExists (b : Blocker) (f : Rule) : Bool :=
  if f.isCsp then b.csp.filterExists f
  else if f.isGenericHide then b.genericHide.filterExists f
  else if f.isException then b.exceptions.filterExists f
  else if f.isImportant then b.importants.filterExists f
  else if f.isRedirect then b.redirects.filterExists f
  else if f.isRemoveparam then b.removeparam.filterExists f
  else if f.tag.isSome then b.taggedAll.any (·.id == f.id)
  else b.filters.filterExists f

/-- `Blocker::add_filter`; the Boolean is `is_ok()` -/
def Blocker.addFilter (b : Blocker) (f : Rule) : Blocker × Bool :=
  let b := if f.isRedirect then { b with redirects := b.redirects.addFilter f } else b
  if f.isBadfilter then (b, false)
  else if b.filterExists f then (b, false)
  else if f.isCsp then ({ b with csp := b.csp.addFilter f }, true)
  else if f.isRemoveparam then ({ b with removeparam := b.removeparam.addFilter f }, true)
  else if f.isGenericHide then ({ b with genericHide := b.genericHide.addFilter f }, true)
  else if f.isException then ({ b with exceptions := b.exceptions.addFilter f }, true)
  else if f.isImportant then ({ b with importants := b.importants.addFilter f }, true)
  else if f.tag.isSome && !f.isRedirect then
    (({ b with taggedAll := b.taggedAll ++ [f] } : Blocker).tagsWithSet b.tagsEnabled, true)
  else if (f.isRedirect && f.alsoBlockRedirect) || !f.isRedirect then
    ({ b with filters := b.filters.addFilter f }, true)
  else (b, true)

/-! #### redirect choice -/

/-- Rust `str::parse::<i32>`: optional sign, at least one digit, no overflow -/
def parseI32 (s : Str) : Option Int :=
  let (neg, ds) := match s with
    | '-' :: r => (true, r)
    | '+' :: r => (false, r)
    | r => (false, r)
  if ds.isEmpty || !ds.all Char.isDigit then none else
  let n : Nat := ds.foldl (fun a c => a * 10 + (c.toNat - '0'.toNat)) 0
  let v : Int := if neg then - (n : Int) else n
  if v < -2147483648 || v > 2147483647 then none else some v

/-- split at the last `:` and parse the priority; junk keeps the whole string with priority 0 -/
def parseRedirect (s : Str) : Str × Int :=
  match (s.reverse.span (· != ':')) with
  | (_, []) => (s, 0)
  | (revPrio, _ :: revRes) =>
    match parseI32 revPrio.reverse with
    | some p => (revRes.reverse, p)
    | none => (s, 0)

/-- the loop over `redirect_filters`: first strictly greatest priority among unexcepted options -/
def chooseRedirect (matched : List Rule) : Option Str :=
  let exceptions := ((matched.filter Rule.isException).filterMap (·.modifier)).map (fun m => (parseRedirect m).1)
  let cands := ((matched.filter (fun r => !r.isException)).filterMap (·.modifier)).filter
    (fun m => !exceptions.contains (parseRedirect m).1)
  (cands.foldl (fun (acc : Option (Str × Int)) m =>
    let (res, p) := parseRedirect m
    match acc with
    | some (_, p1) => if p > p1 then some (res, p) else acc
    | none => some (res, p)) none).map (·.1)

structure Verdict where
  matched : Bool
  important : Bool
  exception : Bool
  redirect : Option Str
  rewritten : Option Str
deriving Repr, DecidableEq, Inhabited

/-- the tail of `check_parameterised`: how the lookups are combined into the result.  `exc` is the
    exception lookup (only consulted when a non-important filter matched), `rewritten` the
    removeparam rewrite (only consulted when no important filter matched). -/
def assemble (importantF tagged normal exc : Option Rule) (redirect rewritten : Option Str) : Verdict :=
  let filter := match importantF with
    | some f => some f
    | none => match tagged with
      | some f => some f
      | none => normal
  let exception := match filter with
    | none => none
    | some f => if f.isImportant then none else exc
  let important := match filter with | some f => f.isImportant | none => false
  { matched := exception.isNone && filter.isSome, important, exception := exception.isSome,
    redirect, rewritten := if important then none else rewritten }

/-- `Blocker::check_parameterised` (with `matched_rule = force_check_exceptions = false`) -/
def Blocker.check (b : Blocker) (st : Store) (q : Request) : Verdict :=
  if !q.isSupported then ⟨false, false, false, none, none⟩ else
  assemble (b.importants.check q b.tagsEnabled) (b.filtersTagged.check q b.tagsEnabled)
    (b.filters.check q []) (b.exceptions.check q b.tagsEnabled)
    ((chooseRedirect (b.redirects.checkAll q [])).bind st.redirect)
    (Removeparam.apply q.originalUrl ((b.removeparam.checkAll q []).filterMap (·.modifier)))

/-- the merge of `get_csp_directives` over the matching csp filters: a duplicate-free list standing
    for the `HashSet` difference the Rust code joins with `,` -/
def cspMerge (fs : List Rule) : Option (List Str) :=
  if fs.any (fun f => f.isException && f.isCsp && f.modifier.isNone) then none else
  let disabled := (fs.filter (fun f => f.isException && f.isCsp)).filterMap (·.modifier)
  let enabled := (fs.filter (fun f => !f.isException && f.isCsp)).filterMap (·.modifier)
  let remaining := dedupS (enabled.filter (fun d => !disabled.contains d))
  if remaining.isEmpty then none else some remaining

/-- `get_csp_directives` -/
def Blocker.csp? (b : Blocker) (q : Request) : Option (List Str) :=
  if q.tyName != "Document" && q.tyName != "Subdocument" then none else
  cspMerge (b.csp.checkAll q b.tagsEnabled)

/-- `check_generic_hide` -/
def Blocker.genericHide? (b : Blocker) (q : Request) : Bool := (b.genericHide.check q []).isSome

end Adb.Net
