import Adb.Model.Basic
import Adb.Generated.Tables
/-
  C18 — `PermissionMask::is_injectable_by` and `stringify_arg` (src/resources).
  Strings are byte lists here: `stringify_arg` works on the UTF-8 bytes and only ever replaces ASCII
  bytes, so a statement about all byte lists covers all strings.
-/
namespace Adb.Scriptlet
open Adb

/-- `!filter_mask.0 & self.0 == 0` -/
def isInjectableBy (required granted : BitVec 8) : Bool := (~~~granted &&& required) == 0

/-- the `ESCAPED` lookup table (extracted from the source) -/
def escapeOf (b : Nat) : Nat := Gen.ESCAPED.getD b 0

def hexDigitLower (n : Nat) : Nat := if n < 10 then 48 + n else 87 + n

/-- `format!("{:04x}", ch)` for a byte -/
def hex4 (b : Nat) : List Nat := [48, 48, hexDigitLower (b / 16), hexDigitLower (b % 16)]

/-- one byte of `write_string_complex` / the fast path (they agree: an unescaped byte is copied) -/
def escByte (b : Nat) : List Nat :=
  let e := escapeOf b
  if e > 0 then
    (if e == 117 then [92, e] ++ hex4 b else [92, e])     -- 92 = '\\', 117 = 'u'
  else [b]

/-- `stringify_arg::<QUOTED>` on the bytes of the argument -/
def stringify (quoted : Bool) (s : List Nat) : List Nat :=
  let body := s.flatMap escByte
  if quoted then 34 :: body ++ [34] else body

/-! #### a JSON / JS string-literal reader (what the page's parser does with the emitted text) -/

def unhexDigit (c : Nat) : Option Nat :=
  if 48 ≤ c ∧ c ≤ 57 then some (c - 48)
  else if 97 ≤ c ∧ c ≤ 102 then some (c - 87)
  else if 65 ≤ c ∧ c ≤ 70 then some (c - 55)
  else none

def decodeSimpleEscape (e : Nat) : Option Nat :=
  if e = 34 then some 34 else if e = 92 then some 92 else if e = 47 then some 47
  else if e = 98 then some 8 else if e = 102 then some 12 else if e = 110 then some 10
  else if e = 114 then some 13 else if e = 116 then some 9 else none

/-- reads the body of a string literal up to the closing quote; `none` if the text is not a single
    well-formed literal body (raw control character, bad escape, no closing quote).  Returns the decoded
    bytes and the text after the closing quote. -/
def readBody : List Nat → Option (List Nat × List Nat)
  | [] => none
  | b :: rest =>
    if b = 34 then some ([], rest)                       -- closing quote
    else if b = 92 then                                  -- escape
      match rest with
      | [] => none
      | e :: rest1 =>
        if e = 117 then
          match rest1 with
          | a :: b' :: c :: d :: rest2 =>
            match unhexDigit a, unhexDigit b', unhexDigit c, unhexDigit d with
            | some a, some b', some c, some d =>
              let cp := ((a * 16 + b') * 16 + c) * 16 + d
              if cp < 128 then (readBody rest2).map (fun p => (cp :: p.1, p.2)) else none
            | _, _, _, _ => none
          | _ => none
        else
          match decodeSimpleEscape e with
          | some c => (readBody rest1).map (fun p => (c :: p.1, p.2))
          | none => none
    else if b < 32 then none
    else (readBody rest).map (fun p => (b :: p.1, p.2))

/-- parse a complete quoted literal: the whole text must be exactly one literal -/
def unquote (t : List Nat) : Option (List Nat) :=
  match t with
  | 34 :: rest => match readBody rest with
    | some (s, []) => some s
    | _ => none
  | _ => none

end Adb.Scriptlet
