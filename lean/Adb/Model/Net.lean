import Adb.Model.Basic
import Adb.Generated.Tables
/-
  Network side of the engine: rule and request representation, the per-rule matcher
  (`filters/network_matchers.rs`, `regex_manager.rs::compile_regex`), the tokenizer (`utils.rs`),
  `NetworkFilter::get_tokens` and `compute_filter_id` (`filters/network.rs`) and request
  construction (`request.rs::from_detailed_parameters`).

  Text is `List Char`; byte offsets of the Rust code coincide with character offsets on the ASCII
  inputs the matching theorems are stated for (DESIGN.md 3.1).  Mask bit positions, the request-type
  tables and the token constants come from `Adb.Generated.Tables`, re-extracted from the Rust source
  on every run.
-/
namespace Adb.Net
open Adb Adb.Gen

/-! ### masks -/

abbrev Mask := Nat

@[inline] def has (m : Mask) (bit : Nat) : Bool := m.testBit bit
/-- `mask.set(FLAG, v)` for a single-bit flag -/
def setBit (m : Mask) (bit : Nat) (v : Bool) : Mask :=
  if m.testBit bit == v then m else m ^^^ (1 <<< bit)

inductive FilterPart where
  | empty
  | simple (s : Str)
  | anyOf (ss : List Str)
deriving Repr, DecidableEq, Inhabited

/-- `FilterPart::iter()` -/
def FilterPart.items : FilterPart → List Str
  | .empty => []
  | .simple s => [s]
  | .anyOf ss => ss

/-- `FilterPart::string_view()` -/
def FilterPart.stringView : FilterPart → Option Str
  | .empty => none
  | .simple s => some s
  | .anyOf ss => some (List.intercalate ['|'] ss)

structure Rule where
  mask : Mask
  filter : FilterPart
  hostname : Option Str
  domains : Option (List Hash)
  notDomains : Option (List Hash)
  domainsUnion : Option Hash
  notDomainsUnion : Option Hash
  modifier : Option Str
  tag : Option Str
  id : Hash
  /-- external parameter: the result of the `regex` crate on a complete-regex (`/re/`) rule for the
      request of the case (only consulted when `IS_COMPLETE_REGEX` is set) -/
  rx : Bool := false
deriving Repr, Inhabited, DecidableEq

namespace Rule
def isException (r : Rule) := has r.mask IS_EXCEPTION
def isHostnameAnchor (r : Rule) := has r.mask IS_HOSTNAME_ANCHOR
def isRightAnchor (r : Rule) := has r.mask IS_RIGHT_ANCHOR
def isLeftAnchor (r : Rule) := has r.mask IS_LEFT_ANCHOR
def matchCase (r : Rule) := has r.mask MATCH_CASE
def isImportant (r : Rule) := has r.mask IS_IMPORTANT
def isRedirect (r : Rule) := has r.mask IS_REDIRECT
def isRemoveparam (r : Rule) := has r.mask IS_REMOVEPARAM
def alsoBlockRedirect (r : Rule) := has r.mask ALSO_BLOCK_REDIRECT
def isBadfilter (r : Rule) := has r.mask BAD_FILTER
def isGenericHide (r : Rule) := has r.mask GENERIC_HIDE
def isRegex (r : Rule) := has r.mask IS_REGEX
def isCompleteRegex (r : Rule) := has r.mask IS_COMPLETE_REGEX
def isCsp (r : Rule) := has r.mask IS_CSP
def thirdParty (r : Rule) := has r.mask THIRD_PARTY
def firstParty (r : Rule) := has r.mask FIRST_PARTY
def forHttp (r : Rule) := has r.mask FROM_HTTP
def forHttps (r : Rule) := has r.mask FROM_HTTPS
def isHostnameRegex (r : Rule) := has r.mask IS_HOSTNAME_REGEX
end Rule

/-! ### requests -/

structure Request where
  /-- bit index of `NetworkFilterMask::from(&request_type)` -/
  tyBit : Nat
  tyName : String
  isHttp : Bool
  isHttps : Bool
  isSupported : Bool
  thirdParty : Bool
  url : Str
  urlLower : Str
  hostname : Str
  srcHashes : Option (List Hash)
  tokens : List Hash
  originalUrl : Str
deriving Repr, Inhabited

def lookupS (tbl : List (String × β)) (k : String) : Option β :=
  (tbl.find? (·.1 == k)).map (·.2)

/-- `cpt_match_type` followed by `NetworkFilterMask::from` -/
def cptMatchType (raw : Str) : String :=
  (lookupS cptMatch (String.ofList raw)).getD cptDefault

def typeBitOf (tyName : String) : Nat := (lookupS requestTypeBit tyName).getD FROM_OTHER

def asciiLower (s : Str) : Str := s.map Char.toLower

/-! ### tokenizer (`utils.rs::fast_tokenizer_no_regex`) -/

/-- `is_allowed_filter`: `ch.is_alphanumeric() || ch == '%'`.  Rust's `is_alphanumeric` is Unicode
    aware; outside ASCII the model answers `true` and such cases are outside the proved domain. -/
def isTok (c : Char) : Bool := c.isAlphanum || c == '%' || c.val ≥ 128

structure TokSt where
  inside : Bool := false
  start : Nat := 0
  cur : Str := []          -- characters of the current token, reversed
  prec : Option Char := none
  out : List Hash := []    -- reversed
  full : Bool := false     -- the early `return` was taken
deriving Inhabited

def tokStep (skipFirst wild : Bool) (s : TokSt) (i : Nat) (c : Char) : TokSt :=
  if s.full then s
  else if s.out.length ≥ TOKENS_MAX then { s with full := true }
  else if isTok c then
    if !s.inside then { s with inside := true, start := i, cur := [c] }
    else { s with cur := c :: s.cur }
  else if s.inside then
    let emit := (s.start != 0 || !skipFirst) && decide (i - s.start > 1)
      && !(wild && (c == '*' || s.prec == some '*'))
    { s with inside := false, cur := [], prec := some c,
             out := if emit then fastHash s.cur.reverse :: s.out else s.out }
  else { s with prec := some c }

def tokLoop (skipFirst wild : Bool) : List Char → Nat → TokSt → TokSt × Nat
  | [], i, s => (s, i)
  | c :: cs, i, s => tokLoop skipFirst wild cs (i + (utf8Char c).length) (tokStep skipFirst wild s i c)

def tokenizeWith (skipFirst skipLast wild : Bool) (pattern : Str) : List Hash :=
  let (s, len) := tokLoop skipFirst wild pattern 0 {}
  let tail := !s.full && !skipLast && s.inside && (s.start != 0 || !skipFirst)
    && decide (len - s.start > 1) && !(wild && s.prec == some '*')
  (if tail then fastHash s.cur.reverse :: s.out else s.out).reverse

/-- `utils::tokenize_pooled` (request URLs: `*` is an ordinary character) -/
def tokenizeUrl (s : Str) : List Hash := tokenizeWith false false false s
/-- `utils::tokenize` -/
def tokenize (s : Str) : List Hash := tokenizeWith false false true s
/-- `utils::tokenize_filter` -/
def tokenizeFilter (s : Str) (skipFirst skipLast : Bool) : List Hash := tokenizeWith skipFirst skipLast true s

/-- the parent domains of a host name: what follows each `.` (never empty) -/
def labelTails : Str → List Str
  | [] => []
  | c :: rest => if c == '.' && !rest.isEmpty then rest :: labelTails rest else labelTails rest

/-- `source_hostname_hashes`: the initiator host and every parent domain, hashed -/
def srcHashesOf (srcHostname : Str) : Option (List Hash) :=
  if srcHostname.isEmpty then none else some (fastHash srcHostname :: (labelTails srcHostname).map fastHash)

/-- `Request::from_detailed_parameters` -/
def mkRequest (rawType url schema hostname srcHostname : Str) (thirdParty : Bool) (original : Str) : Request :=
  let isHttp0 := schema == "http".toList
  let isHttps0 := !isHttp0 && schema == "https".toList
  let isWs := !isHttp0 && !isHttps0 && (schema == "ws".toList || schema == "wss".toList)
  let (isHttp, isHttps, isSupported, tyName) :=
    if schema.isEmpty then (false, true, true, cptMatchType rawType)
    else (isHttp0, isHttps0, isHttp0 || isHttps0 || isWs, if isWs then "Websocket" else cptMatchType rawType)
  let srcHashes := srcHashesOf srcHostname
  let lower := asciiLower url
  { tyBit := typeBitOf tyName, tyName := tyName, isHttp, isHttps, isSupported, thirdParty,
    url, urlLower := lower, hostname, srcHashes,
    tokens := tokenizeUrl lower ++ [0], originalUrl := original }

/-- `Request::get_tokens_for_match` -/
def Request.probe (r : Request) : List Hash := (r.srcHashes.getD []) ++ r.tokens

/-! ### pattern matching -/

/-- `memmem::find`: index of the first occurrence -/
def findSub (needle : Str) : Str → Option Nat
  | [] => if needle.isEmpty then some 0 else none
  | c :: cs => if needle.isPrefixOf (c :: cs) then some 0 else (findSub needle cs).map (· + 1)

def startsWithDot (s : Str) : Bool := s.head? == some '.'
def endsWithDot (s : Str) : Bool := s.getLast? == some '.'

/-- `is_anchored_by_hostname` -/
def isAnchoredByHostname (fh h : Str) (wildcard : Bool) : Bool :=
  if fh.length == 0 then true
  else if fh.length > h.length then false
  else if fh.length == h.length then fh == h
  else match findSub fh h with
    | none => false
    | some mi =>
      if mi == 0 then wildcard || endsWithDot fh || startsWithDot (h.drop fh.length)
      else if mi == h.length - fh.length then startsWithDot fh || startsWithDot (h.drop (mi - 1))
      else (wildcard || endsWithDot fh || startsWithDot (h.drop (mi + fh.length)))
           && (startsWithDot fh || startsWithDot (h.drop (mi - 1)))

/-- `get_url_after_hostname` (the `unwrap_or` arm cannot underflow when the hostname occurs) -/
def urlAfterHostname (url hostname : Str) : Str :=
  let start := (findSub hostname url).getD (url.length - hostname.length)
  url.drop (start + hostname.length)

/-! #### the regex text emitted by `compile_regex`, as a matcher over pattern elements -/

inductive PElem where
  | lit (c : Char)
  | star
  | sep          -- `(?:[^\w\d\._%\x80-\xff-])` (no byte of a non-ASCII character); as the last element `(?:…|$)`
  | never        -- a regex start-anchor `^` that ended up in the middle of the text (see `elems`)
deriving Repr, DecidableEq

def isSepChar (c : Char) : Bool :=
  c.val < 128 && !(c.isAlphanum || c == '_' || c == '-' || c == '.' || c == '%')

def elemOf (c : Char) : PElem := if c == '*' then .star else if c == '^' then .sep else .lit c

/-- the element list the emitted regex denotes.  `ANCHOR_RE` (`\^(.)`) consumes the character after
    a `^`: in the degenerate spelling `^^x` the second `^` is copied into the regex as a start-anchor,
    which can never match after a consumed separator. -/
def elems : Str → List PElem
  | [] => []
  | [c] => [elemOf c]
  | [c, d] => [elemOf c, elemOf d]
  | c :: d :: e :: rest =>
    if c == '^' && d == '^' then .sep :: .never :: elems (e :: rest)
    else elemOf c :: elems (d :: e :: rest)

/-- `.*` followed by the continuation `k`: `k` is tried at every suffix, leftmost first -/
def starLoop (k : Str → Bool) : Str → Bool
  | [] => k []
  | c :: s' => k (c :: s') || starLoop k s'

/-- does `ps` match a prefix of `s` (all of `s` when `toEnd`)? -/
def matchHere (toEnd : Bool) : List PElem → Str → Bool
  | [], s => !toEnd || s.isEmpty
  | .lit c :: ps, s => match s with
      | d :: s' => c == d && matchHere toEnd ps s'
      | [] => false
  | .sep :: ps, s => match s with
      | d :: s' => isSepChar d && matchHere toEnd ps s'
      | [] => ps.isEmpty
  | .never :: _, _ => false
  | .star :: ps, s => starLoop (matchHere toEnd ps) s

def matchAnywhere (toEnd : Bool) (ps : List PElem) : Str → Bool
  | [] => matchHere toEnd ps []
  | c :: cs => matchHere toEnd ps (c :: cs) || matchAnywhere toEnd ps cs

/-- one non-complete-regex pattern against `text` -/
def regexOne (la ra : Bool) (f : Str) (text : Str) : Bool :=
  if la then matchHere ra (elems f) text else matchAnywhere ra (elems f) text

/-- `RegexManager::matches` ∘ `compile_regex` for a rule (the cache is transparent, see C06) -/
def regexMatches (r : Rule) (text : Str) : Bool :=
  let fs := r.filter.items
  if !r.isRegex && !r.isCompleteRegex then true
  else if fs.any (·.isEmpty) then true          -- `MatchAll`
  else if fs.isEmpty then true                   -- `MatchAll`
  else if r.isCompleteRegex then r.rx            -- external: the `regex` crate on `/re/`
  else fs.any (fun f => regexOne r.isLeftAnchor r.isRightAnchor f text)

def reqUrl (r : Rule) (q : Request) : Str := if r.matchCase then q.url else q.urlLower

/-- `check_pattern` -/
def checkPattern (r : Rule) (q : Request) : Bool :=
  let fs := r.filter.items
  let url := reqUrl r q
  if r.isHostnameAnchor then
    match r.hostname with
    | none => false
    | some h =>
      if !isAnchoredByHostname h q.hostname r.isHostnameRegex then false
      else if r.isRegex then
        regexMatches r (url.drop ((findSub h url).getD 0 + h.length))
      else if r.isRightAnchor && r.isLeftAnchor then
        fs.isEmpty || fs.any (fun f => urlAfterHostname url h == f)
      else if r.isRightAnchor then
        if fs.isEmpty then q.hostname.length == h.length || h.isSuffixOf q.hostname
        else fs.any (fun f => f.isSuffixOf url)
      else if r.isLeftAnchor then
        fs.isEmpty || fs.any (fun f => f.isPrefixOf (urlAfterHostname url h))
      else
        fs.isEmpty || fs.any (fun f => (findSub f (urlAfterHostname url h)).isSome)
  else if r.isRegex || r.isCompleteRegex then regexMatches r url
  else if r.isLeftAnchor && r.isRightAnchor then fs.isEmpty || fs.any (fun f => url == f)
  else if r.isLeftAnchor then fs.isEmpty || fs.any (fun f => f.isPrefixOf url)
  else if r.isRightAnchor then fs.isEmpty || fs.any (fun f => f.isSuffixOf url)
  else fs.isEmpty || fs.any (fun f => (findSub f url).isSome)

/-- `utils::bin_lookup` on the sorted hash lists built at parse time -/
def binLookup (xs : List Hash) (h : Hash) : Bool := xs.contains h

/-- `check_cpt_allowed` -/
def checkCptAllowed (r : Rule) (q : Request) : Bool :=
  if q.tyBit == FROM_DOCUMENT then has r.mask FROM_DOCUMENT || r.isException
  else has r.mask q.tyBit

/-- the `domain=` part of `check_options`: hashes of the initiator and its parent domains against the
    sorted hash lists (with the union pre-filter) -/
def domainGate (r : Rule) (q : Request) : Bool :=
  let incOk := match r.domains with
    | none => true
    | some inc => match q.srcHashes with
      | none => false
      | some src =>
        let unionOk := match r.domainsUnion with
          | some u => !src.all (fun h => h &&& u != h)
          | none => true
        unionOk && !src.all (fun h => !binLookup inc h)
  let excOk := match r.notDomains with
    | none => true
    | some exc => match q.srcHashes with
      | none => true
      | some src => match r.notDomainsUnion with
        | some u => !src.any (fun h => (h &&& u == h) && binLookup exc h)
        | none => !src.any (fun h => binLookup exc h)
  incOk && excOk

/-- `check_options` -/
def checkOptions (r : Rule) (q : Request) : Bool :=
  if r.isBadfilter then false
  else if !checkCptAllowed r q
      || (q.isHttps && !r.forHttps)
      || (q.isHttp && !r.forHttp)
      || (!q.isHttp && !q.isHttps && (r.forHttp != r.forHttps))
      || (!r.firstParty && !q.thirdParty)
      || (!r.thirdParty && q.thirdParty) then false
  else domainGate r q

/-- `NetworkMatchable::matches` -/
def Rule.matches (r : Rule) (q : Request) : Bool := checkOptions r q && checkPattern r q

def tagOk (r : Rule) (tags : List Str) : Bool :=
  match r.tag with
  | none => true
  | some t => tags.contains t

/-! ### `compute_filter_id`, `get_tokens` -/

def foldChars (h : UInt64) (s : Str) : UInt64 := s.foldl (fun h c => (h * 33) ^^^ c.val.toUInt64) h
def foldHashes (h : UInt64) (ds : List Hash) : UInt64 := ds.foldl (fun h d => (h * 33) ^^^ d) h

/-- every field first contributes its presence and length (`mix_len`) -/
def mixLen (h : UInt64) (len : Option Nat) : UInt64 :=
  (h * 33) ^^^ (match len with | some l => (l + 1).toUInt64 | none => 0)

def computeId (modifier : Option Str) (mask : Mask) (filter hostname : Option Str)
    (domains notDomains : Option (List Hash)) : Hash :=
  let h : UInt64 := (5408 * 33 : UInt64) ^^^ mask.toUInt64
  let h := mixLen h (modifier.map blen)
  let h := match modifier with | some s => foldChars h s | none => h
  let h := mixLen h (domains.map List.length)
  let h := match domains with | some d => foldHashes h d | none => h
  let h := mixLen h (notDomains.map List.length)
  let h := match notDomains with | some d => foldHashes h d | none => h
  let h := mixLen h (filter.map blen)
  let h := match filter with | some s => foldChars h s | none => h
  let h := mixLen h (hostname.map blen)
  match hostname with | some s => foldChars h s | none => h

def Rule.getId (r : Rule) : Hash :=
  computeId r.modifier r.mask r.filter.stringView r.hostname r.domains r.notDomains
def Rule.getIdWithoutBadfilter (r : Rule) : Hash :=
  computeId r.modifier (setBit r.mask BAD_FILTER false) r.filter.stringView r.hostname r.domains r.notDomains

/-- `VALID_PARAM`: `^[a-zA-Z0-9_\-]+$` -/
def validParam (s : Str) : Bool := !s.isEmpty && s.all (fun c => c.isAlphanum || c == '_' || c == '-')

/-- `NetworkFilter::get_tokens` -/
def Rule.getTokens (r : Rule) : List (List Hash) :=
  let t0 : List Hash := match r.domains, r.notDomains with
    | some [d], none => [d]
    | _, _ => []
  let t1 := match r.filter with
    | .simple f =>
      if !r.isCompleteRegex then tokenizeFilter f (!r.isLeftAnchor) (!r.isRightAnchor) else []
    | _ => []
  let t2 := if !r.isHostnameRegex then
      match r.hostname with | some h => tokenize h | none => []
    else []
  let t := t0 ++ t1 ++ t2
  let t := if t.isEmpty && r.isRemoveparam then
      match r.modifier with
      | some m => if validParam m then tokenize (asciiLower m) else []
      | none => []
    else t
  if t.isEmpty && r.domains.isSome && r.notDomains.isNone then
    (r.domains.getD []).map (fun d => [d])
  else
    let proto := if r.forHttp && !r.forHttps then [fastHash "http".toList]
      else if r.forHttps && !r.forHttp then [fastHash "https".toList] else []
    [t ++ proto]

end Adb.Net
