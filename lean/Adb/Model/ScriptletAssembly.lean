/-
  `ResourceStorage::get_scriptlet_resources` / `get_scriptlet_resource` /
  `recursive_dependencies_visiting` / `patch_template_scriptlet` / `extract_function_name`
  (src/resources/resource_storage.rs): which resources end up in a page's injected script, in which
  order, and what each invocation looks like.

  Resource contents are given decoded (base64 is external); `text = none` stands for content that does
  not decode.
-/
import Adb.Model.CosmeticParse
import Adb.Model.Scriptlet
namespace Adb.Assembly
open Adb Adb.Lists

structure Res where
  name : Str
  aliases : List Str
  /-- as spelled in `Adb.Gen.injectableKinds` -/
  kind : String
  text : Option Str
  permission : Nat
  deps : List Str
  deriving Repr, DecidableEq, Inhabited

abbrev Store := List Res

/-- `get_internal_resource` -/
def Store.find (st : Store) (ident : Str) : Option Res :=
  match st.find? (·.name == ident) with
  | some r => some r
  | none => match st.find? (·.aliases.contains ident) with
    | some a => st.find? (·.name == a.name)
    | none => none

/-- `PermissionMask::is_injectable_by` -/
def injectable (required granted : Nat) : Bool :=
  Scriptlet.isInjectableBy (BitVec.ofNat 8 required) (BitVec.ofNat 8 granted)

/-- `get_permissioned_resource` -/
def permissioned (st : Store) (ident : Str) (mask : Nat) : Except String Res :=
  match st.find ident with
  | none => .error "NoMatchingScriptlet"
  | some r => if injectable r.permission mask then .ok r else .error "InsufficientPermissions"

structure Walk where
  deps : List Res
  visited : List Str
  deriving Repr

mutual
/-- `recursive_dependencies_visiting` (depth fuel; see `visit_fuel_enough`). The walk is returned
    also when an error stops it: the caller's dependency list has been extended by then. -/
def visit (st : Store) (mask : Nat) : Nat → Str → Walk → Walk × Option String
  | 0, _, w => (w, some "out-of-fuel")
  | fuel + 1, ident, w =>
    match permissioned st ident mask with
    | .error e => (w, some e)
    | .ok r =>
      if w.visited.contains r.name then (w, none)
      else
        visitAll st mask fuel r.deps
          { deps := if w.deps.any (·.name == r.name) then w.deps else w.deps ++ [r],
            visited := w.visited ++ [r.name] }
/-- the `for dep in resource.dependencies` loop -/
def visitAll (st : Store) (mask : Nat) : Nat → List Str → Walk → Walk × Option String
  | _, [], w => (w, none)
  | fuel, d :: ds, w =>
    match visit st mask fuel d w with
    | (w', some e) => (w', some e)
    | (w', none) => visitAll st mask fuel ds w'
end

/-- `with_js_extension` -/
def withJs (name : Str) : Str := if Parse.endsWith ".js" name then name else name ++ ".js".toList

/-- `extract_function_name`: `^function\s+([^\(\)\{\}\s]+)\s*\(` -/
def functionName (t : Str) : Option Str :=
  if !Parse.startsWith "function" t then none else
  let r := t.drop 8
  let ws := r.takeWhile isWs
  if ws.isEmpty then none else
  let r := r.drop ws.length
  let isNameChar (c : Char) : Bool := !(c == '(' || c == ')' || c == '{' || c == '}' || isWs c)
  -- the name is greedy, then optional whitespace, then `(`; the regex backtracks only over
  -- whitespace, which cannot be part of the name
  let name := r.takeWhile isNameChar
  if name.isEmpty then none else
  let r := (r.drop name.length).dropWhile isWs
  if r.head? == some '(' then some name else none

/-- replace the first occurrence of `needle` in `s` -/
def replaceFirst (needle by_ : Str) (s : Str) : Str :=
  match Net.findSub needle s with
  | some i => s.take i ++ by_ ++ s.drop (i + needle.length)
  | none => s

def bytesToStr (bs : List Nat) : Str := (String.fromUTF8? (ByteArray.mk (bs.map (·.toUInt8)).toArray)).map (·.toList) |>.getD []

/-- `stringify_arg::<QUOTED>` as text -/
def stringifyStr (quoted : Bool) (arg : Str) : Str :=
  bytesToStr (Scriptlet.stringify quoted ((utf8 arg).map (·.toNat)))

/-- `patch_template_scriptlet` -/
def patchTemplate (template : Str) (args : List Str) : Str :=
  ((args.take 9).zipIdx).foldl (fun t (arg, i) =>
    replaceFirst ("{{".toList ++ (toString (i + 1)).toList ++ "}}".toList) arg t) template

/-- `get_scriptlet_resource`: the invocation text and the dependency list after it -/
def scriptletResource (st : Store) (raw : Str) (mask : Nat) (deps : List Res) : Except String Str × List Res :=
  match CosmeticParse.parseScriptletArgs raw with
  | none => (.error "MissingScriptletName", deps)
  | some [] => (.error "MissingScriptletName", deps)
  | some (n :: args) =>
    if args.length == 1 && (args.head?.map (fun a => a.head? == some '{' && a.getLast? == some '}')).getD false then
      (.error "ScriptletArgObjectSyntaxUnsupported", deps)
    else
    match permissioned st (withJs n) mask with
    | .error e => (.error e, deps)
    | .ok r =>
      if !Gen.injectableKinds.contains r.kind then (.error "ContentTypeNotInjectable", deps) else
      match visitAll st mask (st.length + 1) r.deps { deps := deps, visited := [] } with
      | (w, some e) => (.error e, w.deps)    -- the dependencies collected so far stay in the list
      | (w, none) =>
        match r.text with
        | none => (.error "CorruptScriptletContent", w.deps)
        | some template =>
          match functionName template with
          | some f =>
            let deps' := if w.deps.any (·.name == r.name) then w.deps else w.deps ++ [r]
            (.ok (f ++ ['('] ++ ", ".toList.intercalate (args.map (stringifyStr true)) ++ [')']), deps')
          | none => (.ok (patchTemplate template (args.map (stringifyStr false))), w.deps)

/-- one element of the `script_injections` loop; the state is (dependencies, invocations, the
    injections already emitted) -/
def injStep (st : Store) (acc : List Res × List Str × List Str) (p : Str × Nat) : List Res × List Str × List Str :=
  if acc.2.2.contains p.1 then acc else
  match scriptletResource st p.1 p.2 acc.1 with
  | (.ok inv, deps') => (deps', acc.2.1 ++ [inv], acc.2.2 ++ [p.1])
  | (.error _, deps') => (deps', acc.2.1, acc.2.2)

/-- `get_scriptlet_resources`: (dependencies in emission order, invocations in emission order) -/
def scriptletResources (st : Store) (inj : List (Str × Nat)) : List Res × List Str :=
  let out := inj.foldl (injStep st) ([], [], [])
  (out.1, out.2.1)

/-- the final script text -/
def script (st : Store) (inj : List (Str × Nat)) : Str :=
  let (deps, invs) := scriptletResources st inj
  (deps.flatMap fun d => match d.text with | some t => t ++ ['\n'] | none => []) ++
  (invs.flatMap fun i => "try {\n".toList ++ i ++ "\n} catch ( e ) { }\n".toList)

end Adb.Assembly
