import Adb.Spec.Verdict
/-
  The engine's id-based badfilter cancellation (`liveIds`) coincides with the structural one
  (`Spec.live`) whenever the 64-bit rule id separates the keys of the case.
-/
namespace Adb.Net
open Adb Adb.Net.Spec

/-- the ids the engine compares (`get_id` / `get_id_without_badfilter`) are the key's id -/
theorem getId_eq_key_id (r : Rule) (h : r.isBadfilter = false) : r.getId = (key r).id := by
  unfold Rule.getId key Key.id
  have : setBit r.mask Gen.BAD_FILTER false = r.mask := by
    unfold Rule.isBadfilter has at h
    simp [setBit, h]
  simp [this]

theorem getIdWithoutBadfilter_eq_key_id (r : Rule) : r.getIdWithoutBadfilter = (key r).id := by
  unfold Rule.getIdWithoutBadfilter key Key.id; rfl

/-- **the engine's id-based cancellation is the structural one** whenever the 64-bit id separates
    the keys of the case (`idsSeparate`, the property's no-collision assumption, checked per case). -/
theorem liveIds_eq_live (rules : List Rule) (h : idsSeparate rules = true) : liveIds rules = live rules := by
  unfold liveIds live
  apply List.filter_congr
  intro y hy
  cases hb : y.isBadfilter with
  | true => simp
  | false =>
    simp only [Bool.or_false, Bool.not_false, Bool.true_and]
    congr 1
    rw [Bool.eq_iff_iff]
    simp only [List.contains_eq_mem, List.mem_map, List.mem_filter, decide_eq_true_eq, List.any_eq_true,
      cancels, hb, Bool.not_false, Bool.and_true, Bool.and_eq_true, beq_iff_eq]
    unfold idsSeparate at h
    simp only [List.all_eq_true, Bool.or_eq_true, bne_iff_ne, ne_eq, beq_iff_eq] at h
    constructor
    · rintro ⟨z, ⟨hz, hzb⟩, hid⟩
      refine ⟨z, hz, hzb, ?_⟩
      rw [getIdWithoutBadfilter_eq_key_id, getId_eq_key_id y hb] at hid
      rcases h z hz y hy with h1 | h1
      · exact absurd hid h1
      · exact h1
    · rintro ⟨z, hz, hzb, hk⟩
      refine ⟨z, ⟨hz, hzb⟩, ?_⟩
      rw [getIdWithoutBadfilter_eq_key_id, getId_eq_key_id y hb, hk]

end Adb.Net
