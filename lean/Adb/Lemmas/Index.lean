import Adb.Spec.Verdict
/-
  Helper lemmas about the token index (`NetworkFilterList`): sorted de-duplicating insertion,
  bucket lookup after insertion, the build fold, and lookup through the request's probe list.
-/
namespace Adb.Net
open Adb

theorem mem_insertSorted_sound (r x : Rule) (b : Bucket) (h : x ∈ insertSorted r b) : x ∈ b ∨ x = r := by
  induction b with
  | nil => simp [insertSorted] at h; exact Or.inr h
  | cons y ys ih =>
    unfold insertSorted at h
    split at h
    · exact Or.inl h
    · split at h
      · rcases List.mem_cons.1 h with rfl | h
        · exact Or.inr rfl
        · exact Or.inl h
      · rcases List.mem_cons.1 h with rfl | h
        · exact Or.inl (List.mem_cons_self ..)
        · rcases ih h with h | h
          · exact Or.inl (List.mem_cons_of_mem _ h)
          · exact Or.inr h

theorem mem_insertSorted_mono (r x : Rule) (b : Bucket) (h : x ∈ b) : x ∈ insertSorted r b := by
  induction b with
  | nil => cases h
  | cons y ys ih =>
    unfold insertSorted
    split
    · exact h
    · split
      · exact List.mem_cons_of_mem _ h
      · rcases List.mem_cons.1 h with rfl | h
        · exact List.mem_cons_self ..
        · exact List.mem_cons_of_mem _ (ih h)

/-- after insertion the bucket holds the rule or one with the same id (the de-duplication case) -/
theorem insertSorted_has_id (r : Rule) (b : Bucket) : ∃ y ∈ insertSorted r b, y.id = r.id := by
  induction b with
  | nil => exact ⟨r, by simp [insertSorted], rfl⟩
  | cons y ys ih =>
    unfold insertSorted
    split
    · rename_i h; exact ⟨y, List.mem_cons_self .., by simpa using h⟩
    · split
      · exact ⟨r, List.mem_cons_self .., rfl⟩
      · obtain ⟨z, hz, hid⟩ := ih
        exact ⟨z, List.mem_cons_of_mem _ hz, hid⟩

/-- bucket lookup after one insertion -/
theorem get_insert (idx : Index) (k k' : Hash) (r : Rule) :
    (idx.insert k r).get k' = if k' == k then insertSorted r (idx.get k) else idx.get k' := by
  induction idx with
  | nil =>
    simp only [Index.insert, Index.get]
    by_cases h : k' = k
    · subst h; simp [insertSorted]
    · have h1 : (k == k') = false := by simpa using fun e => h e.symm
      have h2 : (k' == k) = false := by simpa using h
      simp [h1, h2]
  | cons p ps ih =>
    obtain ⟨kp, b⟩ := p
    simp only [Index.insert]
    by_cases hk : kp = k
    · subst hk
      simp only [beq_self_eq_true, if_true, Index.get]
      by_cases h : k' = kp
      · subst h; simp
      · have h1 : (kp == k') = false := by simpa using fun e => h e.symm
        have h2 : (k' == kp) = false := by simpa using h
        simp [h1, h2]
    · have hk1 : (kp == k) = false := by simpa using hk
      simp only [hk1, Bool.false_eq_true, if_false, Index.get]
      by_cases h : kp = k'
      · subst h
        have : (kp == k) = false := hk1
        simp [this]
      · have h1 : (kp == k') = false := by simpa using h
        simp only [h1, Bool.false_eq_true, if_false]
        exact ih

theorem insert_ne_nil (idx : Index) (k : Hash) (r : Rule) : idx.insert k r ≠ [] := by
  cases idx with
  | nil => simp [Index.insert]
  | cons p ps => obtain ⟨kp, b⟩ := p; simp only [Index.insert]; split <;> simp

/-- insertion of a sequence of (key, rule) pairs -/
def insertAll (pairs : List (Hash × Rule)) (idx : Index) : Index :=
  pairs.foldl (fun idx (p : Hash × Rule) => idx.insert p.1 p.2) idx

theorem insertAll_sound (pairs : List (Hash × Rule)) (idx : Index) (k : Hash) (x : Rule)
    (h : x ∈ (insertAll pairs idx).get k) : x ∈ idx.get k ∨ ∃ p ∈ pairs, p.2 = x := by
  induction pairs generalizing idx with
  | nil => exact Or.inl h
  | cons p ps ih =>
    simp only [insertAll, List.foldl_cons] at h
    rcases ih (idx.insert p.1 p.2) h with h1 | ⟨p', hp', hx⟩
    · rw [get_insert] at h1
      split at h1
      · rcases mem_insertSorted_sound _ _ _ h1 with h2 | h2
        · rename_i hk; have : k = p.1 := by simpa using hk
          subst this; exact Or.inl h2
        · exact Or.inr ⟨p, List.mem_cons_self .., h2.symm⟩
      · exact Or.inl h1
    · exact Or.inr ⟨p', List.mem_cons_of_mem _ hp', hx⟩

theorem insertAll_mono (pairs : List (Hash × Rule)) (idx : Index) (k : Hash) (x : Rule)
    (h : x ∈ idx.get k) : x ∈ (insertAll pairs idx).get k := by
  induction pairs generalizing idx with
  | nil => exact h
  | cons p ps ih =>
    simp only [insertAll, List.foldl_cons]
    apply ih
    rw [get_insert]
    split
    · rename_i hk; have : k = p.1 := by simpa using hk
      subst this; exact mem_insertSorted_mono _ _ _ h
    · exact h

theorem insertAll_complete (pairs : List (Hash × Rule)) (idx : Index) (p : Hash × Rule) (hp : p ∈ pairs) :
    ∃ y ∈ (insertAll pairs idx).get p.1, y.id = p.2.id := by
  induction pairs generalizing idx with
  | nil => cases hp
  | cons p0 ps ih =>
    simp only [insertAll, List.foldl_cons]
    rcases List.mem_cons.1 hp with rfl | hp
    · obtain ⟨y, hy, hid⟩ := insertSorted_has_id p.2 (idx.get p.1)
      refine ⟨y, ?_, hid⟩
      apply insertAll_mono
      rw [get_insert]; simp [hy]
    · exact ih (idx.insert p0.1 p0.2) hp

theorem insertAll_ne_nil (pairs : List (Hash × Rule)) (idx : Index) (h : pairs ≠ [] ∨ idx ≠ []) :
    insertAll pairs idx ≠ [] := by
  induction pairs generalizing idx with
  | nil => simpa [insertAll] using h
  | cons p ps ih =>
    simp only [insertAll, List.foldl_cons]
    exact ih _ (Or.inr (insert_ne_nil idx p.1 p.2))

/-- the result of the rarest-token choice is one of the group's tokens, or the fallback token 0 -/
theorem bestToken_mem (count : Hash → Option Nat) (init : Nat) (g : List Hash) :
    bestToken count init g = 0 ∨ bestToken count init g ∈ g := by
  unfold bestToken
  suffices h : ∀ acc : Hash × Nat,
      (g.foldl (fun (acc : Hash × Nat) t => match count t with
        | none => (t, 0)
        | some c => if c < acc.2 then (t, c) else acc) acc).1 = acc.1 ∨
      (g.foldl (fun (acc : Hash × Nat) t => match count t with
        | none => (t, 0)
        | some c => if c < acc.2 then (t, c) else acc) acc).1 ∈ g from h (0, init)
  induction g with
  | nil => intro acc; exact Or.inl rfl
  | cons t ts ih =>
    intro acc
    simp only [List.foldl_cons]
    cases hc : count t with
    | none =>
      rcases ih (t, 0) with h | h
      · right; rw [h]; exact List.mem_cons_self ..
      · right; exact List.mem_cons_of_mem _ h
    | some c =>
      by_cases hlt : c < acc.2
      · simp only [hlt, if_true]
        rcases ih (t, c) with h | h
        · right; rw [h]; exact List.mem_cons_self ..
        · right; exact List.mem_cons_of_mem _ h
      · simp only [hlt, if_false]
        rcases ih acc with h | h
        · exact Or.inl h
        · right; exact List.mem_cons_of_mem _ h

/-- the (key, rule) pairs `NetworkFilterList::new` inserts -/
def buildPairs (rules : List Rule) : List (Hash × Rule) :=
  let toks := rules.map (fun r => (r, r.getTokens))
  let th := tokenHistogram (toks.map (·.2))
  rules.flatMap (fun r => r.getTokens.map (fun g => (bestToken th.2.get? (th.1 + 1) g, r)))

theorem build_eq_insertAll (rules : List Rule) :
    Index.build rules false = insertAll (buildPairs rules) [] := by
  unfold Index.build buildPairs insertAll
  simp only [Bool.false_eq_true, if_false]
  rw [List.foldl_flatMap, List.foldl_map]
  congr 1
  funext idx r
  rw [List.foldl_map]

theorem mem_checkAll (idx : Index) (q : Request) (tags : List Str) (f : Rule) :
    f ∈ idx.checkAll q tags ↔
      idx ≠ [] ∧ ∃ t ∈ q.probe, f ∈ idx.get t ∧ f.matches q = true ∧ tagOk f tags = true := by
  unfold Index.checkAll
  cases idx with
  | nil => simp
  | cons p ps =>
    simp only [List.isEmpty_cons, Bool.false_eq_true, if_false, List.mem_flatMap, List.mem_filter,
      Bool.and_eq_true, ne_eq, reduceCtorEq, not_false_eq_true, true_and]

end Adb.Net
