import Adb.Model.Net
/- Bit-level lemmas about `setBit` on masks. -/
namespace Adb.Net
open Adb

theorem testBit_setBit (m bit i : Nat) (v : Bool) :
    (setBit m bit v).testBit i = if i = bit then v else m.testBit i := by
  unfold setBit
  split
  · rename_i h
    split
    · rename_i hi; subst hi; simpa using h
    · rfl
  · rename_i h
    simp only [Nat.testBit_xor, Nat.testBit_shiftLeft]
    split
    · rename_i hi; subst hi
      simp only [Nat.le_refl, decide_true, Nat.sub_self, Nat.testBit_zero, Nat.one_mod, decide_true,
        Bool.and_self, Bool.xor_true]
      cases hm : m.testBit i <;> cases v <;> simp_all
    · rename_i hi
      have : (decide (bit ≤ i) && (1 : Nat).testBit (i - bit)) = false := by
        by_cases hle : bit ≤ i
        · have hpos : i - bit ≠ 0 := by omega
          cases hk : i - bit with
          | zero => exact absurd hk hpos
          | succ k => simp [Nat.testBit_succ]
        · simp [hle]
      simp [this]

theorem setBit_same (m bit : Nat) : setBit m bit (m.testBit bit) = m := by
  unfold setBit; simp


theorem has_setBit (m bit i : Nat) (v : Bool) : has (setBit m bit v) i = if i = bit then v else has m i :=
  testBit_setBit m bit i v

theorem has_or (m n i : Nat) : has (m ||| n) i = (has m i || has n i) := by
  unfold has; exact Nat.testBit_or ..

end Adb.Net
