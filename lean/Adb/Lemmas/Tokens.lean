/-
  The tokenizer (`utils.rs::fast_tokenizer_no_regex`) seen as "hashes of maximal runs of token
  characters": soundness (every emitted token is such a run, with the skip rules) and, for request
  URLs, completeness (every such run of more than one byte is emitted) — both for inputs on which
  the token buffer does not overflow.
-/
import Adb.Model.Net
import Adb.Lemmas.Utf8
namespace Adb.Net
open Adb Adb.Gen Adb.Utf8

/-! ### the step without the buffer cap -/

def tokStepU (skipFirst wild : Bool) (s : TokSt) (i : Nat) (c : Char) : TokSt :=
  if isTok c then
    if !s.inside then { s with inside := true, start := i, cur := [c] }
    else { s with cur := c :: s.cur }
  else if s.inside then
    let emit := (s.start != 0 || !skipFirst) && decide (i - s.start > 1)
      && !(wild && (c == '*' || s.prec == some '*'))
    { s with inside := false, cur := [], prec := some c,
             out := if emit then fastHash s.cur.reverse :: s.out else s.out }
  else { s with prec := some c }

def tokLoopU (skipFirst wild : Bool) : List Char → Nat → TokSt → TokSt × Nat
  | [], i, s => (s, i)
  | c :: cs, i, s => tokLoopU skipFirst wild cs (i + (utf8Char c).length) (tokStepU skipFirst wild s i c)

theorem tokStep_full_false (sf wild : Bool) (s : TokSt) (i : Nat) (c : Char)
    (h : (tokStep sf wild s i c).full = false) :
    s.full = false ∧ tokStep sf wild s i c = tokStepU sf wild s i c := by
  by_cases hf : s.full = true
  · exfalso
    unfold tokStep at h
    simp only [hf, if_true] at h
    cases h
  · have hf' : s.full = false := by simpa using hf
    refine ⟨hf', ?_⟩
    by_cases hm : s.out.length ≥ TOKENS_MAX
    · exfalso
      unfold tokStep at h
      simp [hf', hm] at h
    · unfold tokStep tokStepU
      simp only [hf', Bool.false_eq_true, if_false, hm]

theorem tokStepU_full (sf wild : Bool) (s : TokSt) (i : Nat) (c : Char) :
    (tokStepU sf wild s i c).full = s.full := by
  unfold tokStepU
  split
  · split <;> rfl
  · split <;> rfl

theorem tokLoop_full_mono (sf wild : Bool) (cs : List Char) (i : Nat) (s : TokSt) (h : s.full = true) :
    (tokLoop sf wild cs i s).1.full = true := by
  induction cs generalizing i s with
  | nil => exact h
  | cons c cs ih =>
    simp only [tokLoop]
    apply ih
    simp [tokStep, h]

/-- when the buffer never fills up, the capped loop is the uncapped one -/
theorem tokLoop_eq_U (sf wild : Bool) (cs : List Char) (i : Nat) (s : TokSt)
    (h : (tokLoop sf wild cs i s).1.full = false) :
    s.full = false ∧ tokLoop sf wild cs i s = tokLoopU sf wild cs i s := by
  induction cs generalizing i s with
  | nil => exact ⟨h, rfl⟩
  | cons c cs ih =>
    simp only [tokLoop] at h ⊢
    obtain ⟨h1, h2⟩ := ih _ _ h
    obtain ⟨h3, h4⟩ := tokStep_full_false sf wild s i c h1
    refine ⟨h3, ?_⟩
    simp only [tokLoopU]
    rw [h2, h4]

/-! ### what the state means after a prefix has been consumed -/

theorem blen_append (a b : Str) : blen (a ++ b) = blen a + blen b := by
  simp [blen, utf8, List.flatMap_append]

theorem blen_singleton (c : Char) : blen [c] = (utf8Char c).length := by
  simp [blen, utf8]

theorem blen_eq_zero (a : Str) (h : blen a = 0) : a = [] := by
  cases a with
  | nil => rfl
  | cons c r =>
    rw [blen_cons] at h
    have := utf8Char_length_pos c
    omega

structure StInv (done : Str) (s : TokSt) (i : Nat) : Prop where
  pos : i = blen done
  inRun : s.inside = true → ∃ pre, done = pre ++ s.cur.reverse ∧ s.cur ≠ [] ∧ (∀ c ∈ s.cur, isTok c = true) ∧
      (∀ c, pre.getLast? = some c → isTok c = false) ∧ s.start = blen pre ∧ s.prec = pre.getLast?
  outRun : s.inside = false → (∀ c, done.getLast? = some c → isTok c = false) ∧ s.prec = done.getLast?

/-- `t` is the hash of a completed run of `done` that the skip rules keep -/
def Emitted (sf wild : Bool) (done : Str) (t : Hash) : Prop :=
  ∃ pre run sep post, done = pre ++ run ++ sep :: post ∧ run ≠ [] ∧ (∀ c ∈ run, isTok c = true) ∧
    (∀ c, pre.getLast? = some c → isTok c = false) ∧ isTok sep = false ∧ blen run > 1 ∧ t = fastHash run ∧
    (sf = true → pre ≠ []) ∧ (wild = true → sep ≠ '*' ∧ pre.getLast? ≠ some '*')

theorem Emitted.mono {sf wild : Bool} {done : Str} {t : Hash} (h : Emitted sf wild done t) (c : Char) :
    Emitted sf wild (done ++ [c]) t := by
  obtain ⟨pre, run, sep, post, hd, h1, h2, h3, h4, h5, h6, h7, h8⟩ := h
  exact ⟨pre, run, sep, post ++ [c], by rw [hd]; simp, h1, h2, h3, h4, h5, h6, h7, h8⟩

theorem init_inv : StInv [] {} 0 := by
  refine ⟨by simp [blen, utf8], ?_, ?_⟩
  · intro h; cases h
  · intro _; exact ⟨by simp, rfl⟩

/-- one step keeps the description of the state and the soundness of the emitted tokens -/
theorem stepU_inv (sf wild : Bool) (done : Str) (s : TokSt) (i : Nat) (c : Char)
    (hinv : StInv done s i) (hout : ∀ t ∈ s.out, Emitted sf wild done t) :
    StInv (done ++ [c]) (tokStepU sf wild s i c) (i + (utf8Char c).length) ∧
      (∀ t ∈ (tokStepU sf wild s i c).out, Emitted sf wild (done ++ [c]) t) := by
  have hpos : i + (utf8Char c).length = blen (done ++ [c]) := by
    rw [blen_append, blen_singleton, hinv.pos]
  unfold tokStepU
  by_cases htok : isTok c = true
  · simp only [htok, if_true]
    by_cases hin : s.inside = true
    · -- the run continues
      simp only [hin, Bool.not_true, Bool.false_eq_true, if_false]
      obtain ⟨pre, hd, hne, hall, hpl, hst, hpr⟩ := hinv.inRun hin
      refine ⟨⟨hpos, ?_, ?_⟩, fun t ht => (hout t ht).mono c⟩
      · intro _
        refine ⟨pre, by rw [hd]; simp, by simp, ?_, hpl, hst, hpr⟩
        intro x hx
        simp only [List.mem_cons] at hx
        rcases hx with rfl | hx
        · exact htok
        · exact hall x hx
      · intro h; cases h
    · -- a run starts
      have hin' : s.inside = false := by simpa using hin
      simp only [hin', Bool.not_false, if_true]
      obtain ⟨hlast, hpr⟩ := hinv.outRun hin'
      refine ⟨⟨hpos, ?_, ?_⟩, fun t ht => (hout t ht).mono c⟩
      · intro _
        refine ⟨done, by simp, by simp, ?_, hlast, hinv.pos, hpr⟩
        intro x hx
        simp only [List.mem_singleton] at hx
        subst hx; exact htok
      · intro h; cases h
  · have htok' : isTok c = false := by simpa using htok
    simp only [htok', Bool.false_eq_true, if_false]
    by_cases hin : s.inside = true
    · -- a separator ends the run
      simp only [hin, if_true]
      obtain ⟨pre, hd, hne, hall, hpl, hst, hpr⟩ := hinv.inRun hin
      refine ⟨⟨hpos, ?_, ?_⟩, ?_⟩
      · intro h; cases h
      · intro _
        refine ⟨?_, by simp⟩
        intro x hx
        simp at hx
        subst hx; exact htok'
      · intro t ht
        split at ht
        · rename_i hemit
          simp only [List.mem_cons] at ht
          rcases ht with rfl | ht
          · simp only [Bool.and_eq_true, Bool.or_eq_true, bne_iff_ne, ne_eq, Bool.not_eq_true',
              decide_eq_true_eq, Bool.and_eq_false_iff, Bool.or_eq_false_iff, beq_eq_false_iff_ne] at hemit
            obtain ⟨⟨hsf, hlen⟩, hw⟩ := hemit
            refine ⟨pre, s.cur.reverse, c, [], by rw [hd], by simpa using hne, ?_, hpl, htok', ?_, rfl, ?_, ?_⟩
            · intro x hx; exact hall x (by simpa using hx)
            · have : i = blen pre + blen s.cur.reverse := by rw [hinv.pos, hd, blen_append]
              omega
            · intro hs
              rcases hsf with h1 | h1
              · intro hp; subst hp; rw [hst] at h1; simp [blen, utf8] at h1
              · rw [hs] at h1; cases h1
            · intro hwt
              rcases hw with h1 | h1
              · rw [hwt] at h1; cases h1
              · rw [hpr] at h1
                exact ⟨h1.1, by simpa using h1.2⟩
          · exact (hout t ht).mono c
        · exact (hout t ht).mono c
    · have hin' : s.inside = false := by simpa using hin
      simp only [hin', Bool.false_eq_true, if_false]
      refine ⟨⟨hpos, ?_, ?_⟩, fun t ht => (hout t ht).mono c⟩
      · intro h; cases h
      · intro _
        refine ⟨?_, by simp⟩
        intro x hx
        simp at hx
        subst hx; exact htok'

theorem loopU_inv (sf wild : Bool) (rest done : Str) (s : TokSt) (i : Nat)
    (hinv : StInv done s i) (hout : ∀ t ∈ s.out, Emitted sf wild done t) :
    StInv (done ++ rest) (tokLoopU sf wild rest i s).1 (tokLoopU sf wild rest i s).2 ∧
      (∀ t ∈ (tokLoopU sf wild rest i s).1.out, Emitted sf wild (done ++ rest) t) := by
  induction rest generalizing done s i with
  | nil => simpa [tokLoopU] using ⟨hinv, hout⟩
  | cons c cs ih =>
    simp only [tokLoopU]
    obtain ⟨h1, h2⟩ := stepU_inv sf wild done s i c hinv hout
    have := ih (done ++ [c]) _ _ h1 h2
    simpa using this

/-! ### soundness of `tokenizeWith` -/

/-- `t` is the hash of a maximal run of token characters of `s`, longer than one byte, that the skip
    rules keep -/
def TokenOf (sf sl wild : Bool) (s : Str) (t : Hash) : Prop :=
  ∃ pre run post, s = pre ++ run ++ post ∧ run ≠ [] ∧ (∀ c ∈ run, isTok c = true) ∧
    (∀ c, pre.getLast? = some c → isTok c = false) ∧ (∀ c, post.head? = some c → isTok c = false) ∧
    blen run > 1 ∧ t = fastHash run ∧ (sf = true → pre ≠ []) ∧ (sl = true → post ≠ []) ∧
    (wild = true → post.head? ≠ some '*' ∧ pre.getLast? ≠ some '*')

/-- the token buffer did not overflow while `s` was tokenized -/
def NotTruncated (sf wild : Bool) (s : Str) : Prop := (tokLoop sf wild s 0 {}).1.full = false

/-- **Every token the tokenizer emits is the hash of a maximal token run that the skip rules keep.** -/
theorem tokenizeWith_sound (sf sl wild : Bool) (s : Str) (hnf : NotTruncated sf wild s) (t : Hash)
    (ht : t ∈ tokenizeWith sf sl wild s) : TokenOf sf sl wild s t := by
  unfold NotTruncated at hnf
  obtain ⟨_, heq⟩ := tokLoop_eq_U sf wild s 0 {} hnf
  obtain ⟨hinv, hout⟩ := loopU_inv sf wild s [] {} 0 init_inv (by intro t ht; cases ht)
  simp only [List.nil_append] at hinv hout
  unfold tokenizeWith at ht
  rw [heq] at ht hnf
  simp only at ht
  generalize hst : tokLoopU sf wild s 0 {} = res at ht hinv hout hnf
  obtain ⟨st, len⟩ := res
  simp only at ht hinv hout hnf
  simp only [List.mem_reverse] at ht
  have fromOut : ∀ t, t ∈ st.out → TokenOf sf sl wild s t := by
    intro t ht
    obtain ⟨pre, run, sep, post, hd, h1, h2, h3, h4, h5, h6, h7, h8⟩ := hout t ht
    refine ⟨pre, run, sep :: post, hd, h1, h2, h3, ?_, h5, h6, h7, by intro _; simp, ?_⟩
    · intro c hc; simp at hc; subst hc; exact h4
    · intro hw
      obtain ⟨hs, hp⟩ := h8 hw
      exact ⟨by simpa using hs, hp⟩
  split at ht
  · rename_i htail
    simp only [List.mem_cons] at ht
    rcases ht with rfl | ht
    · simp only [Bool.and_eq_true, Bool.not_eq_true', Bool.or_eq_true, bne_iff_ne, ne_eq, decide_eq_true_eq,
        Bool.and_eq_false_iff] at htail
      obtain ⟨⟨⟨⟨⟨_, hsl⟩, hin⟩, hsf⟩, hlen⟩, hw⟩ := htail
      obtain ⟨pre, hd, hne, hall, hpl, hstart, hpr⟩ := hinv.inRun hin
      refine ⟨pre, st.cur.reverse, [], by rw [hd]; simp, by simpa using hne, ?_, hpl, by simp, ?_, rfl, ?_,
        ?_, ?_⟩
      · intro x hx; exact hall x (by simpa using hx)
      · have : len = blen pre + blen st.cur.reverse := by rw [hinv.pos, hd, blen_append]
        omega
      · intro hs
        rcases hsf with h1 | h1
        · intro hp; subst hp; rw [hstart] at h1; simp [blen, utf8] at h1
        · rw [hs] at h1; cases h1
      · intro hs; rw [hs] at hsl; cases hsl
      · intro hwt
        refine ⟨by simp, ?_⟩
        rcases hw with h1 | h1
        · rw [hwt] at h1; cases h1
        · rw [hpr] at h1; simpa using h1
    · exact fromOut t ht
  · exact fromOut t ht

/-! ### completeness for request URLs (`sf = sl = wild = false`) -/

theorem getLast?_append_ne (a b : Str) (h : b ≠ []) : (a ++ b).getLast? = b.getLast? := by
  rw [List.getLast?_append]
  cases hb : b.getLast? with
  | none => simp at hb; exact absurd hb h
  | some x => simp

/-- the trailing maximal token run of a string is unique -/
theorem run_unique (pre run pre' run' : Str) (h : pre ++ run = pre' ++ run')
    (hr : ∀ c ∈ run, isTok c = true) (hr' : ∀ c ∈ run', isTok c = true)
    (hp : ∀ c, pre.getLast? = some c → isTok c = false) (hp' : ∀ c, pre'.getLast? = some c → isTok c = false) :
    pre = pre' ∧ run = run' := by
  rcases List.append_eq_append_iff.1 h with ⟨a, h1, h2⟩ | ⟨a, h1, h2⟩
  · -- pre' = pre ++ a, run = a ++ run'
    cases a with
    | nil => simp at h1 h2; exact ⟨h1.symm, h2⟩
    | cons x xs =>
      exfalso
      have hl : pre'.getLast? = some ((x :: xs).getLast (by simp)) := by
        rw [h1, getLast?_append_ne _ _ (by simp), List.getLast?_eq_some_getLast]
      have hnt := hp' _ hl
      have hm : (x :: xs).getLast (by simp) ∈ run := by rw [h2]; exact List.mem_append_left _ (List.getLast_mem _)
      rw [hr _ hm] at hnt; cases hnt
  · cases a with
    | nil => simp at h1 h2; exact ⟨h1, h2.symm⟩
    | cons x xs =>
      exfalso
      have hl : pre.getLast? = some ((x :: xs).getLast (by simp)) := by
        rw [h1, getLast?_append_ne _ _ (by simp), List.getLast?_eq_some_getLast]
      have hnt := hp _ hl
      have hm : (x :: xs).getLast (by simp) ∈ run' := by rw [h2]; exact List.mem_append_left _ (List.getLast_mem _)
      rw [hr' _ hm] at hnt; cases hnt

/-- every completed qualifying run of `done` has been emitted -/
def Complete (done : Str) (s : TokSt) : Prop :=
  ∀ pre run sep post, done = pre ++ run ++ sep :: post → run ≠ [] → (∀ c ∈ run, isTok c = true) →
    (∀ c, pre.getLast? = some c → isTok c = false) → isTok sep = false → blen run > 1 → fastHash run ∈ s.out

theorem stepU_complete (done : Str) (s : TokSt) (i : Nat) (c : Char) (hinv : StInv done s i)
    (hc : Complete done s) : Complete (done ++ [c]) (tokStepU false false s i c) := by
  intro pre run sep post hd hne hall hpl hsep hlen
  -- tokens are only ever added
  have hmono : ∀ t, t ∈ s.out → t ∈ (tokStepU false false s i c).out := by
    intro t ht
    unfold tokStepU
    split
    · split <;> exact ht
    · split
      · simp only; split
        · exact List.mem_cons_of_mem _ ht
        · exact ht
      · exact ht
  cases hpost : post.reverse with
  | nil =>
    -- the separator is the character just consumed: the run is the one in progress
    have hp : post = [] := by simpa using hpost
    subst hp
    have hdc : done = pre ++ run ∧ sep = c := by
      have : done ++ [c] = (pre ++ run) ++ [sep] := by rw [hd]
      have h2 := List.append_inj' this rfl
      have h3 : c = sep := by simpa using h2.2
      exact ⟨h2.1, h3.symm⟩
    obtain ⟨hdone, rfl⟩ := hdc
    -- the state is inside a run, and that run is `run`
    have hin : s.inside = true := by
      cases hi : s.inside with
      | true => rfl
      | false =>
        exfalso
        obtain ⟨hlast, _⟩ := hinv.outRun hi
        have hl : done.getLast? = some (run.getLast hne) := by
          rw [hdone, getLast?_append_ne _ _ hne, List.getLast?_eq_some_getLast]
        have := hlast _ hl
        rw [hall _ (List.getLast_mem _)] at this; cases this
    obtain ⟨pre', hd', hne', hall', hpl', hst, _⟩ := hinv.inRun hin
    obtain ⟨e1, e2⟩ := run_unique pre run pre' s.cur.reverse (by rw [← hdone, hd']) hall
      (fun x hx => hall' x (by simpa using hx)) hpl hpl'
    subst e1
    unfold tokStepU
    simp only [hsep, Bool.false_eq_true, if_false, hin, if_true]
    have hemit : ((s.start != 0 || !false) && decide (i - s.start > 1) &&
        !(false && (sep == '*' || s.prec == some '*'))) = true := by
      have : i = blen pre + blen s.cur.reverse := by rw [hinv.pos, hd', blen_append]
      simp only [Bool.not_false, Bool.or_true, Bool.true_and, Bool.false_and, Bool.not_false, Bool.and_true,
        decide_eq_true_eq]
      rw [← e2] at this
      rw [hst]
      omega
    simp only [hemit, if_true]
    rw [← e2]
    exact List.mem_cons_self ..
  | cons x xs =>
    -- the run was completed earlier
    have hp : post = xs.reverse ++ [x] := by
      have := congrArg List.reverse hpost
      simpa using this
    subst hp
    have hdone : done = pre ++ run ++ sep :: xs.reverse := by
      have : done ++ [c] = (pre ++ run ++ sep :: xs.reverse) ++ [x] := by rw [hd]; simp
      exact (List.append_inj' this rfl).1
    exact hmono _ (hc pre run sep xs.reverse hdone hne hall hpl hsep hlen)

theorem loopU_complete (rest done : Str) (s : TokSt) (i : Nat) (hinv : StInv done s i)
    (hout : ∀ t ∈ s.out, Emitted false false done t) (hc : Complete done s) :
    Complete (done ++ rest) (tokLoopU false false rest i s).1 := by
  induction rest generalizing done s i with
  | nil => simpa [tokLoopU] using hc
  | cons c cs ih =>
    simp only [tokLoopU]
    obtain ⟨h1, h2⟩ := stepU_inv false false done s i c hinv hout
    have := ih (done ++ [c]) _ _ h1 h2 (stepU_complete done s i c hinv hc)
    simpa using this

/-- **Every maximal token run of a request URL that is longer than one byte is among its tokens.** -/
theorem tokenizeUrl_complete (s : Str) (hnf : NotTruncated false false s) (t : Hash)
    (h : TokenOf false false false s t) : t ∈ tokenizeUrl s := by
  unfold NotTruncated at hnf
  obtain ⟨_, heq⟩ := tokLoop_eq_U false false s 0 {} hnf
  obtain ⟨hinv, hout⟩ := loopU_inv false false s [] {} 0 init_inv (by intro t ht; cases ht)
  have hcomp := loopU_complete s [] {} 0 init_inv (by intro t ht; cases ht)
    (by intro pre run sep post hd; exfalso; simp at hd)
  simp only [List.nil_append] at hinv hout hcomp
  unfold tokenizeUrl tokenizeWith
  rw [heq]
  simp only
  generalize hst : tokLoopU false false s 0 {} = res at hinv hout hcomp
  obtain ⟨st, len⟩ := res
  simp only at hinv hout hcomp ⊢
  simp only [List.mem_reverse]
  obtain ⟨pre, run, post, hd, hne, hall, hpl, hph, hlen, rfl, _, _, _⟩ := h
  cases post with
  | cons sep post' =>
    have := hcomp pre run sep post' hd hne hall hpl (hph sep rfl) hlen
    split
    · exact List.mem_cons_of_mem _ this
    · exact this
  | nil =>
    -- the run reaches the end of the URL: it is the tail token
    simp only [List.append_nil] at hd
    have hin : st.inside = true := by
      cases hi : st.inside with
      | true => rfl
      | false =>
        exfalso
        obtain ⟨hlast, _⟩ := hinv.outRun hi
        have hl : s.getLast? = some (run.getLast hne) := by
          rw [hd, getLast?_append_ne _ _ hne, List.getLast?_eq_some_getLast]
        have := hlast _ hl
        rw [hall _ (List.getLast_mem _)] at this; cases this
    obtain ⟨pre', hd', hne', hall', hpl', hstart, _⟩ := hinv.inRun hin
    obtain ⟨e1, e2⟩ := run_unique pre run pre' st.cur.reverse (by rw [← hd, hd']) hall
      (fun x hx => hall' x (by simpa using hx)) hpl hpl'
    subst e1
    have hfull : st.full = false := by
      have := hnf; rw [heq, hst] at this; exact this
    have htail : (!st.full && !false && st.inside && (st.start != 0 || !false) && decide (len - st.start > 1) &&
        !(false && st.prec == some '*')) = true := by
      have : len = blen pre + blen st.cur.reverse := by rw [hinv.pos, hd', blen_append]
      rw [← e2] at this
      simp only [hfull, hin, Bool.not_false, Bool.true_and, Bool.or_true, Bool.false_and, Bool.and_true,
        decide_eq_true_eq]
      rw [hstart]
      omega
    simp only [htail, if_true]
    rw [← e2]
    exact List.mem_cons_self ..

/-! ### a pattern that occurs in a URL brings its tokens along -/

/-- **If the text `f` occurs in `url` (at the start when the first token is not skipped, at the end
    when the last one is not), every token kept for `f` is a maximal run of `url`.** -/
theorem tokenOf_embed (sf sl wild : Bool) (A f B : Str) (t : Hash) (h : TokenOf sf sl wild f t)
    (hA : sf = false → A = []) (hB : sl = false → B = []) : TokenOf false false false (A ++ f ++ B) t := by
  obtain ⟨pre, run, post, hd, hne, hall, hpl, hph, hlen, ht, hsf, hsl, _⟩ := h
  refine ⟨A ++ pre, run, post ++ B, (by rw [hd]; simp), hne, hall, ?_, ?_, hlen, ht, (by intro h; cases h),
    (by intro h; cases h), (by intro h; cases h)⟩
  · intro c hc
    cases pre with
    | nil =>
      have : sf = false := by cases sf with | true => exact absurd rfl (hsf rfl) | false => rfl
      rw [hA this] at hc; simp at hc
    | cons x xs =>
      rw [getLast?_append_ne _ _ (by simp)] at hc
      exact hpl c hc
  · intro c hc
    cases post with
    | nil =>
      have : sl = false := by cases sl with | true => exact absurd rfl (hsl rfl) | false => rfl
      rw [hB this] at hc; simp at hc
    | cons x xs =>
      simp only [List.cons_append, List.head?_cons, Option.some.injEq] at hc
      exact hph c (by simp [hc])

/-- boundary form of `tokenOf_embed`: at an end of `f` where a token run touches the end, the
    neighbouring character of the URL must not be a token character -/
theorem tokenOf_embed_b (sf sl wild : Bool) (A f B : Str) (t : Hash) (h : TokenOf sf sl wild f t)
    (hA : sf = false → (∃ c, f.head? = some c ∧ isTok c = true) → ∀ c, A.getLast? = some c → isTok c = false)
    (hB : sl = false → (∃ c, f.getLast? = some c ∧ isTok c = true) → ∀ c, B.head? = some c → isTok c = false) :
    TokenOf false false false (A ++ f ++ B) t := by
  obtain ⟨pre, run, post, hd, hne, hall, hpl, hph, hlen, ht, hsf, hsl, _⟩ := h
  refine ⟨A ++ pre, run, post ++ B, (by rw [hd]; simp), hne, hall, ?_, ?_, hlen, ht, (by intro h; cases h),
    (by intro h; cases h), (by intro h; cases h)⟩
  · intro c hc
    cases pre with
    | nil =>
      have hsf' : sf = false := by cases sf with | true => exact absurd rfl (hsf rfl) | false => rfl
      simp only [List.append_nil] at hc
      apply hA hsf' ?_ c hc
      cases run with
      | nil => exact absurd rfl hne
      | cons x xs => exact ⟨x, by rw [hd]; simp, hall x (by simp)⟩
    | cons x xs =>
      rw [getLast?_append_ne _ _ (by simp)] at hc
      exact hpl c hc
  · intro c hc
    cases post with
    | nil =>
      have hsl' : sl = false := by cases sl with | true => exact absurd rfl (hsl rfl) | false => rfl
      simp only [List.nil_append] at hc
      apply hB hsl' ?_ c hc
      refine ⟨run.getLast hne, ?_, hall _ (List.getLast_mem _)⟩
      rw [hd]; simp only [List.append_nil]
      rw [getLast?_append_ne _ _ hne, List.getLast?_eq_some_getLast]
    | cons x xs =>
      simp only [List.cons_append, List.head?_cons, Option.some.injEq] at hc
      exact hph c (by simp [hc])

/-! ### occurrences found by `findSub`, and host-name anchoring -/

theorem findSub_spec (f s : Str) (i : Nat) (h : findSub f s = some i) :
    s = s.take i ++ f ++ s.drop (i + f.length) ∧ i + f.length ≤ s.length := by
  induction s generalizing i with
  | nil =>
    unfold findSub at h
    split at h
    · rename_i he
      have : f = [] := by simpa using he
      subst this
      injection h with h; subst h; simp
    · cases h
  | cons c cs ih =>
    unfold findSub at h
    split at h
    · rename_i hp
      injection h with h; subst h
      have hpre := List.isPrefixOf_iff_prefix.1 hp
      have := List.prefix_iff_eq_append.1 hpre
      refine ⟨by simp only [List.take_zero, List.nil_append, Nat.zero_add]; exact this.symm, ?_⟩
      have := hpre.length_le
      simpa using this
    · cases hf : findSub f cs with
      | none => rw [hf] at h; cases h
      | some j =>
        rw [hf] at h
        simp only [Option.map_some, Option.some.injEq] at h
        subst h
        obtain ⟨h1, h2⟩ := ih j hf
        refine ⟨?_, by simp; omega⟩
        simp only [List.take_succ_cons, List.cons_append]
        rw [show j + 1 + f.length = (j + f.length) + 1 by omega, List.drop_succ_cons]
        rw [← List.cons_append, ← List.cons_append] at *
        congr 1

theorem head_drop_eq_getLast_take (s : Str) (i : Nat) (hi : 1 ≤ i) (hl : i ≤ s.length) :
    (s.drop (i - 1)).head? = (s.take i).getLast? := by
  rw [List.head?_drop, List.getLast?_eq_getElem?, List.length_take, Nat.min_eq_left hl]
  rw [List.getElem?_take]
  simp [show i - 1 < i by omega]

/-- what `is_anchored_by_hostname` (without the wildcard waiver) guarantees -/
theorem anchored_decomp (fh h : Str) (hne : fh ≠ []) (ha : isAnchoredByHostname fh h false = true) :
    ∃ A B, h = A ++ fh ++ B ∧ (A = [] ∨ A.getLast? = some '.' ∨ fh.head? = some '.') ∧
      (B = [] ∨ B.head? = some '.' ∨ fh.getLast? = some '.') := by
  unfold isAnchoredByHostname at ha
  have hl0 : (fh.length == 0) = false := by
    cases fh with
    | nil => exact absurd rfl hne
    | cons _ _ => simp
  simp only [hl0, Bool.false_eq_true, if_false] at ha
  split at ha
  · cases ha
  · split at ha
    · have : fh = h := by simpa using ha
      subst this
      exact ⟨[], [], by simp, Or.inl rfl, Or.inl rfl⟩
    · rename_i hgt hne'
      cases hf : findSub fh h with
      | none => rw [hf] at ha; cases ha
      | some mi =>
        rw [hf] at ha
        obtain ⟨hdec, hle⟩ := findSub_spec fh h mi hf
        simp only at ha
        refine ⟨h.take mi, h.drop (mi + fh.length), hdec, ?_, ?_⟩
        · -- left boundary
          by_cases h0 : mi = 0
          · left; subst h0; simp
          · have hm1 : 1 ≤ mi := by omega
            have hb : (mi == 0) = false := by simpa using h0
            simp only [hb, Bool.false_eq_true, if_false] at ha
            have key : (startsWithDot fh || startsWithDot (h.drop (mi - 1))) = true := by
              split at ha
              · exact ha
              · simp only [Bool.and_eq_true] at ha; exact ha.2
            simp only [Bool.or_eq_true, startsWithDot, beq_iff_eq] at key
            rcases key with k | k
            · right; right; exact k
            · right; left
              rw [← head_drop_eq_getLast_take h mi hm1 (by omega)]; exact k
        · -- right boundary
          by_cases hend : mi + fh.length = h.length
          · left; rw [hend]; simp
          · have key : (endsWithDot fh || startsWithDot (h.drop (mi + fh.length))) = true := by
              by_cases h0 : mi = 0
              · subst h0
                simp only [beq_self_eq_true, if_true, Bool.false_or, Nat.zero_add] at ha ⊢
                exact ha
              · have hb : (mi == 0) = false := by simpa using h0
                have hb2 : (mi == h.length - fh.length) = false := by
                  simp only [beq_eq_false_iff_ne, ne_eq]; omega
                simp only [hb, hb2, Bool.false_eq_true, if_false, Bool.false_or, Bool.and_eq_true] at ha
                exact ha.1
            simp only [Bool.or_eq_true, startsWithDot, endsWithDot, beq_iff_eq] at key
            rcases key with k | k
            · right; right; exact k
            · right; left; exact k

end Adb.Net
