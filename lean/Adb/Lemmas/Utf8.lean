/-
  Byte-level facts about UTF-8 text used by the slicing arguments (C11, C12): the shape of one
  encoded character, char boundaries, and the metadata cut-off loop.
-/
import Adb.Model.Lists
namespace Adb.Utf8
open Adb Adb.Lists

theorem cutoffLoop_le (bs : List UInt8) (i : Nat) : cutoffLoop bs i ≤ i := by
  induction i with
  | zero => simp [cutoffLoop]
  | succ n ih => unfold cutoffLoop; split <;> omega

theorem cutoffLoop_boundary (bs : List UInt8) (i : Nat) :
    isCharBoundaryB bs (cutoffLoop bs i) = true := by
  induction i with
  | zero => simp [cutoffLoop, isCharBoundaryB]
  | succ n ih =>
    unfold cutoffLoop
    split
    · assumption
    · exact ih

/-- the loop finds the largest boundary not above its start -/
theorem cutoffLoop_max (bs : List UInt8) (i j : Nat) (hj : j ≤ i)
    (hb : isCharBoundaryB bs j = true) : j ≤ cutoffLoop bs i := by
  induction i with
  | zero => omega
  | succ n ih =>
    unfold cutoffLoop
    split
    · exact hj
    · rename_i hnb
      have : j ≠ n + 1 := by intro h; subst h; exact hnb hb
      exact ih (by omega)

/-! ### one encoded character -/

theorem utf8Char_length_pos (c : Char) : 0 < (utf8Char c).length := by
  unfold utf8Char; simp only; split
  · simp
  · split
    · simp
    · split <;> simp

theorem toUInt8_toNat_lt (n : Nat) (h : n < 256) : n.toUInt8.toNat = n := by
  simp [Nat.toUInt8, UInt8.toNat_ofNat', Nat.mod_eq_of_lt h]

/-- the first byte of an encoded character is not a continuation byte, all others are -/
theorem utf8Char_shape (c : Char) :
    ∃ h t, utf8Char c = h :: t ∧ isCont h = false ∧ ∀ b ∈ t, isCont b = true := by
  have hv : c.val.toNat < 0x110000 := by
    have := c.valid
    rcases this with h | ⟨_, h⟩
    · have : c.val.toNat < 0xd800 := h
      omega
    · exact h
  have e : c.val.toNat = c.toNat := rfl
  unfold utf8Char
  simp only
  split
  · rename_i h1
    refine ⟨_, [], rfl, ?_, by simp⟩
    simp [isCont]
    omega
  · split
    · rename_i h1 h2
      refine ⟨_, _, rfl, ?_, ?_⟩
      · simp [isCont]
        omega
      · intro b hb
        simp at hb
        subst hb
        simp [isCont]
        omega
    · split
      · rename_i h1 h2 h3
        refine ⟨_, _, rfl, ?_, ?_⟩
        · simp [isCont]
          omega
        · intro b hb
          simp at hb
          rcases hb with hb | hb <;> subst hb <;> simp [isCont] <;> omega
      · rename_i h1 h2 h3
        refine ⟨_, _, rfl, ?_, ?_⟩
        · simp [isCont]
          omega
        · intro b hb
          simp at hb
          rcases hb with hb | hb | hb <;> subst hb <;> simp [isCont] <;> omega

/-- an encoding whose first byte is ASCII is that single byte -/
theorem utf8Char_ascii_head (c : Char) (hd : UInt8) (t : List UInt8) (he : utf8Char c = hd :: t)
    (ha : hd.toNat < 0x80) : t = [] := by
  have hv : c.val.toNat < 0x110000 := by
    have := c.valid
    rcases this with h | ⟨_, h⟩
    · have : c.val.toNat < 0xd800 := h
      omega
    · exact h
  have e : c.val.toNat = c.toNat := rfl
  unfold utf8Char at he
  simp only at he
  split at he
  · simp at he; exact he.2
  · exfalso
    split at he
    · rename_i h1 h2
      simp at he
      have hh' : hd.toNat = (192 + c.toNat / 64) % 256 := by rw [← he.1]; simp
      omega
    · split at he
      · rename_i h1 h2 h3
        simp at he
        have hh' : hd.toNat = (224 + c.toNat / 4096) % 256 := by rw [← he.1]; simp
        omega
      · rename_i h1 h2 h3
        simp at he
        have hh' : hd.toNat = (240 + c.toNat / 262144) % 256 := by rw [← he.1]; simp
        omega

/-! ### character boundaries -/

/-- `i` is the byte length of a character prefix of `s` -/
def Bound (s : Str) (i : Nat) : Prop := ∃ k, i = blen (s.take k)

theorem utf8_cons (c : Char) (r : Str) : utf8 (c :: r) = utf8Char c ++ utf8 r := by
  simp [utf8]

theorem blen_cons (c : Char) (r : Str) : blen (c :: r) = (utf8Char c).length + blen r := by
  simp [blen, utf8_cons]

theorem utf8_head_not_cont (r : Str) (x : UInt8) (h : (utf8 r).head? = some x) : isCont x = false := by
  cases r with
  | nil => simp [utf8] at h
  | cons c r' =>
    obtain ⟨hd, t, he, hh, _⟩ := utf8Char_shape c
    rw [utf8_cons, he] at h
    simp at h
    subst h
    exact hh

theorem boundary_append_gt (a b : List UInt8) (i : Nat) (h : a.length < i) :
    isCharBoundaryB (a ++ b) i = isCharBoundaryB b (i - a.length) := by
  unfold isCharBoundaryB
  have h0 : (i == 0) = false := by simp; omega
  have h1 : (i - a.length == 0) = false := by simp; omega
  rw [h0, h1]
  simp only [Bool.false_or, List.length_append]
  have hget : (a ++ b)[i]? = b[i - a.length]? := by
    rw [List.getElem?_append_right (by omega)]
  rw [hget]
  by_cases hl : i < a.length + b.length
  · have hl' : i - a.length < b.length := by omega
    simp [hl, hl']
  · have hl' : ¬ (i - a.length < b.length) := by omega
    simp only [hl, hl', if_false]
    have : (i == a.length + b.length) = (i - a.length == b.length) := by
      rw [Bool.eq_iff_iff]; simp only [beq_iff_eq]; omega
    exact this

theorem boundary_at_append (a b : List UInt8)
    (hb : ∀ x, b.head? = some x → isCont x = false) :
    isCharBoundaryB (a ++ b) a.length = true := by
  unfold isCharBoundaryB
  cases b with
  | nil => simp
  | cons x r =>
    have := hb x rfl
    simp [this]

theorem boundary_inside (h : UInt8) (t b : List UInt8) (i : Nat) (hi : 0 < i) (hl : i < (h :: t).length)
    (ht : ∀ x ∈ t, isCont x = true) : isCharBoundaryB ((h :: t) ++ b) i = false := by
  unfold isCharBoundaryB
  have h0 : (i == 0) = false := by simp; omega
  rw [h0]
  have hlt : i < ((h :: t) ++ b).length := by simp at hl ⊢; omega
  simp only [Bool.false_or, hlt, if_true]
  obtain ⟨j, rfl⟩ : ∃ j, i = j + 1 := ⟨i - 1, by omega⟩
  have hj : j < t.length := by simp at hl; omega
  have : ((h :: t) ++ b)[j + 1]? = some t[j] := by
    simp [List.getElem?_append_left, hj]
  rw [this]
  simp [ht t[j] (List.getElem_mem hj)]

theorem bound_cons_ge (c : Char) (r : Str) (i : Nat) (h : (utf8Char c).length ≤ i) :
    Bound (c :: r) i ↔ Bound r (i - (utf8Char c).length) := by
  have hp := utf8Char_length_pos c
  constructor
  · rintro ⟨k, hk⟩
    cases k with
    | zero => simp [blen, utf8] at hk; omega
    | succ k =>
      refine ⟨k, ?_⟩
      simp only [List.take_succ_cons, blen_cons] at hk
      omega
  · rintro ⟨k, hk⟩
    refine ⟨k + 1, ?_⟩
    simp only [List.take_succ_cons, blen_cons]
    omega

theorem bound_cons_lt (c : Char) (r : Str) (i : Nat) (h0 : 0 < i) (h : i < (utf8Char c).length) :
    ¬ Bound (c :: r) i := by
  rintro ⟨k, hk⟩
  cases k with
  | zero => simp [blen, utf8] at hk; omega
  | succ k =>
    simp only [List.take_succ_cons, blen_cons] at hk
    omega

/-- `str::is_char_boundary` computed on the bytes is "a character prefix ends here". -/
theorem boundary_iff (s : Str) (i : Nat) : isCharBoundaryB (utf8 s) i = true ↔ Bound s i := by
  induction s generalizing i with
  | nil =>
    constructor
    · intro h
      refine ⟨0, ?_⟩
      simp [isCharBoundaryB, utf8] at h
      simp [blen, utf8]
      omega
    · rintro ⟨k, hk⟩
      simp [blen, utf8] at hk
      subst hk
      simp [isCharBoundaryB]
  | cons c r ih =>
    obtain ⟨hd, t, he, hh, ht⟩ := utf8Char_shape c
    rw [utf8_cons]
    by_cases h0 : i = 0
    · subst h0
      constructor
      · intro _; exact ⟨0, by simp [blen, utf8]⟩
      · intro _; simp [isCharBoundaryB]
    · by_cases hl : i < (utf8Char c).length
      · have : isCharBoundaryB (utf8Char c ++ utf8 r) i = false := by
          rw [he] at hl ⊢
          exact boundary_inside hd t _ i (by omega) hl ht
        rw [this]
        constructor
        · intro h; cases h
        · intro h; exact absurd h (bound_cons_lt c r i (by omega) hl)
      · rw [bound_cons_ge c r i (by omega), ← ih]
        by_cases heq : i = (utf8Char c).length
        · subst heq
          rw [boundary_at_append _ _ (utf8_head_not_cont r)]
          simp [isCharBoundaryB]
        · rw [boundary_append_gt _ _ _ (by omega)]

/-! ### the cut-off equals the character-level prefix -/

theorem takeBytes_prefix (s : Str) (n : Nat) : ∃ k, takeBytes s n = s.take k := by
  induction s generalizing n with
  | nil => exact ⟨0, rfl⟩
  | cons c r ih =>
    unfold takeBytes
    simp only
    split
    · obtain ⟨k, hk⟩ := ih (n - (utf8Char c).length)
      exact ⟨k + 1, by rw [hk]; rfl⟩
    · exact ⟨0, rfl⟩

theorem takeBytes_le (s : Str) (n : Nat) : blen (takeBytes s n) ≤ n := by
  induction s generalizing n with
  | nil => simp [takeBytes, blen, utf8]
  | cons c r ih =>
    unfold takeBytes
    simp only
    split
    · rw [blen_cons]
      have := ih (n - (utf8Char c).length)
      omega
    · simp [blen, utf8]

theorem blen_take_le (s : Str) (k : Nat) : blen (s.take k) ≤ blen s := by
  induction s generalizing k with
  | nil => simp
  | cons c r ih =>
    cases k with
    | zero => simp [blen, utf8]
    | succ k =>
      simp only [List.take_succ_cons, blen_cons]
      have := ih k
      omega

/-- every character prefix that fits the budget is inside `takeBytes` -/
theorem takeBytes_max (s : Str) (n k : Nat) (h : blen (s.take k) ≤ n) :
    blen (s.take k) ≤ blen (takeBytes s n) := by
  induction s generalizing n k with
  | nil => simp [blen, utf8]
  | cons c r ih =>
    cases k with
    | zero => simp [blen, utf8]
    | succ k =>
      simp only [List.take_succ_cons, blen_cons] at h ⊢
      unfold takeBytes
      simp only
      have hle : (utf8Char c).length ≤ n := by omega
      simp only [hle, if_true, blen_cons]
      have := ih (n - (utf8Char c).length) k (by omega)
      omega

theorem utf8_take_blen (s : Str) (k : Nat) : (utf8 s).take (blen (s.take k)) = utf8 (s.take k) := by
  have : utf8 s = utf8 (s.take k) ++ utf8 (s.drop k) := by
    rw [show utf8 (s.take k) ++ utf8 (s.drop k) = utf8 (s.take k ++ s.drop k) by
      simp only [utf8, List.flatMap_append]]
    rw [List.take_append_drop]
  rw [this, blen]
  simp

/-- The byte-level cut-off loop selects exactly the longest character prefix within the budget. -/
theorem cutoff_eq_takeBytes (s : Str) (n : Nat) :
    cutoffLoop (utf8 s) (min (blen s) n) = blen (takeBytes s n) := by
  obtain ⟨k, hk⟩ := takeBytes_prefix s n
  have hb : isCharBoundaryB (utf8 s) (blen (takeBytes s n)) = true :=
    (boundary_iff s _).mpr ⟨k, by rw [hk]⟩
  have hle : blen (takeBytes s n) ≤ min (blen s) n := by
    have h1 := takeBytes_le s n
    have h2 : blen (takeBytes s n) ≤ blen s := by rw [hk]; exact blen_take_le s k
    omega
  have hge := cutoffLoop_max (utf8 s) _ _ hle hb
  have hcb := cutoffLoop_boundary (utf8 s) (min (blen s) n)
  obtain ⟨k', hk'⟩ := (boundary_iff s _).mp hcb
  have hcl := cutoffLoop_le (utf8 s) (min (blen s) n)
  have hmax := takeBytes_max s n k' (by omega)
  omega

/-- `list[0..cutoff]` is the text of the longest character prefix of at most 1024 bytes. -/
theorem slice_cutoff_eq (s : Str) :
    (utf8 s).take (metaCutoff (utf8 s)) = utf8 (takeBytes s 1024) := by
  unfold metaCutoff
  have := cutoff_eq_takeBytes s 1024
  rw [show (utf8 s).length = blen s from rfl, this]
  obtain ⟨k, hk⟩ := takeBytes_prefix s 1024
  rw [hk]
  exact utf8_take_blen s k

/-- The offset of any ASCII byte of a valid UTF-8 text is a character boundary, and so is the
    offset after it (this is what every `memchr`-computed slice in the parsers relies on). -/
theorem ascii_offset_boundary (s : Str) (i : Nat) (b : UInt8) (hb : (utf8 s)[i]? = some b)
    (ha : b.toNat < 0x80) : Bound s i ∧ Bound s (i + 1) := by
  induction s generalizing i with
  | nil => simp [utf8] at hb
  | cons c r ih =>
    obtain ⟨hd, t, he, hh, ht⟩ := utf8Char_shape c
    have hnc : isCont b = false := by simp [isCont]; omega
    rw [utf8_cons] at hb
    by_cases hl : i < (utf8Char c).length
    · -- inside the first character: must be its first byte, and the character is one byte long
      rw [List.getElem?_append_left hl] at hb
      by_cases h0 : i = 0
      · subst h0
        have hlen : (utf8Char c).length = 1 := by
          rw [he] at hb
          simp at hb
          subst hb
          rw [he, utf8Char_ascii_head c hd t he ha]
          rfl
        refine ⟨⟨0, by simp [blen, utf8]⟩, ⟨1, ?_⟩⟩
        simp [hlen, blen, utf8]
      · exfalso
        rw [he] at hb hl
        obtain ⟨j, rfl⟩ : ∃ j, i = j + 1 := ⟨i - 1, by omega⟩
        have hj : j < t.length := by simp at hl; omega
        simp [hj] at hb
        have := ht b (by rw [← hb]; exact List.getElem_mem hj)
        rw [this] at hnc
        cases hnc
    · rw [List.getElem?_append_right (by omega)] at hb
      obtain ⟨h1, h2⟩ := ih _ hb
      constructor
      · exact (bound_cons_ge c r i (by omega)).mpr h1
      · refine (bound_cons_ge c r (i + 1) (by omega)).mpr ?_
        have : i + 1 - (utf8Char c).length = i - (utf8Char c).length + 1 := by omega
        rw [this]
        exact h2

end Adb.Utf8
