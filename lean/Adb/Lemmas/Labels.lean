/-
  `get_hashes_from_labels` (src/filters/cosmetic.rs) in closed form: the hashes of the label
  suffixes that start after a `.` lying left of `start_of_domain`, rightmost first, then the hash of
  the whole name.
-/
import Adb.Model.Cosmetic
namespace Adb.Cosmetic
open Adb

/-- positions `i < n` with `s[i] = '.'`, largest first -/
def dotsBelow (s : Str) : Nat → List Nat
  | 0 => []
  | n + 1 => if s[n]? = some '.' then n :: dotsBelow s n else dotsBelow s n

theorem dotsBelow_lt (s : Str) (n i : Nat) (h : i ∈ dotsBelow s n) : i < n ∧ s[i]? = some '.' := by
  induction n with
  | zero => simp [dotsBelow] at h
  | succ n ih =>
    unfold dotsBelow at h
    split at h
    · rename_i hd
      simp only [List.mem_cons] at h
      rcases h with rfl | h
      · exact ⟨Nat.lt_succ_self _, hd⟩
      · have := ih h; exact ⟨by omega, this.2⟩
    · have := ih h; exact ⟨by omega, this.2⟩

theorem mem_dotsBelow (s : Str) (n i : Nat) (hi : i < n) (hd : s[i]? = some '.') : i ∈ dotsBelow s n := by
  induction n with
  | zero => omega
  | succ n ih =>
    unfold dotsBelow
    by_cases he : i = n
    · subst he; simp [hd]
    · have := ih (by omega)
      split
      · exact List.mem_cons_of_mem _ this
      · exact this

theorem dotsBelow_append (a b : Str) (n : Nat) (h : n ≤ a.length) : dotsBelow (a ++ b) n = dotsBelow a n := by
  induction n with
  | zero => rfl
  | succ n ih =>
    unfold dotsBelow
    rw [ih (by omega), List.getElem?_append_left (by omega)]

theorem dotsBelow_take (s : Str) (m n : Nat) (h : n ≤ m) : dotsBelow (s.take m) n = dotsBelow s n := by
  induction n with
  | zero => rfl
  | succ n ih =>
    unfold dotsBelow
    rw [ih (by omega), List.getElem?_take]
    simp [show n < m by omega]

/-- `memrchr(b'.')` finds the largest such position -/
theorem rfind_rev (r : Str) :
    (r.findIdx? (· == '.')).map (fun k => r.length - 1 - k) = (dotsBelow r.reverse r.length).head? := by
  induction r with
  | nil => rfl
  | cons c t ih =>
    simp only [List.findIdx?_cons, List.reverse_cons, List.length_cons]
    unfold dotsBelow
    have hget : (t.reverse ++ [c])[t.length]? = some c := by
      rw [List.getElem?_append_right (by simp)]; simp
    rw [hget]
    by_cases hc : c = '.'
    · subst hc; simp
    · have hb : (c == '.') = false := by simpa using hc
      have hne : ¬ (some c = some '.') := by simpa using hc
      simp only [hb, Bool.false_eq_true, if_false, hne]
      rw [dotsBelow_append _ _ _ (by simp), ← ih]
      cases t.findIdx? (· == '.') with
      | none => rfl
      | some k => simp; omega

theorem rfindDot_eq (s : Str) : rfindDot s = (dotsBelow s s.length).head? := by
  unfold rfindDot
  have := rfind_rev s.reverse
  simp only [List.reverse_reverse, List.length_reverse] at this
  exact this

theorem rfindDot_take (s : Str) (n : Nat) : rfindDot (s.take n) = (dotsBelow s (min n s.length)).head? := by
  rw [rfindDot_eq, List.length_take, dotsBelow_take s n _ (Nat.min_le_left _ _)]

theorem dotsBelow_succ (s : Str) (n : Nat) :
    dotsBelow s (n + 1) = if s[n]? = some '.' then n :: dotsBelow s n else dotsBelow s n := rfl

theorem dotsBelow_min (s : Str) (n : Nat) : dotsBelow s (min n s.length) = dotsBelow s n := by
  induction n with
  | zero => simp
  | succ n ih =>
    by_cases h : n + 1 ≤ s.length
    · rw [Nat.min_eq_left h]
    · have hlen : s.length ≤ n := by omega
      rw [Nat.min_eq_right (by omega)]
      have : s[n]? = none := List.getElem?_eq_none hlen
      rw [dotsBelow_succ s n, this]
      simp only [reduceCtorEq, if_false]
      rw [← ih, Nat.min_eq_right hlen]

/-- the loop of `get_hashes_from_labels`, given enough fuel -/
theorem go_eq (host : Str) (stop : Nat) (fuel dotPtr : Nat) (acc : List Hash)
    (hf : (dotsBelow host dotPtr).length < fuel) :
    hashesFromLabels.go host stop fuel dotPtr acc =
      acc ++ (dotsBelow host dotPtr).map (fun i => fastHash ((host.take stop).drop (i + 1))) := by
  induction fuel generalizing dotPtr acc with
  | zero => omega
  | succ fuel ih =>
    unfold hashesFromLabels.go
    rw [rfindDot_take, dotsBelow_min]
    cases hd : dotsBelow host dotPtr with
    | nil => simp
    | cons i rest =>
      simp only [List.head?_cons]
      -- the remaining dots are those below `i`
      have hrest : rest = dotsBelow host i := by
        clear ih hf
        induction dotPtr with
        | zero => simp [dotsBelow] at hd
        | succ n ihn =>
          unfold dotsBelow at hd
          split at hd
          · injection hd with h1 h2; subst h1; exact h2.symm
          · exact ihn hd
      rw [ih i _ (by rw [hd] at hf; rw [← hrest]; simp at hf; omega), ← hrest]
      simp

theorem dotsBelow_length_le (s : Str) (n : Nat) : (dotsBelow s n).length ≤ n := by
  induction n with
  | zero => simp [dotsBelow]
  | succ n ih =>
    rw [dotsBelow_succ]
    split
    · simp only [List.length_cons]; omega
    · omega

theorem dotsBelow_length_le_len (s : Str) (n : Nat) : (dotsBelow s n).length ≤ s.length := by
  rw [← dotsBelow_min]
  exact Nat.le_trans (dotsBelow_length_le _ _) (Nat.min_le_right _ _)

/-- **`get_hashes_from_labels` in closed form** -/
theorem hashesFromLabels_eq (host : Str) (stop start : Nat) (hs : stop ≠ 0) :
    hashesFromLabels host stop start =
      (dotsBelow host start).map (fun i => fastHash ((host.take stop).drop (i + 1))) ++ [fastHash (host.take stop)] := by
  unfold hashesFromLabels
  have : (stop == 0) = false := by simpa using hs
  simp only [this, Bool.false_eq_true, if_false]
  rw [go_eq host stop _ start [] (by have := dotsBelow_length_le_len host start; omega)]
  simp

/-- **which names a host answers to**: `x` is one of the host's hashes iff it is the hash of the host
    itself or of the part after a `.` that lies left of the registrable domain. -/
theorem mem_hostnameHashes (host domain : Str) (hne : host ≠ []) (x : Hash) :
    x ∈ hostnameHashes host domain ↔
      x = fastHash host ∨ ∃ i, i < host.length - domain.length ∧ host[i]? = some '.' ∧ x = fastHash (host.drop (i + 1)) := by
  unfold hostnameHashes
  have hl : host.length ≠ 0 := fun e => hne (List.eq_nil_of_length_eq_zero e)
  rw [hashesFromLabels_eq host host.length _ hl]
  simp only [List.take_length, List.mem_append, List.mem_map, List.mem_singleton]
  constructor
  · rintro (⟨i, hi, rfl⟩ | h)
    · obtain ⟨h1, h2⟩ := dotsBelow_lt _ _ _ hi
      exact Or.inr ⟨i, h1, h2, rfl⟩
    · exact Or.inl h
  · rintro (h | ⟨i, h1, h2, rfl⟩)
    · exact Or.inr h
    · exact Or.inl ⟨i, mem_dotsBelow _ _ _ h1 h2, rfl⟩

end Adb.Cosmetic
