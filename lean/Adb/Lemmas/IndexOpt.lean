/-
  `NetworkFilterList::optimize` seen through lookups: every bucket keeps "some active rule matches",
  found rules are original rules or fusions of original rules, and lists without fusable rules are
  only reordered.
-/
import Adb.Props.C05
namespace Adb.Net
open Adb Adb.Gen

/-- in how many buckets (with multiplicity) a rule id is stored -/
def countId (idx : Index) (id : Hash) : Nat := (idx.map (fun (_, b) => (b.filter (·.id == id)).length)).sum

/-- what `optimize` turns one bucket into -/
def optBucket (idx : Index) (b : Bucket) : Bucket :=
  (if (b.filter (fun r => countId idx r.id ≤ 1)).length > 1
    then optimizeRules (b.filter (fun r => countId idx r.id ≤ 1))
    else b.filter (fun r => countId idx r.id ≤ 1)) ++ b.filter (fun r => countId idx r.id > 1)

theorem optimize_eq (idx : Index) : idx.optimize = idx.map (fun p => (p.1, optBucket idx p.2)) := by
  unfold Index.optimize optBucket countId
  rfl

theorem get_map (idx : Index) (F : Bucket → Bucket) (hF : F [] = []) (k : Hash) :
    Index.get (idx.map (fun p => (p.1, F p.2))) k = F (Index.get idx k) := by
  induction idx with
  | nil => simp [Index.get, hF]
  | cons p rest ih =>
    obtain ⟨k', b⟩ := p
    simp only [List.map_cons, Index.get]
    split
    · rfl
    · exact ih

theorem optBucket_nil (idx : Index) : optBucket idx [] = [] := by simp [optBucket]

theorem get_optimize (idx : Index) (k : Hash) : idx.optimize.get k = optBucket idx (idx.get k) := by
  rw [optimize_eq, get_map idx (optBucket idx) (optBucket_nil idx)]

theorem any_partition (b : Bucket) (p : Rule → Bool) (c : Rule → Bool) :
    ((b.filter c).any p || (b.filter (fun r => !c r)).any p) = b.any p := by
  rw [Bool.eq_iff_iff]
  simp only [Bool.or_eq_true, List.any_eq_true, List.mem_filter, Bool.not_eq_true']
  constructor
  · rintro (⟨x, ⟨hx, _⟩, h⟩ | ⟨x, ⟨hx, _⟩, h⟩) <;> exact ⟨x, hx, h⟩
  · rintro ⟨x, hx, h⟩
    cases hc : c x with
    | true => exact Or.inl ⟨x, ⟨hx, hc⟩, h⟩
    | false => exact Or.inr ⟨x, ⟨hx, hc⟩, h⟩

theorem optBucket_any (idx : Index) (b : Bucket) (q : Request) (T : List Str) (hwf : ∀ f ∈ b, WFPart f) :
    (optBucket idx b).any (okFor q T) = b.any (okFor q T) := by
  unfold optBucket
  rw [List.any_append]
  have hown : (if (b.filter (fun r => countId idx r.id ≤ 1)).length > 1
      then optimizeRules (b.filter (fun r => countId idx r.id ≤ 1))
      else b.filter (fun r => countId idx r.id ≤ 1)).any (okFor q T) =
      (b.filter (fun r => countId idx r.id ≤ 1)).any (okFor q T) := by
    split
    · exact optimizeRules_any _ q T (fun f hf => hwf f (List.mem_filter.1 hf).1)
    · rfl
  rw [hown]
  have := any_partition b (okFor q T) (fun r => decide (countId idx r.id ≤ 1))
  rw [← this]
  have hf : b.filter (fun r => decide (countId idx r.id > 1)) =
      b.filter (fun r => !decide (countId idx r.id ≤ 1)) := by
    apply List.filter_congr
    intro x _
    by_cases hc : countId idx x.id ≤ 1
    · have : ¬ countId idx x.id > 1 := by omega
      simp [hc, this]
    · have : countId idx x.id > 1 := by omega
      simp [hc, this]
  rw [hf]

theorem optBucket_mem (idx : Index) (b : Bucket) (hwf : ∀ f ∈ b, WFPart f) (f : Rule) (hf : f ∈ optBucket idx b) :
    f ∈ b ∨ ∃ base g, base ∈ b ∧ (∀ x ∈ g, x ∈ b) ∧ f = fuse base g ∧ Fusable base g := by
  unfold optBucket at hf
  rw [List.mem_append] at hf
  rcases hf with hf | hf
  · split at hf
    · rcases optimizeRules_mem _ (fun f hf => hwf f (List.mem_filter.1 hf).1) f hf with h | ⟨base, g, hb, hg, he, hF⟩
      · exact Or.inl (List.mem_filter.1 h).1
      · exact Or.inr ⟨base, g, (List.mem_filter.1 hb).1, fun x hx => (List.mem_filter.1 (hg x hx)).1, he, hF⟩
    · exact Or.inl (List.mem_filter.1 hf).1
  · exact Or.inl (List.mem_filter.1 hf).1

theorem optimize_isEmpty (idx : Index) : idx.optimize.isEmpty = idx.isEmpty := by
  rw [optimize_eq]; cases idx <;> rfl

theorem check_isSome_any (idx : Index) (q : Request) (T : List Str) :
    (idx.check q T).isSome = (!idx.isEmpty && q.probe.any (fun t => (idx.get t).any (okFor q T))) := by
  unfold Index.check Index.checkAll
  cases he : idx.isEmpty with
  | true => simp
  | false =>
    simp only [Bool.false_eq_true, if_false, Bool.not_false, Bool.true_and]
    rw [Bool.eq_iff_iff]
    simp only [List.any_eq_true, Option.isSome_iff_exists]
    constructor
    · rintro ⟨f, hf⟩
      have hm := List.mem_of_mem_head? (by rw [hf]; rfl : f ∈ _)
      simp only [List.mem_flatMap, List.mem_filter] at hm
      obtain ⟨t, ht, hfb, hok⟩ := hm
      exact ⟨t, ht, f, hfb, hok⟩
    · rintro ⟨t, ht, f, hfb, hok⟩
      have hm : f ∈ q.probe.flatMap (fun t => (idx.get t).filter (fun r => r.matches q && tagOk r T)) := by
        simp only [List.mem_flatMap, List.mem_filter]
        exact ⟨t, ht, hfb, hok⟩
      cases hl : q.probe.flatMap (fun t => (idx.get t).filter (fun r => r.matches q && tagOk r T)) with
      | nil => rw [hl] at hm; cases hm
      | cons x xs => exact ⟨x, rfl⟩

/-- **optimising an index preserves whether a lookup succeeds** -/
theorem optimize_check_isSome (idx : Index) (q : Request) (T : List Str)
    (hwf : ∀ k, ∀ f ∈ idx.get k, WFPart f) :
    (idx.optimize.check q T).isSome = (idx.check q T).isSome := by
  rw [check_isSome_any, check_isSome_any, optimize_isEmpty]
  congr 2
  funext t
  rw [get_optimize, optBucket_any idx _ q T (hwf t)]

/-- the rule a lookup in the optimised index returns is an original rule of a probed bucket or a
    fusion of rules of that bucket -/
theorem optimize_check_some (idx : Index) (q : Request) (T : List Str)
    (hwf : ∀ k, ∀ f ∈ idx.get k, WFPart f) (f : Rule) (h : idx.optimize.check q T = some f) :
    ∃ t, f ∈ idx.get t ∨ ∃ base g, base ∈ idx.get t ∧ (∀ x ∈ g, x ∈ idx.get t) ∧ f = fuse base g ∧ Fusable base g := by
  unfold Index.check Index.checkAll at h
  split at h
  · cases h
  · have hm := List.mem_of_mem_head? (by rw [h]; rfl : f ∈ _)
    simp only [List.mem_flatMap, List.mem_filter] at hm
    obtain ⟨t, _, hfb, _⟩ := hm
    rw [get_optimize] at hfb
    exact ⟨t, optBucket_mem idx _ (hwf t) f hfb⟩

/-- a list none of whose rules is selected for fusion is only reordered -/
theorem optimize_checkAll_mem_of_none (idx : Index) (q : Request) (T : List Str)
    (hsel : ∀ k, ∀ r ∈ idx.get k, selectOpt r = false) (f : Rule) :
    f ∈ idx.optimize.checkAll q T ↔ f ∈ idx.checkAll q T := by
  unfold Index.checkAll
  rw [optimize_isEmpty]
  split
  · rfl
  · simp only [List.mem_flatMap, List.mem_filter]
    have hb : ∀ t x, x ∈ idx.optimize.get t ↔ x ∈ idx.get t := by
      intro t x
      rw [get_optimize]
      unfold optBucket
      have hperm : (if (List.filter (fun r => decide (countId idx r.id ≤ 1)) (idx.get t)).length > 1
          then optimizeRules (List.filter (fun r => decide (countId idx r.id ≤ 1)) (idx.get t))
          else List.filter (fun r => decide (countId idx r.id ≤ 1)) (idx.get t)).Perm
            (List.filter (fun r => decide (countId idx r.id ≤ 1)) (idx.get t)) := by
        split
        · exact optimizeRules_perm_of_none _ (fun r hr => hsel t r (List.mem_filter.1 hr).1)
        · exact List.Perm.refl _
      rw [List.mem_append, hperm.mem_iff]
      simp only [List.mem_filter, decide_eq_true_eq]
      constructor
      · rintro (⟨h, _⟩ | ⟨h, _⟩) <;> exact h
      · intro h
        by_cases hc : countId idx x.id ≤ 1
        · exact Or.inl ⟨h, hc⟩
        · exact Or.inr ⟨h, by omega⟩
    constructor
    · rintro ⟨t, ht, hx, hok⟩; exact ⟨t, ht, (hb t f).1 hx, hok⟩
    · rintro ⟨t, ht, hx, hok⟩; exact ⟨t, ht, (hb t f).2 hx, hok⟩

end Adb.Net
