#!/bin/bash
# MANIFEST.setup_cmd: build the framework from files on disk only (offline).
set -e
cd "$(dirname "$0")"
export CARGO_NET_OFFLINE=true
python3 tools/extract_tables.py
(cd lean && lake build Adb adbdrv Audit)
[ -f harness/Cargo.lock ] || cp /repo/Cargo.lock harness/Cargo.lock
(cd harness && cargo build --release --offline)
# the thread-safe configuration of the same harness (C19)
(cd harness && cargo build --release --offline --no-default-features --target-dir target-sync)
echo setup-ok
