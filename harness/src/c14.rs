//! C14: removeparam rewrites.
use crate::net::*;
use crate::util::*;
use adblock::filters::network::NetworkFilterMask as M;
use adblock::request::Request;
use adblock::Engine;
use serde_json::json;

const KEYS: &[&str] = &["utm", "utm_source", "a", "b", "fbclid", "k", "", "Utm", "a-b", "k_1", "\u{e9}"];
const VALS: &[&str] = &["1", "", "x=y", "v", "%20", "\u{fc}", "=", "#", "jane@mail.test", "@b.net", "x@a.com:1"];
const HOSTS: &[&str] = &["a.com", "sub.a.com", "b.net", "utm.org"];

fn query(r: &mut Rng) -> String {
    let n = r.below(5);
    let mut segs = vec![];
    for _ in 0..n {
        let k = r.pick(KEYS);
        match r.below(6) {
            0 => segs.push(k.to_string()),
            1 => segs.push(String::new()),
            _ => {
                let v = r.pick(VALS);
                let v = if v == "#" { "" } else { v };
                segs.push(format!("{}={}", k, v))
            }
        }
    }
    segs.join("&")
}

pub fn gen_url(r: &mut Rng) -> String {
    let mut host = r.pick(HOSTS).to_string();
    let mut scheme = r.pick(&["https", "http", "https", "wss"]).to_string();
    // non-normalised spellings: the rewrite must be based on the URL as the caller passed it
    match r.below(12) {
        0 => host = host.to_uppercase(),
        1 => scheme = scheme.to_uppercase(),
        2 => host = format!("b\u{fc}cher.{}", host),
        3 => host = format!("user@{}:8080", host),
        4 => host = format!("Sub.{}", host),
        _ => {}
    }
    let mut u = format!("{}://{}/{}", scheme, host, r.pick(&["", "p", "p/q.html", "utm", "P/Q", "out%20link", "out", "p%2Fq", "out/p"]));
    if r.pct(15) {
        // no path at all: the query follows the host directly
        u = format!("{}://{}", scheme, host);
    }
    match r.below(10) {
        0 => {}
        1 => u.push('?'),
        2 if r.pct(50) => {
            // a long query: the parameter in question comes after 64-110 other tokens (the property's domain
            // ends at 127 tokens per URL; everything below that must still be found)
            u.push('?');
            let fill = 32 + r.below(22);
            let filler: Vec<String> = (0..fill).map(|i| format!("k{}=v{}", 10 + i, 10 + i)).collect();
            u.push_str(&filler.join("&"));
            u.push('&');
            u.push_str(&query(r));
        }
        _ => {
            u.push('?');
            u.push_str(&query(r));
        }
    }
    match r.below(6) {
        0 => u.push('#'),
        1 => u.push_str("#frag"),
        2 => {
            u.push_str("#f?");
            u.push_str(&query(r));
        }
        3 => {
            // '#' before any '?'
            if let Some(i) = u.find('?') {
                if r.pct(50) {
                    u.insert_str(i, "#x");
                }
            }
        }
        _ => {}
    }
    if r.pct(5) {
        u.push_str("?z=1");
    }
    u
}

fn gen_rule(r: &mut Rng) -> String {
    // (names are ASCII letters, digits, `_`, `-`; anything else makes the rule an error, digits of other scripts included)
    let name = r.pick(&["utm", "utm_source", "a", "b", "fbclid", "k", "Utm", "a-b", "k_1", "utm", "a", "k", "id\u{ff12}", "k\u{663}", "\u{e9}t\u{e9}", "a.b", "a b", "k=1"]);
    let pat = match r.below(9) {
        // a word followed by a separator: `%` (as in `/out%20link`) is not one, and the rule is found under another
        // token when two rules share the word
        7 => format!("||{}/out^", r.pick(HOSTS)),
        8 => r.pick(&["/out^", "/p^", "||*out^*p"]).to_string(),
        0 | 1 => "*".to_string(),
        2 => format!("||{}^", r.pick(HOSTS)),
        3 => "/p".to_string(),
        4 => format!("||{}/p", r.pick(HOSTS)),
        5 => "".to_string(),
        _ => "utm".to_string(),
    };
    let mut opts = vec![format!("removeparam={}", name)];
    if r.pct(15) {
        opts.push(r.pick(&["xhr", "document", "script", "~xhr", "subdocument", "image", "frame", "doc", "~subdocument", "~document", "subdocument,script"]).to_string());
    }
    if r.pct(10) {
        opts.push(format!("domain={}", r.pick(HOSTS)));
    }
    if r.pct(8) {
        opts.push("important".into());
    }
    if r.pct(8) {
        opts.push(r.pick(&["third-party", "~third-party"]).to_string());
    }
    if r.pct(50) {
        opts.reverse();
    }
    format!("{}${}", pat, opts.join(","))
}

fn gen_other(r: &mut Rng) -> String {
    match r.below(4) {
        0 => format!("||{}^$important", r.pick(HOSTS)),
        1 => format!("||{}^", r.pick(HOSTS)),
        2 => format!("@@||{}^", r.pick(HOSTS)),
        _ => "/p$important,xhr".to_string(),
    }
}

pub fn run(seed: u64, n: usize, out: &mut Out) {
    let mut r = Rng::new(seed);
    crate::c12::type_table_oracle(out);
    for _ in 0..n {
        let nr = 1 + r.below(4);
        let mut lines: Vec<String> = (0..nr).map(|_| gen_rule(&mut r)).collect();
        if r.pct(25) {
            lines.push(gen_other(&mut r));
        }
        // rules without a pattern that list several initiators are stored once per initiator: each must reach them,
        // also when the rule arrives through `add_filter` after the buckets exist
        let mut aimed_src: Vec<String> = vec![];
        if r.pct(30) {
            let (d1, d2) = (r.pick(HOSTS).to_string(), r.pick(HOSTS).to_string());
            if d1 != d2 {
                lines.push(format!("$removeparam={},domain={}", r.pick(&["aa", "utm"]), d1));
                lines.push(format!("$removeparam={},domain={}", r.pick(&["bb", "fbclid"]), d2));
                lines.push(format!("$removeparam={},domain={}|{}", r.pick(&["a", "b", "k"]), d1, d2));
                aimed_src = vec![format!("https://{}/", d1), format!("https://{}/", d2)];
            }
        }
        crate::c11::emit_plines(out, &lines);
        let optimize = r.pct(50);
        let engine = if r.pct(35) && lines.len() > 1 {
            // the same list, the last rules added one by one
            let cut = 1 + r.below(lines.len() - 1);
            let cut = if aimed_src.is_empty() { cut } else { lines.len() - 1 };
            let mut e = Engine::from_rules_parametrised(&lines[..cut], Default::default(), true, optimize);
            for l in &lines[cut..] {
                if let Some(f) = parse_net(l, true) {
                    let _ = e.verif_blocker_mut().add_filter(f);
                }
            }
            out.bump("c14_incremental_engines");
            e
        } else {
            Engine::from_rules_parametrised(&lines, Default::default(), true, optimize)
        };
        let mut rules = parse_all(&lines);
        for _ in 0..4 {
            let url = gen_url(&mut r);
            let src = match r.below(4) {
                _ if !aimed_src.is_empty() => aimed_src.pop().unwrap(),
                0 => String::new(),
                1 => url.clone(),
                _ => format!("https://{}/", r.pick(HOSTS)),
            };
            let ty = r.pick(&["xhr", "document", "script", "subdocument", "image", "other", "sub_frame", "main_frame", "xmlhttprequest", "stylesheet", "websocket"]);
            let req = match Request::new(&url, &src, ty) {
                Ok(q) => q,
                Err(_) => continue,
            };
            // which rules apply is decided from the request as the crate read it: the reading itself is compared with the model's
            crate::c12::emit_url_case(out, &url);
            let res = engine.check_network_request(&req);
            let mut names = vec![];
            let mut important = false;
            for pr in rules.iter_mut() {
                let m = pr.matches(&req);
                // whether a rule applies to the request is the crate's answer: the model answers the same question itself
                if url.is_ascii() && pr.line.is_ascii() {
                    if let Some(q) = make_req(&url, &src, ty) {
                        let op = format!("m1\t{}\t{}", dump_rule(&pr.f, rx_hint(&pr.f, &req)), q.dump);
                        if !out.seen_lines.contains(&op) {
                            out.seen_lines.insert(op.clone());
                            out.case(&op, if m { "1" } else { "0" }, json!({"rule": pr.line, "url": url, "source": src, "type": ty, "rule_applies": m}), m);
                        }
                    }
                }
                if !m {
                    continue;
                }
                if pr.has(M::IS_REMOVEPARAM) {
                    if let Some(o) = pr.f.modifier_option.clone() {
                        names.push(o);
                    }
                } else if pr.has(M::IS_IMPORTANT) && !pr.has(M::IS_EXCEPTION) && !pr.has(M::IS_CSP) && !pr.has(M::GENERIC_HIDE) {
                    important = true;
                }
            }
            // the engine only evaluates supported schemes
            if !req.is_supported {
                names.clear();
                important = false;
            }
            let op = format!("rp\t{}\t{}\t{}", hex(&url), hex_list(&names), if important { 1 } else { 0 });
            let imp = opt_hex(res.rewritten_url.as_deref());
            let desc = json!({"rules": lines, "url": url, "source": src, "type": ty, "matching_names": names, "important": important, "impl_rewritten": res.rewritten_url});
            let nontrivial = !names.is_empty() && url.contains('?');
            out.bump(if res.rewritten_url.is_some() { "rewritten" } else { "not_rewritten" });
            if important {
                out.bump("important_blocked");
            }
            if url.contains('#') {
                out.bump("url_with_fragment");
            }
            if url.chars().any(|c| c.is_ascii_uppercase()) {
                out.bump("url_with_uppercase");
            }
            if !url.is_ascii() {
                out.bump("non_ascii_url");
            }
            out.case(&op, &imp, desc, nontrivial);
        }
    }
}
