//! Rule text -> parsed rule: `NetworkFilter::parse` against the Lean parser model (serves C02, C03, C11).
use crate::gen;
use crate::net::*;
use crate::util::*;
use adblock::filters::cosmetic::CosmeticFilter;
use adblock::filters::network::NetworkFilter;
use adblock::lists::{parse_filter, parse_filters, read_list_metadata, ExpiresInterval, FilterFormat, FilterListMetadata, FilterParseError, FilterSet, ParseOptions, ParsedFilter, RuleTypes};
use adblock::resources::PermissionMask;
use adblock::Engine;
use serde_json::json;

pub fn option_soup(r: &mut Rng) -> String {
    let atoms = ["script", "~script", "image", "~image", "media", "object", "object-subrequest", "other", "ping", "beacon", "stylesheet", "css", "~css", "subdocument", "frame", "xmlhttprequest", "xhr", "~xhr", "websocket", "~websocket", "font", "document", "doc", "~document",
        "third-party", "3p", "~third-party", "~3p", "first-party", "1p", "~1p", "important", "~important", "match-case", "~match-case", "badfilter", "~badfilter", "generichide", "ghide",
        "domain=a.com", "domain=a.com|~b.a.com", "from=~x.org", "domain=", "domain=/re/|a.com", "domain=/re/", "domain=A.com|a.com|a.com", "domain=~a.com|~a.com",
        "tag=t1", "tag=", "~tag=x", "redirect=a.js", "redirect=", "redirect-rule=a.js:5", "~redirect=x", "csp=x", "csp", "~csp=x", "removeparam=utm", "removeparam=", "removeparam=/re/", "~removeparam=x", "removeparam=a b",
        "unknown-option", "", "~", "~~script", "script=1", "popup", "all", "inline-script"];
    let n = 1 + r.below(4);
    (0..n).map(|_| r.pick(&atoms).to_string()).collect::<Vec<_>>().join(",")
}

pub fn pattern_soup(r: &mut Rng) -> String {
    let pre = r.pick(&["", "", "@@", "|", "||", "@@||", "@@|", "|||", "@"]).to_string();
    let body = match r.below(12) {
        0 => gen::pat(r),
        1 => format!("{}{}", gen::host(r), gen::pat(r)),
        2 => r.pick(&["ws://", "http://", "https://", "http*://", "https://x", "HTTPS://"]).to_string(),
        3 => format!("{}^", gen::host(r)),
        4 => format!("www.{}/x", gen::host(r)),
        5 => format!("www.www.{}", gen::host(r)),
        6 => r.pick(&["*", "**", "^", "^^", "*^", "^*", "", "/", "//", "/x/", "/^x$/", "/a|b/"]).to_string(),
        7 => format!("*{}*", gen::pat(r)),
        8 => format!("{}*", gen::host(r)),
        9 => format!("EXAMPLE.com/Path{}", gen::pat(r)),
        10 => format!("{}:8080/", gen::host(r)),
        _ => format!("{}{}", r.pick(&[".", "-", "*.", "^"]), gen::host(r)),
    };
    let post = r.pick(&["", "", "", "|", "||", "*", "^", "^|"]).to_string();
    format!("{}{}{}", pre, body, post)
}

pub fn run_parse(seed: u64, n: usize, out: &mut Out) {
    let mut r = Rng::new(seed ^ 0x11);
    let o = gen::RuleOpts { extra: true, full_regex: true };
    for _ in 0..n {
        let line = match r.below(4) {
            0 => gen::rule(&mut r, &o),
            1 => {
                let c = gen::cluster(&mut r, &gen::ALL_ON);
                c[r.below(c.len())].clone()
            }
            _ => {
                let p = pattern_soup(&mut r);
                if r.pct(60) { format!("{}${}", p, option_soup(&mut r)) } else { p }
            }
        };
        if !line.is_ascii() {
            continue;
        }
        let res = guarded(|| NetworkFilter::parse(&line, false, Default::default()));
        let imp = match &res {
            Ok(Ok(f)) => dump_rule(f, false),
            Ok(Err(e)) => format!("ERR:{:?}", e),
            Err(p) => format!("PANIC:{}", p),
        };
        if let Err(p) = &res {
            out.fail("parse-panicked", None, json!({"line": line, "panic": p}));
        }
        out.bump(if imp.starts_with("ERR:") { "rejected" } else { "accepted" });
        out.case(&format!("parse\t{}", hex(&line)), &imp, json!({"line": line, "impl": imp.chars().take(120).collect::<String>()}), !imp.starts_with("ERR:"));
    }
}

// ---------------------------------------------------------------------------------------------
// C11 proper: parse_filter (both formats, all rule-type options), lists, metadata, totality
// ---------------------------------------------------------------------------------------------

const FORMATS: [(char, FilterFormat); 2] = [('S', FilterFormat::Standard), ('H', FilterFormat::Hosts)];
const RTYPES: [(char, RuleTypes); 3] = [('A', RuleTypes::All), ('N', RuleTypes::NetworkOnly), ('C', RuleTypes::CosmeticOnly)];
const WS: &[&str] = &[" ", " ", "\t", "  ", "\u{a0}", "\u{3000}", "\u{2003}", "\u{85}", "\r", "\u{b}", "\u{c}", "\u{1680}", "\u{2028}", "\u{202f}", "\u{205f}", "\u{200b}", "\u{feff}"];
const MB: &[&str] = &["\u{e9}", "\u{20ac}", "\u{1f600}", "\u{a0}", "\u{3000}", "$", "#", "|", ",", "~", "@", "!", "[", "*", "^", "/", "=", ":", "(", ")", "\\", "\"", " ", ".", "+", "\u{130}", "\u{df}"];

fn opts(f: FilterFormat, t: RuleTypes, perm: u8) -> ParseOptions {
    ParseOptions { format: f, rule_types: t, permissions: PermissionMask::from_bits(perm) }
}

/// canonical outcome of `parse_filter` for one line
/// Lines the parser model is compared on: ASCII lines, and lines whose only non-ASCII text is the value of a
/// `removeparam=` option (host names and `domain=` values need IDNA, which is external to the model)
pub fn model_comparable(line: &str) -> bool {
    if line.is_ascii() {
        return true;
    }
    match line.rfind('$') {
        Some(d) if line[..d].is_ascii() => line[d + 1..].split(',').all(|o| o.is_ascii() || (o.starts_with("removeparam=") && o["removeparam=".len()..].chars().all(|c| c != '|'))),
        _ => false,
    }
}

pub fn show_pline(line: &str, f: FilterFormat, t: RuleTypes) -> Result<String, String> {
    let ascii = model_comparable(line);
    let l2 = line.to_string();
    let res = guarded(move || parse_filter(&l2, false, opts(f, t, 0)))?;
    Ok(match res {
        Ok(ParsedFilter::Network(nf)) => if ascii { format!("N:{}", dump_rule(&nf, false)) } else { "NET".into() },
        Ok(ParsedFilter::Cosmetic(_)) => "C".into(),
        Err(FilterParseError::Network(e)) => if ascii { format!("E:{:?}", e) } else { "NET".into() },
        Err(FilterParseError::Cosmetic(_)) => "C".into(),
        Err(FilterParseError::Unsupported) => "X:Unsupported".into(),
        Err(FilterParseError::Empty) => "X:Empty".into(),
    })
}

/// The parse of every rule line a network-property run uses is compared with the model's parse
/// (once per distinct line): a parser change that alters a rule's flags, types, scheme or domain
/// lists is then reported by the check of whatever property the run belongs to, not only by C11.
pub fn emit_plines(out: &mut Out, lines: &[String]) {
    for line in lines {
        if !model_comparable(line) || line.contains('\n') || out.seen_lines.contains(line) {
            continue;
        }
        out.seen_lines.insert(line.clone());
        let imp = match show_pline(line, FilterFormat::Standard, RuleTypes::All) {
            Ok(s) => s,
            Err(p) => {
                out.fail("parse-panicked", None, json!({"api": "parse_filter", "line": line, "panic": p}));
                continue;
            }
        };
        let kind = imp.split(':').next().unwrap_or("").to_string();
        out.bump(&format!("rule_line_parse:{}", kind));
        out.case(&format!("pline\tS\tA\t{}", hex(line)), &imp, json!({"op": "rule-line-parse", "line": line, "impl": imp.chars().take(100).collect::<String>()}), kind == "N");
    }
}

/// The cosmetic counterpart of `emit_plines`: the parse of every distinct ASCII cosmetic rule line a run
/// uses is compared with the model's cosmetic parser.
pub fn emit_cplines(out: &mut Out, lines: &[String]) {
    for line in lines {
        if !line.is_ascii() || !line.contains('#') || line.contains('\n') || line.trim() != line || out.seen_lines.contains(line) {
            continue;
        }
        // only lines the list loader hands to the cosmetic parser
        match parse_filter(line, false, opts(FilterFormat::Standard, RuleTypes::All, 0)) {
            Ok(ParsedFilter::Cosmetic(_)) | Err(FilterParseError::Cosmetic(_)) => {}
            _ => continue,
        }
        out.seen_lines.insert(line.clone());
        let l2 = line.clone();
        let imp = match guarded(move || CosmeticFilter::parse(&l2, false, PermissionMask::from_bits(0))) {
            Ok(Ok(f)) => show_cosmetic(&f),
            Ok(Err(e)) => format!("ERR:{:?}", e),
            Err(p) => {
                out.fail("parse-panicked", None, json!({"api": "CosmeticFilter::parse", "line": line, "panic": p}));
                continue;
            }
        };
        out.bump(if imp.starts_with("ERR:") { "rule_line_cparse:rejected" } else { "rule_line_cparse:accepted" });
        out.case(&format!("cparse\t{}", hex(line)), &imp, json!({"op": "rule-line-parse", "line": line, "impl": imp.chars().take(120).collect::<String>()}), !imp.starts_with("ERR:"));
    }
}

fn hosts_line(r: &mut Rng) -> String {
    let h = match r.below(16) {
        0 => "localhost".to_string(),
        1 => format!("www.{}", gen::host(r)),
        2 => format!("WWW.{}", gen::host(r).to_uppercase()),
        3 => format!("www.www.{}", gen::host(r)),
        4 => r.pick(&[".com", "com", "a.", ".a.com", "..", ".", "a..b", "-a.com", "a_b.com", "a/b.com", "a.com/", "a.com:80", "a b.com", "[::1]", "a.com^", "||a.com^", "a.com$script", "*.a.com", "b\u{fc}cher.example", "\u{43f}\u{440}.\u{440}\u{444}", "xn--bcher-kva.example", "B\u{dc}CHER.example", "a\u{a0}b.com", "a,b.com", "www.", "www.com", "wwww.a.com"]).to_string(),
        5 => gen::host(r).to_uppercase(),
        _ => gen::host(r),
    };
    let ip = r.pick(&["127.0.0.1", "0.0.0.0", "::1", "0", "::", "fe80::1%lo0", "127.0.0.1 extra"]).to_string();
    let sep = r.pick(WS).to_string();
    let mut l = match r.below(8) {
        0 | 1 => h,
        2 => format!("{}{}{} x", ip, sep, h),
        _ => format!("{}{}{}", ip, sep, h),
    };
    match r.below(10) {
        0 => l.push_str(" # comment"),
        1 => l.push_str("#comment"),
        2 => l = format!("# {}", l),
        3 => l = format!("!{}", l),
        4 => l = format!("{}#", l),
        _ => {}
    }
    l
}

fn special_line(r: &mut Rng) -> String {
    r.pick(&["! comment", "!", "! Title: x", "[Adblock Plus 2.0]", "[Adblock", "[Adblocker]/x", "[ads]/banner_", "[x", "# comment", "#", "#\tx", "#\u{a0}x", "#\u{3000}", "#x", "##", "###", "##.ad", "#@#.ad", "#?#.ad", "a", "|", "!", "@", "",
        " ", "\t", "\u{3000}", "$$", "a$$b", "example.org$$script[data-src=\"banner\"]", "a.com#?#x", "a.com#$#x", "a.com#%#x", "a.com#@$#x", "a###x", "a#b#c", "a#1234#", "a#123#", "a#12#", "a#\u{e9}1#", "a#\u{e9}\u{e9}#", "a#\u{20ac}#", "a#\u{20ac}1#", "a#\u{1f600}#", "a#\u{1f600}", "x#",
        "#a#", "a.com##", "a.com## ", "||a.com^$$", "@@|x", "@@", "@@|", "||", "|x|", "a.com##+js()", "a.com##+js(x", "a.com#@#+js()", "a.com##^script", "a.com##^script:has-text(x)", "*##.x", "~a.com##.x", "a.*##.x", "a.com,b.com#@#.x", "a.com##.x:style()", "a.com##:remove()", "\u{e9}", "\u{a0}a", "a.com## .x", "a.com##.x, .y", "a.com##body > #x:not(.y)", "a.com#!#x", "127.0.0.1 a.com"]).to_string()
}

fn mutate(r: &mut Rng, s: &str) -> String {
    let mut cs: Vec<char> = s.chars().collect();
    for _ in 0..1 + r.below(2) {
        let n = cs.len();
        match r.below(6) {
            0 | 1 => {
                let ins: Vec<char> = r.pick(MB).chars().collect();
                let at = r.below(n + 1);
                for (k, c) in ins.into_iter().enumerate() {
                    cs.insert(at + k, c);
                }
            }
            2 if n > 0 => {
                cs.remove(r.below(n));
            }
            3 if n > 1 => {
                let a = r.below(n);
                let b = a + r.below(n - a);
                let seg: Vec<char> = cs[a..=b.min(n - 1)].to_vec();
                let at = r.below(n + 1);
                for (k, c) in seg.into_iter().enumerate() {
                    cs.insert(at + k, c);
                }
            }
            4 if n > 0 => {
                cs.truncate(r.below(n));
            }
            _ if n > 1 => {
                let a = r.below(n);
                let b = r.below(n);
                cs.swap(a, b);
            }
            _ => {}
        }
    }
    cs.into_iter().filter(|c| *c != '\n').collect()
}

pub fn any_line(r: &mut Rng, scripts: &[String]) -> String {
    let base = match r.below(12) {
        0 | 1 => gen::rule(r, &gen::RuleOpts { extra: true, full_regex: true }),
        2 => {
            let p = pattern_soup(r);
            if r.pct(60) { format!("{}${}", p, option_soup(r)) } else { p }
        }
        3 | 4 if r.pct(12) => r.pick(&["##.promo\\\u{e9} > div", "###box\\\u{5e7f}\u{544a}", "##.a\\\u{1f600}b", "##.x\\\u{301}", "###\\\u{e9}", "##.\\\u{5e7f}", "a.com##.k\\\u{e9}", "##.caf\u{e9}\\ x", "##.\u{65e5}\u{672c}\u{8a9e}", "###\u{5e83}\u{544a} > div", "##.a\u{e9}-box .inner"]).to_string(),
        3 | 4 => crate::cosm::gen_rule(r, scripts),
        5 | 6 => hosts_line(r),
        7 | 8 => special_line(r),
        9 => format!("{}{}", r.pick(&["[", "[x]", "!", "#", "# ", "@@", "@@|", "|", "$", "$$", "~", "+", "a#", "a##", "\u{e9}"]), gen::rule(r, &gen::RuleOpts { extra: false, full_regex: false })),
        _ => gen::host(r),
    };
    let base = if r.pct(25) { mutate(r, &base) } else { base };
    let base: String = base.chars().filter(|c| *c != '\n').collect();
    match r.below(8) {
        0 => format!("{}{}", r.pick(WS), base),
        1 => format!("{}{}", base, r.pick(WS)),
        2 => format!("{}{}{}", r.pick(WS), base, r.pick(WS)),
        _ => base,
    }
}

fn run_lines(seed: u64, n: usize, out: &mut Out) {
    let mut r = Rng::new(seed ^ 0x1111);
    let scripts = crate::cosm::script_pool();
    for _ in 0..n {
        let line = any_line(&mut r, &scripts);
        let (fc, f) = FORMATS[if r.pct(35) { 1 } else { 0 }];
        let (tc, t) = RTYPES[r.below(3)];
        let imp = match show_pline(&line, f, t) {
            Ok(s) => s,
            Err(p) => {
                out.fail("parse-panicked", None, json!({"api": "parse_filter", "line": line, "format": fc.to_string(), "rule_types": tc.to_string(), "panic": p}));
                "PANIC".to_string()
            }
        };
        let kind = imp.split(':').next().unwrap_or("").to_string();
        out.bump(&format!("pline:{}{}:{}", fc, tc, kind));
        out.case(&format!("pline\t{}\t{}\t{}", fc, tc, hex(&line)), &imp, json!({"line": line, "format": fc.to_string(), "rule_types": tc.to_string(), "impl": imp.chars().take(100).collect::<String>()}), kind == "N" || kind == "C" || kind == "NET");
    }
}

fn show_meta(m: &FilterListMetadata) -> String {
    let e = match &m.expires {
        None => "-".to_string(),
        Some(ExpiresInterval::Hours(h)) => format!("H{}", h),
        Some(ExpiresInterval::Days(d)) => format!("D{}", d),
    };
    format!("{};{};{};{}", opt_hex(m.homepage.as_deref()), opt_hex(m.title.as_deref()), e, opt_hex(m.redirect.as_deref()))
}

fn header_line(r: &mut Rng) -> String {
    let amounts = ["5", "1", "0", "14", "15", "336", "337", "05", "+5", "-1", "", "256", "65535", "65536", "99999999999", "5.5", "\u{663}", "1e1", " 5", "4 "];
    let units = ["days", "day", "hours", "hour", "Days", "weeks", "", "days (update frequency)", "hours,", "d"];
    match r.below(14) {
        0 | 1 => format!("! Expires: {} {}", r.pick(&amounts), r.pick(&units)),
        2 => format!("! Expires: {}{}", r.pick(&amounts), r.pick(&units)),
        3 => format!("! Title: {}", r.pick(&["Foo", "Bar list", "a: b", "", " x", "\u{e9}t\u{e9}", "x\r"])),
        4 => format!("! Homepage: {}", r.pick(&["http://x.example", "https://y.example/list", ""])),
        5 => format!("! Redirect: {}", r.pick(&["http://r.example/l.txt", "x"])),
        6 => r.pick(&["!Title: x", "! Title:x", "!  Title: x", "! title: x", "! Title : x", "!", "! ", "! :", "! : ", "! Title", "! Version: 1", "! Last modified: 1 Jan", "!\tTitle: x", "! Expires: 2 days: 3 days", "! Title: first", "! Title: second"]).to_string(),
        7 => r.pick(&["[Adblock Plus 2.0]", "[uBlock Origin]", "[", "[Adblock Plus 2.0]\r"]).to_string(),
        8 => r.pick(&["", " ", "\r", "||rule.example^", "a.com##.x", "127.0.0.1 h.example", "#comment", " ! Title: indented"]).to_string(),
        9 => format!("! {}", "\u{e9}".repeat(r.below(40))),
        10 => format!("! {}", "pad ".repeat(r.below(120))),
        _ => format!("! Expires: {} days", 1 + r.below(20)),
    }
}

fn run_meta(seed: u64, n: usize, out: &mut Out) {
    let mut r = Rng::new(seed ^ 0x2222);
    for k in 0..n {
        let nl = 1 + r.below(8);
        let mut text = String::new();
        if k % 5 == 0 {
            // make the 1024-byte cut-off fall inside / next to a multi-byte character and inside a metadata line
            let pad = 1024 - 12 - r.below(8);
            text.push_str("! ");
            text.push_str(&"x".repeat(pad.saturating_sub(2 + 1 + r.below(30))));
            text.push('\n');
            text.push_str(&format!("! Title: {}{}\n", r.pick(&["ab", "\u{e9}\u{e9}\u{e9}\u{e9}", "\u{20ac}\u{20ac}\u{20ac}", "\u{1f600}\u{1f600}", "a\u{1f600}b\u{20ac}"]), "z".repeat(r.below(6))));
        }
        for i in 0..nl {
            text.push_str(&header_line(&mut r));
            if i + 1 < nl || r.pct(70) {
                text.push_str(r.pick(&["\n", "\n", "\n", "\r\n", "\n\n", "\r"]));
            }
        }
        let t2 = text.clone();
        match guarded(move || show_meta(&read_list_metadata(&t2))) {
            Ok(imp) => {
                let nt = imp != "-;-;-;-";
                out.case(&format!("meta\t{}", hex(&text)), &imp, json!({"api": "read_list_metadata", "text": text, "impl": imp}), nt);
            }
            Err(p) => out.fail("parse-panicked", None, json!({"api": "read_list_metadata", "text": text, "panic": p})),
        }
        let t3 = text.clone();
        match guarded(move || {
            let mut fs = FilterSet::new(false);
            show_meta(&fs.add_filter_list(&t3, Default::default()))
        }) {
            Ok(imp) => {
                let nt = imp != "-;-;-;-";
                out.case(&format!("lmeta\t{}", hex(&text)), &imp, json!({"api": "add_filter_list metadata", "text": text, "impl": imp}), nt);
            }
            Err(p) => out.fail("parse-panicked", None, json!({"api": "add_filter_list", "text": text, "panic": p})),
        }
    }
}

fn dump_parsed(net: &[NetworkFilter], cos: &[CosmeticFilter]) -> Vec<String> {
    let mut v: Vec<String> = net.iter().map(|f| format!("N:{}", dump_rule(f, false))).collect();
    v.extend(cos.iter().map(|f| format!("C:{}", crate::cosm::dump_crule(f))));
    v
}

fn engine_bytes(text: &str, o: ParseOptions, optimize: bool) -> Option<Vec<u8>> {
    let mut fs = FilterSet::new(false);
    fs.add_filter_list(text, o);
    Engine::from_filter_set(fs, optimize).serialize_raw().ok()
}

/// list-level oracle: cross-line independence, rule-type options, hosts = `||host^`
fn run_lists(seed: u64, n: usize, out: &mut Out) {
    let mut r = Rng::new(seed ^ 0x3333);
    let scripts = crate::cosm::script_pool();
    for _ in 0..n {
        let (fc, f) = FORMATS[if r.pct(30) { 1 } else { 0 }];
        let (tc, t) = RTYPES[if r.pct(60) { 0 } else { r.below(3) }];
        let perm = *r.pick(&[&0u8, &0u8, &1u8, &255u8]);
        let o = opts(f, t, perm);
        let len = 1 + r.below(14);
        let lines: Vec<String> = (0..len).map(|_| any_line(&mut r, &scripts)).filter(|l| !l.contains('\r')).collect();
        let desc = json!({"format": fc.to_string(), "rule_types": tc.to_string(), "permissions": perm, "lines": lines});
        // per-line outcomes
        let mut per_line: Vec<String> = vec![];
        let mut accepted: Vec<String> = vec![];
        let mut panicked = false;
        for l in &lines {
            let l2 = l.clone();
            match guarded(move || parse_filter(&l2, false, o)) {
                Ok(Ok(ParsedFilter::Network(nf))) => {
                    per_line.push(format!("N:{}", dump_rule(&nf, false)));
                    accepted.push(l.clone());
                }
                Ok(Ok(ParsedFilter::Cosmetic(cf))) => {
                    per_line.push(format!("C:{}", crate::cosm::dump_crule(&cf)));
                    accepted.push(l.clone());
                }
                Ok(Err(_)) => {}
                Err(p) => {
                    panicked = true;
                    out.fail("parse-panicked", None, json!({"api": "parse_filter", "line": l, "case": desc, "panic": p}));
                }
            }
        }
        if panicked {
            continue;
        }
        let rejected = lines.len() - accepted.len();
        out.add("list_lines", lines.len() as u64);
        out.add("list_lines_rejected", rejected as u64);
        // (1) the list parser returns exactly the per-line results, network rules first then cosmetic, in order
        let ls = lines.clone();
        let whole = match guarded(move || parse_filters(&ls, false, o)) {
            Ok((nf, cf)) => dump_parsed(&nf, &cf),
            Err(p) => {
                out.fail("parse-panicked", None, json!({"api": "parse_filters", "case": desc, "panic": p}));
                continue;
            }
        };
        let mut expect: Vec<String> = per_line.iter().filter(|x| x.starts_with("N:")).cloned().collect();
        expect.extend(per_line.iter().filter(|x| x.starts_with("C:")).cloned());
        if whole != expect {
            out.fail("list-differs-from-its-lines", None, json!({"case": desc, "list_result": whole, "line_by_line": expect}));
        }
        // (2) engine(list) == engine(list without the rejected lines), through the text API
        let optimize = r.pct(50);
        let text_all = lines.join("\n");
        let text_acc = accepted.join("\n");
        let (ta, tb) = (text_all.clone(), text_acc.clone());
        match (guarded(move || engine_bytes(&ta, o, optimize)), guarded(move || engine_bytes(&tb, o, optimize))) {
            (Ok(a), Ok(b)) => {
                if a != b {
                    out.fail("engine-changes-when-rejected-lines-are-deleted", None, json!({"case": desc, "accepted_lines": accepted, "optimize": optimize}));
                }
            }
            (Err(p), _) | (_, Err(p)) => {
                out.fail("parse-panicked", None, json!({"api": "add_filter_list/from_filter_set", "case": desc, "panic": p}));
                continue;
            }
        }
        // (3) rule-type options load nothing of the other kind and the same rules of their own kind
        let kinds_n = whole.iter().filter(|x| x.starts_with("N:")).count();
        let kinds_c = whole.len() - kinds_n;
        match t {
            RuleTypes::NetworkOnly if kinds_c > 0 => out.fail("network-only-loaded-a-cosmetic-rule", None, desc.clone()),
            RuleTypes::CosmeticOnly if kinds_n > 0 => out.fail("cosmetic-only-loaded-a-network-rule", None, desc.clone()),
            _ => {}
        }
        if let FilterFormat::Hosts = f {
            if kinds_c > 0 {
                out.fail("hosts-list-loaded-a-cosmetic-rule", None, desc.clone());
            }
        }
        if let RuleTypes::All = t {
            let ls = lines.clone();
            let ls2 = lines.clone();
            let only_n = guarded(move || parse_filters(&ls, false, opts(f, RuleTypes::NetworkOnly, perm))).map(|(a, b)| dump_parsed(&a, &b));
            let only_c = guarded(move || parse_filters(&ls2, false, opts(f, RuleTypes::CosmeticOnly, perm))).map(|(a, b)| dump_parsed(&a, &b));
            if let (Ok(nn), Ok(cc)) = (only_n, only_c) {
                let mut both = nn.clone();
                both.extend(cc.iter().cloned());
                if both != whole {
                    out.fail("all-differs-from-network-only-plus-cosmetic-only", None, json!({"case": desc, "all": whole, "network_only": nn, "cosmetic_only": cc}));
                }
            }
        }
        // (4) hosts entries: the loaded rule is the standard rule `||host^`, and so is the engine
        if let FilterFormat::Hosts = f {
            let mut std_lines: Vec<String> = vec![];
            let mut all_ascii = true;
            for l in &accepted {
                if let Ok(ParsedFilter::Network(nf)) = parse_filter(l, false, o) {
                    let host = nf.hostname.clone().unwrap_or_default();
                    let text = format!("||{}^", host);
                    // independent normalisation for ASCII entries
                    if l.is_ascii() {
                        let field = l.split('#').next().unwrap_or("").split_whitespace().last().unwrap_or("").to_ascii_lowercase();
                        let mut fld = field.as_str();
                        while let Some(x) = fld.strip_prefix("www.") {
                            fld = x;
                        }
                        if fld != host {
                            out.fail("hosts-entry-host-differs-from-its-field", None, json!({"line": l, "rule_hostname": host, "expected": fld}));
                        }
                    }
                    // (non-ASCII entries: IDNA may drop ignorable characters in front of a `www.` label, so the text
                    // that was parsed is not recoverable from the rule; compare everything but the text hash)
                    let strip_id = |d: String| -> String {
                        let mut p: Vec<&str> = d.split(';').collect();
                        if !l.is_ascii() && p.len() > 9 {
                            p[9] = "_";
                        }
                        p.join(";")
                    };
                    if !l.is_ascii() {
                        all_ascii = false;
                    }
                    match parse_filter(&text, false, opts(FilterFormat::Standard, RuleTypes::All, 0)) {
                        Ok(ParsedFilter::Network(sf)) => {
                            if strip_id(dump_rule(&sf, false)) != strip_id(dump_rule(&nf, false)) {
                                out.fail("hosts-entry-differs-from-standard-rule", None, json!({"line": l, "standard_text": text, "hosts_rule": dump_rule(&nf, false), "standard_rule": dump_rule(&sf, false)}));
                            }
                        }
                        _ => out.fail("hosts-entry-differs-from-standard-rule", None, json!({"line": l, "standard_text": text, "standard": "rejected"})),
                    }
                    // behaviour: blocks the host and its subdomains, nothing else
                    let plain_host = !host.is_empty() && host.chars().all(|c| c.is_ascii_lowercase() || c.is_ascii_digit() || c == '.' || c == '-') && !host.starts_with('.') && !host.starts_with('-') && !host.contains("..");
                    let mut pr = PRule { line: l.clone(), f: Box::new(nf), rm: Default::default() };
                    for (u, want) in [(format!("https://{}/x.js", host), true), (format!("http://sub.{}/", host), true), (format!("https://{}.evil.example/", host), false), (format!("https://not{}/", host), false)] {
                        // (hosts whose text occurs earlier inside the probe hostname are the shape of known finding F2 of C02)
                        if !plain_host || format!("sub.{}", host).find(&host) != Some(4) {
                            break;
                        }
                        if let Some(q) = make_req(&u, "https://page.example/", "script") {
                            if pr.matches(&q.req) != want {
                                out.fail("hosts-entry-behaviour", None, json!({"line": l, "url": u, "expected_match": want}));
                            }
                        }
                    }
                    std_lines.push(text);
                }
            }
            if t.loads_network_rules() && all_ascii {
                let (ta, tb) = (text_all.clone(), std_lines.join("\n"));
                let a = guarded(move || engine_bytes(&ta, o, optimize));
                let b = guarded(move || engine_bytes(&tb, opts(FilterFormat::Standard, RuleTypes::All, 0), optimize));
                if let (Ok(a), Ok(b)) = (a, b) {
                    if a != b {
                        out.fail("hosts-engine-differs-from-standard-engine", None, json!({"case": desc, "standard_lines": std_lines}));
                    }
                }
            }
            out.add("hosts_entries_accepted", accepted.len() as u64);
        }
        out.oracle_case(&format!("list|{}{}{}|{}", fc, tc, perm, lines.join("\n")), &desc, !accepted.is_empty() && rejected > 0);
    }
}

/// totality: every API of the family on malformed text, each call under catch_unwind
fn total_one(s: &str, out: &mut Out) {
    for (fc, f) in FORMATS {
        for (tc, t) in RTYPES {
            for perm in [0u8, 255u8] {
                let l = s.to_string();
                if let Err(p) = guarded(move || parse_filter(&l, true, opts(f, t, perm)).is_ok()) {
                    out.fail("parse-panicked", None, json!({"api": "parse_filter", "line": s, "format": fc.to_string(), "rule_types": tc.to_string(), "permissions": perm, "panic": p}));
                }
                out.bump("total:parse_filter_calls");
            }
        }
    }
    let l = s.to_string();
    if let Err(p) = guarded(move || NetworkFilter::parse(&l, true, Default::default()).is_ok()) {
        out.fail("parse-panicked", None, json!({"api": "NetworkFilter::parse", "line": s, "panic": p}));
    }
    let l = s.to_string();
    if let Err(p) = guarded(move || NetworkFilter::parse_hosts_style(&l, true).is_ok()) {
        out.fail("parse-panicked", None, json!({"api": "NetworkFilter::parse_hosts_style", "line": s, "panic": p}));
    }
    for perm in [0u8, 1u8] {
        let l = s.to_string();
        if let Err(p) = guarded(move || CosmeticFilter::parse(&l, true, PermissionMask::from_bits(perm)).is_ok()) {
            out.fail("parse-panicked", None, json!({"api": "CosmeticFilter::parse", "line": s, "permissions": perm, "panic": p}));
        }
    }
    let l = s.to_string();
    if let Err(p) = guarded(move || adblock::resources::verif_parse_scriptlet_args(&l).is_some()) {
        out.fail("parse-panicked", None, json!({"api": "parse_scriptlet_args", "line": s, "panic": p}));
    }
    let l = s.to_string();
    if let Err(p) = guarded(move || read_list_metadata(&l).title.is_some()) {
        out.fail("parse-panicked", None, json!({"api": "read_list_metadata", "text": s, "panic": p}));
    }
    out.add("total:other_parser_calls", 6);
}

fn run_total(seed: u64, n: usize, out: &mut Out) {
    let mut r = Rng::new(seed ^ 0x4444);
    let scripts = crate::cosm::script_pool();
    // bases: real rules from the repository's sample list plus generated lines
    let mut bases: Vec<String> = vec![];
    if let Ok(t) = std::fs::read_to_string("/repo/data/slim-list.txt") {
        let ls: Vec<&str> = t.lines().filter(|l| !l.is_empty() && l.len() < 90).collect();
        if !ls.is_empty() {
            for _ in 0..n / 2 {
                bases.push(ls[r.below(ls.len())].to_string());
            }
            out.add("total:real_rule_bases", (n / 2) as u64);
        }
    }
    while bases.len() < n {
        bases.push(any_line(&mut r, &scripts));
    }
    bases.extend(["a.com##+js(a, b\\, c, 'd, e', \"f\\\"g\", `h`)", "a.com,~b.a.com,c.*##.x:style(a: b)", "@@||a.com^$domain=b.com|~c.b.com,redirect=x:5", "a.com##+js(x, /re,x/)", "||a.com^$removeparam=/^x/,domain=\u{e9}.com", "*$csp=script-src 'self' *", "/^https?:\\/\\/x[0-9]+/$match-case"].iter().map(|s| s.to_string()));
    for b in &bases {
        total_one(b, out);
        let cs: Vec<char> = b.chars().collect();
        // a multi-byte / special character at every offset
        let ins_set: Vec<&str> = if cs.len() <= 40 { MB.to_vec() } else { (0..6).map(|_| *r.pick(&MB.iter().collect::<Vec<_>>())).collect() };
        for ins in ins_set {
            for at in 0..=cs.len() {
                let s: String = cs[..at].iter().collect::<String>() + ins + &cs[at..].iter().collect::<String>();
                total_one(&s, out);
            }
        }
        // truncations
        for at in 0..cs.len() {
            let s: String = cs[..at].iter().collect();
            total_one(&s, out);
        }
        out.bump("total:bases");
    }
    // random byte soup that is valid UTF-8
    for _ in 0..n * 4 {
        let k = r.below(24);
        let s: String = (0..k).map(|_| r.pick(MB).to_string()).collect::<Vec<_>>().join(if r.pct(50) { "" } else { "a" });
        total_one(&s, out);
    }
    // the 1024-byte cut-off inside a multi-byte character, at every phase
    for pad in 1015..1030 {
        for mb in ["\u{e9}", "\u{20ac}", "\u{1f600}"] {
            let text = format!("! {}\n! Title: {}{}\n||x^\n", "x".repeat(pad - 12), mb.repeat(8), "t");
            let t2 = text.clone();
            if let Err(p) = guarded(move || read_list_metadata(&t2).title.is_some()) {
                out.fail("parse-panicked", None, json!({"api": "read_list_metadata", "text": text, "panic": p}));
            }
            let t3 = format!("{}{}", "x".repeat(pad), mb.repeat(3));
            let t4 = t3.clone();
            if let Err(p) = guarded(move || read_list_metadata(&t4).title.is_some()) {
                out.fail("parse-panicked", None, json!({"api": "read_list_metadata", "text": t3, "panic": p}));
            }
            out.add("total:cutoff_phase_cases", 2);
        }
    }
    out.oracle_case("totality-stream", &json!({"bases": bases.len()}), true);
}

pub fn run(seed: u64, n: usize, out: &mut Out, tier: &str) {
    run_parse(seed, n / 2, out);
    run_lines(seed, n, out);
    run_cparse(seed, n / 2, out);
    run_sargs(seed, n / 4, out);
    run_meta(seed, n / 8, out);
    run_lists(seed, n / 6, out);
    run_total(seed, if tier == "quick" { 60 } else { 1500 }, out);
}

// ---------------------------------------------------------------------------------------------
// the cosmetic rule parser against its Lean model
fn show_cosmetic(f: &CosmeticFilter) -> String {
    use adblock::filters::cosmetic::{CosmeticFilterAction, CosmeticFilterMask};
    let o = |v: &Option<Vec<u64>>| match v {
        None => "-".to_string(),
        Some(v) => format!("+{}", v.iter().map(|x| x.to_string()).collect::<Vec<_>>().join(",")),
    };
    let (ak, aa) = match &f.action {
        None => ("-".to_string(), String::new()),
        Some(CosmeticFilterAction::Remove) => ("Remove".to_string(), String::new()),
        Some(CosmeticFilterAction::Style(a)) => ("Style".to_string(), hex(a)),
        Some(CosmeticFilterAction::RemoveAttr(a)) => ("RemoveAttr".to_string(), hex(a)),
        Some(CosmeticFilterAction::RemoveClass(a)) => ("RemoveClass".to_string(), hex(a)),
    };
    format!(
        "{};{};{};{};{};{};{};{};{}",
        o(&f.entities),
        o(&f.hostnames),
        o(&f.not_entities),
        o(&f.not_hostnames),
        f.mask.contains(CosmeticFilterMask::UNHIDE) as u8,
        f.mask.contains(CosmeticFilterMask::SCRIPT_INJECT) as u8,
        hex(f.plain_css_selector().unwrap_or("<procedural>")),
        ak,
        aa
    )
}

fn cosmetic_line(r: &mut Rng, scripts: &[String]) -> String {
    let base = match r.below(10) {
        0 | 1 => r.pick(&["a.com,~b.com##.x", "a.*##.x", "~a.*##.x", "a.*,b.com##.x", "/re/##.x", "a.com,/re/##.x", ",a.com,,##.x", "~a.com##.x", "~a.com,~b.com##.x", "a.com#@#.x", "~a.com#@#.x", "##.x", "#@#.x", "a.com##.x:has(.y)", "a.com##+js(f1)", "a.com##.x:style(a: b)", "a.com##.x:remove()", "A.COM##.X", "~##.x", ".*##.x", "a.com.*##.x",
            "[$path=/x]a.com##.y", "a.com#?#.x", "a.com#@?#.x", "a.com#$#.x", "a.com#%#x", "a.com#@%#x", "a.com#@$#x", "a.com#x#.y", "a.com#", "a.com##", "a.com## ", "a.com##\u{a0}", "a.com##^script", "a.com##^script:has-text(x)", "##^x", "a.com##+js()", "a.com##+js( )", "##+js(f1)", "#@#+js()", "a.com#@#+js()", "a.com##+js(f1", "a.com##+js",
            "a.com##.x:style(", "a.com##.x:style()", "a.com##.x:style(a:b) ", "a.com##.x:style(a:b)x", "a.com##.x:remove-attr(y)", "a.com##.x:remove-attr(/y/)", "a.com##.x:remove-attr(\"y\")", "a.com##.x:remove-attr('y')", "a.com##.x:remove-class(y)", "a.com##.x:remove-class(/y/)", "a.com##:remove()", "##.x:remove()", "##.x:style(a: b)", "a.com##.x:style(a):remove-attr(b)", "a.com##.x:remove-attr(b):style(a)", "a.com#@#.x:style(a: b)", "~a.com#@#.x",
            "a.com##+js(f1, \"a, b\", c)", "a.com##+js(f1, \"a)", "a.com##+js(f1, \"a\" b)", "a.com##+js(f1, 'a' , c)", "a.com##+js(f1, a\\, b)", "a.com##+js(f1, `x`)", "a.com##+js(f1,)", "a.com##+js(f1, )", "a.com##+js(,)", "a.com##+js(\"a\" )", "a.com##+js(\"a\\\"b\")"]).to_string(),
        2 | 3 | 4 => crate::cosm::gen_rule(r, scripts),
        5 => format!("{}##+js({})", r.pick(&["a.com", "a.com,b.com", "~a.com", "a.*"]), sarg_soup(r)),
        _ => {
            let loc = (0..r.below(4)).map(|_| r.pick(&["a.com", "~b.com", "c.*", "~d.*", "/re/", "", "sub.a.com", "A.com", "~", ".*", "x", "10.0.0.1"]).to_string()).collect::<Vec<_>>().join(",");
            let sep = r.pick(&["##", "#@#", "#?#", "#@?#", "#$#", "#%#", "#", "###", "# #"]);
            let body = r.pick(&[".ad", "#id", ".a:style(x: y)", ".a:remove()", ".a:remove-attr(k)", ".a:remove-class(k)", "+js(f1)", "+js(f2, a, b)", "^script", "", " .x ", ".a:has-text(x)", ".x, .y", "+js(f1))", "+js(f1)x", ".a:style(x)) "]);
            format!("{}{}{}", loc, sep, body)
        }
    };
    let base = if r.pct(20) { mutate(r, &base) } else { base };
    base.chars().filter(|c| *c != '\n').collect()
}

pub fn sarg_soup(r: &mut Rng) -> String {
    let atoms = ["f1", "a", "b c", " ", "  ", ",", ", ", "\"", "'", "`", "\\", "\\,", "\\\\", "\\\\,", "\"q\"", "'q'", "`q`", "\"a, b\"", "\"a\\\"b\"", "'it\\'s'", "x\\", "\u{a0}", "\u{e9}", "\"unterminated", "\"a\"b", "\"a\" ,", "\"a\"  ", "/re,x/", "{\"k\": 1}", "\t"];
    let n = r.below(6);
    (0..n).map(|_| r.pick(&atoms).to_string()).collect::<Vec<_>>().join(if r.pct(50) { "," } else { "" })
}

fn run_cparse(seed: u64, n: usize, out: &mut Out) {
    let mut r = Rng::new(seed ^ 0x5555);
    let scripts = crate::cosm::script_pool();
    for _ in 0..n {
        let line = cosmetic_line(&mut r, &scripts);
        let l2 = line.clone();
        let imp = match guarded(move || CosmeticFilter::parse(&l2, false, PermissionMask::from_bits(0))) {
            Ok(Ok(f)) => show_cosmetic(&f),
            Ok(Err(e)) => format!("ERR:{:?}", e),
            Err(p) => {
                out.fail("parse-panicked", None, json!({"api": "CosmeticFilter::parse", "line": line, "panic": p}));
                "PANIC".to_string()
            }
        };
        out.bump(if imp.starts_with("ERR:") { "cparse:rejected" } else { "cparse:accepted" });
        if !line.is_ascii() {
            // IDNA is outside the model: non-ASCII lines only take part in the totality stream
            out.bump("cparse:non_ascii_not_compared");
            continue;
        }
        out.case(&format!("cparse\t{}", hex(&line)), &imp, json!({"api": "CosmeticFilter::parse", "line": line, "impl": imp.chars().take(120).collect::<String>()}), !imp.starts_with("ERR:"));
    }
}

pub fn run_sargs(seed: u64, n: usize, out: &mut Out) {
    let mut r = Rng::new(seed ^ 0x6666);
    for _ in 0..n {
        let a = sarg_soup(&mut r);
        let a2 = a.clone();
        let imp = match guarded(move || adblock::resources::verif_parse_scriptlet_args(&a2)) {
            Ok(Some(v)) => format!("+{}", v.iter().map(|x| hex(x)).collect::<Vec<_>>().join(",")),
            Ok(None) => "NONE".to_string(),
            Err(p) => {
                out.fail("parse-panicked", None, json!({"api": "parse_scriptlet_args", "args": a, "panic": p}));
                "PANIC".to_string()
            }
        };
        out.case(&format!("sargs\t{}", hex(&a)), &imp, json!({"api": "parse_scriptlet_args", "args": a, "impl": imp.chars().take(120).collect::<String>()}), imp != "NONE" && imp != "+");
    }
}
