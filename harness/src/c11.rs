//! Rule text -> parsed rule: `NetworkFilter::parse` against the Lean parser model (serves C02, C03, C11).
use crate::gen;
use crate::net::*;
use crate::util::*;
use adblock::filters::network::NetworkFilter;
use serde_json::json;

pub fn option_soup(r: &mut Rng) -> String {
    let atoms = ["script", "~script", "image", "~image", "media", "object", "object-subrequest", "other", "ping", "beacon", "stylesheet", "css", "~css", "subdocument", "frame", "xmlhttprequest", "xhr", "~xhr", "websocket", "~websocket", "font", "document", "doc", "~document",
        "third-party", "3p", "~third-party", "~3p", "first-party", "1p", "~1p", "important", "~important", "match-case", "~match-case", "badfilter", "~badfilter", "generichide", "ghide",
        "domain=a.com", "domain=a.com|~b.a.com", "from=~x.org", "domain=", "domain=/re/|a.com", "domain=/re/", "domain=A.com|a.com|a.com", "domain=~a.com|~a.com",
        "tag=t1", "tag=", "~tag=x", "redirect=a.js", "redirect=", "redirect-rule=a.js:5", "~redirect=x", "csp=x", "csp", "~csp=x", "removeparam=utm", "removeparam=", "removeparam=/re/", "~removeparam=x", "removeparam=a b",
        "unknown-option", "", "~", "~~script", "script=1", "popup", "all", "inline-script"];
    let n = 1 + r.below(4);
    (0..n).map(|_| r.pick(&atoms).to_string()).collect::<Vec<_>>().join(",")
}

pub fn pattern_soup(r: &mut Rng) -> String {
    let pre = r.pick(&["", "", "@@", "|", "||", "@@||", "@@|", "|||", "@"]).to_string();
    let body = match r.below(12) {
        0 => gen::pat(r),
        1 => format!("{}{}", gen::host(r), gen::pat(r)),
        2 => r.pick(&["ws://", "http://", "https://", "http*://", "https://x", "HTTPS://"]).to_string(),
        3 => format!("{}^", gen::host(r)),
        4 => format!("www.{}/x", gen::host(r)),
        5 => format!("www.www.{}", gen::host(r)),
        6 => r.pick(&["*", "**", "^", "^^", "*^", "^*", "", "/", "//", "/x/", "/^x$/", "/a|b/"]).to_string(),
        7 => format!("*{}*", gen::pat(r)),
        8 => format!("{}*", gen::host(r)),
        9 => format!("EXAMPLE.com/Path{}", gen::pat(r)),
        10 => format!("{}:8080/", gen::host(r)),
        _ => format!("{}{}", r.pick(&[".", "-", "*.", "^"]), gen::host(r)),
    };
    let post = r.pick(&["", "", "", "|", "||", "*", "^", "^|"]).to_string();
    format!("{}{}{}", pre, body, post)
}

pub fn run_parse(seed: u64, n: usize, out: &mut Out) {
    let mut r = Rng::new(seed ^ 0x11);
    let o = gen::RuleOpts { extra: true, full_regex: true };
    for _ in 0..n {
        let line = match r.below(4) {
            0 => gen::rule(&mut r, &o),
            1 => {
                let c = gen::cluster(&mut r, &gen::ALL_ON);
                c[r.below(c.len())].clone()
            }
            _ => {
                let p = pattern_soup(&mut r);
                if r.pct(60) { format!("{}${}", p, option_soup(&mut r)) } else { p }
            }
        };
        if !line.is_ascii() {
            continue;
        }
        let res = guarded(|| NetworkFilter::parse(&line, false, Default::default()));
        let imp = match &res {
            Ok(Ok(f)) => dump_rule(f, false),
            Ok(Err(e)) => format!("ERR:{:?}", e),
            Err(p) => format!("PANIC:{}", p),
        };
        if let Err(p) = &res {
            out.fail("parse-panicked", None, json!({"line": line, "panic": p}));
        }
        out.bump(if imp.starts_with("ERR:") { "rejected" } else { "accepted" });
        out.case(&format!("parse\t{}", hex(&line)), &imp, json!({"line": line, "impl": imp.chars().take(120).collect::<String>()}), !imp.starts_with("ERR:"));
    }
}
