//! Structured generators for network rules and requests (DESIGN.md 2.4): a small token pool with
//! deliberate collisions, URLs derived from the rules (instantiate, then near-misses).
use crate::util::Rng;

pub const TOK: &[&str] = &["ad", "ads", "bad", "adx", "foo", "fo", "oo", "bar", "ba", "x", "y1", "www", "com", "net", "http", "https", "a%20b", "q"];
pub const DL: &[&str] = &["/", "/", "/", ".", "-", "_", "?", "=", "&", ":", "^", "^", "*", "*", "//"];

pub fn pat(r: &mut Rng) -> String {
    let n = 1 + r.below(4);
    let mut s = String::new();
    if r.pct(15) {
        s.push_str(r.pick(DL));
    }
    for i in 0..n {
        s.push_str(r.pick(TOK));
        if i + 1 < n || r.pct(40) {
            s.push_str(r.pick(DL));
        }
    }
    // `^^` followed by more text is outside the modelled regex translation (degenerate spelling)
    while s.contains("^^") {
        s = s.replace("^^", "^");
    }
    s
}

pub fn host(r: &mut Rng) -> String {
    let n = 1 + r.below(3);
    let mut v = vec![];
    for _ in 0..n {
        v.push(TOK[r.below(8)].to_string());
    }
    v.push(r.pick(&["com", "net", "co.uk"]).to_string());
    v.join(".")
}

pub struct RuleOpts {
    pub extra: bool,      // tags, badfilter, csp, redirect, removeparam, match-case
    pub full_regex: bool, // allow /re/ rules
}

pub fn rule(r: &mut Rng, o: &RuleOpts) -> String {
    let mut s = String::new();
    if r.pct(25) {
        s.push_str("@@");
    }
    match r.below(7) {
        0 | 1 => s.push_str(&pat(r)),
        2 => {
            s.push('|');
            s.push_str(r.pick(&["https://", "http://", "https://", "ws://"]));
            if r.pct(80) {
                s.push_str(&host(r));
                s.push_str(&pat(r));
            }
        }
        3 | 4 => {
            s.push_str("||");
            s.push_str(&host(r));
            match r.below(4) {
                0 => s.push('^'),
                1 => {}
                2 => {
                    s.push('/');
                    s.push_str(&pat(r));
                }
                _ => {
                    s.push_str(r.pick(&["^", "*", "/"]));
                    s.push_str(&pat(r));
                }
            }
        }
        5 if o.full_regex && r.pct(30) => {
            s.push_str(r.pick(&["/ad[sx]?\\/foo/", "/^https?:\\/\\/[a-z]+\\.com\\/bar/", "/foo\\d+/", "/(ads|bad)\\./"]));
        }
        _ => s.push_str(&pat(r)),
    }
    while s.contains("^^") {
        s = s.replace("^^", "^");
    }
    if r.pct(15) {
        s.push('|');
    }
    let mut opts = vec![];
    if r.pct(20) {
        opts.push(r.pick(&["script", "image", "~script", "document", "xhr", "websocket", "~image,~script", "subdocument", "font,media"]).to_string());
    }
    if r.pct(15) {
        opts.push(r.pick(&["third-party", "~third-party", "1p"]).to_string());
    }
    if r.pct(20) {
        let mut d = vec![];
        for _ in 0..1 + r.below(3) {
            let h = host(r);
            d.push(if r.pct(25) { format!("~{}", h) } else { h });
        }
        // the classic shape: a site with one of its subdomains carved out (or the reverse)
        if r.pct(35) {
            let base = d[0].trim_start_matches('~').to_string();
            if d[0].starts_with('~') {
                d.push(format!("sub.{}", base));
            } else {
                d.push(format!("~sub.{}", base));
            }
        }
        opts.push(format!("domain={}", d.join("|")));
    }
    if r.pct(8) {
        opts.push("important".into());
    }
    if o.extra {
        if r.pct(10) {
            opts.push(format!("tag={}", r.pick(&["t1", "t2"])));
        }
        if r.pct(6) {
            opts.push("badfilter".into());
        }
        if r.pct(6) {
            opts.push(format!("csp={}", r.pick(&["x", "y", "script-src 'none'"])));
        }
        if r.pct(6) {
            opts.push(format!("redirect{}={}{}", r.pick(&["", "-rule"]), r.pick(&["a.js", "b.gif", "alias-a"]), r.pick(&["", ":5", ":-1", ":x", ":5"])));
        }
        if r.pct(5) {
            opts.push(format!("removeparam={}", r.pick(&["k", "ad", "foo_bar"])));
        }
        if r.pct(3) {
            opts.push("match-case".into());
        }
    }
    if !opts.is_empty() {
        s.push('$');
        s.push_str(&opts.join(","));
    }
    s
}

/// A request derived from one of the rules: instantiate its pattern, then (sometimes) perturb.
pub fn url_from(r: &mut Rng, rules: &[String]) -> (String, String, String) {
    if rules.is_empty() {
        return ("https://cdn.test/x".to_string(), "https://shop.test/".to_string(), "script".to_string());
    }
    let base = &rules[r.below(rules.len())];
    let mut body = base.trim_start_matches("@@").to_string();
    if let Some(i) = body.rfind('$') {
        body.truncate(i);
    }
    // the initiator is drawn from any entry of the rule's domain list, excluded entries included
    let src_from_dom = base.split("domain=").nth(1).map(|d| {
        let list = d.split(',').next().unwrap();
        let entries: Vec<&str> = list.split('|').filter(|e| !e.is_empty()).collect();
        if entries.is_empty() { String::new() } else { entries[r.below(entries.len())].trim_start_matches('~').to_string() }
    });
    let mut u;
    if let Some(b) = body.strip_prefix("||") {
        let b = b.trim_end_matches('|');
        let hl = b.find(|c| c == '/' || c == '^' || c == '*').unwrap_or(b.len());
        let (h, rest) = b.split_at(hl);
        u = format!(
            "https://{}{}{}",
            if r.pct(40) { format!("{}.", TOK[r.below(8)]) } else { String::new() },
            h,
            rest.replace('^', r.pick(&["/", "?", ":", "*", "!"])).replace('*', r.pick(&["", "x", "/zz/", "/q", "/img/top", "/a-"]))
        );
        if !u[8..].contains('/') {
            u.push('/');
        }
    } else if let Some(b) = body.strip_prefix('|') {
        u = b.trim_end_matches('|').replace('^', "/").replace('*', "zz");
        if !u.contains("://") {
            u = format!("https://{}", u);
        }
        if u.matches('/').count() < 3 {
            u.push('/');
        }
    } else if body.starts_with('/') && body.ends_with('/') && body.len() > 1 {
        u = format!("https://{}/{}", host(r), r.pick(&["ads/foo", "adx/foo", "bar", "foo12", "bad.js", "foo"]));
    } else {
        let b = body.trim_end_matches('|').replace('^', r.pick(&["/", "?", "&", "*", "~"])).replace('*', r.pick(&["", "q", "/zz/", "/q", "x/top", "-"]));
        u = format!(
            "https://{}/{}{}{}",
            host(r),
            if r.pct(50) { r.pick(&["l", "x", "zz/", "ad", "s"]) } else { "" },
            b,
            if base.ends_with('|') || r.pct(40) { "" } else { r.pick(&["s", "x", "/more", "?k=v"]) }
        );
    }
    if r.pct(10) {
        u = u.replacen("https", "http", 1);
    }
    if r.pct(4) {
        u = u.replacen("https", "wss", 1);
    }
    if r.pct(30) {
        let i = 9.min(u.len()) + r.below(u.len().saturating_sub(9).max(1));
        if u.is_char_boundary(i) {
            match r.below(5) {
                0 => u.insert(i, 'x'),
                1 => {
                    if i < u.len() {
                        u.remove(i);
                    }
                }
                2 => u.insert(i, '*'),
                3 => u.insert(i, '%'),
                _ => u.insert(i, '/'),
            }
        }
    }
    if r.pct(8) && !u.contains('?') {
        u.push_str(r.pick(&["?k=1&ad=2", "?foo_bar=x&k=", "?ad=1"]));
    }
    // the part of the URL the rule is about may sit in the fragment (single-page applications route there);
    // rules are matched against the whole URL
    if r.pct(7) {
        if let Some(i) = u.find("://").and_then(|i| u[i + 3..].find('/').map(|j| i + 3 + j)) {
            let (head, path) = u.split_at(i);
            u = format!("{}/app#{}", head, path);
        }
    }
    let src = if r.pct(10) {
        String::new()
    } else if let (Some(d), true) = (src_from_dom, r.pct(60)) {
        format!("https://{}{}/", if r.pct(30) { "sub." } else { "" }, d)
    } else if r.pct(50) {
        u.clone()
    } else {
        format!("https://{}/", host(r))
    };
    let ty = r.pick(&["script", "image", "document", "xhr", "other", "websocket", "subdocument", "font"]).to_string();
    (u, src, ty)
}

// ---------------------------------------------------------------------------------------------
// Bucket-sharing clusters: rules built to land in the same token bucket (or all in the fallback
// bucket) with option sets drawn from a tiny pool, so that equal masks, fusion, de-duplication,
// tie-breaks and per-bucket scans are exercised rather than left to chance.

/// A rule whose pattern may begin or end in the middle of a URL token (`||host*tok/…`, `/…/tok*ext|`),
/// ballast that makes its other tokens frequent (so that a wrongly admitted partial token would be the
/// rarest one and become the bucket key), and a URL the rule matches in which that token is extended.
pub fn partial_token_scenario(r: &mut Rng) -> (Vec<String>, String) {
    let t = r.pick(&["banner", "adframe", "adimg", "promo", "track"]).to_string();
    let pre = r.pick(&["", "", "@@"]);
    let (rule, url) = match r.below(4) {
        0 => (format!("{}||cdn.test*{}/zone/x", pre, t), format!("https://cdn.test/img/top{}/zone/x.gif", t)),
        1 => (format!("{}||cdn.test*{}/zone/x$important", pre.replace("@@", ""), t), format!("https://cdn.test/q{}/zone/x", t)),
        2 => (format!("{}/zone/x/*{}|", pre, t), format!("https://cdn.test/zone/x/my{}", t)),
        _ => (format!("{}||cdn.test^*{}/zone/", pre, t), format!("https://cdn.test/a/my{}/zone/1", t)),
    };
    let mut lines = vec![rule];
    if pre == "@@" {
        lines.push("||cdn.test^".to_string());
    }
    for i in 0..6 {
        lines.push(format!("||ballast{}.test/cdn/test/zone/x/{}", i, i));
    }
    (lines, url)
}

pub struct ClusterOpts {
    pub csp: bool,
    pub redirect: bool,
    pub tags: bool,
    pub exceptions: bool,
    pub important: bool,
    pub badfilter: bool,
    pub removeparam: bool,
}

pub const ALL_ON: ClusterOpts = ClusterOpts { csp: true, redirect: true, tags: true, exceptions: true, important: true, badfilter: true, removeparam: true };

const CTOK: &[&str] = &["adframe", "adimg", "track", "px"];
const OPTSETS: &[&str] = &["", "script", "image", "third-party", "image,third-party", "websocket,third-party", "~script", "document", "ping,first-party", "xhr", "font"];

fn shape_token(r: &mut Rng, t: &str) -> String {
    match r.below(16) {
        // long literal patterns (longer than most request URLs) whose other tokens are the ballast tokens
        14 => format!("/{}/gif/png/click/impression/top/player/cdn/test/gif/png/click/impression/top/player", t),
        15 => format!("/{}/player/top/impression/click/png/gif/test/cdn/player/top/impression/click/png/gif/x", t),
        0 => format!("/{}/", t),
        1 => format!("/{}/*.gif|", t),
        2 => format!("/{}/*.png|", t),
        3 => format!("/{}/top", t),
        4 => format!("/{}^", t),
        5 => format!("/{}.", t),
        6 => format!("/{}?", t),
        7 => format!("|https://cdn.test/{}/*/click?", t),
        8 => format!("|https://cdn.test/{}/*/impression?", t),
        9 => format!("/{}/player", t),
        10 => format!("-{}-", t),
        11 => format!("/{}/*", t),
        12 => format!("||cdn.test/{}/", t),
        _ => format!("/{}/x|", t),
    }
}
fn shape_fallback(r: &mut Rng) -> String {
    r.pick(&["", "", "*", "ad*banner", "a*b", "/x*", "x", "/a", "ad*", "*ad", "/x^*y", "|", "px*", "a^b"]).to_string()
}

pub fn cluster(r: &mut Rng, o: &ClusterOpts) -> Vec<String> {
    let kind = r.below(6);
    cluster_impl(r, o, kind, false)
}
/// a cluster about one modifier family (0 csp, 1 redirect, 2 tags, 3 important, 4 removeparam)
pub fn cluster_kind(r: &mut Rng, o: &ClusterOpts, kind: usize) -> Vec<String> {
    cluster_impl(r, o, kind, false)
}
/// every rule of the cluster uses the same option set (equal masks => fusion candidates)
pub fn cluster_same_mask(r: &mut Rng, o: &ClusterOpts) -> Vec<String> {
    let kind = r.below(6);
    cluster_impl(r, o, kind, true)
}
fn cluster_impl(r: &mut Rng, o: &ClusterOpts, kind: usize, same_mask: bool) -> Vec<String> {
    let fallback = r.pct(35);
    let t = r.pick(CTOK).to_string();
    let nset = if same_mask { 1 } else { 1 + r.below(3) };
    let sets: Vec<&str> = (0..nset).map(|_| *r.pick(&OPTSETS.iter().collect::<Vec<_>>())).collect();
    let n = 2 + r.below(5);
    let mut out = vec![];
    let pair_shapes = same_mask && r.pct(50);
    for _ in 0..n {
        let body = if fallback {
            shape_fallback(r)
        } else if pair_shapes {
            // anchored wildcard shapes that fuse into one regex set
            let k = 1 + r.below(2) + 6 * r.below(2);
            match k { 1 => format!("/{}/*.gif|", t), 2 => format!("/{}/*.png|", t), 7 => format!("|https://cdn.test/{}/*/click?", t), _ => format!("|https://cdn.test/{}/*/impression?", t) }
        } else {
            shape_token(r, &t)
        };
        let mut opts: Vec<String> = vec![];
        let set = sets[r.below(sets.len())];
        if !set.is_empty() {
            opts.push(set.to_string());
        }
        let mut exc = o.exceptions && r.pct(25);
        match kind {
            0 if o.csp => {
                // csp rules must not carry content-type options
                opts.clear();
                if r.pct(20) {
                    opts.push(r.pick(&["third-party", "domain=shop.test", "domain=cdn.test|shop.test"]).to_string());
                }
                // a repeated modifier is an error (one modifier per rule), whatever the spelling
                if r.pct(8) {
                    opts.push(r.pick(&["csp=img-src 'none'", "csp", "csp=a"]).to_string());
                }
                if exc && r.pct(25) {
                    opts.push("csp".to_string());
                } else {
                    opts.push(format!("csp={}", r.pick(&["script-src 'none'", "worker-src 'none'", "img-src x", "a", "b", "script-src 'sha256-AbC+/='", "script-src 'sha256-AbC+/=' 'sha256-Xyz='", "a=b", "a=", "default-src 'self'; report-uri /r?x=1"])));
                }
            }
            1 if o.redirect => {
                opts.push(format!(
                    "redirect{}={}{}",
                    r.pick(&["", "-rule", "-rule"]),
                    r.pick(&["a.js", "b.gif", "alias-a", "perm.js", "fn.js", "missing.js", "tpl"]),
                    r.pick(&["", "", ":5", ":-1", ":-5", ":10", ":x", ":+5", ":", ":05", ":99999999999"])
                ));
            }
            2 if o.tags => {
                if r.pct(70) {
                    opts.push(format!("tag={}", r.pick(&["t1", "t2"])));
                }
                if o.important && r.pct(30) {
                    opts.push("important".into());
                }
            }
            3 if o.important => {
                if r.pct(40) {
                    opts.push("important".into());
                }
            }
            4 if o.removeparam => {
                exc = false;
                opts.retain(|x| !x.contains("websocket") && !x.contains("ping") && !x.contains("font"));
                opts.push(format!("removeparam={}", r.pick(&["k", "ad", "foo_bar"])));
            }
            _ => {}
        }
        let mut line = String::new();
        if exc {
            line.push_str("@@");
        }
        line.push_str(&body);
        if !opts.is_empty() {
            if r.pct(30) {
                opts.reverse();
            }
            line.push('$');
            line.push_str(&opts.join(","));
        }
        if line.is_empty() || line == "@@" {
            line.push('*');
        }
        out.push(line);
    }
    if o.badfilter && r.pct(20) {
        // a badfilter twin of one rule, possibly with a small difference
        let base = out[r.below(out.len())].clone();
        let twin = if base.contains('$') { format!("{},badfilter", base) } else { format!("{}$badfilter", base) };
        out.push(twin);
    }
    // ballast: make the non-shared tokens of the shapes frequent, so that the histogram's
    // rarest-token choice falls on the shared token and the cluster really shares one bucket
    if !fallback && r.pct(50) {
        for i in 0..(n + 1) {
            out.push(format!("||ballast{}.test/gif/png/click/impression/top/player/cdn/test/x{}", i, i));
        }
    }
    // duplicates and near-duplicates
    if r.pct(20) {
        let d = out[r.below(out.len())].clone();
        out.push(d);
    }
    out
}

/// URLs aimed at a cluster's shared token / the fallback bucket
pub fn cluster_url(r: &mut Rng, rules: &[String]) -> (String, String, String) {
    if r.pct(60) {
        return url_from(r, rules);
    }
    let t = r.pick(CTOK);
    let host = r.pick(&["cdn.test", "shop.test", "x.cdn.test", "other.net"]);
    let path = match r.below(10) {
        0 => format!("{}/top.gif?cb=123", t),
        1 => format!("{}/top.gif", t),
        2 => format!("{}/a.png", t),
        3 => format!("{}/x/click?u=1", t),
        4 => format!("{}/x/impression?u=1&k=2", t),
        5 => format!("{}/player", t),
        6 => format!("photo.png"),
        7 => format!("ad-banner/x?ad=1&k=v"),
        8 => format!("{}/x", t),
        _ => format!("a/b-{}-c", t),
    };
    let u = format!("{}://{}/{}", r.pick(&["https", "https", "http", "wss"]), host, path);
    let src = r.pick(&["https://shop.test/", "https://cdn.test/", "", "https://sub.shop.test/p"]).to_string();
    let ty = r.pick(&["script", "image", "document", "subdocument", "xhr", "websocket", "ping", "font", "other"]).to_string();
    (u, src, ty)
}
