//! C01 (and the shared verdict op used by C04/C05/C13/C15): whole engine vs model vs rule-by-rule spec.
use crate::gen;
use crate::net::*;
use crate::util::*;
use adblock::resources::{MimeType, Resource, ResourceType};
use adblock::Engine;
use serde_json::json;

pub fn std_resources() -> Vec<Resource> {
    vec![
        mk_resource("a.js", &["alias-a"], ResourceType::Mime(MimeType::ApplicationJavascript), "console.log(1)", 0),
        mk_resource("b.gif", &[], ResourceType::Mime(MimeType::ImageGif), "GIF89a", 0),
        mk_resource("perm.js", &[], ResourceType::Mime(MimeType::ApplicationJavascript), "secret()", 1),
        mk_resource("fn.js", &[], ResourceType::Mime(MimeType::FnJavascript), "function f(){}", 0),
        mk_resource("tpl", &[], ResourceType::Template, "{{1}}", 0),
    ]
}

pub struct Case {
    pub lines: Vec<String>,
    pub optimize: bool,
    pub tags: Vec<String>,
}

/// Emits the `chk` and `csp` ops for one (list, request) pair.
pub fn emit(out: &mut Out, case: &Case, engine: &Engine, rules: &[PRule], resources: &[Resource], q: &Req, what: &str) {
    crate::c11::emit_plines(out, &case.lines);
    // the model is handed the request as the crate read it (normalised URL, host, party): the reading itself is compared with
    // the URL model and with the reference public-suffix lookup
    crate::c12::emit_url_case(out, &q.url);
    crate::c12::party_oracle(out, &q.url, &q.src, &q.req);
    let res = engine.check_network_request(&q.req);
    let csp = engine.get_csp_directives(&q.req);
    let dumps: Vec<String> = rules.iter().map(|pr| dump_rule(&pr.f, rx_hint(&pr.f, &q.req))).collect();
    let tagsl: Vec<String> = case.tags.clone();
    let head = format!("{}\t{}", if case.optimize { 1 } else { 0 }, hex_list(&tagsl));
    let op = format!("chk\t{}\t{}\t{}\t{}", head, dump_store(resources), q.dump, dumps.join("\t"));
    let desc = json!({"op": what, "rules": case.lines, "optimize": case.optimize, "tags": case.tags,
        "url": q.url, "source": q.src, "type": q.ty,
        "impl": {"matched": res.matched, "important": res.important, "exception": res.exception.is_some(), "redirect": res.redirect, "rewritten_url": res.rewritten_url}});
    let nontrivial = res.matched || res.exception.is_some() || res.redirect.is_some() || res.rewritten_url.is_some();
    out.bump(if res.matched { "verdict_matched" } else { "verdict_unmatched" });
    if res.exception.is_some() {
        out.bump("verdict_exception");
    }
    if res.important {
        out.bump("verdict_important");
    }
    if res.redirect.is_some() {
        out.bump("verdict_redirect");
    }
    if res.rewritten_url.is_some() {
        out.bump("verdict_rewritten");
    }
    out.case(&op, &show_verdict(&res), desc, nontrivial);
    if q.ty == "document" || q.ty == "subdocument" || csp.is_some() {
        let op = format!("csp\t{}\t{}\t{}", head, q.dump, dumps.join("\t"));
        let desc = json!({"op": "csp", "rules": case.lines, "optimize": case.optimize, "tags": case.tags,
            "url": q.url, "source": q.src, "type": q.ty, "impl_csp": csp});
        if csp.is_some() {
            out.bump("csp_some");
        }
        out.case(&op, &show_csp(&csp), desc, csp.is_some());
    }
}

/// Requests whose URL is not ASCII (the Lean model reads ASCII only): the engine's verdict against the rule-by-rule scan
/// done here — nothing matches when no rule matches on its own, and the request is blocked when a plain blocking rule matches
/// on its own and no exception does (lists with `badfilter` or tagged rules are left to the model-compared ASCII requests).
pub fn scan_oracle(out: &mut Out, lines: &[String], engine: &Engine, rules: &mut [PRule], q: &Req) {
    use adblock::filters::network::NetworkFilterMask as M;
    if !q.req.is_supported {
        return;
    }
    let v = engine.check_network_request(&q.req);
    let mut any = false;
    let mut plain_block = false;
    let mut exception = false;
    let special = M::IS_CSP | M::IS_REMOVEPARAM | M::GENERIC_HIDE | M::IS_REDIRECT;
    let mut eligible = true;
    for pr in rules.iter_mut() {
        if pr.has(M::BAD_FILTER) || pr.f.verif_tag().is_some() {
            eligible = false;
        }
        if !pr.matches(&q.req) {
            continue;
        }
        any = true;
        if pr.f.mask.intersects(M::IS_CSP | M::IS_REMOVEPARAM | M::GENERIC_HIDE) {
            continue;
        }
        if pr.has(M::IS_EXCEPTION) {
            // (an exception that also names a redirect resource is still an exception)
            exception = true;
        } else if !pr.f.mask.intersects(special) {
            plain_block = true;
        }
    }
    out.bump(if q.url.is_ascii() { "rule_by_rule_scans" } else { "non_ascii_url_scans" });
    let desc = json!({"rules": lines, "url": q.url, "source": q.src, "type": q.ty, "engine": {"matched": v.matched, "exception": v.exception, "filter": v.filter},
        "scan": {"some_rule_matches": any, "plain_blocking_rule_matches": plain_block, "exception_matches": exception}});
    if !any && (v.matched || v.exception.is_some() || v.redirect.is_some()) {
        out.fail("engine-applies-a-rule-that-does-not-match", None, desc.clone());
    }
    if eligible && plain_block && !exception && !v.matched {
        out.fail("engine-loses-a-matching-rule", None, desc);
    }
}

/// a copy of the URL with a non-ASCII character put right after one of its tokens (a letter such as `é` or `広` extends the
/// token, a character such as `—` or `€` ends it)
pub fn non_ascii_twin(r: &mut Rng, u: &str) -> Option<String> {
    let start = u.find("://")? + 3;
    let path_start = start + u[start..].find('/')?;
    let cands: Vec<usize> = (path_start + 1..=u.len()).filter(|&i| {
        let prev = u.as_bytes()[i - 1];
        let next = u.as_bytes().get(i).copied().unwrap_or(b'/');
        prev.is_ascii_alphanumeric() && !next.is_ascii_alphanumeric()
    }).collect();
    if cands.is_empty() {
        return None;
    }
    let i = cands[r.below(cands.len())];
    let ch: &str = r.pick(&["\u{e9}", "\u{5e83}", "\u{2014}", "\u{20ac}", "\u{444}", "\u{e9}\u{e9}"]);
    Some(format!("{}{}{}", &u[..i], ch, &u[i..]))
}

pub fn run(seed: u64, n: usize, out: &mut Out) {
    let mut r = Rng::new(seed);
    let resources = std_resources();
    let o = gen::RuleOpts { extra: true, full_regex: true };
    for _ in 0..n {
        let big = r.pct(20);
        let nr = 1 + r.below(if big { 40 } else { 8 });
        let clustered = r.pct(45);
        let mut lines: Vec<String> = if clustered {
            let mut l = gen::cluster(&mut r, &gen::ALL_ON);
            if r.pct(40) {
                l.extend(gen::cluster(&mut r, &gen::ALL_ON));
            }
            for _ in 0..r.below(4) {
                l.push(gen::rule(&mut r, &o));
            }
            l
        } else {
            (0..nr).map(|_| gen::rule(&mut r, &o)).collect()
        };
        let mut scenario_url: Option<String> = None;
        if r.pct(10) {
            let (sl, su) = gen::partial_token_scenario(&mut r);
            lines.extend(sl);
            scenario_url = Some(su);
        }
        // `||label.` (a host pattern ending in a dot) against hosts that merely contain the label's text inside a longer label:
        // what the rule matches on its own must be what the engine finds (the rule sits under the token `label`)
        let mut dot_urls: Vec<String> = vec![];
        if r.pct(12) {
            let w: &str = r.pick(&["tracker", "adserv", "pix"]);
            lines.push(format!("{}||{}.{}", if r.pct(20) { "@@" } else { "" }, w, r.pick(&["", "$script", "$third-party"])));
            if r.pct(30) {
                lines.push(format!("||cdn.test/{}/", w));
            }
            dot_urls = vec![format!("https://ad{}.example.com/x.js", w), format!("https://ad{}.example.com/{}/x.js", w, w), format!("https://{}.example.com/x.js", w),
                            format!("https://a.{}.example.com/x.js", w), format!("https://cdn.test/{}/x.js", w), format!("https://my{}.co/{}.js", w, w)];
        }
        if r.pct(10) {
            // left-anchored plain rules of one bucket (the optimiser fuses them into one multi-pattern rule): each keeps
            // matching the URLs it matches alone, whatever the lengths and the order of the others
            let h: &str = r.pick(&["ads.tracker.io", "cdn.test"]);
            let opt: &str = r.pick(&["", "$script", "$image,third-party"]);
            for tail in ["ads/popunder/long/path/segment", "ads.js", "pop", "ad"] {
                lines.push(format!("{}|https://{}/{}{}", if r.pct(10) { "@@" } else { "" }, h, tail, opt));
            }
            for u in ["ads.js", "advert.js", "pop", "popunder", "ads/popunder/long/path/segment/x", "a"] {
                dot_urls.push(format!("https://{}/{}", h, u));
            }
        }
        if r.pct(8) {
            // regular-expression rules that do not compile, in the bucket of ones that do
            lines.push("/advert[0-9]+/".to_string());
            lines.push(r.pick(&["/banner[0-9]+(?!x)/", "/zz[/", "/a{2,1}b/"]).to_string());
            dot_urls.push("https://cdn.test/advert12.png".to_string());
        }
        if r.pct(30) {
            // order must not matter for the verdict: shuffle
            for i in (1..lines.len()).rev() {
                let j = r.below(i + 1);
                lines.swap(i, j);
            }
        }
        out.bump(if clustered { "lists_clustered" } else { "lists_random" });
        let optimize = r.pct(50);
        let tags: Vec<String> = match r.below(4) {
            0 => vec![],
            1 => vec!["t1".into()],
            2 => vec!["t2".into()],
            _ => vec!["t1".into(), "t2".into()],
        };
        // (most embedders build without debug information: the rules then carry no text of their own)
        let debug = !r.pct(30);
        let mut engine = if !debug && r.pct(50) {
            let mut e = Engine::from_rules(&lines, Default::default());
            if !optimize {
                // `from_rules` optimises; the unoptimised variant goes through the filter set
                let mut fs = adblock::lists::FilterSet::new(false);
                fs.add_filters(&lines, Default::default());
                e = Engine::from_filter_set(fs, false);
            }
            e
        } else {
            Engine::from_rules_parametrised(&lines, Default::default(), debug, optimize)
        };
        out.bump(if debug { "engines_with_debug_text" } else { "engines_without_debug_text" });
        engine.use_resources(resources.clone());
        engine.use_tags(&tags.iter().map(|s| s.as_str()).collect::<Vec<_>>());
        let mut rules = parse_all(&lines);
        if rules.is_empty() {
            continue;
        }
        // compiled regexes may be dropped and rebuilt at any time: with a discard policy that drops everything at
        // every query, each request is asked twice and the second answer (from rebuilt regexes) is the one compared
        let churn = r.pct(25);
        if churn {
            engine.set_regex_discard_policy(adblock::regex_manager::RegexManagerDiscardPolicy { cleanup_interval: std::time::Duration::from_nanos(1), discard_unused_time: std::time::Duration::from_nanos(0) });
            out.bump("engines_with_regex_churn");
        }
        let case = Case { lines: lines.clone(), optimize, tags };
        for (k, du) in dot_urls.iter().enumerate() {
            if let Some(q) = make_req(du, "https://shop.test/", if k % 3 == 2 { "image" } else { "script" }) {
                scan_oracle(out, &lines, &engine, &mut rules, &q);
                emit(out, &case, &engine, &rules, &resources, &q, "chk");
            }
        }
        for _ in 0..4 {
            let (mut u, s, t) = if clustered { gen::cluster_url(&mut r, &lines) } else { gen::url_from(&mut r, &lines) };
            if let Some(su) = &scenario_url {
                if r.pct(50) {
                    u = su.clone();
                }
            }
            if let Some(tw) = if u.is_ascii() { non_ascii_twin(&mut r, &u) } else { Some(u.clone()) } {
                if let Some(q) = make_req(&tw, &s, &t) {
                    scan_oracle(out, &lines, &engine, &mut rules, &q);
                }
            }
            if !u.is_ascii() {
                continue;
            }
            if let Some(q) = make_req(&u, &s, &t) {
                // the engine against the crate's own rule-by-rule scan (the model below re-derives every rule's answer itself)
                scan_oracle(out, &lines, &engine, &mut rules, &q);
                if churn {
                    let _ = engine.check_network_request(&q.req);
                    std::thread::sleep(std::time::Duration::from_micros(5));
                }
                emit(out, &case, &engine, &rules, &resources, &q, "chk");
            }
        }
    }
}
