//! C19: one engine shared by several threads (thread-safe build) vs a single thread, and the
//! thread-safe build vs the default build.
//!
//! The world (rules, queries, tag rounds) is a function of the seed only, so that both builds of the
//! harness regenerate exactly the same one.
use crate::c01;
use crate::gen;
use crate::net::*;
use crate::util::*;
use adblock::regex_manager::RegexManagerDiscardPolicy;
use adblock::request::Request;
use adblock::Engine;
use serde_json::json;
use std::time::Duration;

#[derive(Clone, Debug)]
pub enum Q {
    Net { url: String, src: String, ty: String },
    Csp { url: String, src: String },
    Cosmetic { url: String },
    Hidden { classes: Vec<String>, ids: Vec<String> },
}

pub struct World {
    /// aggressive discard policy (regexes dropped and rebuilt all the time) or the default one
    /// (compiled regexes stay cached across tag changes)
    pub aggressive: bool,
    pub rules: Vec<String>,
    pub queries: Vec<Q>,
    /// tag operation before each round: (op, tags)
    pub rounds: Vec<(String, Vec<String>)>,
    pub optimize: bool,
}

const TAGS: &[&str] = &["alpha", "beta", "gamma"];

pub fn world(seed: u64, size: usize) -> World {
    let mut r = Rng::new(seed ^ 0x1919);
    let mut rules: Vec<String> = vec![];
    // regex-heavy network rules: complete regexes, wildcards, separators, hostname regexes
    for i in 0..size {
        let t = TAGS[i % TAGS.len()];
        rules.push(format!("/{}{}/*/pixel.gif$domain=site{}.example,tag={}", t, i, i % 7, t));
        rules.push(format!("/^https?:\\/\\/cdn[0-9]*\\.example\\/r{}\\//$script", i));
        rules.push(format!("||ads{}.example^*/banner^", i));
        rules.push(format!("/track{}*id=^$image,tag={}", i, t));
        rules.push(format!("@@/allow{}/*/ok.js$script", i));
        rules.push(format!("||w{}*.cdn.example^", i));
        // twins: one pattern text, different anchors and types (a compiled regex belongs to one of them only)
        rules.push(format!("/twin{}/*/b.gif|$image", i));
        rules.push(format!("/twin{}/*/b.gif$script", i));
        rules.push(format!("|https://tw{}.example/*/c.js$script", i));
        rules.push(format!("https://tw{}.example/*/c.js$xhr", i));
    }
    rules.extend(gen::cluster(&mut r, &gen::ALL_ON));
    rules.extend(gen::cluster(&mut r, &gen::ALL_ON));
    rules.retain(|l| parse_net(l, false).is_some());
    // csp, generichide and cosmetic rules
    for i in 0..size.min(12) {
        rules.push(format!("||csp{}.example^$csp=script-src 'self' *.x{}.example", i, i));
        rules.push(format!("@@||gh{}.example^$generichide", i));
        rules.push(format!("@@/gh-regex{}/*/page^$generichide", i));
        rules.push(format!("site{}.example##.special-{}", i, i));
        rules.push(format!("gh{}.example##.on-gh-{}", i, i));
        rules.push(format!("##.generic-ad-{}", i));
        rules.push(format!("###generic-id-{}", i));
        rules.push(format!("site{}.example#@#.generic-ad-{}", i, (i + 1) % 12));
        rules.push(format!("site{}.example##.x:style(color: red)", i));
    }
    let mut queries: Vec<Q> = vec![];
    let types = ["script", "image", "xhr", "sub_frame", "document", "other"];
    for i in 0..size {
        let t = TAGS[i % TAGS.len()];
        let src = format!("https://site{}.example/", i % 7);
        queries.push(Q::Net { url: format!("https://cdn.example/{}{}/x/pixel.gif", t, i), src: src.clone(), ty: "image".into() });
        queries.push(Q::Net { url: format!("https://cdn{}.example/r{}/a.js", i, i), src: src.clone(), ty: "script".into() });
        queries.push(Q::Net { url: format!("https://ads{}.example/x/banner/", i), src: src.clone(), ty: types[i % types.len()].into() });
        queries.push(Q::Net { url: format!("https://t.example/track{}?a&id=", i), src: src.clone(), ty: "image".into() });
        queries.push(Q::Net { url: format!("https://t.example/allow{}/z/ok.js", i), src: src.clone(), ty: "script".into() });
        queries.push(Q::Net { url: format!("https://w{}zz.cdn.example/q", i), src: src.clone(), ty: "xhr".into() });
        queries.push(Q::Net { url: format!("https://x.example/twin{}/q/b.gif", i), src: src.clone(), ty: "image".into() });
        queries.push(Q::Net { url: format!("https://x.example/twin{}/q/b.gif?more", i), src: src.clone(), ty: "script".into() });
        queries.push(Q::Net { url: format!("https://x.example/twin{}/q/b.gif?more", i), src: src.clone(), ty: "image".into() });
        queries.push(Q::Net { url: format!("https://tw{}.example/p/c.js", i), src: src.clone(), ty: "script".into() });
        queries.push(Q::Net { url: format!("https://x.example/r?u=https://tw{}.example/p/c.js", i), src: src.clone(), ty: "xhr".into() });
        queries.push(Q::Net { url: format!("https://x.example/r?u=https://tw{}.example/p/c.js", i), src, ty: "script".into() });
    }
    for _ in 0..size {
        let (u, s, t) = gen::cluster_url(&mut r, &rules);
        queries.push(Q::Net { url: u, src: s, ty: t });
    }
    // very long URLs (a payload in the query) with multi-byte characters around the 16 KiB mark, at both byte
    // parities, counted from the start of the URL and from the end of the host: whatever bounds, windows or chunks the text
    // handed to a compiled regex must cut at character boundaries, in every thread alike
    for (k, mark) in [(0usize, 16384usize), (1, 16384)] {
        let head = "https://ads0.example/x/banner/r0/twin0/q/b.gif?d=".to_string();
        let fill = mark - 100 - head.len() + k;
        let url = format!("{}{}{}&end=1", head, "a".repeat(fill), "\u{e9}".repeat(120));
        queries.push(Q::Net { url: url.clone(), src: "https://site0.example/".into(), ty: "script".into() });
        queries.push(Q::Net { url, src: "https://site0.example/".into(), ty: "image".into() });
    }
    for i in 0..size.min(12) {
        queries.push(Q::Csp { url: format!("https://csp{}.example/page", i), src: format!("https://csp{}.example/", i) });
        queries.push(Q::Cosmetic { url: format!("https://gh{}.example/index.html", i) });
        queries.push(Q::Cosmetic { url: format!("https://site{}.example/index.html", i) });
        queries.push(Q::Cosmetic { url: format!("https://other{}.example/gh-regex{}/a/page/", i, i) });
        queries.push(Q::Cosmetic { url: format!("https://other{}.example/plain", i) });
        queries.push(Q::Hidden { classes: vec![format!("generic-ad-{}", i), "nope".into()], ids: vec![format!("generic-id-{}", i)] });
    }
    queries.retain(|q| match q {
        Q::Net { url, src, ty } => Request::new(url, src, ty).is_ok(),
        Q::Csp { url, src } => Request::new(url, src, "document").is_ok(),
        _ => true,
    });
    // a fixed prelude in which tagged filters are freed and re-allocated several times (address
    // reuse by the allocator), then random tag operations
    let mut rounds: Vec<(String, Vec<String>)> = vec![];
    let tag_seq: [&[&str]; 8] = [&[], &["alpha"], &[], &["beta"], &["alpha", "gamma"], &[], &["beta", "gamma"], &["alpha"]];
    for ts in tag_seq {
        rounds.push(("use".to_string(), ts.iter().map(|s| s.to_string()).collect()));
    }
    for k in 0..(3 + size / 8) {
        let op = *r.pick(&[&"use", &"use", &"enable", &"disable"]);
        let mut ts: Vec<String> = TAGS.iter().filter(|_| r.pct(50)).map(|s| s.to_string()).collect();
        if k % 3 == 1 {
            ts.clear();
        }
        rounds.push((op.to_string(), ts));
    }
    World { aggressive: seed % 2 == 1, rules, queries, rounds, optimize: (seed / 2) % 2 == 0 }
}

pub fn build(w: &World) -> Engine {
    let mut e = Engine::from_rules_parametrised(&w.rules, Default::default(), false, w.optimize);
    e.use_resources(c01::std_resources());
    // aggressive discard policy: compiled regexes are dropped and rebuilt all the time
    if w.aggressive {
        e.set_regex_discard_policy(RegexManagerDiscardPolicy { cleanup_interval: Duration::from_micros(1500), discard_unused_time: Duration::from_micros(700) });
    }
    e
}

pub fn apply_round(e: &mut Engine, round: &(String, Vec<String>)) {
    let ts: Vec<&str> = round.1.iter().map(|s| s.as_str()).collect();
    match round.0.as_str() {
        "use" => e.use_tags(&ts),
        "enable" => e.enable_tags(&ts),
        _ => e.disable_tags(&ts),
    }
}

fn sorted(s: &std::collections::HashSet<String>) -> Vec<String> {
    let mut v: Vec<String> = s.iter().cloned().collect();
    v.sort();
    v
}

pub fn answer(e: &Engine, q: &Q) -> String {
    match q {
        Q::Net { url, src, ty } => {
            let req = Request::new(url, src, ty).unwrap();
            format!("N:{}", show_verdict(&e.check_network_request(&req)))
        }
        Q::Csp { url, src } => {
            let req = Request::new(url, src, "document").unwrap();
            format!("P:{}", show_csp(&e.get_csp_directives(&req)))
        }
        Q::Cosmetic { url } => {
            let c = e.url_cosmetic_resources(url);
            format!("C:{}|{}|{}|{}|{}", sorted(&c.hide_selectors).join(","), sorted(&c.procedural_actions).join(","), sorted(&c.exceptions).join(","), hex(&c.injected_script), c.generichide as u8)
        }
        Q::Hidden { classes, ids } => {
            let mut v = e.hidden_class_id_selectors(classes, ids, &Default::default());
            v.sort();
            format!("H:{}", v.join(","))
        }
    }
}

/// the answers of a single thread on a fresh engine, round by round
pub fn sequential(w: &World) -> Vec<Vec<String>> {
    let mut e = build(w);
    let mut all = vec![];
    for round in &w.rounds {
        // (a query that panicked while holding the regex manager leaves the engine unusable: start over from a fresh one)
        if std::panic::catch_unwind(std::panic::AssertUnwindSafe(|| apply_round(&mut e, round))).is_err() {
            e = build(w);
            let _ = std::panic::catch_unwind(std::panic::AssertUnwindSafe(|| apply_round(&mut e, round)));
        }
        // twice, so that the second pass runs against a warm (and partly discarded) cache
        let guarded_answer = |q: &Q| -> String {
            match std::panic::catch_unwind(std::panic::AssertUnwindSafe(|| answer(&e, q))) {
                Ok(a) => a,
                Err(p) => format!("PANIC[{}]", p.downcast_ref::<String>().cloned().or_else(|| p.downcast_ref::<&str>().map(|s| s.to_string())).unwrap_or_else(|| "panic".into()).chars().take(160).collect::<String>()),
            }
        };
        let first: Vec<String> = w.queries.iter().map(|q| guarded_answer(q)).collect();
        let second: Vec<String> = w.queries.iter().map(|q| guarded_answer(q)).collect();
        assert_eq!(first.len(), second.len());
        all.push(first.iter().zip(second.iter()).map(|(a, b)| if a == b { a.clone() } else { format!("UNSTABLE[{}][{}]", a, b) }).collect());
    }
    all
}

fn world_size(n: usize) -> usize {
    (n / 40).clamp(6, 48)
}

/// default (single-thread) build: writes the sequential answers for the cross-build comparison
pub fn run_seq_file(seed: u64, n: usize, path: &str) {
    let mut text = String::new();
    for s in 0..worlds(n) {
        let w = world(seed.wrapping_add(s as u64), world_size(n));
        for (k, round) in sequential(&w).iter().enumerate() {
            for (i, a) in round.iter().enumerate() {
                text.push_str(&format!("{}\t{}\t{}\t{}\n", s, k, i, a));
            }
        }
    }
    std::fs::write(path, text).unwrap();
}

#[allow(dead_code)]
fn gcd(a: usize, b: usize) -> usize {
    if b == 0 { a } else { gcd(b, a % b) }
}

fn worlds(n: usize) -> usize {
    (n / 400).clamp(2, 40)
}

#[cfg(feature = "unsync")]
pub fn run(_seed: u64, _n: usize, out: &mut Out, _tier: &str) {
    out.fail("wrong-harness-build", None, json!({"detail": "C19 must run in the harness built with --no-default-features (Engine: Send + Sync)"}));
}

#[cfg(not(feature = "unsync"))]
pub fn run(seed: u64, n: usize, out: &mut Out, tier: &str) {
    use std::sync::mpsc;
    use std::sync::{Arc, RwLock};
    // static assertion of the property's first clause
    fn assert_send_sync<T: Send + Sync>() {}
    assert_send_sync::<Engine>();

    let threads = 8usize;
    // every thread first walks all queries `reps` times, then hammers the (cheap) cosmetic queries
    // `cosm_reps` times: queries whose answers differ (generichide on / off) interleave across threads
    let reps = if tier == "quick" { 3 } else { 10 };
    let cosm_reps = if tier == "quick" { 150 } else { 600 };
    let mut cross = String::new();
    for s in 0..worlds(n) {
        let wseed = seed.wrapping_add(s as u64);
        let w = Arc::new(world(wseed, world_size(n)));
        let reference = sequential(&w);
        let panicked: Vec<(usize, usize)> = reference.iter().enumerate().flat_map(|(k, round)| round.iter().enumerate().filter(|(_, a)| a.contains("PANIC[")).map(move |(i, _)| (k, i))).collect();
        if let Some((k, i)) = panicked.first() {
            // a single thread already fails on this world: report the query and leave the concurrent part aside
            let q = match &w.queries[*i] {
                Q::Net { url, src, ty } => json!({"url_prefix": url.chars().take(120).collect::<String>(), "url_bytes": url.len(), "first_non_ascii_byte": url.bytes().position(|b| b >= 0x80), "source": src, "type": ty}),
                other => json!(format!("{:?}", other).chars().take(300).collect::<String>()),
            };
            out.fail("query-panicked", None, json!({"seed": wseed, "round": k, "query": q, "answer": reference[*k][*i].chars().take(300).collect::<String>(), "queries_panicking": panicked.len(),
                "rules_with_regexes": w.rules.iter().filter(|l| l.contains('*') || l.starts_with('/')).take(12).collect::<Vec<_>>()}));
            continue;
        }
        // model correspondence for the network queries of the first round state
        {
            let mut e = build(&w);
            let prules = parse_all(&w.rules.iter().filter(|l| parse_net(l, false).is_some()).cloned().collect::<Vec<_>>());
            let resources = c01::std_resources();
            let netlines: Vec<String> = prules.iter().map(|p| p.line.clone()).collect();
            let has_complete_regex = prules.iter().any(|p| p.has(adblock::filters::network::NetworkFilterMask::IS_COMPLETE_REGEX));
            let _ = has_complete_regex;
            for (k, round) in w.rounds.iter().enumerate().take(2) {
                apply_round(&mut e, round);
                let mut tags: Vec<String> = e.verif_blocker().tags_enabled();
                tags.sort();
                let case = c01::Case { lines: netlines.clone(), optimize: w.optimize, tags };
                for q in w.queries.iter().step_by(if tier == "quick" { 3 } else { 4 }) {
                    if let Q::Net { url, src, ty } = q {
                        if let Some(rq) = make_req(url, src, ty) {
                            if url.is_ascii() {
                                c01::emit(out, &case, &e, &prules, &resources, &rq, &format!("c19-round{}", k));
                            }
                        }
                    }
                }
            }
        }
        for (k, round) in reference.iter().enumerate() {
            for (i, a) in round.iter().enumerate() {
                cross.push_str(&format!("{}\t{}\t{}\t{}\n", s, k, i, a));
                if a.starts_with("UNSTABLE") {
                    out.fail("sequential-answers-depend-on-cache-state", None, json!({"seed": wseed, "round": k, "query": format!("{:?}", w.queries[i]).chars().take(300).collect::<String>(), "answers": a.chars().take(400).collect::<String>()}));
                }
                if a.contains("PANIC[") {
                    out.fail("query-panicked", None, json!({"seed": wseed, "round": k, "query": format!("{:?}", w.queries[i]).chars().take(300).collect::<String>(), "answer": a.chars().take(400).collect::<String>()}));
                }
            }
        }
        // --- the shared engine and its long-lived workers
        let engine = Arc::new(RwLock::new(build(&w)));
        let (done_tx, done_rx) = mpsc::channel::<(usize, usize, Result<Vec<(usize, String)>, String>)>();
        let mut job_txs = vec![];
        let mut handles = vec![];
        for t in 0..threads {
            let (tx, rx) = mpsc::channel::<(usize, u64)>();
            job_txs.push(tx);
            let engine = engine.clone();
            let w = w.clone();
            let done = done_tx.clone();
            handles.push(std::thread::spawn(move || {
                while let Ok((round, oseed)) = rx.recv() {
                    let res = std::panic::catch_unwind(std::panic::AssertUnwindSafe(|| {
                        let e = engine.read().unwrap_or_else(|p| p.into_inner());
                        let mut r = Rng::new(oseed);
                        let nq = w.queries.len();
                        let mut wrong: Vec<(usize, String)> = vec![];
                        let mut got: Vec<Option<String>> = vec![None; nq];
                        let cosm: Vec<usize> = (0..nq).filter(|i| matches!(w.queries[*i], Q::Cosmetic { .. })).collect();
                        for rep in 0..reps + cosm_reps {
                            // each thread walks the queries in its own order
                            let idx: Vec<usize> = if rep < reps || cosm.is_empty() { (0..nq).collect() } else { cosm.clone() };
                            let m = idx.len();
                            let start = r.below(m);
                            let stride = [1usize, 3, 5, 7, 11, 13][r.below(6)];
                            let stride = if gcd(stride, m) == 1 { stride } else { 1 };
                            for j in 0..m {
                                let i = idx[(start + j * stride) % m];
                                let a = answer(&e, &w.queries[i]);
                                match &got[i] {
                                    Some(prev) if *prev != a => wrong.push((i, format!("rep {}: {} then {}", rep, prev, a))),
                                    _ => {}
                                }
                                got[i] = Some(a);
                            }
                        }
                        let mut v: Vec<(usize, String)> = got.into_iter().enumerate().map(|(i, a)| (i, a.unwrap_or_default())).collect();
                        for (i, msg) in wrong {
                            v.push((i, format!("UNSTABLE {}", msg)));
                        }
                        v
                    }));
                    let res = res.map_err(|e| e.downcast_ref::<String>().cloned().or_else(|| e.downcast_ref::<&str>().map(|s| s.to_string())).unwrap_or_else(|| "panic".into()));
                    if done.send((t, round, res)).is_err() {
                        break;
                    }
                }
            }));
        }
        let budget = Duration::from_secs(if tier == "quick" { 120 } else { 900 });
        let mut deadlocked = false;
        'rounds: for (k, round) in w.rounds.iter().enumerate() {
            {
                let mut e = engine.write().unwrap_or_else(|p| p.into_inner());
                apply_round(&mut e, round);
            }
            for (t, tx) in job_txs.iter().enumerate() {
                let _ = tx.send((k, wseed ^ ((t as u64) << 32) ^ k as u64));
            }
            // the main thread queries too, while the workers run
            {
                let e = engine.read().unwrap_or_else(|p| p.into_inner());
                for (i, q) in w.queries.iter().enumerate() {
                    match guarded(|| answer(&e, q)) {
                        Ok(a) if a == reference[k][i] => {}
                        Ok(a) => out.fail("concurrent-answer-differs-from-sequential", None, json!({"seed": wseed, "round": k, "tags_op": round, "thread": "main", "query": format!("{:?}", q), "sequential": reference[k][i], "concurrent": a})),
                        Err(p) => out.fail("query-panicked-under-concurrency", None, json!({"seed": wseed, "round": k, "thread": "main", "query": format!("{:?}", q), "panic": p})),
                    }
                }
            }
            for _ in 0..threads {
                match done_rx.recv_timeout(budget) {
                    Ok((t, rk, Ok(ans))) => {
                        let mut bad = 0;
                        for (i, a) in ans {
                            if a != reference[rk][i] {
                                bad += 1;
                                if bad <= 3 {
                                    out.fail("concurrent-answer-differs-from-sequential", None, json!({"seed": wseed, "round": rk, "tags_op": w.rounds[rk], "thread": t, "query": format!("{:?}", w.queries[i]), "sequential": reference[rk][i], "concurrent": a}));
                                }
                            }
                        }
                        out.add("concurrent_queries", (reps * w.queries.len()) as u64);
                        out.add("concurrent_cosmetic_queries", (cosm_reps * w.queries.iter().filter(|q| matches!(q, Q::Cosmetic { .. })).count()) as u64);
                    }
                    Ok((t, rk, Err(p))) => out.fail("query-panicked-under-concurrency", None, json!({"seed": wseed, "round": rk, "thread": t, "panic": p})),
                    Err(_) => {
                        out.fail("threads-did-not-finish", None, json!({"seed": wseed, "round": k, "waited_seconds": budget.as_secs(), "detail": "deadlock or livelock: workers never reported"}));
                        deadlocked = true;
                        break 'rounds;
                    }
                }
            }
            out.bump("rounds");
        }
        if deadlocked {
            // the stuck threads cannot be joined; leave them and stop
            break;
        }
        drop(job_txs);
        for h in handles {
            let _ = h.join();
        }
        // lock poisoning: after everything, the engine must still answer from a fresh thread
        let poisoned = engine.is_poisoned();
        let e2 = engine.clone();
        let w2 = w.clone();
        let last = reference.last().cloned().unwrap_or_default();
        let after = std::thread::spawn(move || {
            let e = e2.read().unwrap_or_else(|p| p.into_inner());
            std::panic::catch_unwind(std::panic::AssertUnwindSafe(|| w2.queries.iter().map(|q| answer(&e, q)).collect::<Vec<_>>()))
        })
        .join();
        match after {
            Ok(Ok(v)) if v == last => {}
            Ok(Ok(_)) => out.fail("answers-after-the-run-differ-from-sequential", None, json!({"seed": wseed})),
            _ => out.fail("engine-unusable-after-concurrent-run", None, json!({"seed": wseed, "detail": "a query panicked after the run (poisoned lock?)", "rwlock_poisoned": poisoned})),
        }
        out.oracle_case(&format!("world-{}", wseed), &json!({"seed": wseed, "rules": w.rules.len(), "queries": w.queries.len(), "rounds": w.rounds.len(), "threads": threads + 1, "repetitions": reps}), true);
    }
    // --- the default (single-thread) build answers the same worlds
    let sync_path = format!("{}/answers_sync.txt", out.dir);
    let unsync_path = format!("{}/answers_unsync.txt", out.dir);
    std::fs::write(&sync_path, &cross).unwrap();
    let exe = std::env::current_exe().unwrap();
    let other = exe.to_string_lossy().replace("target-sync", "target");
    let st = std::process::Command::new(&other).args(["C19SEQ", &seed.to_string(), &n.to_string(), &unsync_path]).status();
    match st {
        Ok(s) if s.success() => {
            let a = std::fs::read_to_string(&unsync_path).unwrap_or_default();
            if a != cross {
                let diff: Vec<(String, String)> = a.lines().zip(cross.lines()).filter(|(x, y)| x != y).take(3).map(|(x, y)| (x.to_string(), y.to_string())).collect();
                out.fail("thread-safe-build-differs-from-default-build", None, json!({"seed": seed, "first_differences_default_vs_threadsafe": diff, "lines_default": a.lines().count(), "lines_threadsafe": cross.lines().count()}));
            }
            out.add("cross_build_answers", cross.lines().count() as u64);
        }
        other_res => out.fail("default-build-harness-unavailable", None, json!({"binary": other, "result": format!("{:?}", other_res)})),
    }
}
