//! C06 / C07: histories over the engine's public mutators and queries.  After every query the same
//! question is put to an engine built freshly from the accepted rules, the current tags and the
//! resources (oracle on the real API), and the whole history is replayed by the Lean state machine.
use crate::c01::std_resources;
use crate::gen;
use crate::net::*;
use crate::util::*;
use adblock::regex_manager::RegexManagerDiscardPolicy;
use adblock::Engine;
use serde_json::json;
use std::collections::BTreeSet;
use std::time::Duration;

fn regexy_rule(r: &mut Rng) -> String {
    // wildcard / separator heavy rules (they go through the regex cache), many of them tagged
    let t = r.pick(&["adframe", "adimg", "track", "px"]);
    // (5/8, 4/9 and 1/10 are twins: the same pattern text with different anchors — whatever identifies a
    // compiled regex has to tell them apart)
    let body = match r.below(11) {
        8 => format!("/{}*.png", t),
        9 => format!("https://cdn.test/*{}", t),
        10 => format!("/{}^*x|", t),
        0 => format!("/{}/*.gif", t),
        1 => format!("/{}^*x", t),
        2 => format!("||cdn.test^*{}", t),
        3 => format!("/{}/*/click?", t),
        4 => format!("|https://cdn.test/*{}", t),
        5 => format!("/{}*.png|", t),
        6 => format!("{}^", t),
        _ => format!("/{}/a", t),
    };
    let mut opts: Vec<String> = vec![];
    if r.pct(60) {
        opts.push(format!("tag={}", r.pick(&["t1", "t2", "t3"])));
    }
    if r.pct(15) {
        opts.push("important".into());
    }
    if r.pct(15) {
        opts.push(r.pick(&["script", "image", "third-party"]).to_string());
    }
    let exc = r.pct(20);
    format!("{}{}{}{}", if exc { "@@" } else { "" }, body, if opts.is_empty() { "" } else { "$" }, opts.join(","))
}

/// Rules that are stored under several tokens at once: no pattern token and one `domain=` value per
/// bucket (every listed domain must reach the rule), next to single-domain rules that fill the same
/// buckets first.
fn multi_group_rule(r: &mut Rng) -> String {
    let doms = ["shop.test", "cdn.test", "sub.shop.test", "other.net", "news.com"];
    let ty = r.pick(&["script", "image", "xhr", "document", "websocket", "font"]);
    let k = 1 + r.below(3);
    let mut ds: Vec<&str> = vec![];
    while ds.len() < k {
        let d = r.pick(&doms);
        if !ds.contains(&d) {
            ds.push(d);
        }
    }
    let pat = r.pick(&["*", "", "*", "|https://", "/x^*k"]);
    format!("{}{}${},domain={}", if r.pct(20) { "@@" } else { "" }, pat, ty, ds.join("|"))
}

fn is_complete_regex(line: &str) -> bool {
    parse_net(line, false).map(|f| f.mask.contains(adblock::filters::network::NetworkFilterMask::IS_COMPLETE_REGEX)).unwrap_or(false)
}

fn strip(v: &adblock::blocker::BlockerResult) -> String {
    format!("{},{},{},{}", v.matched, v.important, v.exception.is_some(), v.rewritten_url.clone().unwrap_or_default())
}

/// Histories of `add_resource` calls, some of them rejected: a rejected call leaves nothing behind. After each history the
/// engine answers like one that was given exactly the accepted resources in one batch (accepted = no identifier of the
/// resource, name or alias, is known yet), and like the model, which replays the attempted calls itself.
pub fn run_res_hist(seed: u64, n: usize, out: &mut Out) {
    use adblock::resources::{MimeType, ResourceType};
    let mut r = Rng::new(seed ^ 0x7265735f68697374);
    let idents = ["shim.js", "first.js", "taken.js", "px.gif", "alt.js", "noop.js"];
    for _ in 0..n {
        let mut lines: Vec<String> = vec![];
        for id in idents.iter() {
            if r.pct(70) {
                lines.push(format!("||ads.test/{}$script,{}={}", id, r.pick(&["redirect", "redirect-rule", "redirect"]), id));
            }
        }
        lines.push("||ads.test^$script".to_string());
        let cos: Vec<String> = idents.iter().filter(|i| i.ends_with(".js")).map(|i| format!("shop.test##+js({})", i)).collect();
        let mut all = lines.clone();
        all.extend(cos.iter().cloned());
        let mut engine = Engine::from_rules_parametrised(&all, Default::default(), true, r.pct(50));
        let mut attempted = vec![];
        let mut accepted = vec![];
        let mut known: BTreeSet<String> = BTreeSet::new();
        let mut hist = vec![];
        for k in 0..3 + r.below(5) {
            let name: &str = r.pick(&idents);
            let mut aliases: Vec<&str> = vec![];
            for _ in 0..r.below(4) {
                let a: &str = r.pick(&idents);
                aliases.push(a);
            }
            let kind = if name.ends_with(".gif") { ResourceType::Mime(MimeType::ImageGif) } else { ResourceType::Mime(MimeType::ApplicationJavascript) };
            let res = mk_resource(name, &aliases, kind, &format!("body{}-of-{}", k, name), 0);
            let expect = !std::iter::once(&res.name).chain(res.aliases.iter()).any(|i| known.contains(i));
            let got = engine.add_resource(res.clone()).is_ok();
            hist.push(json!({"add_resource": name, "aliases": aliases, "accepted": got}));
            if got != expect {
                out.fail("add-resource-acceptance-depends-on-rejected-calls", None, json!({"history": hist.clone(), "expected_accepted": expect}));
            }
            if expect {
                known.insert(res.name.clone());
                known.extend(res.aliases.iter().cloned());
                accepted.push(res.clone());
            }
            attempted.push(res);
        }
        let mut fresh = Engine::from_rules_parametrised(&all, Default::default(), true, false);
        fresh.use_resources(accepted.clone());
        let rules = parse_all(&lines);
        let case = crate::c01::Case { lines: lines.clone(), optimize: false, tags: vec![] };
        for id in idents.iter() {
            if let Some(q) = make_req(&format!("https://ads.test/{}", id), "https://shop.test/", "script") {
                let (a, b) = (engine.check_network_request(&q.req), fresh.check_network_request(&q.req));
                if a.redirect != b.redirect || a.matched != b.matched {
                    out.fail("resource-history-vs-fresh-engine", None, json!({"rules": lines, "history": hist.clone(), "url": q.url,
                        "redirect_after_history": a.redirect, "redirect_fresh": b.redirect}));
                }
                crate::c01::emit(out, &case, &engine, &rules, &attempted, &q, "chk-after-resource-adds");
            }
        }
        let (a, b) = (engine.url_cosmetic_resources("https://shop.test/"), fresh.url_cosmetic_resources("https://shop.test/"));
        let set = |s: &str| s.lines().map(|l| l.to_string()).collect::<BTreeSet<String>>();
        if set(&a.injected_script) != set(&b.injected_script) {
            out.fail("resource-history-vs-fresh-engine(scriptlets)", None, json!({"history": hist.clone(), "after_history": a.injected_script, "fresh": b.injected_script}));
        }
        out.bump("resource_histories");
    }
}

pub fn run(seed: u64, n: usize, out: &mut Out, focus_tags: bool) {
    if !focus_tags {
        run_rm(seed, n, out);
        run_res_hist(seed, (n / 4).max(20), out);
    }
    let mut r = Rng::new(seed);
    let resources = std_resources();
    let tagpool = ["t1", "t2", "t3"];
    for _ in 0..n {
        let mut lines: Vec<String> = vec![];
        for _ in 0..2 + r.below(6) {
            lines.push(regexy_rule(&mut r));
        }
        let o = gen::ClusterOpts { badfilter: !focus_tags && r.pct(30), removeparam: !focus_tags, ..gen::ALL_ON };
        if r.pct(60) {
            lines.extend(gen::cluster(&mut r, &o));
        }
        for _ in 0..r.below(3) {
            lines.push(multi_group_rule(&mut r));
        }
        if r.pct(40) {
            // anchor twins in one list (see `regexy_rule`)
            let t = r.pick(&["adframe", "adimg", "track", "px"]);
            lines.push(format!("/{}*.png|$image", t));
            lines.push(format!("{}/{}*.png{}", if r.pct(30) { "@@" } else { "" }, t, r.pick(&["", "$script", "$image", "$tag=t1"])));
        }
        if focus_tags {
            // every taggable category: blocking, exception, important, csp
            lines.push(format!("||cdn.test/x1$tag={}", r.pick(&tagpool)));
            lines.push(format!("@@||cdn.test/x1$tag={}", r.pick(&tagpool)));
            lines.push(format!("||cdn.test/x2$important,tag={}", r.pick(&tagpool)));
            lines.push(format!("||cdn.test^$csp=tagged-csp,tag={}", r.pick(&tagpool)));
            // the same rule under every tag (one bucket): whichever tag is enabled, its copy must be found
            // behind the copies whose tags are not
            if r.pct(60) {
                for t in tagpool.iter() {
                    lines.push(format!("@@||cdn.test/x1$tag={}", t));
                    lines.push(format!("||cdn.test/x2$important,tag={}", t));
                }
            }
            // same bucket, same options, different tags (fusion candidates when optimised)
            let t = r.pick(&["adframe", "adimg"]);
            lines.push(format!("@@/{}/a$tag=t1", t));
            lines.push(format!("@@/{}/b$tag=t2", t));
            lines.push(format!("/{}/a", t));
            lines.push(format!("/{}/b", t));
            lines.push(format!("/{}/c$important,tag=t1", t));
            lines.push(format!("/{}/d$important,tag=t2", t));
            lines.push(format!("@@/{}/d", t));
        }
        // a fusable pair of regex rules (one bucket, one mask): queried before and after an explicit
        // optimisation, and again after a rule is added and the list is optimised a second time
        let mut fuse_urls: Vec<(String, String, String)> = vec![];
        let mut fuse_third: Option<(String, String)> = None;
        if r.pct(35) {
            // (a token of their own: no other rule of the list matches these URLs, and every other token of
            // the family is unusable for indexing, so all members share the family token's bucket)
            let t = r.pick(&["fzone", "fzq", "fuse-me"]);
            let o = r.pick(&["$image", "", "$image,tag=t1"]);
            let (a, b, c, ua, ub, uc) = if r.pct(50) { ("one", "two", "three", "one.js", "two.js", "three.js") } else { ("o*e", "t*o", "th*ee", "ozzze", "tzzo", "thzee") };
            lines.push(format!("/{}/{}{}", t, a, o));
            lines.push(format!("/{}/{}{}", t, b, o));
            for u in [ub, ua, ub] {
                fuse_urls.push((format!("https://cdn.test/{}/{}", t, u), "https://shop.test/".to_string(), "image".to_string()));
            }
            fuse_third = Some((format!("/{}/{}{}", t, c, o), format!("https://cdn.test/{}/{}", t, uc)));
        }
        // complete-regex (/re/) rules need a per-query external answer: not used in histories
        lines.retain(|l| !is_complete_regex(l));
        let optimize = r.pct(50);
        // per-host cosmetic rules of every kind ride along: reloads and incremental updates must keep them
        let cos: Vec<String> = if r.pct(50) {
            let h = r.pick(&["cdn.test", "shop.test", "x.cdn.test", "other.net"]).to_string();
            crate::cosm::host_bundle(&mut r, &h, "a.js")
        } else {
            vec![]
        };
        let with_cos = |net: &[String]| -> Vec<String> { net.iter().cloned().chain(cos.iter().cloned()).collect() };
        let mut engine = Engine::from_rules_parametrised(&with_cos(&lines), Default::default(), true, optimize);
        engine.use_resources(resources.clone());
        let mut accepted: Vec<String> = lines.iter().filter(|l| parse_net(l, true).is_some()).cloned().collect();
        if accepted.is_empty() {
            continue;
        }
        let mut hist: Vec<serde_json::Value> = vec![json!({"new": accepted, "optimize": optimize})];
        // (all lines, the rejected ones included: which lines are rules at all is part of what is compared)
        crate::c11::emit_plines(out, &lines);
        let dumps: Vec<String> = parse_all(&accepted).iter().map(|p| dump_rule(&p.f, false)).collect();
        out.case(&format!("hnew\t{}\t{}", if optimize { 1 } else { 0 }, dumps.join("\t")), "ok", json!({"history": hist.clone()}), false);
        let mut tags: BTreeSet<String> = BTreeSet::new();
        let mut reloaded = false;
        let mut saw_generichide = false;
        // after a rule stored under several buckets is added, every bucket is probed at once
        let mut scripted_add: Option<String> = None;
        let mut fuse_urls = fuse_urls;
        let mut forced: Vec<(String, String, String)> = fuse_urls.clone();
        // scripted steps owed after the forced queries are answered: 1 = optimise, 2 = add a third fusable rule
        let mut script: Vec<u8> = if fuse_urls.is_empty() { vec![] } else { vec![1, 1, 2, 1] };
        // a second script (when the first is not in play): a tagged rule added while its tag is enabled, then
        // tag changes that rebuild the tagged list, also with the empty tag and a reload in between
        // 3 = use_tags([T]), 5 = add the rule, 4 = enable an unrelated tag, 6 = disable T, 7 = enable T, 8 = reload
        let stag: String = r.pick(&["t1", "t2", "", "T1"]).to_string();
        let stag_urls = vec![("https://cdn.test/stag/x".to_string(), "https://shop.test/".to_string(), "script".to_string())];
        let mut scripted_tags: Option<(&str, Vec<String>)> = None;
        let mut scripted_load = false;
        if script.is_empty() && r.pct(30) {
            script = match r.below(4) { 0 => vec![4, 5, 3], 1 => vec![7, 6, 8, 5, 3], 2 => vec![4, 9, 5, 3], _ => vec![4, 8, 7, 6, 5, 3] };
        }
        let long = r.pct(20);
        let steps = 3 + r.below(if long { 55 } else { 14 });
        let steps = if fuse_urls.is_empty() && script.is_empty() { steps } else { steps.max(26) };
        for _ in 0..steps {
            // queries owed to the last mutation come first (see `forced`)
            let k = if !forced.is_empty() {
                99
            } else if script.last() == Some(&1) {
                script.pop();
                forced = fuse_urls.clone();
                30
            } else if script.last() == Some(&2) {
                script.pop();
                if let Some((line, url)) = fuse_third.take() {
                    scripted_add = Some(line);
                    fuse_urls.push((url, "https://shop.test/".to_string(), "image".to_string()));
                }
                40
            } else if let Some(c) = script.last().copied().filter(|c| *c >= 3) {
                script.pop();
                forced = stag_urls.clone();
                match c {
                    3 => { scripted_tags = Some(("use", vec![stag.clone()])); 0 }
                    4 => { scripted_tags = Some(("enable", vec!["t3".to_string()])); 0 }
                    6 => { scripted_tags = Some(("disable", vec![stag.clone()])); 0 }
                    7 => { scripted_tags = Some(("enable", vec![stag.clone()])); 0 }
                    5 => { scripted_add = Some(format!("/stag/x$tag={}", stag)); 40 }
                    9 => { scripted_load = true; 51 }
                    _ => 47,
                }
            } else {
                r.below(100)
            };
            if k < 28 {
                // tag operation
                let mut ts: Vec<String> = vec![];
                for _ in 0..r.below(3) {
                    ts.push(r.pick(&tagpool).to_string());
                }
                if r.pct(10) {
                    ts.push("unknown-tag".into());
                }
                let mut kind = *r.pick(&[&"use", &"enable", &"disable"]);
                if let Some((k2, t2)) = scripted_tags.take() {
                    kind = k2;
                    ts = t2;
                }
                let tsr: Vec<&str> = ts.iter().map(|s| s.as_str()).collect();
                match kind {
                    "use" => {
                        engine.use_tags(&tsr);
                        tags = ts.iter().cloned().collect();
                    }
                    "enable" => {
                        engine.enable_tags(&tsr);
                        tags.extend(ts.iter().cloned());
                    }
                    _ => {
                        engine.disable_tags(&tsr);
                        for t in &ts {
                            tags.remove(t);
                        }
                    }
                }
                hist.push(json!({kind: ts}));
                let mut cur: Vec<String> = engine.verif_blocker().tags_enabled();
                cur.sort();
                let imp = format!("+{}", {
                    let mut h: Vec<String> = cur.iter().map(|t| hex(t)).collect();
                    h.sort();
                    h.join(",")
                });
                // set assignment / union / difference on the real engine (C07)
                let expect: Vec<String> = tags.iter().cloned().collect();
                if cur != expect {
                    out.fail("tag-set-algebra", None, json!({"history": hist.clone(), "engine_tags": cur, "expected": expect}));
                }
                out.case(&format!("htags\t{}\t{}", kind, hex_list(&ts)), &imp, json!({"history": hist.clone()}), !ts.is_empty());
                // membership query
                let probe = r.pick(&tagpool).to_string();
                let ex = engine.tag_exists(&probe);
                if ex != tags.contains(&probe) {
                    out.fail("tag-exists", None, json!({"history": hist.clone(), "tag": probe, "tag_exists": ex}));
                }
                out.case(&format!("hexists\t{}", hex(&probe)), if ex { "1" } else { "0" }, json!({"history": hist.clone(), "tag_exists": probe}), true);
            } else if k < 33 {
                engine.verif_blocker_mut().optimize();
                hist.push(json!("optimize"));
                out.case("hopt", "ok", json!({"history": hist.clone()}), true);
            } else if k < 45 {
                let line = if let Some(l) = scripted_add.take() {
                    l
                } else if r.pct(8) {
                    // a $generichide exception added incrementally (its own list in the blocker)
                    saw_generichide = true;
                    format!("@@||{}^$generichide", r.pick(&["cdn.test", "a.test", "x.test", "news.com"]))
                } else if r.pct(12) {
                    // a host pattern with a wildcard inside: whichever token it is stored under, batch or one at a time, must be
                    // a whole token of the URLs it matches
                    let k = r.below(3);
                    forced.push((format!("https://img.adserv{}.cdn.test/pixel.gif", 3 + k), "https://shop.test/".to_string(), "image".to_string()));
                    forced.push(("https://img.adserv.cdn.test/pixel.gif".to_string(), "https://shop.test/".to_string(), "image".to_string()));
                    format!("{}||img.adserv*.cdn.test^{}", if r.pct(15) { "@@" } else { "" }, r.pick(&["", "$image", "$third-party"]))
                } else if r.pct(25) {
                    multi_group_rule(&mut r)
                } else if r.pct(60) { regexy_rule(&mut r) } else { gen::cluster(&mut r, &o).pop().unwrap() };
                if is_complete_regex(&line) {
                    continue;
                }
                if let Some(f) = parse_net(&line, true) {
                    crate::c11::emit_plines(out, std::slice::from_ref(&line));
                    let res = engine.verif_blocker_mut().add_filter(f.clone());
                    hist.push(json!({"add_filter": line, "ok": res.is_ok()}));
                    if res.is_ok() {
                        accepted.push(line.clone());
                        if let Some(d) = line.split("domain=").nth(1) {
                            let ty = line.split('$').nth(1).and_then(|o| o.split(',').next()).unwrap_or("script").to_string();
                            for dom in d.split(',').next().unwrap().split('|') {
                                let dom = dom.trim_start_matches('~');
                                if !dom.is_empty() {
                                    forced.push((format!("https://cdn.test/{}", r.pick(&["x1", "x/k", "px/a.png"])), format!("https://{}/", dom), if ty.contains('=') { "script".to_string() } else { ty.clone() }));
                                }
                            }
                        }
                    }
                    out.case(&format!("hadd\t{}", dump_rule(&f, false)), if res.is_ok() { "1" } else { "0" }, json!({"history": hist.clone()}), true);
                    out.bump(if res.is_ok() { "add_filter_ok" } else { "add_filter_rejected" });
                }
            } else if k < 50 {
                let bytes = engine.serialize_raw().unwrap();
                engine.deserialize(&bytes).unwrap();
                reloaded = true;
                hist.push(json!("serialize+deserialize"));
                out.case("hreload", "ok", json!({"history": hist.clone()}), true);
            } else if k < 53 {
                // load the bytes of another engine: built from the same rules under a different tag set
                let mut ts: Vec<String> = vec![];
                for _ in 0..r.below(3) {
                    ts.push(r.pick(&tagpool).to_string());
                }
                if scripted_load {
                    // the producer had no tag enabled: what is active after the load is decided by this engine's tags
                    ts.clear();
                    scripted_load = false;
                }
                let mut producer = Engine::from_rules_parametrised(&with_cos(&accepted), Default::default(), true, optimize);
                producer.use_tags(&ts.iter().map(|s| s.as_str()).collect::<Vec<_>>());
                let bytes = producer.serialize_raw().unwrap();
                engine.deserialize(&bytes).unwrap();
                reloaded = true;
                hist.push(json!({"deserialize_from_fresh_engine_with_tags": ts}));
                out.case(&format!("hload\t{}", hex_list(&ts)), "ok", json!({"history": hist.clone()}), true);
            } else if k < 55 {
                engine.set_regex_discard_policy(RegexManagerDiscardPolicy { cleanup_interval: Duration::from_nanos(1), discard_unused_time: Duration::from_nanos(0) });
                hist.push(json!("set_discard_policy(aggressive)"));
            } else if k < 60 {
                let info = engine.get_regex_debug_info();
                if !info.regex_data.is_empty() {
                    let id = info.regex_data[r.below(info.regex_data.len())].id;
                    engine.discard_regex(id);
                    hist.push(json!("discard_regex"));
                }
            } else {
                // query
                let was_forced = !forced.is_empty();
                let (mut u, s, t) = match forced.pop() {
                    Some(f) => f,
                    None => gen::cluster_url(&mut r, &accepted),
                };
                if !was_forced && r.pct(35) {
                    u = format!("https://cdn.test/{}", r.pick(&["x1", "x2", "adframe/a.gif", "adimg/x/click?u=1", "track/x", "px/a.png", "px/a.png?v=1", "adimg/b.png/more", "track/q.png", "track/q.png;x", "adframe/z.png", "adframe/z.png?", "adframe^x", "a/adimg.png", "adframe/a", "adframe/b", "adframe/c", "adframe/d", "adimg/a", "adimg/b", "adimg/c", "adimg/d"]));
                }
                if !u.is_ascii() {
                    continue;
                }
                let q = match make_req(&u, &s, &t) {
                    Some(q) => q,
                    None => continue,
                };
                let csp_q = r.pct(25);
                hist.push(json!({"query": if csp_q {"csp"} else {"check"}, "url": u, "source": s, "type": t}));
                // oracle: a freshly built engine
                let mut fresh = Engine::from_rules_parametrised(&with_cos(&accepted), Default::default(), true, optimize);
                fresh.use_resources(resources.clone());
                fresh.use_tags(&tags.iter().map(|s| s.as_str()).collect::<Vec<_>>());
                let has_rp = accepted.iter().any(|l| l.contains("removeparam="));
                let class = if reloaded && has_rp { Some("removeparam_list_not_serialized") } else { None };
                if csp_q {
                    let a = show_csp(&engine.get_csp_directives(&q.req));
                    let b = show_csp(&fresh.get_csp_directives(&q.req));
                    if a != b {
                        out.fail("history-vs-fresh-engine(csp)", class, json!({"history": hist.clone(), "after_history": a, "fresh": b}));
                    }
                    out.case(&format!("hcsp\t{}", q.dump), &a, json!({"history": hist.clone(), "class": class}), a != "-");
                } else {
                    let v = engine.check_network_request(&q.req);
                    let w = fresh.check_network_request(&q.req);
                    if strip(&v) != strip(&w) {
                        out.fail("history-vs-fresh-engine", class, json!({"history": hist.clone(), "after_history": show_verdict(&v), "fresh": show_verdict(&w)}));
                    }
                    let nontrivial = v.matched || v.exception.is_some() || v.redirect.is_some();
                    out.bump(if v.matched { "verdict_matched" } else { "verdict_unmatched" });
                    out.case(&format!("hchk\t{}\t{}", dump_store(&resources), q.dump), &show_verdict(&v), json!({"history": hist.clone(), "class": class}), nontrivial);
                }
                // cosmetic answers after the history equal those of the fresh engine
                if r.pct(10) || saw_generichide || !cos.is_empty() {
                    let a = engine.url_cosmetic_resources(&u);
                    let b = fresh.url_cosmetic_resources(&u);
                    if a.generichide != b.generichide || a.hide_selectors != b.hide_selectors || a.procedural_actions != b.procedural_actions
                        || a.exceptions != b.exceptions || a.injected_script != b.injected_script {
                        out.fail("history-vs-fresh-engine(cosmetic)", None, json!({"history": hist.clone(), "cosmetic_rules": cos, "url": u,
                            "after_history": {"hide": a.hide_selectors.len(), "procedural": a.procedural_actions.len(), "exceptions": a.exceptions.len(), "script": a.injected_script},
                            "fresh": {"hide": b.hide_selectors.len(), "procedural": b.procedural_actions.len(), "exceptions": b.exceptions.len(), "script": b.injected_script}}));
                    }
                    out.bump("cosmetic_history_probes");
                }
            }
        }
        out.add("history_steps", steps as u64);
        out.bump("histories");
    }
}

// ---------------------------------------------------------------------------------------------
// The RegexManager itself against its Lean model: explicit keys (so address reuse is under the
// harness's control), queries, clock readings, policy changes and explicit discards.
pub fn run_rm(seed: u64, n: usize, out: &mut Out) {
    use adblock::regex_manager::RegexManager;
    let mut r = Rng::new(seed ^ 0x77);
    let pats = ["/adframe/*.gif", "/adimg^*x", "track*px", "/px/*/click?", "|https://cdn.test/*ad", "/adimg*.png|", "ad^", "/plain/path", "||cdn.test^*track"];
    let texts = ["https://cdn.test/adframe/a.gif", "https://cdn.test/adimg/1x", "https://x.test/track/px", "https://cdn.test/px/q/click?u", "https://cdn.test/zad", "https://a.test/adimg/b.png", "https://a.test/ad?x", "https://a.test/plain/path"];
    for _ in 0..n {
        let mut rm = RegexManager::default();
        let rules: Vec<adblock::filters::network::NetworkFilter> = (0..3 + r.below(3)).filter_map(|_| parse_net(r.pick(&pats), false)).collect();
        if rules.is_empty() {
            continue;
        }
        let reuse = r.pct(35); // deliberately let two different filters share a key (what a freed address does)
        let mut ops: Vec<String> = vec![];
        let mut answers = String::new();
        let mut desc_ops = vec![];
        let mut clock: u64 = 1000;
        let mut aggressive = false;
        for _ in 0..4 + r.below(20) {
            match r.below(10) {
                0 => {
                    aggressive = !aggressive;
                    if aggressive {
                        rm.set_discard_policy(RegexManagerDiscardPolicy { cleanup_interval: Duration::from_nanos(1), discard_unused_time: Duration::from_nanos(0) });
                        ops.push("p!1!0".into());
                    } else {
                        rm.set_discard_policy(RegexManagerDiscardPolicy::default());
                        ops.push("p!30000000000!180000000000".into());
                    }
                    desc_ops.push(json!({"policy": if aggressive {"aggressive"} else {"default"}}));
                }
                1 => {
                    std::thread::sleep(Duration::from_nanos(50));
                    rm.update_time();
                    clock += 1000;
                    ops.push(format!("t!{}", clock));
                    desc_ops.push(json!("update_time"));
                }
                2 => {
                    let k = 1 + r.below(3) as u64;
                    rm.discard_regex(k);
                    ops.push(format!("d!{}", k));
                    desc_ops.push(json!({"discard": k}));
                }
                _ => {
                    let i = r.below(rules.len());
                    let key = if reuse { 1 + (i as u64 % 2) } else { 1 + i as u64 };
                    let f = &rules[i];
                    let text = r.pick(&texts).to_string();
                    let ans = rm.matches(f.mask, f.filter.iter(), key, &text);
                    answers.push(if ans { '1' } else { '0' });
                    ops.push(format!("q!{}!{}!{}", key, dump_rule(f, false), hex(&text)));
                    desc_ops.push(json!({"matches": {"key": key, "rule": pats.iter().find(|p| parse_net(p, false).map(|g| g.id) == Some(f.id)), "text": text}}));
                }
            }
        }
        out.bump(if reuse { "rm_sequences_with_key_reuse" } else { "rm_sequences_without_reuse" });
        out.case(&format!("rmseq\t{}", ops.join("\t")), &answers, json!({"regex_manager_ops": desc_ops, "key_reuse": reuse}), answers.contains('1'));
    }
}
