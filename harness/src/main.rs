mod c01;
mod c02;
mod c03;
mod c11;
mod c12;
mod c14;
mod c18;
mod c19;
mod c20;
mod cosm;
mod gen;
mod hist;
mod net;
mod ser;
mod targeted;
mod util;
mod witness;

fn main() {
    let args: Vec<String> = std::env::args().collect();
    if args.len() >= 6 && args[1] == "C10CHILD" {
        std::panic::set_hook(Box::new(|_| {}));
        ser::c10_child(args[2].parse().unwrap(), args[3].parse().unwrap(), &args[4], &args[5]);
        return;
    }
    if args.len() >= 3 && args[1] == "SER" {
        ser::ser_child(&args[2]);
        return;
    }
    if args.len() >= 6 && args[1] == "PROBE" {
        // adbharness PROBE <rule> <url> <source> <type>: ad-hoc look at one rule and one request
        let f = adblock::filters::network::NetworkFilter::parse(&args[2], true, Default::default());
        println!("rule: {:?}", f.as_ref().map(|f| net::dump_rule(f, false)));
        let q = net::make_req(&args[3], &args[4], &args[5]);
        println!("request: {:?}", q.as_ref().map(|q| q.dump.clone()));
        if let (Ok(f), Some(q)) = (f, q) {
            let mut pr = net::PRule { line: args[2].clone(), f: Box::new(f), rm: Default::default() };
            println!("matches: {}", pr.matches(&q.req));
        }
        return;
    }
    if args.len() >= 3 && args[1] == "CBPROBE" {
        // adbharness CBPROBE <rule>... : content-blocking conversion of a small rule set
        let mut fs = adblock::lists::FilterSet::new(true);
        for l in &args[2..] {
            println!("add {:?}: {:?}", l, fs.add_filter(l, Default::default()).is_ok());
        }
        match std::panic::catch_unwind(move || fs.into_content_blocking()) {
            Ok(Ok((rules, used))) => {
                println!("used: {:?}", used);
                println!("{}", serde_json::to_string_pretty(&rules).unwrap());
            }
            Ok(Err(())) => println!("Err(())"),
            Err(_) => println!("PANIC"),
        }
        return;
    }
    if args.len() >= 2 && args[1] == "ALIASCYCLE" {
        // a dependency cycle that runs through aliases
        use adblock::resources::{MimeType, ResourceType};
        let mut a = net::mk_resource("a.js", &["aa"], ResourceType::Mime(MimeType::ApplicationJavascript), "function a(){}", 0);
        a.dependencies = vec!["bb".to_string()];
        let mut b = net::mk_resource("b.fn", &["bb"], ResourceType::Mime(MimeType::FnJavascript), "function b(){}", 0);
        b.dependencies = vec!["aa".to_string()];
        let mut e = adblock::Engine::from_rules_parametrised(&["x.com##+js(a)".to_string()], Default::default(), true, true);
        e.use_resources(vec![a, b]);
        println!("querying...");
        let c = e.url_cosmetic_resources("https://x.com/");
        println!("script: {:?}", c.injected_script);
        return;
    }
    if args.len() >= 4 && args[1] == "COSPROBE" {
        // adbharness COSPROBE <url> <rule>... : per-site cosmetic resources of a small rule set
        let e = adblock::Engine::from_rules_parametrised(&args[3..], Default::default(), true, true);
        let c = e.url_cosmetic_resources(&args[2]);
        println!("hide={:?} procedural={:?} exceptions={:?} generichide={} script_len={}", c.hide_selectors, c.procedural_actions, c.exceptions, c.generichide, c.injected_script.len());
        println!("class x: {:?}", e.hidden_class_id_selectors(["x"], ["x"], &Default::default()));
        return;
    }
    if args.len() >= 5 && args[1] == "C19SEQ" {
        c19::run_seq_file(args[2].parse().unwrap(), args[3].parse().unwrap(), &args[4]);
        return;
    }
    if args.len() < 5 {
        eprintln!("usage: adbharness <PROP> <seed> <n> <outdir>");
        std::process::exit(2);
    }
    let prop = args[1].as_str();
    if prop == "SER" {
        ser::ser_child(&args[2]);
        return;
    }
    if prop == "WITNESS" {
        // adbharness WITNESS <PROP> <known_findings.json> <outdir>
        std::panic::set_hook(Box::new(|_| {}));
        witness::run(&args[2], &args[3], &args[4]);
        return;
    }
    let seed: u64 = args[2].parse().unwrap();
    let n: usize = args[3].parse().unwrap();
    let mut out = util::Out::new(&args[4]);
    // panics of the library are caught per case and reported as failures; only panics of the harness
    // itself are printed
    std::panic::set_hook(Box::new(|info| {
        if let Some(loc) = info.location() {
            if loc.file().starts_with("src/") {
                eprintln!("harness panic at {}:{}: {}", loc.file(), loc.line(), info);
            }
        }
    }));
    match prop {
        "C14" => c14::run(seed, n, &mut out),
        "C01" => c01::run(seed, n, &mut out),
        "C04" => targeted::run_c04(seed, n, &mut out),
        "C05" => targeted::run_c05(seed, n, &mut out),
        "C06" => hist::run(seed, n, &mut out, false),
        "C07" => hist::run(seed, n, &mut out, true),
        "C18" => c18::run(seed, n, &mut out, args.get(5).map(|s| s.as_str()).unwrap_or("quick")),
        "C12" => c12::run(seed, n, &mut out),
        "C20" => c20::run(seed, n, &mut out),
        "C19" => c19::run(seed, n, &mut out, args.get(5).map(|s| s.as_str()).unwrap_or("quick")),
        "PARSE" => c11::run_parse(seed, n, &mut out),
        "C11" => c11::run(seed, n, &mut out, args.get(5).map(|s| s.as_str()).unwrap_or("quick")),
        "C02" => c02::run(seed, n, &mut out, args.get(5).map(|s| s.as_str()).unwrap_or("quick")),
        "C03" => c03::run(seed, n, &mut out, args.get(5).map(|s| s.as_str()).unwrap_or("quick")),
        "C16" => cosm::run_c16(seed, n, &mut out),
        "C17" => cosm::run_c17(seed, n, &mut out),
        "C08" => ser::run_c08(seed, n, &mut out),
        "C09" => ser::run_c09(seed, n, &mut out),
        "C10" => ser::run_c10(seed, n, &mut out, args.get(5).map(|s| s.as_str()).unwrap_or("quick")),
        "C13" => targeted::run_c13(seed, n, &mut out),
        "C15" => targeted::run_c15(seed, n, &mut out),
        _ => {
            eprintln!("unknown property {}", prop);
            std::process::exit(2);
        }
    }
    out.finish();
}
