//! Replay of the witnesses in known_findings.json on the real code (step E of a check run).
use crate::net::*;
use adblock::Engine;
use serde_json::{json, Value};

fn strs(v: &Value) -> Vec<String> {
    v.as_array().map(|a| a.iter().filter_map(|x| x.as_str().map(|s| s.to_string())).collect()).unwrap_or_default()
}

fn verdict_ok(v: &adblock::blocker::BlockerResult, expect: &Value) -> bool {
    let mut ok = true;
    if let Some(m) = expect.get("matched").and_then(|x| x.as_bool()) {
        ok &= v.matched == m;
    }
    if let Some(m) = expect.get("important").and_then(|x| x.as_bool()) {
        ok &= v.important == m;
    }
    if let Some(m) = expect.get("exception").and_then(|x| x.as_bool()) {
        ok &= v.exception.is_some() == m;
    }
    if let Some(rw) = expect.get("rewritten") {
        ok &= v.rewritten_url.as_deref() == rw.as_str();
    }
    if let Some(r) = expect.get("redirect_some").and_then(|x| x.as_bool()) {
        ok &= v.redirect.is_some() == r;
    }
    ok
}

/// returns Some(true) if the implementation behaves as `expect` says (the property holds on the
/// witness), Some(false) if not, None if the witness is only described
pub fn replay(w: &Value) -> Option<bool> {
    let kind = w.get("kind").and_then(|k| k.as_str()).unwrap_or("described");
    let g = |k: &str| w.get(k).and_then(|x| x.as_str()).unwrap_or("").to_string();
    match kind {
        "verdict" | "reload-verdict" | "add-filter-verdict" => {
            let rules = strs(&w["rules"]);
            let optimize = w.get("optimize").and_then(|x| x.as_bool()).unwrap_or(true);
            let mut e = Engine::from_rules_parametrised(&rules, Default::default(), true, optimize);
            let tags = strs(&w["tags"]);
            e.use_tags(&tags.iter().map(|s| s.as_str()).collect::<Vec<_>>());
            if w.get("std_resources").and_then(|x| x.as_bool()).unwrap_or(false) {
                e.use_resources(crate::c01::std_resources());
            }
            if kind == "add-filter-verdict" {
                for l in strs(&w["add"]) {
                    if let Some(f) = parse_net(&l, true) {
                        let _ = e.verif_blocker_mut().add_filter(f);
                    }
                }
            }
            if kind == "reload-verdict" {
                let b = e.serialize_raw().ok()?;
                e.deserialize(&b).ok()?;
            }
            let q = make_req(&g("url"), &g("source"), &g("type"))?;
            let v = e.check_network_request(&q.req);
            Some(verdict_ok(&v, &w["expect"]))
        }
        "multi-list-scriptlet" => {
            use adblock::lists::{FilterSet, ParseOptions};
            use adblock::resources::{MimeType, PermissionMask, ResourceType};
            // repeated: the pre-fix behaviour depended on hash-map iteration order
            for _ in 0..40 {
                let mut fs = FilterSet::new(true);
                for l in w["lists"].as_array()? {
                    let rule = l[0].as_str()?;
                    let perm = l[1].as_u64()? as u8;
                    let _ = fs.add_filter(rule, ParseOptions { permissions: PermissionMask::from_bits(perm), ..Default::default() });
                }
                let mut e = Engine::from_filter_set(fs, true);
                let mut res = vec![];
                for r in w["resources"].as_array()? {
                    let kind = if r["fn"].as_bool().unwrap_or(false) { ResourceType::Mime(MimeType::FnJavascript) } else { ResourceType::Mime(MimeType::ApplicationJavascript) };
                    let mut x = mk_resource(r["name"].as_str()?, &[], kind, r["body"].as_str()?, r["perm"].as_u64()? as u8);
                    x.dependencies = strs(&r["deps"]);
                    res.push(x);
                }
                e.use_resources(res);
                let script = e.url_cosmetic_resources(&g("url")).injected_script;
                for a in strs(&w["expect_absent"]) {
                    if script.contains(&a) {
                        return Some(false);
                    }
                }
                for a in strs(&w["expect_present"]) {
                    if !script.contains(&a) {
                        return Some(false);
                    }
                }
            }
            Some(true)
        }
        "rule-match" => {
            let mut pr = parse_all(&[g("rule")]);
            let q = make_req(&g("url"), &g("source"), &g("type"))?;
            let m = pr.get_mut(0)?.matches(&q.req);
            Some(Some(m) == w["expect"].as_bool())
        }
        "hostile-bytes-then-query" => {
            // load the bytes (expected to succeed or fail cleanly), then query: nothing may panic
            let hexs = g("bytes_hex");
            let bytes: Vec<u8> = (0..hexs.len() / 2).filter_map(|i| u8::from_str_radix(&hexs[2 * i..2 * i + 2], 16).ok()).collect();
            let r = crate::util::guarded(move || {
                let mut e = Engine::new(true);
                let _ = e.deserialize(&bytes);
                for (u, t) in [("https://h.test/re12", "script"), ("https://cdn.test/a", "document"), ("https://r.test/x/a", "script")] {
                    if let Ok(q) = adblock::request::Request::new(u, "https://a.com/", t) {
                        let _ = e.check_network_request(&q);
                        let _ = e.get_csp_directives(&q);
                    }
                }
                let _ = e.url_cosmetic_resources("https://example.com/");
                let _ = e.serialize_raw();
            });
            Some(r.is_ok())
        }
        "scan-vs-engine" => {
            // plain blocking rules only: the engine blocks exactly when one of them matches on its own
            let rules = strs(&w["rules"]);
            let e = Engine::from_rules_parametrised(&rules, Default::default(), true, false);
            let mut prs = parse_all(&rules);
            let q = make_req(&g("url"), &g("source"), &g("type"))?;
            let any = prs.iter_mut().any(|p| p.matches(&q.req));
            Some(e.check_network_request(&q.req).matched == any)
        }
        "alias-cycle-child" => {
            // the failure is a stack overflow (process abort): replayed in a child process
            let exe = std::env::current_exe().ok()?;
            let o = std::process::Command::new(exe).arg("ALIASCYCLE").output().ok()?;
            let text = String::from_utf8_lossy(&o.stdout).to_string();
            Some(o.status.success() && text.contains("function b(){}") && text.contains("a()"))
        }
        "generic-cosmetic-rejected" => {
            // none of the (malformed, generic) rules may load: nothing is hidden anywhere
            let rules = strs(&w["rules"]);
            let e = Engine::from_rules_parametrised(&rules, Default::default(), true, true);
            let c = e.url_cosmetic_resources(&g("url"));
            let classes = strs(&w["classes"]);
            let sel = e.hidden_class_id_selectors(&classes, &classes, &Default::default());
            Some(c.hide_selectors.is_empty() && c.procedural_actions.is_empty() && sel.is_empty())
        }
        "content-blocking-total" => {
            // converting the rule set must not panic
            let rules = strs(&w["rules"]);
            let r = crate::util::guarded(move || {
                let mut fs = adblock::lists::FilterSet::new(true);
                for l in &rules {
                    let _ = fs.add_filter(l, Default::default());
                }
                fs.into_content_blocking().is_ok()
            });
            Some(matches!(r, Ok(true)))
        }
        "deserialize-bytes" => {
            let hexs = g("bytes_hex");
            let bytes: Vec<u8> = (0..hexs.len() / 2).filter_map(|i| u8::from_str_radix(&hexs[2 * i..2 * i + 2], 16).ok()).collect();
            let r = crate::util::guarded(move || {
                let mut e = Engine::new(true);
                e.deserialize(&bytes).is_err()
            });
            Some(matches!(r, Ok(true)))
        }
        _ => None,
    }
}

pub fn run(prop: &str, file: &str, outdir: &str) {
    let d: Value = serde_json::from_str(&std::fs::read_to_string(file).unwrap_or("{}".into())).unwrap_or(json!({}));
    let mut out = vec![];
    if let Some(fs) = d.get("findings").and_then(|f| f.as_array()) {
        for f in fs {
            if f.get("property").and_then(|p| p.as_str()) != Some(prop) {
                continue;
            }
            let r = f.get("witness").and_then(replay);
            out.push(json!({"id": f["id"], "status": f["status"], "class": f.get("class"), "what": f["what"], "holds_on_witness": r}));
        }
    }
    std::fs::create_dir_all(outdir).unwrap();
    std::fs::write(format!("{}/witness.json", outdir), serde_json::to_string_pretty(&json!({"replayed": out})).unwrap()).unwrap();
}
